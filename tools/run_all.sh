#!/bin/bash
# Development helper: run every registered check once (quick tier by default) and print exit status and wall time.
cd /verif
TIER=${1:-quick}
for i in 01 02 03 04 05 06 07 08 09 10 11 12 13 14 15 16 17 18 19 20; do
  s=$(date +%s)
  ./check C$i --tier $TIER > /var/tmp/all-C$i.log 2>&1
  rc=$?
  e=$(date +%s)
  echo "C$i rc=$rc wall=$((e-s))s $(grep -c '^VIOLATION' /var/tmp/all-C$i.log) violations; $(tail -1 /var/tmp/all-C$i.log | cut -c1-150)"
done
