#!/usr/bin/env python3
"""Development helper: copy validated seeded changes from the sub-agents' output directories into /verif/seeded/<id>-<k>/
(patch.diff, demo.py, meta.json).  The descriptions below were taken from the sub-agents' reports; validation and
detection results are read from /var/tmp/seedeval/*.json (written by tools/eval_seed.py)."""
import json
import os
import shutil
import sys

DESC = {
    "C01-1": ("min_max_value._generic_cmp: a later comparison that replaces the recorded bound stores the object itself instead of clone(other)",
              "same empty <=/>= snapshot compared several times (loop), a later value more extreme, mutable value mutated after its comparison"),
    "C01-2": ("_rewrite_code.SourcePosition.offset converts the (character) column with from_utf8_col",
              "non-ASCII character on the same physical line left of the snapshot() call"),
    "C02-1": ("dict_adapter.assign: fallback condition reduced to `not isinstance(old_node, ast.Dict)` (length comparison dropped)",
              "hand-written dict display that repeats a key, whose effective value needs fixing"),
    "C02-2": ("_change.Replace.apply takes the range from ast col_offset (UTF-8 bytes) instead of asttokens text positions",
              "leaf replaced by fix with a non-ASCII character earlier on the same line"),
    "C03-1": ("_change.Replace.apply: ast byte columns instead of character columns",
              "fix/update of a leaf with non-ASCII text earlier on the line; larger shift lands in a trailing comment / string"),
    "C03-2": ("pytest_sessionfinish: `required_imports = []` hoisted out of the per-file loop (accumulates across files)",
              "one run rewriting >= 2 files where an earlier file needs HasRepr/external and a later one does not"),
    "C04-1": ("pytest_sessionfinish: external trim gated on update_flags.trim instead of 'trim' in flags",
              "review mode (update_flags = all) and a persisted external no test references"),
    "C04-2": ("pytest_configure: `if not config.option.inline_snapshot` instead of `is None`",
              "explicit empty --inline-snapshot= together with categories in INLINE_SNAPSHOT_DEFAULT_FLAGS / pyproject default-flags"),
    "C05-1": ("min_max_value._generic_cmp: running extreme stored by reference when a later comparison replaces it",
              "call site compared >= 2 times with a mutable list, later comparison moves the extreme, object mutated afterwards"),
    "C05-2": ("dict_value._get_changes: 'decided and recorded' filter reused for the trim decision (was: key accessed)",
              "existing sub-snapshot dict where a key is accessed but its sub-snapshot is not compared in that run"),
    "C06-1": ("pytest_plugin.snapshot_check fixture: counter reset moved from the start to the end of the fixture (never reached after pytest.fail)",
              "an earlier test of the same session with a wrong/missing snapshot; later correct tests then error at teardown"),
    "C06-2": ("min_max_value._generic_cmp: 'already checked' shortcut returns True when the value lies inside the widest bound seen so far",
              "one <=/>= site evaluated several times: first a value outside the stored bound, later a value still outside the stored bound but inside the widest seen"),
    "C07-1": ("generic_value._return returns early for an undefined old value + eq_value counts missing_values only on the first evaluation (two cooperating edits)",
              "the same empty == snapshot executed by several tests of one session (parametrised): only the first instance fails"),
    "C07-2": ("min_max_value._generic_cmp: _return(cmp(visible_value, other)) instead of _return(old_result, ...)",
              "wrong non-empty <=/>= snapshot with create/fix/update/review: run is green"),
    "C08-1": ("collection_value.__contains__: second and later items appended without clone",
              "`in` snapshot evaluated >= 2 times, mutable item mutated after the assertion; second run fails and never heals"),
    "C08-2": ("min_max_value._get_changes: generated tokens normalised (trailing comma of a 1-tuple dropped) before code generation",
              "existing <=/>= snapshot fixed/trimmed to a value containing a one-element tuple: (3,) written as (3)"),
    "C09-1": ("collection_value._get_changes: `continue` after the trim Delete dropped (element also gets an update Replace)",
              "`in` snapshot with an unused, non-canonically written element; trim and update approved in one run vs one after the other"),
    "C09-2": ("pytest_sessionfinish preview loop: any_changes = bool(diff) of the LAST file instead of sticky True",
              ">= 2 files, several categories in one run, a later category not touching the last file of the earlier ones"),
    "C10-1": ("sequence_adapter.map calls map_function(v) instead of adapter_map(v, map_function)",
              "Is(...)/inner snapshot at depth >= 2 below a list/tuple (list->dict->Is): never wrapped as Unmanaged; fix rewrites it / loop raises"),
    "C10-2": ("undecided_value._get_changes tests update_allowed(obj) instead of `not isinstance(obj, Unmanaged)`",
              "snapshot that is evaluated but never compared (module level) holding Is(...), with update approved"),
    "C11-1": ("value_adapter.assign: leaf comparison made type-sensitive (type(old) is not type(new) or not old == new)",
              "new value == old but of another type (1 vs 1.0 vs True) inside a container with fix only"),
    "C11-2": ("_align.align: 'performance guard' pairs elements by position when the middle exceeds 4096 cells",
              "long sequence (65+ elements) with an insertion/removal and changes before and after it"),
    "C12-1": ("_source_file: the lone-string parenthesis guard moved from _token_to_code to _value_to_code (fix/update paths lose it)",
              "black as formatter, existing value replaced by fix/update with a single-line string with leading/trailing blanks or both quote kinds ending in a quote"),
    "C12-2": ("_utils.triple_quote: trailing-blank protection rewritten with a regex requiring a non-blank character before the blanks",
              "multi-line string with a blank-only line and a format-command that strips trailing whitespace"),
    "C13-1": ("_external.outsource: dedup check ignores the suffix (lookup_all(hash + '*'))",
              "the same bytes outsourced with two different suffixes: the second reference has no stored file"),
    "C13-2": ("pytest_sessionfinish: external trim gated on update_flags.trim",
              "history: external persisted, its reference disappears, then a review session answered 'n'"),
    "C14-1": ("_inline_snapshot.snapshot: key = (frame.f_code, f_lasti) instead of (id(f_code), f_lasti)",
              "two textually identical test functions starting on the same line in different files, run in one session"),
    "C14-2": ("generic_value.re_eval: length check dropped (zip truncates)",
              "site evaluated >= 2 times with a non-literal container argument that only grows/shrinks at the end"),
    "C15-1": ("pytest_sessionfinish: each file is rewritten inside the per-file loop before its externals are persisted",
              "new external + a fault exactly at the rename <hash>-new -> <hash>, or a crash between write and rename"),
    "C15-2": ("_format.format_code: `returncode > 0` instead of `!= 0` (a formatter killed by a signal counts as success)",
              "format-command whose process dies by a signal: empty stdout becomes the file content"),
    "C16-1": ("_code_repr.sort_set_values: strict-chain check only when the set contains frozensets",
              "set of tuples containing frozensets (partially ordered, no TypeError): text depends on PYTHONHASHSEED"),
    "C16-2": ("_source_file._token_to_code: lone string wrapped in parentheses only if value != value.strip()",
              "black, lone string with both quote kinds ending in a double quote: black appends a space"),
    "C17-1": ("generic_value.clone: equality self-check skipped when deepcopy returns the identical object",
              "value that deepcopy returns unchanged and that is not equal to itself (float('nan'), Decimal('NaN'))"),
    "C17-2": ("min_max_value._generic_cmp: clone lost when a later comparison replaces the recorded bound",
              "same <=/>= snapshot compared >= 2 times, later value more extreme and mutated after its assertion"),
    "C18-1": ("_change.without_obsolete_changes: parent walk starts at change.node.parent",
              "value-less inner snapshot() as an element the outer alignment deletes, create and fix both approved"),
    "C18-2": ("pytest_sessionfinish: unused_externals computed before files are written / externals persisted",
              "new external created in this session, create (or fix) approved together with trim, pytest driver"),
    "C19-1": ("pytest_sessionfinish preview loop: any_changes reflects only the last file",
              ">= 2 test files and >= 2 approved categories, the later category touching only an earlier file"),
    "C19-2": ("testing/_example.Example.run_inline: try/except hoisted out of the per-test loop",
              "an earlier test raises and a later test of the same file has pending changes; flags empty or trim only"),
    "C20-1": ("_format.file_mode_for_path: loop over black.Mode attribute names misses the pyproject key skip_magic_trailing_comma",
              "skip-magic-trailing-comma = true, clean file whose exploded collection shrinks so that it fits on one line"),
    "C20-2": ("_rewrite_code.new_code: 'is the file formatted' test compares splitlines()",
              "file formatted exactly as black would except that it has no final newline, plus any approved change"),
}


def main():
    os.makedirs("/verif/seeded", exist_ok=True)
    detect = json.load(open("/verif/seeded/detection.json")) if os.path.exists("/verif/seeded/detection.json") else {}
    for key, (what, needs) in sorted(DESC.items()):
        pid, k = key.split("-")
        src = f"/tmp/seed/out-{pid}"
        ev = f"/var/tmp/seedeval/{pid}-{k}.json"
        if not (os.path.exists(f"{src}/patch{k}.diff") and os.path.exists(ev)):
            continue
        try:
            e = json.load(open(ev))
        except Exception:
            continue
        if not e.get("valid"):
            print("not valid, skipped:", key)
            continue
        d = f"/verif/seeded/{key}"
        os.makedirs(d, exist_ok=True)
        rebased = f"{src}/patch{k}.rebased.diff"      # merged onto later fix: commits of /repo where the original no longer applied
        shutil.copy(rebased if os.path.exists(rebased) else f"{src}/patch{k}.diff", f"{d}/patch.diff")
        shutil.copy(f"{src}/demo{k}.py", f"{d}/demo.py")
        meta = {
            "property": pid,
            "change": what,
            "needs_to_manifest": needs,
            "origin": "written by a fresh sub-agent that saw only the property text and a scratch worktree of /repo",
            "validated": {
                "how": "tools/eval_seed.py in a scratch worktree of /repo HEAD: demo (SRC=<tree>/src) on the clean tree, demo with the patch, pinned suite with the patch",
                "demo_on_clean_tree_exit": e["demo_clean"][0],
                "demo_with_patch_exit": e["demo_patched"][0],
                "suite_with_patch": e.get("suite", ["?"])[-1],
            },
            "detected_by": detect.get(key, {}),
        }
        json.dump(meta, open(f"{d}/meta.json", "w"), indent=1)
        print("stored", key)


if __name__ == "__main__":
    sys.exit(main())
