#!/bin/bash
# Development helper: run the own-property check (quick tier) against every stored seeded change; results in /var/tmp/seedfinal2/<key>.json
# (applies each patch to /repo, runs the check, undoes it: nothing else may use /repo meanwhile)
mkdir -p /var/tmp/seedfinal2
for d in /verif/seeded/C*/; do
  key=$(basename $d); id=${key%%-*}
  /verif/tools/eval_seed.py $d/patch.diff $d/demo.py --checks $id --tier quick --skip-validate > /var/tmp/seedfinal2/$key.json 2>&1
  python3 - "$key" <<'PY'
import json,sys
k=sys.argv[1]
try:
    d=json.load(open(f'/var/tmp/seedfinal2/{k}.json'))
    print(k, {c:v['exit'] for c,v in d['checks'].items()}, 'repo_clean=', d.get('repo_clean_after'), flush=True)
except Exception as e:
    print(k,'ERROR',e, flush=True)
PY
done
