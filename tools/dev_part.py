#!/usr/bin/env python3
"""Development helper: run one correspondence part on its own.
   usage (from /verif, environment as in ./check):  python -m tools.dev_part nestassign 300 [seed]"""
import importlib
import sys

sys.path.insert(0, "/verif/harness")
from vh.core import Ctx  # noqa: E402

mod = importlib.import_module("vh." + sys.argv[1])
n = int(sys.argv[2])
seed = int(sys.argv[3]) if len(sys.argv) > 3 else 0
ctx = Ctx("DEV", "quick", seed)
mod.check_part(ctx, n, "DEV")
untagged = [v for v in ctx.violations if not v[1].get("finding_tag")]
for v in untagged[:15]:
    print(("(no input) " if v[2] else "") + v[0][:700])
print(len(untagged), "violations without a finding tag;", len(ctx.violations) - len(untagged), "tagged (known findings that do not belong to the DEV pseudo-property)")
print(len(ctx.violations), "violations;", ctx.coverage["correspondence"])
import shutil
shutil.rmtree(ctx.tmp, ignore_errors=True)
