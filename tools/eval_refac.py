#!/usr/bin/env python3
"""Development helper: run every registered check against a behaviour-preserving refactoring of /repo (a diff applied in a scratch worktree,
VERIF_REPO) - none of them may raise an alarm.   tools/eval_refac.py <refactor.diff> [--checks C01,C02,...]
Prints one JSON summary (also written next to the diff as <name>.result.json)."""
import argparse
import json
import os
import shutil
import subprocess as sp
import sys
import time

ENV = {k: v for k, v in os.environ.items() if k not in ("CI", "VERIF_REPO", "VERIF_OUT")}


def sh(cmd):
    return sp.run(cmd, shell=True, capture_output=True, text=True, env=ENV)


def main():
    ap = argparse.ArgumentParser()
    ap.add_argument("diff")
    ap.add_argument("--checks", default=",".join("C%02d" % i for i in range(1, 21)))
    a = ap.parse_args()
    diff = os.path.abspath(a.diff)
    name = os.path.basename(os.path.dirname(diff)) + "-" + os.path.basename(diff).replace(".diff", "")
    wt, outd = f"/tmp/refaceval/{name}", f"/tmp/refaceval/{name}-out"
    os.makedirs("/tmp/refaceval", exist_ok=True)
    sh(f"git -C /repo worktree remove --force {wt}")
    shutil.rmtree(wt, ignore_errors=True)
    r = sh(f"git -C /repo worktree add --detach {wt} HEAD -q")
    out = {"id": name}
    try:
        r = sh(f"git -C {wt} apply {diff}")
        if r.returncode:
            r = sh(f"git -C {wt} apply --3way {diff}")
            if r.returncode:
                out["error"] = "does not apply: " + r.stderr[-300:]
                print(json.dumps(out))
                return 2
            sh(f"git -C {wt} reset -q")
        res = {}
        for chk in a.checks.split(","):
            t0 = time.time()
            e = dict(ENV, VERIF_REPO=wt, VERIF_OUT=outd)
            c = sp.run(["/verif/check", chk, "--tier", "quick"], capture_output=True, text=True, env=e, cwd="/verif")
            lines = c.stdout.splitlines()
            viol = [l for l in lines if l.startswith("VIOLATION")]
            first = ""
            for i, l in enumerate(lines):
                if l.startswith("VIOLATION") and i + 1 < len(lines):
                    first = lines[i + 1].strip()[:500]
                    break
            res[chk] = {"exit": c.returncode, "violations": len(viol), "first_report": first, "wall_s": round(time.time() - t0),
                        "tail": (c.stdout + c.stderr)[-400:] if c.returncode not in (0, 1) else ""}
        out["checks"] = res
        out["alarms"] = sorted(k for k, v in res.items() if v["exit"] != 0)
    finally:
        sh(f"git -C /repo worktree remove --force {wt}")
        shutil.rmtree(wt, ignore_errors=True)
        shutil.rmtree(outd, ignore_errors=True)
        sh("git -C /repo worktree prune")
    json.dump(out, open(diff.replace(".diff", ".result.json"), "w"), indent=1)
    print(json.dumps({"id": name, "alarms": out.get("alarms"), "details": {k: res[k]["first_report"] or res[k]["tail"] for k in out.get("alarms", [])}}, indent=1))


if __name__ == "__main__":
    sys.exit(main())
