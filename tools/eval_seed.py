#!/usr/bin/env python3
"""Development helper: validate a seeded change and run checks against it.

  tools/eval_seed.py <patch.diff> <demo.py> --checks C05,C18 [--tier quick] [--skip-validate]

1. validation in a scratch worktree of /repo (outside /repo and /verif): the demo passes on HEAD, fails with the patch,
   and the pinned suite keeps its 478 stable tests;
2. the patch is applied to /repo, the named checks are run, and the patch is undone again (git checkout -- .).
Prints one JSON summary.  Never leaves /repo modified (also on Ctrl-C)."""
import argparse
import json
import os
import shutil
import subprocess as sp
import sys
import tempfile
import time

ENV = {k: v for k, v in os.environ.items() if k not in ("CI",)}


def sh(cmd, **kw):
    return sp.run(cmd, shell=True, capture_output=True, text=True, env=ENV, **kw)


def demo(path, src, timeout=600):
    e = dict(ENV, SRC=src, PYTHONPATH=src)
    import ast as _ast
    src_txt = open(path).read()
    try:
        tree = _ast.parse(src_txt)
        top_tests = any(isinstance(n, _ast.FunctionDef) and n.name.startswith("test_") for n in tree.body)
    except SyntaxError:
        top_tests = False
    is_script = "__main__" in src_txt or "sys.exit" in src_txt or "SystemExit" in src_txt
    if top_tests and not is_script:
        cmd = ["/venv/bin/python", "-m", "pytest", "-p", "no:cacheprovider", "-q", path]
    else:
        cmd = ["/venv/bin/python", path]
    try:
        r = sp.run(cmd, capture_output=True, text=True, env=e, timeout=timeout, cwd=os.path.dirname(path))
        return r.returncode, (r.stdout + r.stderr)[-600:]
    except sp.TimeoutExpired:
        return 124, "timeout"


def main():
    ap = argparse.ArgumentParser()
    ap.add_argument("patch")
    ap.add_argument("demo")
    ap.add_argument("--checks", default="")
    ap.add_argument("--tier", default="quick")
    ap.add_argument("--skip-validate", action="store_true")
    ap.add_argument("--skip-suite", action="store_true")
    a = ap.parse_args()
    patch, dm = os.path.abspath(a.patch), os.path.abspath(a.demo)
    out = {"patch": patch}
    # the patch was written against an older HEAD of /repo: if it does not apply any more, merge it (3-way) in a scratch
    # worktree and continue with the resulting diff against the current HEAD
    hand = patch.replace(".diff", ".rebased.diff")
    if sh(f"git -C /repo apply --check {patch}").returncode != 0 and os.path.exists(hand) and sh(f"git -C /repo apply --check {hand}").returncode == 0:
        patch = hand          # merged by hand onto a later fix: commit
        out["rebased"] = hand
    if sh(f"git -C /repo apply --check {patch}").returncode != 0:
        wt = tempfile.mkdtemp(prefix="evalrebase-", dir="/tmp")
        os.rmdir(wt)
        sh(f"git -C /repo worktree add --detach {wt} HEAD -q")
        try:
            r = sh(f"git -C {wt} apply --3way {patch}")
            if r.returncode != 0:
                print("patch cannot be merged onto the current HEAD:", r.stderr[-400:])
                return 2
            rebased = patch.replace(".diff", ".rebased.diff")
            open(rebased, "w").write(sh(f"git -C {wt} diff HEAD").stdout)
            patch = rebased
            out["rebased"] = rebased
        finally:
            sh(f"git -C /repo worktree remove --force {wt}")
    if not a.skip_validate:
        wt = tempfile.mkdtemp(prefix="evalseed-", dir="/tmp")
        os.rmdir(wt)
        r = sh(f"git -C /repo worktree add --detach {wt} HEAD -q")
        try:
            # the demo is copied so that it cannot depend on the sub-agent's worktree
            d2 = tempfile.mkdtemp(prefix="evaldemo-", dir="/tmp")
            dcopy = os.path.join(d2, os.path.basename(dm))
            shutil.copy(dm, dcopy)
            out["demo_clean"] = demo(dcopy, f"{wt}/src")
            r = sh(f"git -C {wt} apply {patch}")
            out["apply"] = r.returncode, r.stderr[-300:]
            out["demo_patched"] = demo(dcopy, f"{wt}/src")
            if not a.skip_suite:
                r = sh(f"/verif/tools/run_suite.sh {wt}")
                out["suite"] = r.stdout.strip().splitlines()[-3:]
            shutil.rmtree(d2, ignore_errors=True)
        finally:
            sh(f"git -C /repo worktree remove --force {wt}")
        out["valid"] = (out["demo_clean"][0] == 0 and out["demo_patched"][0] != 0 and out["apply"][0] == 0
                        and (a.skip_suite or any("missing 0" in l for l in out["suite"])))
    checks = [c for c in a.checks.split(",") if c]
    if checks:
        st = sh("git -C /repo status --porcelain").stdout.strip()
        if st:
            print("refusing: /repo has uncommitted changes:\n" + st)
            return 2
        r = sh(f"git -C /repo apply {patch}")
        if r.returncode:
            print("patch does not apply to /repo:", r.stderr)
            return 2
        try:
            out["checks"] = {}
            for c in checks:
                t0 = time.time()
                r = sh(f"cd /verif && ./check {c} --tier {a.tier}", timeout=7200)
                lines = [l for l in r.stdout.splitlines() if l.startswith("VIOLATION") or l.startswith("  ->")]
                out["checks"][c] = {"exit": r.returncode, "first": lines[:4], "wall": round(time.time() - t0), "tail": r.stdout.strip().splitlines()[-1:] if r.returncode not in (0, 1) else []}
        finally:
            sh("git -C /repo checkout -- .")
            out["repo_clean_after"] = sh("git -C /repo status --porcelain").stdout.strip() == ""
    print(json.dumps(out, indent=1))
    return 0


if __name__ == "__main__":
    sys.exit(main())
