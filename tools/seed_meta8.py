#!/usr/bin/env python3
"""Development helper (eighth round): write meta.json for the seeded changes of the eighth round (copied to /verif/seeded/<id>/: patch.diff [+ patch.rebased.diff],
demo.py, notes.md) from the final evaluation logs (/var/tmp/r8final/<id>.log, written by tools/eval3.py against the current /repo HEAD and the current checks)."""
import json
import os
import re

# id -> (what was changed, what it needs to manifest, missed by the own check when first evaluated)
import json as _json
MAPPING = _json.load(open("/var/tmp/r8-mapping.json")) if __import__("os").path.exists("/var/tmp/r8-mapping.json") else {}
# id -> (what was changed, what it needs to manifest (both taken from the sub-agent's notes), missed by the own check when first evaluated)
DESC4 = {sid: (None, None, v["missed"]) for sid, v in MAPPING.items()}


def from_notes(d):
    p = f"{d}/notes.md"
    if not os.path.exists(p):
        return None, None
    t = open(p).read()
    t = re.sub(r"^#.*\n", "", t).strip()
    paras = [re.sub(r"\s+", " ", x.strip("-* \n")) for x in re.split(r"\n\s*\n|\n[-*] ", t) if x.strip()]
    change = paras[0][:400] if paras else ""
    needs = next((x for x in paras[1:] if re.search(r"need|manifest|trigger|require", x, re.I)), paras[1] if len(paras) > 1 else "")[:400]
    return change, needs


def detected(e):
    checks = {c: {"exit": v["exit"], "violation": v["exit"] == 1 and v["violations"] > 0, "only_broken_correspondence": bool(v.get("no_input_only")),
                  "first_report": v["first_report"][:240], "wall_s": v["wall_s"]} for c, v in e.get("checks", {}).items()}
    return {"tier": "quick", "repo_head": os.popen("git -C /repo log --format=%h -1").read().strip(), "checks": checks,
            "caught_by": sorted(c for c, v in checks.items() if v["violation"])}


def main():
    rows = []
    for sid in sorted(DESC4):
        d = f"/verif/seeded/{sid}"
        log = f"/var/tmp/r8final/{sid}.log"
        if not (os.path.isdir(d) and os.path.exists(log)):
            print("missing", sid)
            continue
        t = open(log).read()
        e = json.loads(t[t.index("{"):])
        change, needs, missed = DESC4[sid]
        if change is None:
            change, needs = from_notes(d)
        meta = {"property": sid.split("-")[0], "round": 8, "change": change, "needs_to_manifest": needs,
                "origin": "written by a fresh sub-agent that saw only the property text, a scratch worktree of /repo and a list of mechanisms to look at / ideas of earlier rounds to avoid",
                "validated": {"how": "tools/eval3.py in a scratch worktree of /repo HEAD: demo on the clean tree, demo with the patch, pinned suite with the patch",
                              "demo_on_clean_tree_exit": e.get("demo_clean", [None])[0], "demo_with_patch_exit": e.get("demo_patched", [None])[0],
                              "suite_with_patch": " ".join(e.get("suite", []))[:200], "patch_used": os.path.basename(e.get("patch", ""))},
                "missed_by_own_check_when_first_evaluated": missed, "detected_by": detected(e)}
        json.dump(meta, open(f"{d}/meta.json", "w"), indent=1, ensure_ascii=False)
        rows.append((sid, e.get("valid"), meta["detected_by"]["caught_by"]))
    for r in rows:
        print(*r)


if __name__ == "__main__":
    main()
