#!/bin/bash
# Development helper (second round of seeded changes): tools/eval_batch2.sh "C03:2 C05:1 ..." [tier]  -> /var/tmp/seedeval2/<id>-<k>.json
mkdir -p /var/tmp/seedeval2
TIER=${2:-quick}
for item in $1; do
  id=${item%%:*}; k=${item##*:}
  extra=${EXTRA_CHECKS:+,$EXTRA_CHECKS}
  /verif/tools/eval_seed.py /var/tmp/seed2/out-$id/patch$k.diff /var/tmp/seed2/out-$id/demo$k.py --checks $id$extra --tier $TIER > /var/tmp/seedeval2/$id-$k.json 2>&1
  python3 - "$id" "$k" <<'PY'
import json,sys
i,k=sys.argv[1:]
try:
    d=json.load(open(f'/var/tmp/seedeval2/{i}-{k}.json'))
    ch={c:(v['exit'],v['wall'], (v['first'][1].strip()[:160] if len(v.get('first',[]))>1 else '')) for c,v in d.get('checks',{}).items()}
    print(i,k,'valid=',d.get('valid'),'demo_clean=',d['demo_clean'][0],'demo_patched=',d['demo_patched'][0],'suite=',d.get('suite',['?'])[-1][:60],'checks=',ch,'repo_clean=',d.get('repo_clean_after'), flush=True)
except Exception as e:
    print(i,k,'ERROR',e, open(f'/var/tmp/seedeval2/{i}-{k}.json').read()[-300:], flush=True)
PY
done
