#!/usr/bin/env python3
"""Development helper (fourth round): write meta.json for the seeded changes of the fourth round (copied to /verif/seeded/<id>/: patch.diff [+ patch.rebased.diff],
demo.py, notes.md) from the final evaluation logs (/var/tmp/r4final/<id>.log, written by tools/eval3.py against the current /repo HEAD and the current checks)."""
import json
import os
import re

# id -> (what was changed, what it needs to manifest, missed by the own check when first evaluated)
DESC4 = {
    "C01-6": ("_find_external.contains_import walks the whole tree (ast.walk) instead of the top-level statements", "the name (HasRepr / external) is imported only inside another test function (or class / if / try block) and a snapshot of the same module is created that needs it: NameError on the next run", True),
    "C01-7": ("generic_value.clone returns values of 'immutable' builtin types (incl. tuple, frozenset) without deepcopy", "an empty snapshot compared with a tuple holding a mutable object that the test changes after the comparison", False),
    "C02-6": (None, None, False), "C02-7": (None, None, False), "C03-6": (None, None, False), "C03-7": (None, None, False),
    "C04-6": ("pytest_configure: falls back to the default flags when the parsed flag SET is empty (`if not flags`) instead of when the option was not given", "an explicitly empty --inline-snapshot= together with categories in INLINE_SNAPSHOT_DEFAULT_FLAGS / pyproject default-flags", False),
    "C04-7": ("_change.without_obsolete_changes marks removed AST nodes (`node.removed_by = change`) instead of building a local list; the marks survive the call", "report / review mode, a Delete / Replace of a category that is then NOT approved, and an approved change of a later category nested in that node (inner snapshot in a deleted dict entry)", True),
    "C05-7": ("_inline_snapshot.snapshot: call-site key (frame.f_code, f_lasti) instead of (id(f_code), f_lasti); calling expression looked up on first evaluation only", "two test files with a textually identical function at the same lines in one session: the comparisons of both are merged into the file that runs first", True),
    "C05-8": ("generic_value.clone returns 'immutable' builtins incl. tuple without deepcopy", "a tuple containing a mutable object mutated after the comparison, code generated late (create, <=, >=, in)", False),
    "C06-6": (None, None, False), "C06-7": (None, None, False),
    "C07-7": ("testing/_example.Example.run_inline: the check of `raises=` moved inside the example's snapshot_env block (before the changes are computed)", "a real test that hands an empty / wrong snapshot to run_inline(raises=...): the outer comparison is evaluated in the example's state, the test passes", True),
    "C07-8": ("eq_value.__eq__: the 'old value' result derived from the recorded changes (no fix / create change => True) instead of `old_value == other`", "a wrong == snapshot whose wrong part is user-controlled (Is(), f-string, star-expression): no change is generated, the test is green under fix / create / update", True),
    "C08-7": ("generic_value.clone returns values of 'immutable' builtin types (incl. float, complex, tuple, frozenset) without deepcopy", "a tuple holding a mutable object compared and mutated afterwards; the second run fails / rewrites again", False),
    "C08-8": ("collection_value / min_max_value: the GENERATED tokens are normalised (trailing comma of a 1-tuple dropped) before they are compared and written", "update / fix / trim of a bound or `in` member that is or contains a one-element tuple: `(3)` is written, every further run changes the file again", False),
    "C09-6": (None, None, False), "C09-7": (None, None, False),
    "C10-7": ("value_adapter.assign: an f-string counts as user-controlled only if it has a replacement field (new helper is_fstring)", "an == snapshot holding an f-string without fields (f'ready', f'{{}}') at any depth: fix / update rewrite it", True),
    "C10-8": ("AttrAdapter.arguments: attrs.Factory defaults compared with a plain == (the unmanaged guard of is_default_value is lost for factory defaults)", "an attrs class whose factory-default field holds a nested snapshot(): the inner snapshot records the default instead of the observed value", True),
    "C11-7": (None, None, False), "C11-8": (None, None, False),
    "C12-5": ("_rewrite_code.SourceFile.new_code normalises the text to \\n before editing and restores \\r\\n afterwards with replace", "a CRLF test file together with a format-command whose output uses CRLF: \\r\\r\\n, every multi-line literal reads back with extra newlines", True),
    "C12-6": (None, None, False), "C13-5": (None, None, False), "C13-6": (None, None, False), "C14-5": (None, None, False),
    "C14-6": ("generic_value.clone returns 'immutable' builtins incl. tuple without deepcopy", "one call site evaluated several times with a tuple holding a mutable object that is stepped between the evaluations: the aggregate is built from the last state", True),
    "C15-5": ("pytest_plugin: prune_new_files moved from pytest_configure to a new pytest_runtestloop hook (skipped for --collect-only)", "outsource() evaluated at collection time (module-level constant, parametrize value) and its snapshot created in the same session: the -new file is pruned before the tests run, the reference is written without data", True),
    "C15-6": ("_rewrite_code.SourceFile.rewrite: files with st_nlink > 1 are written in place (open(filename, 'bw')) instead of temporary file + os.replace", "a hard-linked test file and a write fault: truncated test file under all its names", True),
    "C16-5": ("SequenceAdapter.repr: `repr(value[0]) + ','` became f'{value[0]!r},' (the f-string conversion bypasses the patched builtins.repr)", "a value containing a one-element tuple holding a set / frozenset of strings: the text depends on PYTHONHASHSEED", True),
    "C16-6": ("new SourceFile._element_to_code (lru_cache'd formatting of inserted elements) used by the list-insert sites; skips the lone-string parenthesis protection", "black importable, no format-command, a fix / `in` run that INSERTS a string with leading / trailing blanks into an existing list: another string than with the other formatter setups", True),
    "C17-5": ("generic_value.clone returns a @dataclass(frozen=True) instance as it is", "the compared value is a frozen dataclass holding a list / dict that is changed after the assertion", True),
    "C17-6": ("collection_value.__contains__: a tested value that is already a member of the existing snapshot is stored without clone()", "an existing `in` snapshot containing the tested mutable value, mutated afterwards, with fix and / or trim", False),
    "C18-5": (None, None, False), "C18-6": (None, None, True),
    "C19-5": ("Example.run_inline executes each file as a real module and picks the tests with inspect.getmembers (sorted by name)", "an example whose tests are not defined in alphabetical order and whose snapshots depend on the order in which they run (shared module state)", True),
    "C19-6": (None, None, False),
    "C20-5": (None, None, False),
    "C20-6": ("the 'is the file formatted' decision moved into ChangeRecorder.is_formatted(), cached once per recorder instead of per file", "one session whose approved changes touch a black-clean module and a hand-formatted module: the first file decides for both", True),
}


def from_notes(d):
    p = f"{d}/notes.md"
    if not os.path.exists(p):
        return None, None
    t = open(p).read()
    t = re.sub(r"^#.*\n", "", t).strip()
    paras = [re.sub(r"\s+", " ", x.strip("-* \n")) for x in re.split(r"\n\s*\n|\n[-*] ", t) if x.strip()]
    change = paras[0][:400] if paras else ""
    needs = next((x for x in paras[1:] if re.search(r"need|manifest|trigger|require", x, re.I)), paras[1] if len(paras) > 1 else "")[:400]
    return change, needs


def detected(e):
    checks = {c: {"exit": v["exit"], "violation": v["exit"] == 1 and v["violations"] > 0, "only_broken_correspondence": bool(v.get("no_input_only")),
                  "first_report": v["first_report"][:240], "wall_s": v["wall_s"]} for c, v in e.get("checks", {}).items()}
    return {"tier": "quick", "repo_head": os.popen("git -C /repo log --format=%h -1").read().strip(), "checks": checks,
            "caught_by": sorted(c for c, v in checks.items() if v["violation"])}


def main():
    rows = []
    for sid in sorted(DESC4):
        d = f"/verif/seeded/{sid}"
        log = f"/var/tmp/r4final/{sid}.log"
        if not (os.path.isdir(d) and os.path.exists(log)):
            print("missing", sid)
            continue
        t = open(log).read()
        e = json.loads(t[t.index("{"):])
        change, needs, missed = DESC4[sid]
        if change is None:
            change, needs = from_notes(d)
        meta = {"property": sid.split("-")[0], "round": 4, "change": change, "needs_to_manifest": needs,
                "origin": "written by a fresh sub-agent that saw only the property text and a scratch worktree of /repo",
                "validated": {"how": "tools/eval3.py in a scratch worktree of /repo HEAD: demo on the clean tree, demo with the patch, pinned suite with the patch",
                              "demo_on_clean_tree_exit": e.get("demo_clean", [None])[0], "demo_with_patch_exit": e.get("demo_patched", [None])[0],
                              "suite_with_patch": " ".join(e.get("suite", []))[:200], "patch_used": os.path.basename(e.get("patch", ""))},
                "missed_by_own_check_when_first_evaluated": missed, "detected_by": detected(e)}
        json.dump(meta, open(f"{d}/meta.json", "w"), indent=1, ensure_ascii=False)
        rows.append((sid, e.get("valid"), meta["detected_by"]["caught_by"]))
    for r in rows:
        print(*r)


if __name__ == "__main__":
    main()
