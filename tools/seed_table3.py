#!/usr/bin/env python3
"""Development helper: markdown tables of the seeded changes of a round from seeded/*/meta.json (for DESIGN.md section 13 / 14)."""
import json
import os
import sys

rnd = int(sys.argv[1])
print("| seeded change | what was changed | needs to manifest | missed by its own check at first | caught by (quick tier, final state) |")
print("|----|----|----|----|----|")
for sid in sorted(os.listdir("/verif/seeded")):
    mp = f"/verif/seeded/{sid}/meta.json"
    if not os.path.exists(mp):
        continue
    m = json.load(open(mp))
    if m.get("round", 1) != rnd:
        continue
    db = m.get("detected_by_final") or m.get("detected_by") or {}
    caught = ", ".join(db.get("caught_by", [])) or "—"
    only = [c for c, v in db.get("checks", {}).items() if v.get("only_broken_correspondence")]
    if only:
        caught += " (" + ", ".join(only) + ": broken correspondence, no-failing-input-found)"
    print(f"| {sid} | {m['change']} | {m['needs_to_manifest']} | {'yes' if m.get('missed_by_own_check_when_first_evaluated') else 'no'} | {caught} |")
