#!/usr/bin/env python3
"""Development helper: build /verif/seeded/detection.json and the markdown table of DESIGN.md section 13 from the final
evaluation runs (/var/tmp/seedfinal/<id>-<k>.json written by tools/eval_seed.py)."""
import glob
import json
import os
import re
import sys

sys.path.insert(0, os.path.dirname(__file__))
from seed_meta import DESC  # noqa


def main():
    det = {}
    rows = []
    for key in sorted(DESC):
        pid, k = key.split("-")
        f = f"/var/tmp/seedfinal/{pid}-{k}.json"
        if not os.path.exists(f):
            continue
        try:
            d = json.load(open(f))
        except Exception:
            continue
        res = {}
        for c, v in d.get("checks", {}).items():
            first = ""
            if len(v.get("first", [])) > 1:
                first = re.sub(r"\s+", " ", v["first"][1]).strip()[:220]
            res[c] = {"exit": v["exit"], "violation": v["exit"] == 1, "first_report": first, "wall_s": v["wall"]}
        det[key] = {"tier": "quick", "checks": res, "caught_by": sorted(c for c, v in res.items() if v["violation"])}
        what, needs = DESC[key]
        caught = det[key]["caught_by"]
        missed = sorted(c for c, v in res.items() if not v["violation"])
        rows.append(f"| {key} | {what} | {needs} | {', '.join(caught) or '—'} | {', '.join(missed) or '—'} |")
    os.makedirs("/verif/seeded", exist_ok=True)
    json.dump(det, open("/verif/seeded/detection.json", "w"), indent=1)
    print("| seeded change | what was changed | needs to manifest | caught by (quick tier) | run but silent |")
    print("|----|----|----|----|----|")
    print("\n".join(rows))


if __name__ == "__main__":
    main()
