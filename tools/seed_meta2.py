#!/usr/bin/env python3
"""Development helper (second round): copy validated, non-duplicate seeded changes from /var/tmp/seed2/out-<id>/ into
/verif/seeded/<id>-<k>/ (patch.diff, demo.py, meta.json); results are read from /var/tmp/seedeval2/<id>-<n>.json."""
import json
import os
import shutil
import subprocess
import sys

# new id -> (source property dir, patch number, what, needs, missed by own check at first?)
DESC2 = {
    "C01-3": ("C01", 2, "_find_external.ensure_import: the scan for the insert position no longer stops at the first non-import statement (import lands behind the LAST top-level import)",
              "a value that needs a new HasRepr / external import in a module-level snapshot, and a further top-level import below it", True),
    "C02-3": ("C02", 2, "pytest_sessionfinish preview loop: any_changes removed, `if diff and apply_changes(flag)` reads the diff of the last file only",
              ">= 2 test files with create and fix approved, the last registered file of the earlier category has nothing to fix", True),
    "C03-3": ("C03", 2, "_rewrite_code.SourceFile.new_code: the formatter-clean decision compares self.source (universal newlines) instead of the raw text",
              "no format-command, a file with MIXED CRLF / LF line endings that is otherwise black-clean, one approved change", True),
    "C04-3": ("C04", 2, "pytest_plugin.is_xfail iterates request.node.own_markers instead of request.keywords",
              "xfail mark on the enclosing class or through module-level pytestmark, plus an approved category with a pending change in that test", True),
    "C05-3": ("C05", 1, "min_max_value._get_changes: the trim test runs before the fix test",
              "a partially ordered bound (sets with <= / >=) and an observed value that is not comparable with it: reported as trim", True),
    "C05-4": ("C05", 2, "generic_value.clone returns 'immutable' types (incl. tuple, frozenset) without a copy",
              "compared value is a tuple holding a list / dict that is mutated after the comparison", True),
    "C06-3": ("C06", 1, "pytest_plugin.is_xfail iterates request.node.own_markers (inherited marks are not seen)",
              "xfail inherited from the class or the module: snapshot(v) is not v inside the test", True),
    "C07-3": ("C07", 1, "min_max_value._generic_cmp: early `return True` when the recorded bound already covers the compared value (skips _return)",
              "one <= / >= call site executed by two test items, the earlier one violating the source bound even more", False),
    "C07-4": ("C07", 2, "generic_value._return counts incorrect_values only in the branch where the comparison is made to succeed",
              "no fix/create/update flag and the False result does not itself raise (or-chain, !=, result stored in a variable)", False),
    "C08-3": ("C08", 1, "_rewrite_code.SourceFile.rewrite: shutil.copystat instead of copymode (the old mtime is kept)",
              "byte-code caching on (Python default), a rewrite that keeps the file size: the next run executes stale byte code", True),
    "C08-4": ("C08", 2, "value_adapter.assign: generated tokens normalised before code generation (trailing comma of a one-element tuple dropped)",
              "a value containing a one-element tuple replaced as a whole on an existing node: (3,) written as (3)", False),
    "C09-3": ("C09", 2, "_change.without_obsolete_changes: only Delete (not Replace) makes changes inside the node obsolete",
              "a never-compared inner snapshot(0o644) with a pending update inside an element the outer snapshot replaces with fix, both approved in one run", True),
    "C10-3": ("C10", 1, "generic_call_adapter.is_default_value: `or is_unmanaged(value)` dropped",
              "nested snapshot() in a field with a default inside a dataclass call, default differs from the observed value", False),
    "C10-4": ("C10", 2, "undecided_value._get_changes: the star-expression check is done once for the top-level argument only",
              "never-compared snapshot with a star container nested in another container, update approved", False),
    "C11-3": ("C11", 1, "dict_adapter.assign: the old value node is taken by position among the kept nodes instead of by key",
              "same keys in another insertion order with one differing value, fix only", False),
    "C11-4": ("C11", 2, "generic_call_adapter.assign: category of a deleted keyword computed from new_kwargs.get(...) (update only if the argument is present)",
              "namedtuple (default-valued fields are left out of arguments()) with a hand-written keyword equal to the unchanged default, another argument differs, fix only", True),
    "C13-3": ("C13", 1, "_find_external.contains_import stops at the first non-import statement",
              "the file's `from inline_snapshot import external` behind an ordinary statement, then a trim session: referenced externals are deleted", True),
    "C13-4": ("C13", 2, "_config.read_config: a relative storage-dir is resolved against the working directory instead of the pyproject.toml directory",
              "relative storage-dir and two sessions of one history started from different directories", True),
}


def main():
    for key, (pid, n, what, needs, missed) in sorted(DESC2.items()):
        src = f"/var/tmp/seed2/out-{pid}"
        ev = f"/var/tmp/seedeval2/{pid}-{n}.json"
        if not (os.path.exists(f"{src}/patch{n}.diff") and os.path.exists(ev)):
            print("missing", key)
            continue
        e = json.load(open(ev))
        if not e.get("valid"):
            print("not valid, skipped:", key)
            continue
        d = f"/verif/seeded/{key}"
        os.makedirs(d, exist_ok=True)
        rebased = f"{src}/patch{n}.rebased.diff"
        patch = rebased if os.path.exists(rebased) else f"{src}/patch{n}.diff"
        if subprocess.run(["git", "-C", "/repo", "apply", "--check", patch]).returncode != 0:
            print("does not apply to the current HEAD:", key)
        shutil.copy(patch, f"{d}/patch.diff")
        shutil.copy(f"{src}/demo{n}.py", f"{d}/demo.py")
        checks = {c: {"exit": v["exit"], "violation": v["exit"] == 1, "first_report": (v["first"][1].strip()[:220] if len(v.get("first", [])) > 1 else ""), "wall_s": v["wall"]}
                  for c, v in e.get("checks", {}).items()}
        meta = {
            "property": pid, "round": 2, "change": what, "needs_to_manifest": needs,
            "origin": "written by a fresh sub-agent that saw only the property text and a scratch worktree of /repo",
            "validated": {"how": "tools/eval_seed.py in a scratch worktree of /repo HEAD: demo on the clean tree, demo with the patch, pinned suite with the patch",
                          "demo_on_clean_tree_exit": e["demo_clean"][0], "demo_with_patch_exit": e["demo_patched"][0], "suite_with_patch": e.get("suite", ["?"])[-1]},
            "missed_by_own_check_when_first_evaluated": missed,
            "detected_by": {"tier": "quick", "checks": checks, "caught_by": sorted(c for c, v in checks.items() if v["violation"])},
        }
        json.dump(meta, open(f"{d}/meta.json", "w"), indent=1)
        print("stored", key, meta["detected_by"]["caught_by"])


if __name__ == "__main__":
    sys.exit(main())
