#!/bin/bash
# Development helper: tools/eval_batch.sh "C01:1 C01:2 C02:1 ..." [tier]   -> /var/tmp/seedeval/<id>-<k>.json
mkdir -p /var/tmp/seedeval
TIER=${2:-quick}
for item in $1; do
  id=${item%%:*}; k=${item##*:}
  extra=${EXTRA_CHECKS:+,$EXTRA_CHECKS}
  /verif/tools/eval_seed.py /tmp/seed/out-$id/patch$k.diff /tmp/seed/out-$id/demo$k.py --checks $id$extra --tier $TIER > /var/tmp/seedeval/$id-$k.json 2>&1
  python3 - "$id" "$k" <<'PY'
import json,sys
i,k=sys.argv[1:]
try:
    d=json.load(open(f'/var/tmp/seedeval/{i}-{k}.json'))
    ch={c:(v['exit'],v['wall']) for c,v in d.get('checks',{}).items()}
    print(i,k,'valid=',d.get('valid'),'demo_clean=',d['demo_clean'][0],'demo_patched=',d['demo_patched'][0],'suite=',d.get('suite',['?'])[-1][:60],'checks=',ch,'repo_clean=',d.get('repo_clean_after'), flush=True)
except Exception as e:
    print(i,k,'ERROR',e, open(f'/var/tmp/seedeval/{i}-{k}.json').read()[-300:], flush=True)
PY
done
