#!/usr/bin/env python3
"""Development helper (third round): write meta.json for the seeded changes of the third round (already copied to /verif/seeded/<id>/:
patch.diff [+ patch.rebased.diff], demo.py, notes.md) and refresh the `detected_by` block of EVERY seeded change from the final
evaluation (/tmp/seed3eval/final/<id>.txt, written by tools/eval3.py against the current /repo HEAD and the current checks)."""
import json
import os

# id -> (what was changed, what it needs to manifest, missed by the own check when first evaluated)
DESC3 = {
    "C01-4": ("generic_value.clone: fast path that returns 'immutable' values (incl. tuple, frozenset, namedtuple) without deepcopy", "an empty snapshot compared with a tuple / namedtuple holding a mutable object that the test changes after the comparison (all five operations)", True),
    "C01-5": ("_inline_snapshot.snapshot: call-site key (frame.f_code, f_lasti) instead of (id(f_code), f_lasti); source file looked up on first evaluation only", "one session that collects two modules containing an identical function at the same lines: the copy keeps `snapshot()` empty", True),
    "C02-4": ("generic_value.clone: 'atomic' builtins incl. tuple and frozenset returned without a copy", "a tuple holding a list / dict compared with an empty snapshot and mutated afterwards: create,fix is green, the disabled re-run fails", True),
    "C02-5": ("_rewrite_code.SourcePosition: a `utf8` flag converts plain (lineno, col) tuples with LineNumbers.from_utf8_col although Replace.apply passes character columns", "fix of a leaf on a line with non-ASCII characters before or inside it: the replaced range shifts left (valid Python, wrong values)", False),
    "C03-4": ("_rewrite_code: asttokens.LineNumbers replaced by a line-offset table built with str.splitlines(keepends=True)", "a form feed / U+2028 / NEL / FS..RS character in a string or comment above an edited snapshot: every edit below lands one line early", True),
    "C03-5": ("pytest_sessionfinish: required_imports becomes a defaultdict created once before the loop over the files and never reset", "one session changes >= 2 files and an earlier one received external(...) / HasRepr(...): later files get the import line although they do not use it", False),
    "C04-4": ("pytest_plugin.is_xfail: request.node.get_closest_marker('xfail') (+ condition= keyword) instead of all marks", "stacked xfail marks where the innermost condition is false and an outer mark applies: the xfail test is rewritten by fix", False),
    "C04-5": ("INLINE_SNAPSHOT_DEFAULT_FLAGS handled in _config.read_config before the pyproject keys are copied: pyproject default-flags overrides the environment variable", "both default-flags in pyproject.toml and the environment variable, no command-line flag: e.g. env `report` with default-flags create,fix writes create+fix", False),
    "C05-5": ("dict_value._get_changes: the 'child has a recorded value' filter reused for the loop over the old keys (an accessed but not compared key counts as unused)", "an existing key reached via s[key] whose sub-snapshot is not compared in this run: trim deletes it", False),
    "C05-6": ("generic_value.clone returns 'atomic' builtin types incl. tuple without deep copy", "a tuple containing a mutable object modified after the comparison, code generated late (create for ==; create, fix, trim for <=, >=, in)", False),
    "C06-4": ("xfail tests use a new snapshot_disabled() context manager on the session state that restores active = True instead of the previous value", "a disabled session (disable flag, CI, xdist) with a test marked xfail followed by more tests: snapshot(v) is no longer v there", True),
    "C06-5": ("min_max_value._generic_cmp: fast path returning a cached result when the compared value lies inside the bound recorded so far", "one <= / >= snapshot compared >= 2 times without flags: first a value violating it (not aborting the test), then one between the stored value and that one", False),
    "C07-5": ("collection_value.__contains__: a missing value is counted only on the first evaluation of the snapshot object", "the same empty `in snapshot()` executed by several tests of one session (parametrised test, helper, --reruns): only the first fails", False),
    "C07-6": ("testing/_example.Example.run_inline: the two nested `with` blocks flattened; the assertions on the caller's snapshots run while the example's temporary state is current", "a real test that passes snapshot() (or a wrong snapshot with fix / create / update for the example) to run_inline: the test passes, exit status 0", True),
    "C08-5": ("value_adapter.assign: generated tokens normalised before they are used to write the code (trailing comma of one-element tuples lost)", "fix / update of a leaf whose new value contains a 1-tuple ({(3,), (4,)}, None -> (7,)): `(7)` is written, every further run adds parentheses", False),
    "C08-6": ("_rewrite_code.SourceFile.rewrite: shutil.copystat instead of copymode on the temporary file (old mtime kept)", "an approved run that keeps the file size, default byte-code caching, a second run: stale .pyc is executed", False),
    "C09-4": ("collection_value: a failing membership result is remembered and trim then skips that snapshot", "a list with an unused value (trim) and a missing value (fix), trim approved in a run before fix: trim -> fix gives [4, 5, 6], together [5, 6]", False),
    "C09-5": ("pytest_sessionfinish: the diff panel extracted into show_diff(); `any_changes = show_diff(file, header)` keeps only the last previewed file", "one run with >= 2 approved categories and >= 2 test files, a later category without change in the file previewed last", False),
    "C10-5": ("_change.without_obsolete_changes: removed nodes looked up by (lineno, col, end_lineno, end_col) without the file", "one session rewriting two modules with the same layout (copied / templated test modules): the changes cancel each other", True),
    "C10-6": ("the three star-expression loops and has_star_expression replaced by one helper star_expression() built on ast.walk (adapter.py and four users)", "a star-expression BELOW the compared container (inside an element, a dict value, a constructor argument, inside Is(...)): the freeze leaks to the parent, siblings are never fixed", True),
    "C11-5": ("_align.nw_align: == compared only within a band of abs(len_a - len_b) + 1 around the diagonal", "an equal element >= 2 positions off the diagonal after prefix / suffix stripping (block removed at one end, elements added at the other): unchanged elements lose their text", False),
    "C11-6": ("dict_adapter.assign: the quadratic index(key) lookup replaced by a kept_nodes list indexed by the insert_pos counter", "surviving keys in another order than in the display and a differing value: the unchanged entry is overwritten, the wrong one kept", False),
    "C12-3": ("_source_file: the lone-string parenthesis protection moved from _token_to_code into _value_to_code; value_adapter uses _value_to_code", "black, a string with leading / trailing blank or trailing quote written by the other callers of _token_to_code: fix of a <= bound, update of an `in` member, update of a never-compared snapshot", True),
    "C12-4": ("_rewrite_code.start_of / end_of accept AST nodes; Replace.apply passes the node (UTF-8 byte columns used as character columns)", "an existing literal replaced on a line with non-ASCII characters before or in it: neighbouring strings merge (['e`','b'] -> ['e`' 'b'])", False),
    "C14-3": ("_inline_snapshot.snapshot: call-site table keyed by (frame.f_code, f_lasti); executing / SourceFile looked up on the first evaluation only", "one session running >= 2 modules with a textually identical function at the same position: the first file receives the aggregate of all files", False),
    "C14-4": ("_compare_context: the compare-only flag becomes a ContextVar; compare_context() sets / yields / resets without try/finally", "one list == snapshot([...]) whose element __eq__ raises during alignment: every == site first evaluated afterwards records nothing", True),
    "C15-3": ("pytest_sessionfinish: externals persisted in a second loop after cr.fix_all() instead of before it", "a change set of >= 2 files where an earlier file gets a new external(...) and the rewrite of a later file raises: dangling reference after the next session start", False),
    "C15-4": ("_rewrite_code.SourceFile.rewrite: `except OSError:` fallback that writes the test file directly when the temporary file cannot be written or moved", "a persistent write fault (full disk, quota, file size limit): the fallback truncates the real file and fails again", True),
    "C16-3": ("_code_repr.sort_set_values: strict-chain check replaced by a pre-sort with key=real_repr followed by the stable sorted()", "an outer set of partially ordered / incomparable elements whose inner sets hold >= 2 strings or colliding ints: the text depends on PYTHONHASHSEED", False),
    "C16-4": ("_source_file._token_to_code: the parenthesis protection applied only when a predicate changed_as_docstring(code) says black would change the string (looks at the repr quote, black normalises quotes first)", "black in use, a str that is a whole generated value with ' at least as often as \" and ending in \": black appends a blank (another value than every other formatter setup)", False),
    "C17-3": ("generic_value.clone: TypeError / copy.Error of copy.deepcopy caught, fallback copy.copy", "a value holding something deepcopy refuses (a lock) mutated below the top level after the assertion: the later state is written", True),
    "C17-4": ("collection_value.__contains__: an item already present in the snapshot is remembered by reference instead of cloned", "an existing `in` snapshot already holding the tested object, which is mutated in place after / between assertions, with fix and / or trim", False),
    "C18-3": ("_change.apply_all no longer drops changes inside removed nodes; the plugin filters once per category after collecting", "a nested snapshot whose parent element the outer snapshot deletes or replaces, with a change of another category, both approved: overlap AssertionError in pytest_sessionfinish", False),
    "C18-4": ("collection_value.__contains__ records the already-present old element instead of clone(item)", ">= 2 user-controlled parts (Is(...), inner snapshot) in an `in` list, one hit by a tested value: Unmanaged.__eq__ asserts at session end", False),
    "C19-3": ("Example.run_inline reads the example's own pyproject.toml into the process-global _config.config and never restores it", "two examples in one process: first one whose pyproject sets format-command, then one without pyproject and a hand-written layout: fully reformatted", True),
    "C19-4": ("Example.run_inline iterates sorted(glob('test_*.py')) instead of glob('*.py')", "a project with a `*_test.py` file that has pending changes: run_inline skips it, run_pytest and a real session rewrite it", True),
    "C20-3": ("_format.file_mode_for_path: black's find_pyproject_toml replaced by an own upward search that stops at the first pyproject.toml", "workspace layout: black options in the root pyproject.toml, a metadata-only pyproject.toml in the package: default mode used, clean file left unclean", True),
    "C20-4": ("_rewrite_code: only the changed statements of a formatted file are formatted through black's lines=; the line-offset bookkeeping subtracts the start instead of the end line of a replacement", "one session that shrinks a multi-line snapshot and changes another snapshot below it whose new one-line value no longer fits", False),
}


# seeded changes that no longer break their property on the current tree, because a later fix: commit removed the weakness they exploited
NEUTRAL = {
    "C15-2": "since fix: fdebf6b (F-55) format_code validates the output of the format-command: the empty output of a formatter killed by a signal is rejected, a problem is reported and the unformatted code is used",
    "C18-4": "since fix: 7319c21 (F-59) comparisons that raise while the members of an `in` snapshot are classified count as not equal: the assertion inside Unmanaged.__eq__ no longer leaves pytest_sessionfinish",
}


def load_eval(sid):
    p = f"/tmp/seed3eval/final/{sid}.txt"
    if not os.path.exists(p):
        return None
    t = open(p).read()
    try:
        return json.loads(t[t.index("{"):])
    except Exception:  # noqa
        return None


def detected(e):
    checks = {c: {"exit": v["exit"], "violation": v["exit"] == 1 and v["violations"] > 0, "only_broken_correspondence": bool(v.get("no_input_only")),
                  "first_report": v["first_report"][:240], "wall_s": v["wall_s"]} for c, v in e.get("checks", {}).items()}
    return {"tier": "quick", "repo_head": os.popen("git -C /repo log --format=%h -1").read().strip(), "checks": checks,
            "caught_by": sorted(c for c, v in checks.items() if v["violation"])}


def main():
    for sid in sorted(os.listdir("/verif/seeded")):
        d = f"/verif/seeded/{sid}"
        if not os.path.isdir(d):
            continue
        e = load_eval(sid)
        mp = f"{d}/meta.json"
        if sid in DESC3:
            what, needs, missed = DESC3[sid]
            if e is not None and not e.get("valid") and sid in NEUTRAL:
                pass
            elif e is None or not e.get("valid"):
                print("not (yet) validated:", sid, None if e is None else (e.get("demo_clean"), e.get("demo_patched"), e.get("suite"), e.get("error")))
                continue
            meta = {"property": sid[:3], "round": 3, "change": what, "needs_to_manifest": needs,
                    "origin": "written by a fresh sub-agent that saw only the property text and a scratch worktree of /repo",
                    "validated": {"how": "tools/eval3.py in a scratch worktree of /repo HEAD: demo on the clean tree, demo with the patch, pinned suite with the patch",
                                  "demo_on_clean_tree_exit": e["demo_clean"][0], "demo_with_patch_exit": e["demo_patched"][0], "suite_with_patch": e.get("suite", ["?"])[0]},
                    "missed_by_own_check_when_first_evaluated": missed, "detected_by": detected(e)}
            if sid in NEUTRAL:
                meta["neutralised"] = NEUTRAL[sid] + " (demo exits 0 with the patch applied to the current tree; validated against the tree it was written for)"
            if os.path.exists(f"{d}/patch.rebased.diff"):
                meta["note"] = "patch.rebased.diff is the change merged onto later fix: commits of /repo (patch.diff is what the sub-agent delivered)"
            json.dump(meta, open(mp, "w"), indent=1)
        elif os.path.exists(mp) and e is not None:
            meta = json.load(open(mp))
            if e.get("error"):
                print("patch of an earlier round does not apply any more:", sid, e["error"][:200])
                continue
            meta["revalidated"] = {"repo_head": os.popen("git -C /repo log --format=%h -1").read().strip(), "demo_on_clean_tree_exit": e.get("demo_clean", [None])[0],
                                   "demo_with_patch_exit": e.get("demo_patched", [None])[0], "suite_with_patch": (e.get("suite") or ["?"])[0], "valid": e.get("valid")}
            meta["detected_by_final"] = detected(e)
            if sid in NEUTRAL:
                meta["neutralised"] = NEUTRAL[sid] + " (demo exits 0 with the patch applied to the current tree)"
            if os.path.exists(f"{d}/patch.rebased.diff"):
                meta["note"] = "patch.rebased.diff is the change merged onto later fix: commits of /repo"
            json.dump(meta, open(mp, "w"), indent=1)


if __name__ == "__main__":
    main()
