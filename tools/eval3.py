#!/usr/bin/env python3
"""Development helper: validate a seeded change of the third round and run checks against it, all inside a scratch
worktree of /repo (VERIF_REPO), so that several evaluations can run at the same time and /repo is never touched.

  tools/eval3.py <src dir> <n> --checks C05,C18 [--tier quick] [--skip-validate] [--seed k]

<src dir> holds patch<n>.diff (or patch<n>.rebased.diff), demo<n>.py.  Prints one JSON summary and writes it to
/tmp/seed3eval/<name>-<n>.json."""
import argparse
import json
import os
import re
import shutil
import subprocess as sp
import sys
import time

ENV = {k: v for k, v in os.environ.items() if k not in ("CI", "VERIF_REPO", "VERIF_OUT")}


def sh(cmd, **kw):
    return sp.run(cmd, shell=True, capture_output=True, text=True, env=kw.pop("env", ENV), **kw)


def demo(path, src, cwd, timeout=900):
    e = dict(ENV, SRC=src, PYTHONPATH=src)
    try:
        r = sp.run(["/venv/bin/python", path], capture_output=True, text=True, env=e, timeout=timeout, cwd=cwd)
        return r.returncode, (r.stdout + r.stderr)[-800:]
    except sp.TimeoutExpired:
        return 124, "timeout"


def main():
    ap = argparse.ArgumentParser()
    ap.add_argument("src")
    ap.add_argument("n")
    ap.add_argument("--checks", default="")
    ap.add_argument("--tier", default="quick")
    ap.add_argument("--seed", default="0")
    ap.add_argument("--skip-validate", action="store_true")
    a = ap.parse_args()
    src = os.path.abspath(a.src)
    if a.n == "-":
        # a directory of /verif/seeded: patch.diff (or patch.rebased.diff: merged onto later fix: commits), demo.py
        name = os.path.basename(src)
        patch = f"{src}/patch.rebased.diff" if os.path.exists(f"{src}/patch.rebased.diff") else f"{src}/patch.diff"
        dm = f"{src}/demo.py"
    else:
        name = os.path.basename(src).replace("-out", "")
        patch = f"{src}/patch{a.n}.rebased.diff" if os.path.exists(f"{src}/patch{a.n}.rebased.diff") else f"{src}/patch{a.n}.diff"
        dm = f"{src}/demo{a.n}.py"
    base = "/tmp/seed3eval"
    os.makedirs(base, exist_ok=True)
    wt = f"{base}/{name}-{a.n}"
    outd = f"{base}/{name}-{a.n}-out"
    out = {"id": f"{name}-{a.n}", "patch": patch}
    sh(f"git -C /repo worktree remove --force {wt}")
    shutil.rmtree(wt, ignore_errors=True)
    shutil.rmtree(outd, ignore_errors=True)
    r = sh(f"git -C /repo worktree add --detach {wt} HEAD -q")
    if r.returncode:
        print("worktree:", r.stderr)
        return 2
    try:
        scratch = f"{outd}/demo"
        os.makedirs(scratch, exist_ok=True)
        if not a.skip_validate:
            out["demo_clean"] = demo(dm, f"{wt}/src", scratch)
        r = sh(f"git -C {wt} apply {patch}")
        if r.returncode:
            r = sh(f"git -C {wt} apply --3way {patch}")
            if r.returncode:
                out["error"] = "patch does not apply: " + r.stderr[-500:]
                print(json.dumps(out, indent=1))
                return 2
            sh(f"git -C {wt} reset -q")
            out["applied"] = "3way"
        out["diffstat"] = sh(f"git -C {wt} diff --stat").stdout.strip().splitlines()[-1:]
        if not a.skip_validate:
            out["demo_patched"] = demo(dm, f"{wt}/src", scratch)
            s = sh(f"/verif/tools/run_suite.sh {wt}")
            out["suite"] = s.stdout.strip().splitlines()[-1:] + ([l for l in s.stdout.splitlines() if "MISSING" in l][:5])
            out["valid"] = out["demo_clean"][0] == 0 and out["demo_patched"][0] not in (0, 124) and "missing 0" in " ".join(out["suite"])
        res = {}
        for chk in [c for c in a.checks.split(",") if c]:
            t0 = time.time()
            e = dict(ENV, VERIF_REPO=wt, VERIF_OUT=outd, VERIF_SEED=a.seed)
            c = sp.run(["/verif/check", chk, "--tier", a.tier], capture_output=True, text=True, env=e, cwd="/verif")
            lines = c.stdout.splitlines()
            viol = [l for l in lines if l.startswith("VIOLATION")]
            first = ""
            for i, l in enumerate(lines):
                if l.startswith("VIOLATION") and i + 1 < len(lines):
                    first = lines[i + 1].strip()[:400]
                    break
            res[chk] = {"exit": c.returncode, "violations": len(viol), "no_input_only": bool(viol) and all("no-failing-input-found" in v for v in viol),
                        "first_report": first, "wall_s": round(time.time() - t0), "tail": (c.stdout + c.stderr)[-300:] if c.returncode not in (0, 1) else ""}
        out["checks"] = res
        out["caught_by"] = [k for k, v in res.items() if v["exit"] == 1 and v["violations"]]
    finally:
        sh(f"git -C /repo worktree remove --force {wt}")
        shutil.rmtree(wt, ignore_errors=True)
        shutil.rmtree(outd, ignore_errors=True)
        sh("git -C /repo worktree prune")
    json.dump(out, open(f"{base}/{name}-{a.n}.json", "w"), indent=1)
    print(json.dumps(out, indent=1))


if __name__ == "__main__":
    sys.exit(main())
