#!/bin/bash
# Development helper: run the pinned test suite on a scratch copy of a source tree (default /repo's working tree)
# and compare with /root/.vp/BASELINE.json stable_pass.   usage: tools/run_suite.sh [srcdir]
SRC=${1:-/repo}
W=$(mktemp -d /var/tmp/suite-XXXXXX)
rsync -a --exclude .git --exclude .pytest_cache --exclude __pycache__ "$SRC"/ "$W"/repo/
for v in CI BUILD_ID BUILD_NUMBER BUILDKITE CIRCLECI CONTINUOUS_INTEGRATION GITHUB_ACTIONS HUDSON_URL JENKINS_URL TEAMCITY_VERSION TRAVIS PYCHARM_HOSTED INLINE_SNAPSHOT_DEFAULT_FLAGS; do unset "$v"; done
cd "$W"/repo && PYTHONPATH="$W/repo/src" /venv/bin/python -m pytest -ra -q -p no:cacheprovider --timeout=900 --continue-on-collection-errors --junitxml="$W/junit.xml" -n 8 >"$W/out.txt" 2>&1
tail -3 "$W/out.txt"
/venv/bin/python - "$W/junit.xml" <<'PY'
import json, sys, xml.etree.ElementTree as ET
base = set(json.load(open('/root/.vp/BASELINE.json'))['stable_pass'])
ok = set()
for tc in ET.parse(sys.argv[1]).getroot().iter('testcase'):
    if not any(c.tag in ('failure', 'error', 'skipped') for c in tc):
        ok.add(f"{tc.get('classname')}::{tc.get('name')}")
missing = sorted(base - ok)
print(f"stable_pass {len(base)}; passing now {len(ok & base)}; missing {len(missing)}")
for m in missing[:20]: print("  MISSING", m)
sys.exit(1 if missing else 0)
PY
rc=$?
rm -rf "$W"
exit $rc
