#!/usr/bin/env python3
"""Development helper: markdown table of the second-round seeded changes (DESIGN.md section 13) from /verif/seeded/*/meta.json,
with the result of the last full own-check evaluation (/var/tmp/seedfinal2/<key>.json) when available."""
import glob
import json
import os

rows = []
for f in sorted(glob.glob("/verif/seeded/*/meta.json")):
    m = json.load(open(f))
    if m.get("round") != 2:
        continue
    key = os.path.basename(os.path.dirname(f))
    fin = f"/var/tmp/seedfinal2/{key}.json"
    own = "?"
    if os.path.exists(fin):
        try:
            d = json.load(open(fin))
            own = "yes" if any(v["exit"] == 1 for v in d["checks"].values()) else "NO"
        except Exception:
            pass
    rows.append(f"| {key} | {m['change']} | {m['needs_to_manifest']} | {'missed' if m['missed_by_own_check_when_first_evaluated'] else 'caught'} | {own} |")
print("| seeded change | what was changed | needs to manifest | own check at first evaluation | own check now |")
print("|----|----|----|----|----|")
print("\n".join(rows))
