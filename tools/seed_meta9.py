#!/usr/bin/env python3
"""Development helper (ninth round): install the validated seeded changes of /tmp/seed9/<prop>-out (patch<k>.diff, demo<k>.py, notes.md) as
/verif/seeded/<prop>-9<k>/ (patch.diff, demo.py, notes.md, meta.json) from the evaluation logs /tmp/seed9/logs/<prop>-<k>.log (first evaluation: validation
+ own check) and, when present, /tmp/seed9/logs/<prop>-<k>b.log (own check again after the check was strengthened).

  tools/seed_meta9.py            prints one line per change: id valid first-caught final-caught"""
import json
import os
import re
import shutil

BASE = "/tmp/seed9"


def load(p):
    if not os.path.exists(p):
        return None
    t = open(p).read()
    try:
        return json.loads(t[t.index("{"):])
    except ValueError:
        return None


def section(notes, k):
    """the part of notes.md that describes change k: What / Needs"""
    m = re.split(r"(?im)^#+\s*(?:change|patch|defect)?\s*#?\s*([12])\b.*$", notes)
    text = notes
    for i in range(1, len(m) - 1, 2):
        if m[i] == str(k):
            text = m[i + 1]
            break
    def grab(word):
        mm = re.search(rf"(?is)\**{word}\**\s*:?\**\s*(.+?)(?=\n\s*\n\**(?:what|needs|ran|remarks)\b|\n#+ |\Z)", text)
        return re.sub(r"\s+", " ", mm.group(1)).strip()[:700] if mm else ""
    return grab("what"), grab("needs")


def detected(e):
    checks = {c: {"exit": v["exit"], "violation": v["exit"] == 1 and v["violations"] > 0, "only_broken_correspondence": bool(v.get("no_input_only")),
                  "first_report": v["first_report"][:240], "wall_s": v["wall_s"]} for c, v in e.get("checks", {}).items()}
    return {"tier": "quick", "repo_head": os.popen("git -C /repo log --format=%h -1").read().strip(), "checks": checks,
            "caught_by": sorted(c for c, v in checks.items() if v["violation"])}


def main():
    for prop in sorted(x[:-4] for x in os.listdir(BASE) if x.endswith("-out")):
        d = f"{BASE}/{prop}-out"
        notes = open(f"{d}/notes.md").read() if os.path.exists(f"{d}/notes.md") else ""
        for k in (1, 2):
            first = load(f"{BASE}/logs/{prop}-{k}.log")
            if first is None:
                continue
            final = load(f"{BASE}/logs/{prop}-{k}b.log") or first
            sid = f"{prop}-9{k}"
            if not first.get("valid"):
                print(sid, "NOT VALID", first.get("demo_clean", [None])[0], first.get("demo_patched", [None])[0], first.get("suite"), first.get("error", ""))
                continue
            out = f"/verif/seeded/{sid}"
            os.makedirs(out, exist_ok=True)
            shutil.copy(f"{d}/patch{k}.diff", f"{out}/patch.diff")
            shutil.copy(f"{d}/demo{k}.py", f"{out}/demo.py")
            if notes:
                open(f"{out}/notes.md", "w").write(notes)
            what, needs = section(notes, k)
            missed = not detected(first)["caught_by"]
            meta = {"property": prop, "round": 9, "change": what, "needs_to_manifest": needs,
                    "origin": "written by a fresh sub-agent that saw only the property text, its own scratch worktree of /repo and a list of source files to look at",
                    "validated": {"how": "tools/eval3.py in a scratch worktree of /repo HEAD: demo on the clean tree, demo with the patch, pinned suite with the patch",
                                  "demo_on_clean_tree_exit": first.get("demo_clean", [None])[0], "demo_with_patch_exit": first.get("demo_patched", [None])[0],
                                  "suite_with_patch": " ".join(first.get("suite", []))[:200], "patch_used": "patch.diff"},
                    "missed_by_own_check_when_first_evaluated": missed, "detected_by": detected(final)}
            json.dump(meta, open(f"{out}/meta.json", "w"), indent=1, ensure_ascii=False)
            print(sid, "valid", "first:", detected(first)["caught_by"] or "MISSED", "final:", meta["detected_by"]["caught_by"] or "MISSED",
                  "|", (detected(final)["checks"].get(prop, {}).get("first_report") or "")[:150])


if __name__ == "__main__":
    main()
