(* Model of the string-literal code of src/inline_snapshot/_utils.py
   (_str_literal_helper, triple_quote, value_to_token.map_string), of CPython's
   repr(str) (unicode_repr) and of CPython's lexer for (non-raw, non-f) string literals.
   Strings are lists of code points.  Executable definitions only. *)
From Coq Require Import List NArith Bool.
Import ListNotations.
Open Scope N_scope.

Definition cp := N.
Definition str := list cp.

Definition hexdigit (n : N) : cp := if n <? 10 then 48 + n else 87 + n.
Definition hexval (c : cp) : option N :=
  if (48 <=? c) && (c <=? 57) then Some (c - 48)
  else if (97 <=? c) && (c <=? 102) then Some (c - 87)
  else if (65 <=? c) && (c <=? 70) then Some (c - 55)
  else None.
Fixpoint hex_fixed (digits : nat) (n : N) : str :=
  match digits with O => [] | S d => hex_fixed d (n / 16) ++ [hexdigit (n mod 16)] end.

(* one-character state machine for a (non-raw) str literal body *)
Inductive st :=
| SNorm                       (* normal *)
| SEsc                        (* after a backslash *)
| SHex (k : nat) (acc : N)    (* k hex digits still to read *)
| SQ (k : nat).               (* triple mode: k = 1 or 2 consecutive quote chars seen *)

Inductive res := Done (v : str) (rest : str) | Fail.

Section Scan.
Variables (q : cp) (triple : bool).

Definition push_q (k : nat) (acc : str) : str := repeat q k ++ acc.

Fixpoint run (s : st) (inp : str) (acc : str) {struct inp} : res :=
  match inp with
  | [] => Fail
  | c :: r =>
    match s with
    | SNorm =>
        if c =? 92 then run SEsc r acc
        else if c =? q then (if triple then run (SQ 1) r acc else Done (rev acc) r)
        else if (c =? 10) && negb triple then Fail
        else run SNorm r (c :: acc)
    | SQ k =>
        if c =? q then (match k with 2%nat => Done (rev acc) r | _ => run (SQ (S k)) r acc end)
        else if c =? 92 then run SEsc r (push_q k acc)
        else run SNorm r (c :: push_q k acc)
    | SEsc =>
        if c =? 10 then run SNorm r acc
        else if (c =? 92) || (c =? 39) || (c =? 34) then run SNorm r (c :: acc)
        else if c =? 110 then run SNorm r (10 :: acc)
        else if c =? 116 then run SNorm r (9 :: acc)
        else if c =? 114 then run SNorm r (13 :: acc)
        else if c =? 97 then run SNorm r (7 :: acc)
        else if c =? 98 then run SNorm r (8 :: acc)
        else if c =? 102 then run SNorm r (12 :: acc)
        else if c =? 118 then run SNorm r (11 :: acc)
        else if c =? 120 then run (SHex 2 0) r acc
        else if c =? 117 then run (SHex 4 0) r acc
        else if c =? 85 then run (SHex 8 0) r acc
        else if (48 <=? c) && (c <=? 55) then Fail     (* octal: unsupported in the model *)
        else if c =? 78 then Fail                        (* \N{..}: unsupported *)
        else run SNorm r (c :: 92 :: acc)
    | SHex k a =>
        match hexval c with
        | None => Fail
        | Some v => match k with
                    | 1%nat => let x := a * 16 + v in if x <=? 1114111 then run SNorm r (x :: acc) else Fail
                    | S k' => run (SHex k' (a * 16 + v)) r acc
                    | O => Fail
                    end
        end
    end
  end.
End Scan.

Definition decode_literal (s : str) : res :=
  match s with
  | q :: r =>
    if (q =? 39) || (q =? 34) then
      match r with
      | c2 :: c3 :: r' => if (c2 =? q) && (c3 =? q) then run q true SNorm r' [] else run q false SNorm r []
      | _ => run q false SNorm r []
      end
    else Fail
  | [] => Fail
  end.

(* ---------- CPython repr(str) ---------- *)
Section Repr.
Variable printable : cp -> bool.
Definition repr_char (q c : cp) : str :=
  if (c =? q) || (c =? 92) then [92; c]
  else if c =? 9 then [92; 116] else if c =? 10 then [92; 110] else if c =? 13 then [92; 114]
  else if (c <? 32) || (c =? 127) then [92; 120] ++ hex_fixed 2 c
  else if c <? 127 then [c]
  else if printable c then [c]
  else if c <? 256 then [92; 120] ++ hex_fixed 2 c
  else if c <? 65536 then [92; 117] ++ hex_fixed 4 c
  else [92; 85] ++ hex_fixed 8 c.
Definition memb (c : cp) (s : str) := existsb (N.eqb c) s.
Definition pick_q (s : str) : cp := if memb 39 s && negb (memb 34 s) then 34 else 39.
Definition py_repr (s : str) : str := let q := pick_q s in [q] ++ concat (map (repr_char q) s) ++ [q].
End Repr.

(* ---------- _utils.py ---------- *)

Definition unicode_escape (c : cp) : str :=
  if c =? 92 then [92; 92]
  else if c =? 9 then [92; 116]
  else if c =? 10 then [92; 110]
  else if c =? 13 then [92; 114]
  else if c <? 256 then [92; 120] ++ hex_fixed 2 c
  else if c <? 65536 then [92; 117] ++ hex_fixed 4 c
  else [92; 85] ++ hex_fixed 8 c.

Section Enc.
Variable printable : cp -> bool.
Variable fixed : bool.   (* false = pinned tree (F-17), true = repaired `and not extra` *)

Fixpoint count (c : cp) (s : str) : nat :=
  match s with [] => O | x :: r => (if x =? c then 1 else 0)%nat + count c r end.
Fixpoint prefixb (p s : str) : bool :=
  match p, s with
  | [], _ => true
  | a :: p', b :: s' => (a =? b) && prefixb p' s'
  | _, [] => false
  end.
Fixpoint contains (p s : str) : bool :=
  prefixb p s || match s with [] => false | _ :: r => contains p r end.

Definition escape_char (extra : option cp) (c : cp) : str :=
  if (c =? 10) || (c =? 9) then [c]
  else if (c =? 92) || negb (printable c) then unicode_escape c
  else match extra with
       | Some e => if c =? e then [92; c] else [c]
       | None => [c]
       end.
Definition q3 (q : cp) : str := [q; q; q].
(* a blank (space or tab) in front of a line end: the line end is written as \n + line continuation, so that a formatter which strips trailing
   whitespace cannot change the value (the tab since the repair of finding F-62) *)
Definition blank (c : cp) : bool := (c =? 32) || (c =? 9).
Fixpoint replace_sp_nl (s : str) : str :=
  match s with
  | a :: ((b :: r) as t) =>
      if blank a && (b =? 10) then [a; 92; 110; 92; 10] ++ replace_sp_nl r
      else a :: replace_sp_nl t
  | _ => s
  end.
Definition last_cp (s : str) : option cp := last (map Some s) None.

Definition extra_of (s : str) : option cp :=
  if contains (q3 39) s && contains (q3 34) s
  then Some (if Nat.leb (count 34 s) (count 39 s) then 34 else 39) else None.

Definition triple_quote (s : str) : str :=
  let extra := extra_of s in
  let escaped := concat (map (escape_char extra) s) in
  let possible := filter (fun q => negb (contains (q3 q) escaped)) [34; 39] in
  let possible' := match last_cp escaped with
                   | None => possible
                   | Some l => filter (fun q => negb (q =? l)) possible ++ filter (fun q => q =? l) possible
                   end in
  let q := hd 34 possible' in
  let escaped' := match last_cp escaped with
                  | Some l => if (q =? l) && negb (fixed && match extra with Some _ => true | None => false end)
                              then removelast escaped ++ [92; l] else escaped
                  | None => escaped
                  end in
  let body := replace_sp_nl escaped' in
  let body := [92; 10] ++ body in
  let body := match last_cp body with Some l => if l =? 10 then body else body ++ [92; 10] | None => body end in
  q3 q ++ body ++ q3 q.

Definition use_triple (s : str) : bool :=
  (memb 10 s && negb (match last_cp s with Some l => l =? 10 | None => false end))
  || Nat.ltb 1 (count 10 s).
Definition str_literal (s : str) : str := if use_triple s then triple_quote s else py_repr printable s.
End Enc.

(* ---------- atom-level model of the repaired triple_quote ---------- *)

(* atom-level model of the (repaired) triple_quote: each atom = (text, decoded) *)
Definition atom := (str * str)%type.
Definition cont : atom := ([92; 10], []).

Section EncA.
Variable printable : cp -> bool.

Definition eqs (a b : str) : bool := if list_eq_dec N.eq_dec a b then true else false.

Fixpoint enc_chars (extra : option cp) (q : cp) (prev_sp : bool) (s : str) : list atom :=
  match s with
  | [] => []
  | c :: r =>
      let base := escape_char printable extra c in
      let a : atom :=
        if (c =? 10) && prev_sp then ([92; 110; 92; 10], [10])
        else if (match r with [] => true | _ => false end) && eqs base [q]
                && (match extra with None => true | Some _ => false end)
             then ([92; q], [q])
        else (base, [c]) in
      a :: enc_chars extra q (eqs base [32] || eqs base [9]) r
  end.

Definition flat (l : list atom) : str := concat (map fst l).
Definition dec (l : list atom) : str := concat (map snd l).

Definition choose_q (extra : option cp) (s : str) : cp :=
  let escaped := concat (map (escape_char printable extra) s) in
  let possible := filter (fun q => negb (contains (q3 q) escaped)) [34; 39] in
  let possible' := match last_cp escaped with
                   | None => possible
                   | Some l => filter (fun q => negb (q =? l)) possible ++ filter (fun q => q =? l) possible
                   end in
  hd 34 possible'.

Definition ends_nl (l : list atom) : bool :=
  match last_cp (flat l) with Some c => c =? 10 | None => false end.

Definition triple_atoms (s : str) : cp * list atom :=
  let extra := extra_of s in
  let q := choose_q extra s in
  let body := cont :: enc_chars extra q false s in
  (q, if ends_nl body then body else body ++ [cont]).

Definition triple_quote_a (s : str) : str :=
  let '(q, atoms) := triple_atoms s in q3 q ++ flat atoms ++ q3 q.
End EncA.

(* ---------- bytes: CPython bytes_repr and the lexer for b'..' literals ---------- *)
Definition brepr_char (q c : cp) : str :=
  if (c =? q) || (c =? 92) then [92; c]
  else if c =? 9 then [92; 116] else if c =? 10 then [92; 110] else if c =? 13 then [92; 114]
  else if (c <? 32) || (127 <=? c) then [92; 120] ++ hex_fixed 2 c
  else [c].
Definition bytes_repr (s : str) : str :=
  let q := pick_q s in [98; q] ++ concat (map (brepr_char q) s) ++ [q].

(* single-quoted bytes literal body: like `run q false` but \u \U \N are not escapes *)
Fixpoint runb (q : cp) (s : st) (inp : str) (acc : str) {struct inp} : res :=
  match inp with
  | [] => Fail
  | c :: r =>
    match s with
    | SNorm =>
        if c =? 92 then runb q SEsc r acc
        else if c =? q then Done (rev acc) r
        else if c =? 10 then Fail
        else if 128 <=? c then Fail          (* bytes literals are ASCII only *)
        else runb q SNorm r (c :: acc)
    | SQ _ => Fail
    | SEsc =>
        if c =? 10 then runb q SNorm r acc
        else if (c =? 92) || (c =? 39) || (c =? 34) then runb q SNorm r (c :: acc)
        else if c =? 110 then runb q SNorm r (10 :: acc)
        else if c =? 116 then runb q SNorm r (9 :: acc)
        else if c =? 114 then runb q SNorm r (13 :: acc)
        else if c =? 97 then runb q SNorm r (7 :: acc)
        else if c =? 98 then runb q SNorm r (8 :: acc)
        else if c =? 102 then runb q SNorm r (12 :: acc)
        else if c =? 118 then runb q SNorm r (11 :: acc)
        else if c =? 120 then runb q (SHex 2 0) r acc
        else if (48 <=? c) && (c <=? 55) then Fail     (* octal: never generated *)
        else runb q SNorm r (c :: 92 :: acc)
    | SHex k a =>
        match hexval c with
        | None => Fail
        | Some v => match k with
                    | 1%nat => runb q SNorm r ((a * 16 + v) :: acc)
                    | S k' => runb q (SHex k' (a * 16 + v)) r acc
                    | O => Fail
                    end
        end
    end
  end.
Definition decode_bytes_literal (s : str) : res :=
  match s with
  | 98 :: q :: r => if (q =? 39) || (q =? 34) then runb q SNorm r [] else Fail
  | _ => Fail
  end.

(* what value_to_token writes for a str / bytes value (repaired tree: fixed = true) *)
Definition str_literal_a (printable : cp -> bool) (s : str) : str :=
  if use_triple s then triple_quote_a printable s else py_repr printable s.

(* ---------- writing a literal into a file whose encoding cannot represent every character (F-97): str.encode(encoding, "backslashreplace") ----------
   enc_ok c: the encoding represents c.  The escape of a character >= 128 is the one of unicode_escape (\xNN, \uNNNN, \UNNNNNNNN). *)
Definition enc_char (enc_ok : cp -> bool) (c : cp) : str := if enc_ok c then [c] else unicode_escape c.
Definition encode_text (enc_ok : cp -> bool) (t : str) : str := concat (map (enc_char enc_ok) t).
