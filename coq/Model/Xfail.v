(* Model of pytest_plugin.is_xfail (src/inline_snapshot/pytest_plugin.py:205-215) and of pytest's own rule (_pytest/skipping.py, evaluate_xfail_marks):
   a test item carries the xfail marks of its function (stacked decorators), its parameter set, its class and its module (`pytestmark`), closest first.
   A mark has positional conditions and possibly a `condition=` keyword (which then replaces the positional ones).  pytest treats the test as xfail as
   soon as ONE mark applies: a mark without conditions applies, a mark with conditions applies if one of them is true.  Inside such a test inline-snapshot
   is inert (snapshot(v) is v, nothing is recorded).  Conditions are booleans here (string conditions are outside the model).
   Executable definitions only. *)
From Coq Require Import List Bool.
Import ListNotations.

Record mark := { m_args : list bool; m_condition : option bool }.

Definition conditions (m : mark) : list bool :=
  match m_condition m with Some c => [c] | None => m_args m end.

(* inline-snapshot: `not conditions or not all(c == False for c in conditions)` *)
Definition mark_counts (m : mark) : bool :=
  match conditions m with
  | [] => true
  | cs => negb (forallb negb cs)
  end.
Definition is_xfail (marks : list mark) : bool := existsb mark_counts marks.

(* pytest: walk the marks; unconditional => xfail; otherwise the first true condition => xfail *)
Fixpoint first_true (cs : list bool) : bool := match cs with [] => false | c :: r => if c then true else first_true r end.
Fixpoint pytest_xfail (marks : list mark) : bool :=
  match marks with
  | [] => false
  | m :: r =>
      match conditions m with
      | [] => true
      | cs => if first_true cs then true else pytest_xfail r
      end
  end.
