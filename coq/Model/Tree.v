(* Which tree the models describe.  Each constant selects, in the model it is used in, the
   behaviour of the current /repo tree for one recorded defect of the pinned commit:
   false = behaviour of the pinned commit, true = behaviour after the `fix:` commit in /repo.
   The correspondence checks evaluate the models with these constants against the code. *)
Definition fixed_F02 : bool := true.    (* bound / membership failures counted under fix|update *)
Definition fixed_F17 : bool := true.    (* triple_quote: final quote not escaped twice *)
Definition fixed_F04 : bool := true.    (* unused externals removed only when trim itself is given *)
Definition fixed_F05 : bool := true.    (* sorted() result of a set only used when it is a strict chain *)
