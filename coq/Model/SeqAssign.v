(* Model of SequenceAdapter.assign (src/inline_snapshot/_adapter/sequence_adapter.py:46-105)
   together with ValueAdapter.assign for the elements, on flat sequences of integer leaves.
   Each old element has a value and a flag `canon` (source tokens = generated tokens).
   The result is the list of elements after the approved categories have been applied:
   `Keep l` = the old element's source text survives verbatim, `Gen v` = generated code for v.
   Executable definitions only. *)
From Coq Require Import List ZArith Bool.
Import ListNotations.
From V Require Import Model.Align Model.SnapOps.
Open Scope Z_scope.

Record leaf := { l_val : Z; l_canon : bool }.
Inductive item := Keep (l : leaf) | Gen (v : Z).
Definition item_val (i : item) : Z := match i with Keep l => l_val l | Gen v => v end.
Definition leaf_eqb (o : leaf) (n : Z) : bool := l_val o =? n.       (* old_value_element == new_value_element *)

(* the script old_value vs new_value, as the adapter computes it *)
Definition script (old : list leaf) (new : list Z) : list dir := add_x (align leaf Z leaf_eqb old new).

(* element assign: ValueAdapter: not equal -> fix ; equal but other tokens -> update *)
Definition assign_leaf (F : flags) (o : leaf) (n : Z) : item :=
  if negb (l_val o =? n) then (if f_fix F then Gen n else Keep o)
  else if negb (l_canon o) && f_update F then Gen n else Keep o.
Definition leaf_cats (o : leaf) (n : Z) : list cat :=
  if negb (l_val o =? n) then [Fix] else if negb (l_canon o) then [Update] else [].

Fixpoint walk (F : flags) (s : list dir) (old : list leaf) (new : list Z) : list item :=
  match s with
  | [] => []
  | (Dm | Dx) :: s' =>
      match old, new with
      | o :: old', n :: new' => assign_leaf F o n :: walk F s' old' new'
      | _, _ => []
      end
  | Di :: s' =>
      match new with
      | n :: new' => (if f_fix F then [Gen n] else []) ++ walk F s' old new'
      | [] => []
      end
  | Dd :: s' =>
      match old with
      | o :: old' => (if f_fix F then [] else [Keep o]) ++ walk F s' old' new
      | [] => []
      end
  | De :: _ => []
  end.

Fixpoint walk_cats (s : list dir) (old : list leaf) (new : list Z) : list cat :=
  match s with
  | [] => []
  | (Dm | Dx) :: s' =>
      match old, new with
      | o :: old', n :: new' => leaf_cats o n ++ walk_cats s' old' new'
      | _, _ => []
      end
  | Di :: s' => match new with _ :: new' => Fix :: walk_cats s' old new' | [] => [] end
  | Dd :: s' => match old with _ :: old' => Fix :: walk_cats s' old' new | [] => [] end
  | De :: _ => []
  end.

Definition seq_result (F : flags) (old : list leaf) (new : list Z) : list item :=
  walk F (script old new) old new.
Definition seq_cats (old : list leaf) (new : list Z) : list cat :=
  walk_cats (script old new) old new.
