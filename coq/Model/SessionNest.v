(* The approval loop of pytest_sessionfinish (Model/Session.v) with changes that lie INSIDE the node another change removes: an inner snapshot() whose
   enclosing element / dict entry the outer snapshot deletes or replaces.  `apply_all` (src/inline_snapshot/_change.py) drops a change when another
   change OF THE SAME CALL deletes or replaces its node or an ancestor (`without_obsolete_changes`); the loop calls it for the preview of every shown
   category - with the changes used so far, and with those plus the changes of the category - and once more for the final write.  Whether a change is
   obsolete therefore depends on the set it is applied with, not on what is pending.
   n_id: identity of the change; n_removes: it is a Delete / Replace of a node; n_encl: ids of the OTHER changes whose node is this change's node or one
   of its ancestors.  All changes are visible here (applying one changes the text).  Executable definitions only. *)
From Coq Require Import List Bool Arith.
Import ListNotations.
From V Require Import Model.SnapOps Model.Session.

Record nchange := { n_id : nat; n_cat : cat; n_file : nat; n_removes : bool; n_encl : list nat }.

Definition removed_in (S : list nchange) (id : nat) : bool := existsb (fun r => Nat.eqb (n_id r) id && n_removes r) S.
Definition obsolete (S : list nchange) (ch : nchange) : bool := existsb (removed_in S) (n_encl ch).
(* without_obsolete_changes *)
Definition effective (S : list nchange) : list nchange := filter (fun ch => negb (obsolete S ch)) S.

Definition of_catN (c : cat) (l : list nchange) : list nchange := filter (fun ch => cat_eqb (n_cat ch) c) l.
Fixpoint ids_eqb (a b : list nchange) : bool :=
  match a, b with
  | [], [] => true
  | x :: a', y :: b' => Nat.eqb (n_id x) (n_id y) && ids_eqb a' b'
  | _, _ => false
  end.
(* does the preview of the changes cs on top of the used ones show a diff for some file? *)
Definition any_changes (used cs : list nchange) : bool := negb (ids_eqb (effective (used ++ cs)) (effective used)).

Fixpoint loopN (cf : sconf) (pending : list nchange) (cats : list cat) (used : list nchange) (reported : list cat) : list nchange * list cat :=
  match cats with
  | [] => (used, reported)
  | c :: r =>
      match of_catN c pending with
      | [] => loopN cf pending r used reported
      | cs =>
          if negb (shown cf c) then loopN cf pending r used reported
          else if negb (any_changes used cs) then loopN cf pending r used reported
          else if approve cf c then loopN cf pending r (used ++ cs) (reported ++ [c])
          else loopN cf pending r used (reported ++ [c])
      end
  end.

Definition sessionN (cf : sconf) (pending : list nchange) : list nchange * list cat := loopN cf pending all_cats [] [].
(* what is written at the end: apply_all(used_changes) *)
Definition writtenN (cf : sconf) (pending : list nchange) : list nchange := effective (fst (sessionN cf pending)).
Definition is_written (w : list nchange) (id : nat) : bool := existsb (fun ch => Nat.eqb (n_id ch) id) w.
