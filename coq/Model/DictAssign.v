(* Model of DictAdapter.assign (src/inline_snapshot/_adapter/dict_adapter.py:55-150) on dict displays with integer keys whose
   values are nested lists / tuples (Model/TreeAssign.v: hand-written leaves, user-controlled parts), together with the order in
   which _change.apply_all / generic_sequence_update place the inserted entries:
     - an old entry whose key the new value lacks is deleted (category fix);
     - the new value is walked in ITS order: entries with new keys are collected and inserted (category fix) in front of the
       next matched key, at the position `insert_pos` = number of keys matched so far (an index into the OLD display);
       what is still pending at the end is inserted behind the last old entry;
     - matched keys: the value is assigned in place by the adapter of the value (assign_tree).
   The result is the list of entries in text order.  Executable definitions only. *)
From Coq Require Import List ZArith Bool Arith.
Import ListNotations.
From V Require Import Model.SnapOps Model.TreeAssign.
Open Scope Z_scope.

Record entry := { e_key : Z; e_val : tree }.
Definition ditem := (Z * rtree)%type.          (* key: what becomes of the value *)

Fixpoint lookup_new (k : Z) (news : list (Z * val)) : option val :=
  match news with
  | [] => None
  | (k', v) :: r => if k =? k' then Some v else lookup_new k r
  end.
Fixpoint has_old (k : Z) (olds : list entry) : bool :=
  match olds with
  | [] => false
  | e :: r => (k =? e_key e) || has_old k r
  end.

(* walking the new value: the groups of inserted entries with their positions; `pending` in reverse *)
Fixpoint inserts (olds : list entry) (news : list (Z * val)) (pending : list (Z * val)) (pos : nat) : list (nat * list (Z * val)) :=
  match news with
  | [] => match pending with [] => [] | _ => [(length olds, rev pending)] end
  | (k, v) :: r =>
      if has_old k olds
      then (match pending with [] => [] | _ => [(pos, rev pending)] end) ++ inserts olds r [] (S pos)
      else inserts olds r ((k, v) :: pending) pos
  end.

Definition gens (l : list (Z * val)) : list ditem := map (fun kv => (fst kv, RGen (snd kv))) l.
(* everything that is inserted in front of old index i, in emission order *)
Definition inserted_at (ins : list (nat * list (Z * val))) (i : nat) : list ditem :=
  flat_map (fun g => if Nat.eqb (fst g) i then gens (snd g) else []) ins.

Definition assign_entry (F : flags) (e : entry) (news : list (Z * val)) : list ditem :=
  match lookup_new (e_key e) news with
  | None => if f_fix F then [] else [(e_key e, RKeep (e_val e))]            (* Delete, category fix *)
  | Some v => [(e_key e, assign_tree F (e_val e) v)]
  end.

Fixpoint place (F : flags) (ins : list (nat * list (Z * val))) (news : list (Z * val)) (i : nat) (olds : list entry) : list ditem :=
  match olds with
  | [] => if f_fix F then inserted_at ins i else []
  | e :: r => (if f_fix F then inserted_at ins i else []) ++ assign_entry F e news ++ place F ins news (S i) r
  end.

Definition dict_result (F : flags) (olds : list entry) (news : list (Z * val)) : list ditem :=
  place F (inserts olds news [] 0) news 0 olds.
