(* Model of _find_external.ensure_import (src/inline_snapshot/_find_external.py:66-125): where the line
   `from inline_snapshot import external / HasRepr` is inserted into a test module.
   A module is the list of its top-level statements, classified as: docstring-like expression statement (SDoc), `from __future__
   import ...` (SFuture), any other import (SImport), anything else (SOther).  The code walks the body: a docstring is skipped at
   index 0 only, then imports are consumed until the first statement that is not an import; the new line goes behind the last
   consumed statement (or in front of the first statement when nothing was consumed).  Executable definitions only. *)
From Coq Require Import List Arith Bool.
Import ListNotations.

Inductive stmt := SDoc | SFuture | SImport | SOther.
Definition is_import (s : stmt) : bool := match s with SFuture | SImport => true | _ => false end.

Fixpoint lead_imports (l : list stmt) : nat :=
  match l with
  | s :: r => if is_import s then S (lead_imports r) else 0
  | [] => 0
  end.
(* number of statements in front of the inserted line *)
Definition insert_index (body : list stmt) : nat :=
  match body with
  | SDoc :: r => S (lead_imports r)
  | _ => lead_imports body
  end.
Definition ensure_import (body : list stmt) : list stmt :=
  firstn (insert_index body) body ++ [SImport] ++ skipn (insert_index body) body.

(* Python's rule: `from __future__` imports stand at the top, only a docstring and other future imports in front of them *)
Fixpoint no_future (l : list stmt) : bool :=
  match l with [] => true | SFuture :: _ => false | _ :: r => no_future r end.
Fixpoint futures_first (l : list stmt) : bool :=
  match l with
  | SFuture :: r => futures_first r
  | _ => no_future l
  end.
Definition wf_module (body : list stmt) : bool :=
  match body with SDoc :: r => futures_first r | _ => futures_first body end.

(* ---- whether the line is needed (contains_import, _find_external.py:13-21): only a top-level `from inline_snapshot import <name>`
   statement counts.  The same import nested in a function, a class, an `if` or a `try` block does not bind the name for the other
   functions of the module (BNested), so the line is inserted all the same. *)
Inductive bind := BTop | BNested | BNone.
Definition estmt := (stmt * bind)%type.
Definition binds_top (s : estmt) : bool := match s with (SImport, BTop) => true | _ => false end.
Definition contains_import (body : list estmt) : bool := existsb binds_top body.
Definition ensure_name (body : list estmt) : list estmt :=
  if contains_import body then body
  else firstn (insert_index (map fst body)) body ++ [(SImport, BTop)] ++ skipn (insert_index (map fst body)) body.
