(* Model of the token comparison that decides whether an `update` is pending:
   src/inline_snapshot/_utils.py  normalize_strings, skip_trailing_comma, normalize, simple_token.__eq__
   src/inline_snapshot/_source_file.py  _token_of_node  (= normalize of the node's tokens)
   and of the four call sites that compare the tokens of a node with value_to_token(value):
     _adapter/value_adapter.py:64, _snapshot/undecided_value.py:103      node_tokens != value_tokens               (needs_update_leaf)
     _snapshot/min_max_value.py:70, _snapshot/collection_value.py:138    node_tokens != normalize(value_tokens)    (needs_update_norm)
   A token is (type, text); type 3 is tokenize's STRING.  ast.literal_eval of a string token is the lexer model of
   StrLit.v (plain and b-prefixed literals, single and triple quotes; other prefixes: None = outside the model).
   Since the repair F-94 (found with this model) all four call sites use the normalized comparison needs_update_norm; needs_update_leaf is
   kept as the description of the pinned tree (C08_leaf_trailing_comma_update_refuted says why it was wrong), the harness reads from the
   source on every run which form each call site uses.
   Executable definitions only. *)
From Coq Require Import List NArith Bool.
Import ListNotations.
From V Require Import Model.StrLit.
Open Scope N_scope.

Record tok := Tok { ty : N; tx : str }.

Fixpoint str_eqb (a b : str) : bool :=
  match a, b with
  | [], [] => true
  | x :: a', y :: b' => (x =? y) && str_eqb a' b'
  | _, _ => false
  end.

(* value of a string literal: bytes or str, and the content *)
Inductive sval := SV (is_bytes : bool) (v : str).
Definition sval_eqb (a b : sval) : bool :=
  match a, b with SV x s, SV y t => Bool.eqb x y && str_eqb s t end.

Definition done (r : res) (b : bool) : option sval :=
  match r with Done v [] => Some (SV b v) | _ => None end.

(* ast.literal_eval(t.string) for the literals the model knows *)
Definition lit_eval (s : str) : option sval :=
  match s with
  | 98 :: _ => done (decode_bytes_literal s) true
  | _ => done (decode_literal s) false
  end.

Definition q1 : list str := [[39]; [34]; [98; 39]; [98; 34]].
Definition q3s : list str := [[39; 39; 39]; [34; 34; 34]; [98; 39; 39; 39]; [98; 34; 34; 34]].
Definition starts_any (ps : list str) (s : str) : bool := existsb (fun p => prefixb p s) ps.

(* the tokens normalize_strings merges: STRING, not triple quoted, starting with a quote or b + quote *)
Definition is_simple_string (t : tok) : bool :=
  (ty t =? 3) && negb (starts_any q3s (tx t)) && starts_any q1 (tx t).

Section Norm.
Variable printable : cp -> bool.

Definition repr_sval (v : sval) : str :=
  match v with SV false s => py_repr printable s | SV true s => bytes_repr s end.

(* str + bytes raises TypeError (and is a syntax error in the source): None *)
Definition concat_sval (a b : sval) : option sval :=
  match a, b with SV x s, SV y t => if Bool.eqb x y then Some (SV x (s ++ t)) else None end.

Definition flush (cur : option sval) (l : list tok) : list tok :=
  match cur with None => l | Some v => Tok 3 (repr_sval v) :: l end.

Fixpoint norm_strings (cur : option sval) (ts : list tok) {struct ts} : option (list tok) :=
  match ts with
  | [] => Some (flush cur [])
  | t :: r =>
    if is_simple_string t then
      match lit_eval (tx t) with
      | None => None
      | Some v =>
        match cur with
        | None => norm_strings (Some v) r
        | Some c => match concat_sval c v with None => None | Some cv => norm_strings (Some cv) r end
        end
      end
    else match norm_strings None r with
         | None => None
         | Some r' => Some (flush cur (t :: r'))
         end
  end.

Definition closers : list str := [[93]; [41]; [125]].
Definition comma : str := [44].
Definition is_closer (s : str) : bool := existsb (str_eqb s) closers.
Definition is_comma (s : str) : bool := str_eqb s comma.

Fixpoint skip_tc (ts : list tok) : list tok :=
  match ts with
  | [] => []
  | t :: r =>
    match r with
    | n :: _ => if is_comma (tx t) && is_closer (tx n) then skip_tc r else t :: skip_tc r
    | [] => [t]
    end
  end.

Definition normalize (ts : list tok) : option (list tok) := option_map skip_tc (norm_strings None ts).

(* simple_token.__eq__ *)
Definition fprefixes : list str := [[102]; [114; 102]; [82; 102]; [70]; [114; 70]; [82; 70]].
Definition has_fprefix (s : str) : bool := starts_any fprefixes s.
Definition swapq (s : str) : str := map (fun c => if c =? 39 then 34 else c) s.

Definition tok_eqb (a b : tok) : option bool :=
  if (ty a =? 3) && (ty b =? 3) then
    if has_fprefix (tx a) || has_fprefix (tx b) then Some false
    else match lit_eval (tx a), lit_eval (tx b) with
         | Some x, Some y => Some (sval_eqb x y && str_eqb (swapq (tx a)) (swapq (tx b)))
         | _, _ => None
         end
  else Some ((ty a =? ty b) && str_eqb (tx a) (tx b)).

(* list.__eq__: lengths first, then element by element up to the first unequal pair *)
Fixpoint toks_eqb_same (a b : list tok) : option bool :=
  match a, b with
  | [], [] => Some true
  | x :: a', y :: b' =>
    match tok_eqb x y with
    | None => None
    | Some false => Some false
    | Some true => toks_eqb_same a' b'
    end
  | _, _ => Some false
  end.
Definition toks_eqb (a b : list tok) : option bool :=
  if Nat.eqb (length a) (length b) then toks_eqb_same a b else Some false.

Definition obind {A B} (o : option A) (f : A -> option B) : option B := match o with None => None | Some x => f x end.

(* `self.context.file._token_of_node(old_node) != new_token` *)
Definition needs_update_leaf (node canon : list tok) : option bool :=
  obind (normalize node) (fun n => option_map negb (toks_eqb n canon)).
(* `self._file._token_of_node(node) != list(normalize(new_token))` *)
Definition needs_update_norm (node canon : list tok) : option bool :=
  obind (normalize node) (fun n => obind (normalize canon) (fun c => option_map negb (toks_eqb n c))).
End Norm.

(* what a token denotes: a string token its value, any other token itself *)
Definition denot (t : tok) : option (sval + (N * str)) :=
  if ty t =? 3 then option_map inl (lit_eval (tx t)) else Some (inr (ty t, tx t)).
