(* Model of Adapter.assign on NESTED list / tuple values: SequenceAdapter.assign (_adapter/sequence_adapter.py:46-105) with the
   alignment of old elements and new values (by ==, Model/Align.v), ValueAdapter.assign for leaves and for nodes whose type
   changed (_adapter/value_adapter.py:25-75, Adapter.get_adapter in _adapter/adapter.py:69-80).  Leaves are integers with a
   flag `canon` (source tokens = generated tokens, e.g. `5` vs `2+3`).  The result shows which source text survives verbatim
   (RKeep), where code is generated (RGen) and which containers are edited element-wise (RSeq).
   Executable definitions only. *)
From Coq Require Import List ZArith Bool.
Import ListNotations.
From V Require Import Model.Align Model.SnapOps.

Inductive skind := KList | KTuple.
Definition skind_eqb (a b : skind) : bool := match a, b with KList, KList | KTuple, KTuple => true | _, _ => false end.

Inductive val := VAtom (z : Z) | VSeq (k : skind) (l : list val).
(* TUnm id z: a part the user controls (Is(...), dirty-equals value, inner snapshot(...)) with source identity `id`, currently worth z *)
Inductive tree := TLeaf (z : Z) (canon : bool) | TUnm (id : nat) (z : Z) | TSeq (k : skind) (l : list tree).
Inductive rtree := RKeep (t : tree) | RGen (v : val) | RSeq (k : skind) (l : list rtree).

Fixpoint val_eqb (a b : val) {struct a} : bool :=
  match a, b with
  | VAtom x, VAtom y => Z.eqb x y
  | VSeq k l, VSeq k' l' =>
      skind_eqb k k' &&
      (fix go (l m : list val) : bool :=
         match l, m with
         | [], [] => true
         | x :: l1, y :: m1 => val_eqb x y && go l1 m1
         | _, _ => false
         end) l l'
  | _, _ => false
  end.

Fixpoint eval (t : tree) : val :=
  match t with
  | TLeaf z _ => VAtom z
  | TUnm _ z => VAtom z
  | TSeq k l => VSeq k (map eval l)
  end.
Fixpoint eval_r (r : rtree) : val :=
  match r with
  | RKeep t => eval t
  | RGen v => v
  | RSeq k l => VSeq k (map eval_r l)
  end.
(* is every leaf written the way inline-snapshot would write it? *)
Fixpoint canonical (t : tree) : bool :=
  match t with
  | TLeaf _ c => c
  | TUnm _ _ => true                     (* update never applies to it *)
  | TSeq _ l => forallb canonical l
  end.

(* old_value_element == new_value_element *)
Definition elt_eqb (o : tree) (n : val) : bool := val_eqb (eval o) n.
Definition script (olds : list tree) (news : list val) : list dir := add_x (align tree val elt_eqb olds news).

(* ValueAdapter.assign: a node as a whole *)
Definition is_unm (o : tree) : bool := match o with TUnm _ _ => true | _ => false end.
(* contains_unmanaged: a user-controlled part anywhere in the expression *)
Fixpoint has_unm (o : tree) : bool :=
  match o with TLeaf _ _ => false | TUnm _ _ => true | TSeq _ l => existsb has_unm l end.
Definition value_assign (F : flags) (o : tree) (n : val) : rtree :=
  if is_unm o then RKeep o                (* `if isinstance(old_value, Unmanaged): return old_value` *)
  else if negb (val_eqb (eval o) n) then (if f_fix F then RGen n else RKeep o)
  else if negb (canonical o) && f_update F then RGen n else RKeep o.

Fixpoint assign (fuel : nat) (F : flags) (o : tree) (n : val) {struct fuel} : rtree :=
  match fuel with
  | O => RKeep o
  | S f =>
    match o, n with
    | TSeq k olds, VSeq k' news =>
        if skind_eqb k k' then
          RSeq k
            ((fix walk (s : list dir) (os : list tree) (ns : list val) {struct s} : list rtree :=
                match s with
                | [] => []
                | (Dm | Dx) :: s' =>
                    match os, ns with
                    | o' :: os', n' :: ns' => assign f F o' n' :: walk s' os' ns'
                    | _, _ => []
                    end
                | Di :: s' =>
                    match ns with
                    | n' :: ns' => (if f_fix F then [RGen n'] else []) ++ walk s' os ns'
                    | [] => []
                    end
                | Dd :: s' =>
                    match os with
                    | o' :: os' => (if f_fix F then [] else [RKeep o']) ++ walk s' os' ns
                    | [] => []
                    end
                | De :: _ => []
                end) (script olds news) olds news)
        else value_assign F o n             (* type(old) is not type(new): ValueAdapter *)
    | _, _ => value_assign F o n
    end
  end.

Fixpoint depth (t : tree) : nat :=
  match t with
  | TLeaf _ _ => 0%nat
  | TUnm _ _ => 0%nat
  | TSeq _ l => S (fold_right (fun x a => Nat.max (depth x) a) 0%nat l)
  end.
(* enough fuel for every tree *)
Definition assign_tree (F : flags) (o : tree) (n : val) : rtree := assign (S (depth o)) F o n.
