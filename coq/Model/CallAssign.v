(* Model of GenericCallAdapter.assign (src/inline_snapshot/_adapter/generic_call_adapter.py:116-262) for the keyword-style adapters
   shipped with inline-snapshot (dataclasses, attrs, pydantic: `arguments()` returns NO positional arguments and one keyword
   argument per field, flagged `is_default` when the value equals the field's default; namedtuples: the default-valued fields
   are left out instead, which assign treats like `is_default` - fd_default covers both), together with the
   order in which _change.apply_all / generic_sequence_update place inserted arguments (_change.py:268-315):
     - every positional argument of the old call is deleted (category fix): its field comes back as a keyword argument;
     - an old keyword argument whose field now holds its default is deleted - category update when its value is unchanged,
       fix otherwise - unless the user controls it (Is(...), ...), then it stays;
     - the fields of the new value are walked in THEIR order, defaults skipped: fields the old call has no keyword for are
       collected and inserted (category fix) at `insert_pos`, an index into (positional ++ keyword) arguments of the OLD call:
       it starts behind the positional arguments and moves behind each matched keyword (so a group of new keywords
       lands directly behind the last matched keyword before it, in front of keywords that are deleted in the same run);
       matched keywords are assigned in place by the adapter of their value (Model/TreeAssign.v: nested lists / tuples).
   The result is the list of arguments in text order.
   Modelled scope: every keyword of the old call names a field shown by repr; no star-arguments; adapters without
   positional `arguments()` (defaultdict(factory, {...}) has two positional ones and no keywords: its dict argument is
   Model/DictAssign.v).  Executable definitions only. *)
From Coq Require Import List ZArith Bool Arith.
Import ListNotations.
From V Require Import Model.SnapOps Model.TreeAssign.

(* one field of the newly observed object, in declaration order *)
Record field := { fd_name : Z; fd_val : val; fd_default : bool }.
Record call := { c_pos : list tree; c_kws : list (Z * tree) }.
Inductive citem := CPos (r : rtree) | CKw (k : Z) (r : rtree).

Fixpoint find_field (k : Z) (fs : list field) : option field :=
  match fs with
  | [] => None
  | f :: r => if Z.eqb k (fd_name f) then Some f else find_field k r
  end.
(* old_kwarg_pos[key] *)
Fixpoint kw_index (k : Z) (kws : list (Z * tree)) : option nat :=
  match kws with
  | [] => None
  | (k', _) :: r => if Z.eqb k k' then Some 0%nat else option_map S (kw_index k r)
  end.

Definition flush (pending : list (Z * val)) (pos : nat) : list (nat * list (Z * val)) :=
  match pending with [] => [] | _ => [(pos, rev pending)] end.

(* walking the fields of the new value: groups of inserted keywords with their positions; `pending` in reverse; p = number of
   positional arguments of the old call (CallArg.arg_pos counts them too) *)
Fixpoint cinserts (p : nat) (kws : list (Z * tree)) (fs : list field) (pending : list (Z * val)) (pos : nat) : list (nat * list (Z * val)) :=
  match fs with
  | [] => flush pending pos
  | f :: r =>
      if fd_default f then cinserts p kws r pending pos
      else match kw_index (fd_name f) kws with
           | None => cinserts p kws r ((fd_name f, fd_val f) :: pending) pos
           | Some i => flush pending pos ++ cinserts p kws r [] (p + S i)
           end
  end.

Definition cgens (l : list (Z * val)) : list citem := map (fun kv => CKw (fst kv) (RGen (snd kv))) l.
Definition cinserted_at (ins : list (nat * list (Z * val))) (i : nat) : list citem :=
  flat_map (fun g => if Nat.eqb (fst g) i then cgens (snd g) else []) ins.

(* an old positional argument: Delete, category fix *)
Definition assign_pos (F : flags) (t : tree) : list citem := if f_fix F then [] else [CPos (RKeep t)].

(* an old keyword argument *)
Definition assign_kw (F : flags) (fs : list field) (kt : Z * tree) : list citem :=
  let (k, t) := kt in
  match find_field k fs with
  | None => if f_fix F then [] else [CKw k (RKeep t)]               (* outside the modelled scope *)
  | Some f =>
      if fd_default f then
        if has_unm t then [CKw k (RKeep t)]       (* an argument that holds a user-controlled part is never deleted *)
        else if val_eqb (eval t) (fd_val f)
             then (if f_update F then [] else [CKw k (RKeep t)])
             else (if f_fix F then [] else [CKw k (RKeep t)])
      else [CKw k (assign_tree F t (fd_val f))]
  end.

Definition assign_el (F : flags) (fs : list field) (e : tree + Z * tree) : list citem :=
  match e with inl t => assign_pos F t | inr kt => assign_kw F fs kt end.

Fixpoint cplace (F : flags) (ins : list (nat * list (Z * val))) (fs : list field) (i : nat) (els : list (tree + Z * tree)) : list citem :=
  match els with
  | [] => if f_fix F then cinserted_at ins i else []
  | e :: r => (if f_fix F then cinserted_at ins i else []) ++ assign_el F fs e ++ cplace F ins fs (S i) r
  end.

Definition elements (c : call) : list (tree + Z * tree) := map inl (c_pos c) ++ map inr (c_kws c).
Definition call_result (F : flags) (c : call) (fs : list field) : list citem :=
  cplace F (cinserts (length (c_pos c)) (c_kws c) fs [] (length (c_pos c))) fs 0 (elements c).
