(* Model of the code representation of nested values and of the part of Python's expression grammar that reads it back.

   repr_toks mirrors, at token level, what inline_snapshot._utils.value_to_token produces for a value:
     - SequenceAdapter.repr  (list / tuple displays, `(x,)` for a 1-tuple)            _adapter/sequence_adapter.py:24-30
     - DictAdapter.repr      (`{k: v, ...}`)                                          _adapter/dict_adapter.py
     - set / frozenset       (`{a, b}`, `set()`, `frozenset({a, b})`, `frozenset()`)   _code_repr.py:137-153
     - Enum members, classes (`E.a`, qualified names)                                 _code_repr.py:106-110,156-158
     - dataclass / attrs / pydantic / namedtuple / defaultdict / external / HasRepr   (`f(a, b, k=v)`)  generic_call_adapter.py
     - int (a negative number is the two tokens `-` `n`), None, True, False, str and bytes literals (one token each; the
       text of the literal and its decoding are the subject of Model/StrLit.v)
   `parse` is a recursive-descent reader for exactly this subset of Python's grammar (atoms, displays with optional
   trailing comma, parenthesised expressions, attribute references, calls with positional and keyword arguments).
   The order of set elements is chosen by the caller (Model/SortSet.v).  Executable definitions only. *)
From Coq Require Import List ZArith NArith Bool Arith.
Import ListNotations.

Inductive tok :=
| TNm (n : nat)        (* identifier; 0 = None, 1 = True, 2 = False; every other id is an ordinary name *)
| TNum (n : N)         (* non-negative integer literal *)
| TS (s : list N)      (* str literal, by its value *)
| TB (s : list N)      (* bytes literal, by its value *)
| LB | RB | LP | RP | LC | RC | CM | CL | DOT | MINUS | EQ.

Inductive pv :=
| VNone | VTrue | VFalse
| VInt (z : Z)
| VStr (s : list N) | VBytes (s : list N)
| VList (l : list pv) | VTuple (l : list pv)
| VDict (kvs : list (pv * pv))
| VSet (l : list pv)                                   (* non-empty set display *)
| VName (hd : nat) (path : list nat)                  (* hd.p1.p2... *)
| VCall (hd : nat) (path : list nat) (args : list pv) (kw : list (nat * pv)).

Fixpoint cps_eqb (l m : list N) : bool :=
  match l, m with [], [] => true | u :: l', w :: m' => N.eqb u w && cps_eqb l' m' | _, _ => false end.
Definition tok_eqb (a b : tok) : bool :=
  match a, b with
  | TNm x, TNm y => Nat.eqb x y
  | TNum x, TNum y => N.eqb x y
  | TS x, TS y | TB x, TB y => cps_eqb x y
  | LB, LB | RB, RB | LP, LP | RP, RP | LC, LC | RC, RC | CM, CM | CL, CL | DOT, DOT | MINUS, MINUS | EQ, EQ => true
  | _, _ => false
  end.

(* ------------------------------------------------------------------------- value -> tokens *)
Definition int_toks (z : Z) : list tok :=
  if (z <? 0)%Z then [MINUS; TNum (Z.to_N (- z))] else [TNum (Z.to_N z)].
Definition path_toks (p : list nat) : list tok := flat_map (fun n => [DOT; TNm n]) p.

Section Sep.
Variable X : Type.
Variable f : X -> list tok.
(* ", ".join(map(f, l)) *)
Fixpoint sep (l : list X) : list tok :=
  match l with
  | [] => []
  | [x] => f x
  | x :: r => f x ++ CM :: sep r
  end.
End Sep.

Fixpoint repr_toks (v : pv) : list tok :=
  match v with
  | VNone => [TNm 0] | VTrue => [TNm 1] | VFalse => [TNm 2]
  | VInt z => int_toks z
  | VStr s => [TS s] | VBytes s => [TB s]
  | VList l => LB :: sep pv repr_toks l ++ [RB]
  | VTuple [x] => LP :: repr_toks x ++ [CM; RP]
  | VTuple l => LP :: sep pv repr_toks l ++ [RP]
  | VDict kvs => LC :: sep (pv * pv) (fun kv => repr_toks (fst kv) ++ CL :: repr_toks (snd kv)) kvs ++ [RC]
  | VSet l => LC :: sep pv repr_toks l ++ [RC]
  | VName h p => TNm h :: path_toks p
  | VCall h p args kw =>
      TNm h :: path_toks p ++ LP ::
        sep (list tok) (fun x => x) (map repr_toks args ++ map (fun nv => TNm (fst nv) :: EQ :: repr_toks (snd nv)) kw)
        ++ [RP]
  end.

(* ------------------------------------------------------------------------- tokens -> value *)
Inductive mode :=
| MExpr
| MItems (close : tok)      (* expr, expr, ... [,] close *)
| MPairs                    (* expr: expr, ... [,] RC *)
| MArgs (kwonly : bool).    (* expr, ..., name=expr, ... [,] RP *)

Inductive res :=
| RE (v : pv)
| RL (l : list pv)
| RPairs (l : list (pv * pv))
| RArgs (a : list pv) (k : list (nat * pv)).

Fixpoint dots (ts : list tok) : list nat * list tok :=
  match ts with
  | DOT :: TNm n :: r => let (p, r') := dots r in (n :: p, r')
  | _ => ([], ts)
  end.

Definition starts (t : tok) (ts : list tok) : bool := match ts with x :: _ => tok_eqb x t | [] => false end.
Definition is_kw (ts : list tok) : option (nat * list tok) :=
  match ts with TNm n :: EQ :: r => Some (n, r) | _ => None end.

Fixpoint p (fuel : nat) (m : mode) (ts : list tok) {struct fuel} : option (res * list tok) :=
  match fuel with
  | O => None
  | S f =>
    match m with
    | MExpr =>
        match ts with
        | TNm 0 :: r => Some (RE VNone, r)
        | TNm 1 :: r => Some (RE VTrue, r)
        | TNm 2 :: r => Some (RE VFalse, r)
        | TNum n :: r => Some (RE (VInt (Z.of_N n)), r)
        | MINUS :: TNum n :: r => Some (RE (VInt (- Z.of_N n)), r)
        | TS s :: r => Some (RE (VStr s), r)
        | TB s :: r => Some (RE (VBytes s), r)
        | LB :: r =>
            match p f (MItems RB) r with
            | Some (RL l, r') => Some (RE (VList l), r')
            | _ => None
            end
        | LP :: r =>
            if starts RP r then Some (RE (VTuple []), tl r) else
            match p f MExpr r with
            | Some (RE x, CM :: r1) =>
                match p f (MItems RP) r1 with
                | Some (RL l, r2) => Some (RE (VTuple (x :: l)), r2)
                | _ => None
                end
            | Some (RE x, RP :: r1) => Some (RE x, r1)           (* parenthesised expression *)
            | _ => None
            end
        | LC :: r =>
            if starts RC r then Some (RE (VDict []), tl r) else
            match p f MExpr r with
            | Some (RE k, CL :: r1) =>
                match p f MExpr r1 with
                | Some (RE v, CM :: r2) =>
                    match p f MPairs r2 with
                    | Some (RPairs l, r3) => Some (RE (VDict ((k, v) :: l)), r3)
                    | _ => None
                    end
                | Some (RE v, RC :: r2) => Some (RE (VDict [(k, v)]), r2)
                | _ => None
                end
            | Some (RE x, CM :: r1) =>
                match p f (MItems RC) r1 with
                | Some (RL l, r2) => Some (RE (VSet (x :: l)), r2)
                | _ => None
                end
            | Some (RE x, RC :: r1) => Some (RE (VSet [x]), r1)
            | _ => None
            end
        | TNm h :: r =>
            let (path, r1) := dots r in
            match r1 with
            | LP :: r2 =>
                match p f (MArgs false) r2 with
                | Some (RArgs a k, r3) => Some (RE (VCall h path a k), r3)
                | _ => None
                end
            | _ => Some (RE (VName h path), r1)
            end
        | _ => None
        end
    | MItems close =>
            if starts close ts then Some (RL [], tl ts)
            else match p f MExpr ts with
                 | Some (RE x, CM :: r1) =>
                     match p f (MItems close) r1 with
                     | Some (RL l, r2) => Some (RL (x :: l), r2)
                     | _ => None
                     end
                 | Some (RE x, t2 :: r1) => if tok_eqb t2 close then Some (RL [x], r1) else None
                 | _ => None
                 end
    | MPairs =>
        if starts RC ts then Some (RPairs [], tl ts) else
            match p f MExpr ts with
            | Some (RE k, CL :: r1) =>
                match p f MExpr r1 with
                | Some (RE v, CM :: r2) =>
                    match p f MPairs r2 with
                    | Some (RPairs l, r3) => Some (RPairs ((k, v) :: l), r3)
                    | _ => None
                    end
                | Some (RE v, RC :: r2) => Some (RPairs [(k, v)], r2)
                | _ => None
                end
            | _ => None
            end
    | MArgs kwonly =>
        if starts RP ts then Some (RArgs [] [], tl ts) else
        match is_kw ts with
        | Some (n, r) =>
            match p f MExpr r with
            | Some (RE v, CM :: r1) =>
                match p f (MArgs true) r1 with
                | Some (RArgs [] k, r2) => Some (RArgs [] ((n, v) :: k), r2)
                | _ => None
                end
            | Some (RE v, RP :: r1) => Some (RArgs [] [(n, v)], r1)
            | _ => None
            end
        | None =>
            if kwonly then None
            else match p f MExpr ts with
                 | Some (RE x, CM :: r1) =>
                     match p f (MArgs false) r1 with
                     | Some (RArgs a k, r2) => Some (RArgs (x :: a) k, r2)
                     | _ => None
                     end
                 | Some (RE x, RP :: r1) => Some (RArgs [x] [], r1)
                 | _ => None
                 end
        end
    end
  end.

Definition parse (ts : list tok) : option pv :=
  match p (S (2 * length ts)) MExpr ts with
  | Some (RE v, []) => Some v
  | _ => None
  end.

(* ------------------------------------------------------------------------- well-formed values (what repr produces) *)
Definition name_ok (h : nat) : bool := 3 <=? h.
Fixpoint wf (v : pv) : bool :=
  match v with
  | VList l | VTuple l => forallb wf l
  | VDict kvs => forallb (fun kv => wf (fst kv) && wf (snd kv)) kvs
  | VSet l => negb (match l with [] => true | _ => false end) && forallb wf l
  | VName h _ => name_ok h
  | VCall h _ a k => name_ok h && forallb wf a && forallb (fun nv => wf (snd nv)) k
  | _ => true
  end.

(* structural equality, for the correspondence shards *)
Fixpoint pv_eqb (a b : pv) {struct a} : bool :=
  let fix leq (l m : list pv) : bool :=
    match l, m with
    | [], [] => true
    | x :: l', y :: m' => pv_eqb x y && leq l' m'
    | _, _ => false
    end in
  match a, b with
  | VNone, VNone | VTrue, VTrue | VFalse, VFalse => true
  | VInt x, VInt y => Z.eqb x y
  | VStr x, VStr y | VBytes x, VBytes y => (fix e (l m : list N) := match l, m with [], [] => true | u :: l', w :: m' => N.eqb u w && e l' m' | _, _ => false end) x y
  | VList x, VList y | VTuple x, VTuple y | VSet x, VSet y => leq x y
  | VDict x, VDict y =>
      (fix deq (l m : list (pv * pv)) : bool :=
         match l, m with
         | [], [] => true
         | (k1, v1) :: l', (k2, v2) :: m' => pv_eqb k1 k2 && pv_eqb v1 v2 && deq l' m'
         | _, _ => false
         end) x y
  | VName h1 p1, VName h2 p2 => Nat.eqb h1 h2 && (fix e (l m : list nat) := match l, m with [], [] => true | u :: l', w :: m' => Nat.eqb u w && e l' m' | _, _ => false end) p1 p2
  | VCall h1 p1 a1 k1, VCall h2 p2 a2 k2 =>
      Nat.eqb h1 h2 && (fix e (l m : list nat) := match l, m with [], [] => true | u :: l', w :: m' => Nat.eqb u w && e l' m' | _, _ => false end) p1 p2
      && leq a1 a2
      && (fix keq (l m : list (nat * pv)) : bool :=
            match l, m with
            | [], [] => true
            | (n1, v1) :: l', (n2, v2) :: m' => Nat.eqb n1 n2 && pv_eqb v1 v2 && keq l' m'
            | _, _ => false
            end) k1 k2
  | _, _ => false
  end.
