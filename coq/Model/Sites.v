(* Model of the table of call sites: _inline_snapshot.snapshot (lookup-or-insert by the key
   (id(code), f_lasti)) and GenericValue._re_eval (the hand-written argument must evaluate to the
   same value on every evaluation).  Keys are integers; `olds k` is the source of site k.
   Executable definitions only. *)
From Coq Require Import List ZArith Bool.
Import ListNotations.
From V Require Import Model.SnapOps.
Open Scope Z_scope.

Definition table := list (Z * site).

Definition get_site (olds : Z -> option src) (t : table) (k : Z) : site :=
  match assoc k t with Some s => s | None => fresh (olds k) end.

(* one evaluation of call site k followed by the comparison o on what it returned *)
Definition tstep (fixed : bool) (F : flags) (olds : Z -> option src) (t : table) (ko : Z * op) (c : counters)
  : table * result * counters :=
  let '(k, o) := ko in
  let '(s', r, c') := step fixed F (get_site olds t k) o c in
  (assoc_set k s' t, r, c').

Fixpoint trun (fixed : bool) (F : flags) (olds : Z -> option src) (t : table) (tr : list (Z * op)) (c : counters)
  : table * list result * counters :=
  match tr with
  | [] => (t, [], c)
  | ko :: r => let '(t1, x, c1) := tstep fixed F olds t ko c in
               let '(t2, xs, c2) := trun fixed F olds t1 r c1 in (t2, x :: xs, c2)
  end.

(* the part of a trace that belongs to site k *)
Definition proj (k : Z) (tr : list (Z * op)) : list op :=
  map snd (filter (fun ko => fst ko =? k) tr).

(* results of a trace restricted to the positions of site k *)
Fixpoint proj_results (k : Z) (tr : list (Z * op)) (rs : list result) : list result :=
  match tr, rs with
  | ko :: tr', r :: rs' => if fst ko =? k then r :: proj_results k tr' rs' else proj_results k tr' rs'
  | _, _ => []
  end.

(* --- re-evaluation of the argument: Python == on plain values --- *)
Fixpoint pv_eqb (a b : pv) {struct a} : bool :=
  match a, b with
  | PAtom x, PAtom y => x =? y
  | PList x, PList y =>
      (fix go (l m : list Z) : bool :=
         match l, m with [], [] => true | u :: l', w :: m' => (u =? w) && go l' m' | _, _ => false end) x y
  | PDict x, PDict y =>
      (fix go (l : list (Z * pv)) (m : list (Z * pv)) : bool :=
         match l, m with
         | [], [] => true
         | (k, v) :: r, (k', v') :: r' => (k =? k') && pv_eqb v v' && go r r'
         | _, _ => false
         end) x y
  | _, _ => false
  end.

Inductive eval_result := EvalOk (t : table) | UsageError.

(* evaluating call site k whose argument now evaluates to `now` *)
Definition eval_site (t : table) (k : Z) (first : option src) (now : option pv) : eval_result :=
  match assoc k t with
  | None => EvalOk (assoc_set k (fresh first) t)
  | Some (Site _ old _ _ _) =>
      match old, now with
      | Some o, Some v => if pv_eqb (src_val o) v then EvalOk t else UsageError
      | None, None => EvalOk t
      | _, _ => UsageError
      end
  end.
