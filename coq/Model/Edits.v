(* Model of where _change.apply_all (src/inline_snapshot/_change.py:217-354) writes: the replacement RANGES produced for one snapshot argument by a set of
   changes - Replace of a node, and for every list / tuple / dict display or call with deleted or inserted elements ONE call of generic_sequence_update,
   which replaces the spans between consecutive KEPT elements (and the span behind the last kept one).
   A node carries its identity, its own range [s, e) (what Replace covers; for a container b is the position behind its opening brace - `[`, `(`, `{` at s for
   displays, the `(` behind the callee for calls - and ce the position of its closing brace) and its range as an
   ELEMENT of its parent [es, ee) (including a dict key or keyword name in front and redundant parentheses around: first_token .. last_token of
   list_token_range / arg_token_range / dict_token_range); es <= s < e <= ee.  Positions are only COMPARED (the code uses (line, column) pairs ordered
   lexicographically), so any order-preserving numbering of the positions of a file will do.
   Executable definitions only. *)
From Coq Require Import List Arith Bool.
Import ListNotations.

Inductive node := Node (id es s b ce e ee : nat) (kids : list node).
Definition nid (n : node) := match n with Node i _ _ _ _ _ _ _ => i end.
Definition n_es (n : node) := match n with Node _ x _ _ _ _ _ _ => x end.
Definition n_s (n : node) := match n with Node _ _ x _ _ _ _ _ => x end.
Definition n_b (n : node) := match n with Node _ _ _ x _ _ _ _ => x end.
Definition n_ce (n : node) := match n with Node _ _ _ _ x _ _ _ => x end.
Definition n_e (n : node) := match n with Node _ _ _ _ _ x _ _ => x end.
Definition n_ee (n : node) := match n with Node _ _ _ _ _ _ x _ => x end.
Definition n_kids (n : node) := match n with Node _ _ _ _ _ _ _ k => k end.

(* the changes that are applied (after without_obsolete_changes): nodes replaced, nodes deleted from their container, number of new elements inserted into
   container p in front of its element number i (i = number of elements: behind the last one) *)
Record cset := { rep : nat -> bool; del : nat -> bool; ins : nat -> nat -> nat }.

Definition range := (nat * nat)%type.

(* generic_sequence_update: last = end of the last kept element (or of the opening brace), pend = deleted or new_code, nc = len(new_code), elems = elements *)
Fixpoint gaps (insp : nat -> nat) (delb : node -> bool) (last : nat) (deleted : bool) (nc elems i : nat) (kids : list node) (hi total : nat) : list range :=
  match kids with
  | [] =>
      let nc' := nc + insp i in
      let elems' := if Nat.eqb (insp i) 0 then elems else elems + nc' in
      if negb (Nat.eqb nc' 0) || deleted || Nat.eqb elems' 1 || Nat.leb total 1 then [(last, hi)] else []
  | k :: r =>
      let nc' := nc + insp i in
      if delb k then gaps insp delb last true nc' elems (S i) r hi total
      else (if deleted || negb (Nat.eqb nc' 0) then [(last, n_es k)] else [])
           ++ gaps insp delb (n_ee k) false 0 (elems + nc' + 1) (S i) r hi total
  end.

Fixpoint any_ins (insp : nat -> nat) (n : nat) : bool :=
  match n with O => negb (Nat.eqb (insp 0) 0) | S m => negb (Nat.eqb (insp (S m)) 0) || any_ins insp m end.
(* the container takes part in apply_all's by_parent: some element deleted or something inserted *)
Definition touched (c : cset) (id : nat) (kids : list node) : bool :=
  existsb (fun k => del c (nid k)) kids || any_ins (ins c id) (length kids).

Fixpoint ranges (c : cset) (n : node) : list range :=
  match n with
  | Node id es s b ce e ee kids =>
      (if rep c id then [(s, e)] else [])
      ++ (if touched c id kids then gaps (ins c id) (fun k => del c (nid k)) b false 0 0 0 kids ce (length kids) else [])
      ++ flat_map (ranges c) kids
  end.

(* SourceFile._check on offsets: every range is well-formed and no two overlap *)
Definition sep (a b : range) : Prop := snd a <= fst b \/ snd b <= fst a.
Fixpoint Disj (l : list range) : Prop := match l with [] => True | a :: r => Forall (sep a) r /\ Disj r end.
Definition wfr (a : range) : Prop := fst a <= snd a.

(* well-formed trees: es <= s < b <= e <= ee, ce <= e, elements in order between the braces *)
Fixpoint ordered (lo : nat) (kids : list node) (hi : nat) : Prop :=
  match kids with
  | [] => True
  | k :: r => lo <= n_es k /\ n_ee k <= hi /\ ordered (n_ee k) r hi
  end.
Definition allP (P : node -> Prop) : list node -> Prop := fix go (l : list node) : Prop := match l with [] => True | k :: r => P k /\ go r end.
Fixpoint wf (n : node) : Prop :=
  match n with
  | Node id es s b ce e ee kids => es <= s /\ s < b /\ b <= e /\ ce <= e /\ e <= ee /\ ordered b kids ce /\ allP wf kids
  end.

(* what without_obsolete_changes guarantees (Model/Obsolete.v, no_change_inside_removed_node): a node that is deleted or replaced has no further change on it
   or below it *)
Definition silent (c : cset) (n : node) : Prop := ranges c n = [].
Fixpoint inv (c : cset) (n : node) : Prop :=
  match n with
  | Node id es s b ce e ee kids =>
      (rep c id = true -> touched c id kids = false /\ Forall (silent c) kids) /\
      (touched c id kids = true -> b <= ce) /\                 (* only displays and calls (two braces) get elements inserted or deleted *)
      allP (fun k => (del c (nid k) = true -> silent c k) /\ inv c k) kids
  end.

(* ---- the same as executable predicates (evaluated on every case of the correspondence) ---- *)
Definition allb (P : node -> bool) : list node -> bool := fix go (l : list node) : bool := match l with [] => true | k :: r => P k && go r end.
Fixpoint orderedb (lo : nat) (kids : list node) (hi : nat) : bool :=
  match kids with
  | [] => true
  | k :: r => Nat.leb lo (n_es k) && Nat.leb (n_ee k) hi && orderedb (n_ee k) r hi
  end.
Fixpoint wfb (n : node) : bool :=
  match n with
  | Node id es s b ce e ee kids => Nat.leb es s && Nat.ltb s b && Nat.leb b e && Nat.leb ce e && Nat.leb e ee && orderedb b kids ce && allb wfb kids
  end.
Definition silentb (c : cset) (n : node) : bool := match ranges c n with [] => true | _ => false end.
Fixpoint invb (c : cset) (n : node) : bool :=
  match n with
  | Node id es s b ce e ee kids =>
      (if rep c id then negb (touched c id kids) && forallb (silentb c) kids else true)
      && (if touched c id kids then Nat.leb b ce else true)
      && allb (fun k => (if del c (nid k) then silentb c k else true) && invb c k) kids
  end.

(* sorting ranges for comparison with what the implementation recorded *)
Definition range_leb (a b : range) : bool := Nat.ltb (fst a) (fst b) || (Nat.eqb (fst a) (fst b) && Nat.leb (snd a) (snd b)).
Fixpoint insert_r (x : range) (l : list range) : list range :=
  match l with [] => [x] | y :: r => if range_leb x y then x :: l else y :: insert_r x r end.
Definition sort_r (l : list range) : list range := fold_right insert_r [] l.
(* SourceFile._check on the sorted ranges *)
Fixpoint pairwise_okb (l : list range) : bool :=
  match l with a :: ((b :: _) as r) => Nat.leb (snd a) (fst b) && pairwise_okb r | _ => true end.
