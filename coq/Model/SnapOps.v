(* Model of one snapshot() call site: src/inline_snapshot/_snapshot/*.py and
   _inline_snapshot.SnapshotReference._changes, on a small value universe:
   atoms are integers; `in` snapshots hold lists of atoms; `[k]` snapshots hold dicts with
   integer keys whose values are again snapshot sources.  Every leaf of a source carries a
   flag `canon` = "its source tokens equal the tokens inline-snapshot would generate"
   (e.g. `5` is canonical, `2+3` is not).  Container-valued `==` snapshots are the subject
   of Model/Assign.v, not of this file.

   `fixed` selects the repaired tree (true) or the pinned tree (false) for the defects
   F-02 (bound / membership failures not counted under fix|update) and
   F-10 (changes of a site whose first comparison never completed).
   Executable definitions only. *)
From Coq Require Import List ZArith Bool.
Import ListNotations.
Open Scope Z_scope.

Record flags := { f_create : bool; f_fix : bool; f_trim : bool; f_update : bool }.
Record counters := { missing : nat; incorrect : nat }.
Definition inc_missing c := {| missing := S (missing c); incorrect := incorrect c |}.
Definition inc_incorrect c := {| missing := missing c; incorrect := S (incorrect c) |}.
Definition zero := {| missing := 0; incorrect := 0 |}.

Inductive cat := Create | Fix | Trim | Update.
Definition cat_eqb (a b : cat) : bool :=
  match a, b with Create, Create | Fix, Fix | Trim, Trim | Update, Update => true | _, _ => false end.
Definition approved (F : flags) (c : cat) : bool :=
  match c with Create => f_create F | Fix => f_fix F | Trim => f_trim F | Update => f_update F end.

(* what is written between the parentheses *)
Inductive src :=
| SAtom (z : Z) (canon : bool)
| SList (l : list (Z * bool))
| SDict (kvs : list (Z * src)).

(* plain values *)
Inductive pv :=
| PAtom (z : Z)
| PList (l : list Z)
| PDict (kvs : list (Z * pv)).

Fixpoint src_val (s : src) : pv :=
  match s with
  | SAtom z _ => PAtom z
  | SList l => PList (map fst l)
  | SDict kvs => PDict ((fix go (l : list (Z * src)) := match l with [] => [] | (k, v) :: r => (k, src_val v) :: go r end) kvs)
  end.

Inductive kind := KUndecided | KEq | KMin | KMax | KColl | KDict.
Definition kind_eqb (a b : kind) : bool :=
  match a, b with
  | KUndecided, KUndecided | KEq, KEq | KMin, KMin | KMax, KMax | KColl, KColl | KDict, KDict => true
  | _, _ => false
  end.

(* one call site (or sub-snapshot).  newv: _new_value of ==,<=,>= ; coll: _new_value of `in`
   ([] = undefined) ; children: _new_value of [k] in insertion order ([] = undefined) *)
Inductive site :=
| Site (k : kind) (old : option src) (newv : option Z) (coll : list Z) (children : list (Z * site)).

Definition fresh (old : option src) : site := Site KUndecided old None [] [].

Inductive op := OEq (x : Z) | OMin (x : Z) | OMax (x : Z) | OIn (x : Z) | OGet (k : Z) (o : op).
(*  OEq x : x == s        OMin x : x >= s  (s <= x, MinValue)      OMax x : x <= s  (MaxValue)
    OIn x : x in s        OGet k o : the operation o on s[k] *)

Inductive result := RBool (b : bool) | RTypeError | ROther.

Definition op_kind (o : op) : kind :=
  match o with OEq _ => KEq | OMin _ => KMin | OMax _ => KMax | OIn _ => KColl | OGet _ _ => KDict end.

(* GenericValue._return *)
Definition ret (F : flags) (old_defined result new_result : bool) (c : counters) : bool * counters :=
  (if f_fix F || f_create F || f_update F || negb old_defined then new_result else result,
   if result then c else inc_incorrect c).

Definition ignore_old_value (F : flags) := f_fix F || f_update F.
Definition ignore_old (F : flags) (old_defined : bool) := f_fix F || f_update F || f_create F || negb old_defined.

Definition cmp_of (k : kind) (a b : Z) : bool :=
  match k with KMin => a <=? b | _ => b <=? a end.     (* MinValue.cmp a b = a <= b ; MaxValue.cmp a b = a >= b *)

Fixpoint zmem (x : Z) (l : list Z) : bool := match l with [] => false | y :: r => (x =? y) || zmem x r end.
Fixpoint assoc {X} (k : Z) (l : list (Z * X)) : option X :=
  match l with [] => None | (k', v) :: r => if k =? k' then Some v else assoc k r end.
Fixpoint assoc_set {X} (k : Z) (v : X) (l : list (Z * X)) : list (Z * X) :=
  match l with
  | [] => [(k, v)]
  | (k', v') :: r => if k =? k' then (k, v) :: r else (k', v') :: assoc_set k v r
  end.

Section Fixed.
Variable fixed : bool.

Fixpoint step (F : flags) (s : site) (o : op) (c : counters) {struct o} : site * result * counters :=
  match s with
  | Site k old nv coll ch =>
    if negb (kind_eqb k KUndecided) && negb (kind_eqb k (op_kind o)) then (s, RTypeError, c)
    else
    let k' := op_kind o in
    let old_defined := match old with Some _ => true | None => false end in
    match o with
    | OEq x =>
        (* EqValue.__eq__ ; old must be an atom (or missing) in this model *)
        match old with
        | Some (SList _) | Some (SDict _) => (s, ROther, c)
        | _ =>
          let c1 := if old_defined then c else inc_missing c in
          let nv' := match nv with None => Some x | Some n => Some n end in
          let old_eq := match old with Some (SAtom z _) => z =? x | _ => false end in
          let new_eq := match nv' with Some n => n =? x | None => false end in
          let '(r, c2) := ret F old_defined old_eq new_eq c1 in
          (Site k' old nv' coll ch, RBool r, c2)
        end
    | OMin x | OMax x =>
        match old with
        | Some (SList _) | Some (SDict _) => (s, ROther, c)
        | _ =>
          let cmp := cmp_of k' in
          let c1 := if old_defined then c else inc_missing c in
          let oz := match old with Some (SAtom z _) => z | _ => 0 end in
          match nv with
          | None =>
              let s' := Site k' old (Some x) coll ch in
              if negb old_defined then (s', RBool true, c1)
              else if negb fixed && ignore_old_value F then (s', RBool true, c1)       (* pinned tree: F-02 *)
              else let '(r, c2) := ret F true (cmp oz x) true c1 in (s', RBool r, c2)
          | Some n =>
              let n' := if cmp n x then n else x in
              let s' := Site k' old (Some n') coll ch in
              let visible := if ignore_old F old_defined then n' else oz in
              if fixed then
                if negb old_defined then (s', RBool true, c1)
                else let '(r, c2) := ret F true (cmp oz x) (cmp visible x) c1 in (s', RBool r, c2)
              else
                let '(r, c2) := ret F old_defined (cmp visible x) true c1 in (s', RBool r, c2)
          end
        end
    | OIn x =>
        match old with
        | Some (SAtom _ _) | Some (SDict _) => (s, ROther, c)
        | _ =>
          let c1 := if old_defined then c else inc_missing c in
          let coll' := if zmem x coll then coll else coll ++ [x] in
          let s' := Site k' old nv coll' ch in
          let ol := match old with Some (SList l) => map fst l | _ => [] end in
          if negb old_defined then (s', RBool true, c1)
          else if negb fixed && ignore_old_value F then (s', RBool true, c1)           (* pinned tree: F-02 *)
          else let '(r, c2) := ret F true (zmem x ol) true c1 in (s', RBool r, c2)
        end
    | OGet key o' =>
        match old with
        | Some (SAtom _ _) | Some (SList _) => (s, ROther, c)
        | _ =>
          let okvs := match old with Some (SDict kvs) => kvs | _ => [] end in
          match assoc key ch with
          | Some child =>
              let '(child', r, c2) := step F child o' c in
              (Site k' old nv coll (assoc_set key child' ch), r, c2)
          | None =>
              let c1 := if old_defined then c else inc_missing c in
              let child := fresh (assoc key okvs) in
              let '(child', r, c2) := step F child o' c1 in
              (Site k' old nv coll (ch ++ [(key, child')]), r, c2)
          end
        end
    end
  end.
End Fixed.

Fixpoint run (fixed : bool) (F : flags) (s : site) (ops : list op) (c : counters) : site * list result * counters :=
  match ops with
  | [] => (s, [], c)
  | o :: r => let '(s1, x, c1) := step fixed F s o c in
              let '(s2, xs, c2) := run fixed F s1 r c1 in (s2, x :: xs, c2)
  end.

(* ---------------------------------------------------------------- changes and resulting value *)

(* is the site decided with a value to write? (UndecidedValue children are skipped by DictValue) *)
Definition decided (s : site) : bool :=
  match s with Site k _ _ _ _ => negb (kind_eqb k KUndecided) end.

(* _new_code() as a value: everything that was recorded, whatever the flags *)
Fixpoint new_value (s : site) : option pv :=
  match s with
  | Site k old nv coll ch =>
    match k with
    | KUndecided => None
    | KEq | KMin | KMax => match nv with Some n => Some (PAtom n) | None => None end
    | KColl => Some (PList coll)
    | KDict =>
        Some (PDict ((fix go (l : list (Z * site)) : list (Z * pv) :=
                match l with
                | [] => []
                | (key, child) :: r =>
                    match new_value child with
                    | Some v => (key, v) :: go r
                    | None => go r
                    end
                end) ch))
    end
  end.

(* UndecidedValue._get_changes: one update per non-canonical leaf *)
Fixpoint src_updates (o : src) : list cat :=
  match o with
  | SAtom _ canon => if canon then [] else [Update]
  | SList l => map (fun _ => Update) (filter (fun e => negb (snd e)) l)
  | SDict kvs =>
      (fix go (l : list (Z * src)) : list cat :=
         match l with
         | [] => []
         | (_, v) :: r => src_updates v ++ go r
         end) kvs
  end.

(* categories reported for a site = flags of the changes SnapshotReference._changes yields.
   `cats` returns them with multiplicity in order of generation. *)
Fixpoint cats (s : site) : list cat :=
  match s with
  | Site k old nv coll ch =>
    match old with
    | None =>
        (* no argument: a single create, if something was recorded *)
        match new_value s with
        | Some (PDict []) => match ch with [] => [] | _ => [Create] end
        | Some _ => match k, nv, coll with
                    | KColl, _, [] => []
                    | _, _, _ => [Create]
                    end
        | None => []
        end
    | Some o =>
      match k, o with
      | KUndecided, _ => src_updates o
      | KEq, SAtom z canon =>
          match nv with
          | Some n => if negb (z =? n) then [Fix] else if canon then [] else [Update]
          | None => []
          end
      | (KMin | KMax), SAtom z canon =>
          match nv with
          | Some n => if negb (cmp_of k z n) then [Fix]
                      else if negb (cmp_of k n z) then [Trim]
                      else if canon then [] else [Update]
          | None => []
          end
      | KColl, SList l =>
          flat_map (fun e : Z * bool => if negb (zmem (fst e) coll) then [Trim] else if snd e then @nil cat else [Update]) l
          ++ (match filter (fun v => negb (zmem v (map fst l))) coll with [] => [] | _ => [Fix] end)
      | KDict, SDict kvs =>
          let chcats := (fix gc (l : list (Z * site)) : list (Z * list cat) :=
                           match l with [] => [] | (key, child) :: r => (key, cats child) :: gc r end) ch in
          (fix go (l : list (Z * src)) : list cat :=
             match l with
             | [] => []
             | (key, v) :: r =>
                 match assoc key chcats with
                 | Some cs => cs ++ go r
                 | None => Trim :: go r
                 end
             end) kvs
          ++ (match filter (fun e => negb (match assoc (fst e) kvs with Some _ => true | None => false end)
                                     && decided (snd e)) ch with
              | [] => [] | _ => [Create] end)
      | _, _ => []
      end
    end
  end.

Definition has_cat (c : cat) (l : list cat) : bool := existsb (cat_eqb c) l.

(* the value between the parentheses after the approved categories have been applied
   (None = the call stays empty) *)
Fixpoint value_after (F : flags) (s : site) : option pv :=
  match s with
  | Site k old nv coll ch =>
    match old with
    | None => if f_create F then
                match cats s with [] => None | _ => new_value s end
              else None
    | Some o =>
      match k, o with
      | KEq, SAtom z canon =>
          match nv with
          | Some n => Some (PAtom (if negb (z =? n) && f_fix F then n else z))
          | None => Some (PAtom z)
          end
      | (KMin | KMax), SAtom z canon =>
          match nv with
          | Some n => if negb (cmp_of k z n) then Some (PAtom (if f_fix F then n else z))
                      else if negb (cmp_of k n z) then Some (PAtom (if f_trim F then n else z))
                      else Some (PAtom z)
          | None => Some (PAtom z)
          end
      | KColl, SList l =>
          let ol := map fst l in
          let kept := if f_trim F then filter (fun v => zmem v coll) ol else ol in
          let added := if f_fix F then filter (fun v => negb (zmem v ol)) coll else [] in
          Some (PList (kept ++ added))
      | KDict, SDict kvs =>
          let chvals := (fix gc (l : list (Z * site)) : list (Z * option pv) :=
                           match l with [] => [] | (key, child) :: r => (key, value_after F child) :: gc r end) ch in
          let kept :=
            (fix go (l : list (Z * src)) : list (Z * pv) :=
               match l with
               | [] => []
               | (key, v) :: r =>
                   match assoc key chvals with
                   | Some (Some w) => (key, w) :: go r
                   | Some None => (key, src_val v) :: go r
                   | None => if f_trim F then go r else (key, src_val v) :: go r
                   end
               end) kvs in
          let added :=
            if f_create F then
              (fix go (l : list (Z * site)) : list (Z * pv) :=
                 match l with
                 | [] => []
                 | (key, child) :: r =>
                     match assoc key kvs, new_value child with
                     | None, Some w => (key, w) :: go r
                     | _, _ => go r
                     end
                 end) ch
            else [] in
          Some (PDict (kept ++ added))
      | _, _ => Some (src_val o)
      end
    end
  end.
