(* Model of the external storage: src/inline_snapshot/_external.py (DiscStorage, outsource, external),
   _find_external.unused_externals and the storage part of pytest_plugin (prune at session start,
   persist + trim at session finish).
   Data items are identified by natural numbers; `hash d` is the (injective on the history's data)
   SHA-256 of item d, modelled by the identity on ids: a file name is (hash, -new?, suffix).
   A test is `assert outsource(data) == snapshot(<reference>)`; a reference is what is written in the
   source: external("<hash prefix>*<suffix>") - with the configured hash length long enough to be unambiguous
   it identifies one data item, so references are (data id, suffix) here; prefix ambiguity is the subject of
   `lookup` below.  Executable definitions only. *)
From Coq Require Import List Bool Arith.
Import ListNotations.
From V Require Import Model.Tree.

Definition data := nat.
Definition suffix := nat.
Record fname := { fn_hash : data; fn_new : bool; fn_suf : suffix }.
Definition fname_eqb (a b : fname) : bool :=
  Nat.eqb (fn_hash a) (fn_hash b) && Bool.eqb (fn_new a) (fn_new b) && Nat.eqb (fn_suf a) (fn_suf b).
Definition store := list (fname * data).                 (* file name -> content *)

Definition names (s : store) : list fname := map fst s.
Definition has (s : store) (n : fname) : bool := existsb (fname_eqb n) (names s).
Definition persisted_name (d : data) (suf : suffix) := {| fn_hash := d; fn_new := false; fn_suf := suf |}.
Definition new_name (d : data) (suf : suffix) := {| fn_hash := d; fn_new := true; fn_suf := suf |}.

(* outsource(): nothing if the persisted file exists, else (over)write <hash>-new<suffix> *)
Definition outsource (s : store) (d : data) (suf : suffix) : store :=
  if has s (persisted_name d suf) then s
  else (new_name d suf, d) :: filter (fun e => negb (fname_eqb (fst e) (new_name d suf))) s.

(* DiscStorage.prune_new_files: session start *)
Definition prune (s : store) : store := filter (fun e => negb (fn_new (fst e))) s.

(* glob <hash>*<suffix>: the persisted and the -new file of that data and suffix *)
Definition glob (s : store) (d : data) (suf : suffix) : list fname :=
  filter (fun n => Nat.eqb (fn_hash n) d && Nat.eqb (fn_suf n) suf) (names s).

(* DiscStorage.persist: rename <hash>-new<suffix> to <hash><suffix> when the lookup is unique *)
Definition persist (s : store) (d : data) (suf : suffix) : store :=
  match glob s d suf with
  | [n] => if fn_new n
           then map (fun e => if fname_eqb (fst e) n then (persisted_name d suf, snd e) else e) s
           else s
  | _ => s                                              (* HashError is swallowed *)
  end.

(* lookup with a hash PREFIX: `pre` = predicate "the hash of this item starts with the prefix written in the source" *)
Inductive lookup_result := Found (n : fname) | HashError.
Definition lookup (s : store) (pre : data -> bool) (suf : suffix) : lookup_result :=
  match filter (fun n => pre (fn_hash n) && Nat.eqb (fn_suf n) suf) (names s) with
  | [n] => Found n
  | _ => HashError
  end.
Definition read (s : store) (pre : data -> bool) (suf : suffix) : option data :=
  match lookup s pre suf with
  | Found n => match filter (fun e => fname_eqb (fst e) n) s with (_, d) :: _ => Some d | [] => None end
  | HashError => None
  end.

(* ---- test files and sessions ---- *)
Record test := { t_data : data; t_suf : suffix; t_ref : option (data * suffix) }.   (* outsourced data, reference in snapshot() *)
Definition refs (ts : list test) : list (data * suffix) :=
  flat_map (fun t => match t_ref t with Some r => [r] | None => [] end) ts.
Definition ref_eqb (a b : data * suffix) : bool := Nat.eqb (fst a) (fst b) && Nat.eqb (snd a) (snd b).

(* approved categories of the session (C04 decides how approval is obtained) *)
Record approval := { a_create : bool; a_fix : bool; a_trim : bool }.

(* the reference a test holds after the session *)
Definition new_ref (a : approval) (t : test) : option (data * suffix) :=
  match t_ref t with
  | None => if a_create a then Some (t_data t, t_suf t) else None
  | Some r => if ref_eqb r (t_data t, t_suf t) then Some r
              else if a_fix a then Some (t_data t, t_suf t) else Some r
  end.
Definition test_changed (a : approval) (t : test) : bool :=
  match t_ref t, new_ref a t with
  | None, None => false
  | Some r, Some r' => negb (ref_eqb r r')
  | _, _ => true
  end.
Definition apply_tests (a : approval) (ts : list test) : list test :=
  map (fun t => {| t_data := t_data t; t_suf := t_suf t; t_ref := new_ref a t |}) ts.

(* unused_externals: every stored file that no reference of a participating test file matches *)
Definition referenced (rs : list (data * suffix)) (n : fname) : bool :=
  existsb (fun r => Nat.eqb (fn_hash n) (fst r) && Nat.eqb (fn_suf n) (snd r)) rs.
Definition remove_unused (s : store) (rs : list (data * suffix)) : store :=
  filter (fun e => referenced rs (fst e)) s.

(* one session over ONE test file (all its tests take part):
   start: prune; tests: outsource; finish: if the file is changed, persist every reference of its new
   content; then, if trim is approved, remove what is unreferenced *)
Definition session (a : approval) (s : store) (ts : list test) : store * list test :=
  let s1 := prune s in
  let s2 := fold_left (fun acc t => outsource acc (t_data t) (t_suf t)) ts s1 in
  let ts' := apply_tests a ts in
  let changed := existsb (test_changed a) ts in
  let s3 := if changed then fold_left (fun acc r => persist acc (fst r) (snd r)) (refs ts') s2 else s2 in
  let s4 := if a_trim a then remove_unused s3 (refs ts') else s3 in
  (s4, ts').

(* histories *)
Inductive hstep :=
| HEdit (i : nat) (d : data)            (* the i-th test now outsources other data *)
| HAdd (d : data) (suf : suffix)        (* a new test with an empty snapshot *)
| HRemove (i : nat)
| HSession (a : approval).

Fixpoint set_nth {X} (i : nat) (f : X -> X) (l : list X) : list X :=
  match l, i with
  | [], _ => []
  | x :: r, O => f x :: r
  | x :: r, S j => x :: set_nth j f r
  end.
Fixpoint remove_nth {X} (i : nat) (l : list X) : list X :=
  match l, i with
  | [], _ => []
  | _ :: r, O => r
  | x :: r, S j => x :: remove_nth j r
  end.

Definition hstep_run (st : store * list test) (h : hstep) : store * list test :=
  let '(s, ts) := st in
  match h with
  | HEdit i d => (s, set_nth i (fun t => {| t_data := d; t_suf := t_suf t; t_ref := t_ref t |}) ts)
  | HAdd d suf => (s, ts ++ [{| t_data := d; t_suf := suf; t_ref := None |}])
  | HRemove i => (s, remove_nth i ts)
  | HSession a => session a s ts
  end.
Definition run_history (h : list hstep) : store * list test := fold_left hstep_run h ([], []).
