(* Model of src/inline_snapshot/_rewrite_code.py (SourcePosition/SourceRange/Replacement ordering,
   SourceFile._check, SourceFile.new_code without the formatter), of asttokens.LineNumbers.line_to_offset
   and of asttokens.util.replace.  A text is a list of code points (the code works on str and encodes
   UTF-8 only when writing); positions are (line, column) with 1-based lines, as tokenize reports them.
   Executable definitions only. *)
From Coq Require Import List Arith NArith Bool.
Import ListNotations.
Open Scope nat_scope.

Definition text := list N.
Definition pos := (nat * nat)%type.                    (* lineno, col_offset *)
Record repl := { r_start : pos; r_end : pos; r_text : text }.

(* dataclass(order=True): lexicographic *)
Definition pos_ltb (a b : pos) : bool := (fst a <? fst b) || ((fst a =? fst b) && (snd a <? snd b)).
Definition pos_eqb (a b : pos) : bool := (fst a =? fst b) && (snd a =? snd b).
Definition pos_leb (a b : pos) : bool := pos_ltb a b || pos_eqb a b.

Fixpoint text_ltb (a b : text) : bool :=               (* str < str *)
  match a, b with
  | [], [] => false
  | [], _ :: _ => true
  | _ :: _, [] => false
  | x :: a', y :: b' => N.ltb x y || (N.eqb x y && text_ltb a' b')
  end.
Fixpoint text_eqb (a b : text) : bool :=
  match a, b with
  | [], [] => true
  | x :: a', y :: b' => N.eqb x y && text_eqb a' b'
  | _, _ => false
  end.

(* Replacement.__lt__ : (range, text, change_id); the change_id only breaks ties between identical replacements *)
Definition repl_leb (a b : repl) : bool :=
  if pos_ltb (r_start a) (r_start b) then true
  else if negb (pos_eqb (r_start a) (r_start b)) then false
  else if pos_ltb (r_end a) (r_end b) then true
  else if negb (pos_eqb (r_end a) (r_end b)) then false
  else negb (text_ltb (r_text b) (r_text a)).

Fixpoint insert_sorted (x : repl) (l : list repl) : list repl :=
  match l with
  | [] => [x]
  | y :: r => if repl_leb x y then x :: l else y :: insert_sorted x r
  end.
Definition sort_repls (l : list repl) : list repl := fold_right insert_sorted [] l.

(* SourceFile._check: every range is well-formed and consecutive (sorted) replacements do not overlap *)
Fixpoint pairwise_ok (l : list repl) : bool :=
  match l with
  | a :: ((b :: _) as r) => pos_leb (r_end a) (r_start b) && pairwise_ok r
  | _ => true
  end.
Definition check (l : list repl) : bool :=
  let s := sort_repls l in
  forallb (fun r => pos_leb (r_start r) (r_end r)) s && pairwise_ok s.

(* LineNumbers: offsets of the line starts ('^' with re.M: position 0 and after every LF) *)
Fixpoint line_starts_from (off : nat) (t : text) : list nat :=
  match t with
  | [] => []
  | c :: r => if N.eqb c 10 then S off :: line_starts_from (S off) r else line_starts_from (S off) r
  end.
Definition line_starts (t : text) : list nat := 0 :: line_starts_from 0 t.

Definition line_to_offset (t : text) (p : pos) : nat :=
  let '(line, col) := p in
  match line with
  | 0 => 0
  | S l =>
      match nth_error (line_starts t) l with
      | None => length t
      | Some o => Nat.min (o + col) (length t)
      end
  end.

(* asttokens.util.replace on (start, end, text) triples given in increasing order *)
Fixpoint replace_from (p : nat) (t : text) (rs : list (nat * nat * text)) : text :=
  match rs with
  | [] => skipn p t
  | (s, e, new) :: r => firstn (s - p) (skipn p t) ++ new ++ replace_from e t r
  end.
Definition replace (t : text) (rs : list (nat * nat * text)) : text := replace_from 0 t rs.

(* SourceFile.new_code before whole-file formatting *)
Definition to_offsets (t : text) (l : list repl) : list (nat * nat * text) :=
  map (fun r => (line_to_offset t (r_start r), line_to_offset t (r_end r), r_text r)) l.
Definition new_code (t : text) (l : list repl) : option text :=
  if check l then Some (replace t (to_offsets t (sort_repls l))) else None.     (* None = the assert fails *)

(* ---- what "everything outside the replaced ranges is preserved" means ---- *)
(* the source with the replaced ranges cut out (ranges as offsets, increasing, disjoint) *)
Fixpoint cut_from (p : nat) (t : text) (rs : list (nat * nat * text)) : list text :=
  match rs with
  | [] => [skipn p t]
  | (s, e, _) :: r => firstn (s - p) (skipn p t) :: cut_from e t r
  end.
Definition outside (t : text) (rs : list (nat * nat * text)) : list text := cut_from 0 t rs.
