(* Model of _code_repr.sort_set_values (src/inline_snapshot/_code_repr.py:122-134) together with the part of
   CPython's list.sort that decides the result for fewer than 64 elements (listobject.c: count_run followed by
   binarysort; only `<` is used).  `ltx a b` is Python's `a < b`: Some b, or None when it raises TypeError.
   Elements carry their code representation (a string, list of code points), computed by the caller.
   `fixed` selects the repaired tree (the sorted result is only used when it is a strict chain) or the pinned tree
   (any result of sorted() that did not raise is used: F-05).  Executable definitions only. *)
From Coq Require Import List Arith NArith Bool.
Import ListNotations.

Section Sort.
Variable A : Type.
Variable ltx : A -> A -> option bool.

(* --- binary insertion of `pivot` into the sorted prefix `pre` (listobject.c binarysort) --- *)
(* search in pre[l, r): while l < r: p = l + (r-l)/2; if pivot < pre[p] then r = p else l = p + 1 *)
Fixpoint bsearch (fuel : nat) (pivot : A) (pre : list A) (l r : nat) : option nat :=
  match fuel with
  | O => Some l
  | S f =>
      if l <? r then
        let p := l + (r - l) / 2 in
        match nth_error pre p with
        | None => Some l
        | Some x =>
            match ltx pivot x with
            | None => None
            | Some true => bsearch f pivot pre l p
            | Some false => bsearch f pivot pre (S p) r
            end
        end
      else Some l
  end.
Definition binsert (pre : list A) (pivot : A) : option (list A) :=
  match bsearch (S (length pre)) pivot pre 0 (length pre) with
  | None => None
  | Some k => Some (firstn k pre ++ pivot :: skipn k pre)
  end.
Fixpoint binsort (pre rest : list A) : option (list A) :=
  match rest with
  | [] => Some pre
  | x :: r => match binsert pre x with None => None | Some pre' => binsort pre' r end
  end.

(* --- count_run: the initial run, reversed if strictly descending --- *)
(* ascending run: extend while not (a[i] < a[i-1]) *)
Fixpoint run_asc (last : A) (l : list A) (acc : list A) : option (list A * list A) :=
  match l with
  | [] => Some (rev acc, [])
  | x :: r => match ltx x last with
              | None => None
              | Some true => Some (rev acc, l)
              | Some false => run_asc x r (x :: acc)
              end
  end.
(* strictly descending run: extend while a[i] < a[i-1]; the run is reversed in place *)
Fixpoint run_desc (last : A) (l : list A) (acc : list A) : option (list A * list A) :=
  match l with
  | [] => Some (acc, [])
  | x :: r => match ltx x last with
              | None => None
              | Some true => run_desc x r (x :: acc)
              | Some false => Some (acc, l)
              end
  end.
Definition count_run (l : list A) : option (list A * list A) :=
  match l with
  | [] => Some ([], [])
  | [a] => Some ([a], [])
  | a :: b :: r =>
      match ltx b a with
      | None => None
      | Some true => run_desc b r [b; a]
      | Some false => run_asc b r [b; a]
      end
  end.

(* sorted(l) for len(l) < 64; None = TypeError *)
Definition py_sorted (l : list A) : option (list A) :=
  match count_run l with
  | None => None
  | Some (run, rest) => binsort run rest
  end.

(* all(a < b for a, b in zip(l, l[1:])) ; None = TypeError *)
Fixpoint chain (l : list A) : option bool :=
  match l with
  | a :: ((b :: _) as r) =>
      match ltx a b with
      | None => None
      | Some false => Some false
      | Some true => chain r
      end
  | _ => Some true
  end.
End Sort.

(* str < str *)
Fixpoint str_ltb (a b : list N) : bool :=
  match a, b with
  | [], [] => false
  | [], _ :: _ => true
  | _ :: _, [] => false
  | x :: a', y :: b' => N.ltb x y || (N.eqb x y && str_ltb a' b')
  end.
Definition str_ltx (a b : list N) : option bool := Some (str_ltb a b).

Section SetValues.
Variable A : Type.
Variable ltx : A -> A -> option bool.
Variable key : A -> list N.          (* repr(element) *)

Definition sorted_strings (l : list (list N)) : list (list N) :=
  match py_sorted (list N) str_ltx l with Some s => s | None => l end.

Definition sort_set_values (fixed : bool) (l : list A) : list (list N) :=
  match py_sorted A ltx l with
  | Some s =>
      if fixed then
        match chain A ltx s with
        | Some true => map key s
        | _ => sorted_strings (map key s)
        end
      else map key s
  | None => sorted_strings (map key l)
  end.
End SetValues.

(* a small element universe for the correspondence: ints, strs, frozensets of small ints (subset order), None *)
Inductive elt := EInt (n : N) (neg : bool) | EStr (s : list N) | EFs (l : list nat) | ENone.
Definition int_ltb (n : N) (neg : bool) (m : N) (neg' : bool) : bool :=
  match neg, neg' with
  | true, false => true
  | false, true => false
  | false, false => N.ltb n m
  | true, true => N.ltb m n
  end.
Definition subset (a b : list nat) : bool := forallb (fun x => existsb (Nat.eqb x) b) a.
Definition elt_ltx (a b : elt) : option bool :=
  match a, b with
  | EInt n s, EInt m s' => Some (int_ltb n s m s')
  | EStr x, EStr y => Some (str_ltb x y)
  | EFs x, EFs y => Some (subset x y && negb (subset y x))
  | _, _ => None
  end.
