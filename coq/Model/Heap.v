(* Model of what "recording a deep copy" means (generic_value.clone = copy.deepcopy + equality check):
   mutable list objects are cells of a heap, a value is an integer or a reference to a cell, cells hold values.
   Heaps are acyclic by construction in the theorems (a cell only refers to cells with smaller addresses).
   deepcopy allocates fresh cells at the end of the heap (sharing inside the copied value is not preserved by this
   model - copy.deepcopy preserves it through its memo - which does not matter for what is read back).
   Executable definitions only. *)
From Coq Require Import List ZArith Bool Arith.
Import ListNotations.

Inductive hval := HInt (z : Z) | HRef (a : nat).
Definition heap := list (list hval).

Inductive pure := PInt (z : Z) | PList (l : list pure).

(* the plain value behind a heap value (fuel bounds the nesting depth; None = dangling reference or out of fuel) *)
Fixpoint read (fuel : nat) (h : heap) (v : hval) : option pure :=
  match v with
  | HInt z => Some (PInt z)
  | HRef a =>
      match fuel with
      | O => None
      | S f =>
          match nth_error h a with
          | None => None
          | Some cell =>
              match (fix go (l : list hval) : option (list pure) :=
                       match l with
                       | [] => Some []
                       | x :: r => match read f h x, go r with
                                   | Some p, Some ps => Some (p :: ps)
                                   | _, _ => None
                                   end
                       end) cell with
              | Some ps => Some (PList ps)
              | None => None
              end
          end
      end
  end.

(* copy.deepcopy: returns the new heap and the copied value; fresh cells are appended *)
Fixpoint deepcopy (fuel : nat) (h : heap) (v : hval) : option (heap * hval) :=
  match v with
  | HInt z => Some (h, HInt z)
  | HRef a =>
      match fuel with
      | O => None
      | S f =>
          match nth_error h a with
          | None => None
          | Some cell =>
              match (fix go (hh : heap) (l : list hval) : option (heap * list hval) :=
                       match l with
                       | [] => Some (hh, [])
                       | x :: r =>
                           match deepcopy f hh x with
                           | None => None
                           | Some (h1, x') =>
                               match go h1 r with
                               | None => None
                               | Some (h2, r') => Some (h2, x' :: r')
                               end
                           end
                       end) h cell with
              | None => None
              | Some (h', cell') => Some (h' ++ [cell'], HRef (length h'))
              end
          end
      end
  end.

(* what the test can do afterwards to the objects it holds *)
Inductive mut :=
| MAppend (a : nat) (v : hval)
| MPop (a : nat)
| MSet (a i : nat) (v : hval)
| MClear (a : nat).

Fixpoint set_nth {X} (i : nat) (x : X) (l : list X) : list X :=
  match l, i with
  | [], _ => []
  | _ :: r, O => x :: r
  | y :: r, S j => y :: set_nth j x r
  end.
Definition upd_cell (h : heap) (a : nat) (f : list hval -> list hval) : heap :=
  match nth_error h a with
  | None => h
  | Some c => set_nth a (f c) h
  end.
Definition apply_mut (h : heap) (m : mut) : heap :=
  match m with
  | MAppend a v => upd_cell h a (fun c => c ++ [v])
  | MPop a => upd_cell h a (fun c => removelast c)
  | MSet a i v => upd_cell h a (fun c => set_nth i v c)
  | MClear a => upd_cell h a (fun _ => [])
  end.
Definition mut_addr (m : mut) : nat := match m with MAppend a _ | MPop a | MSet a _ _ | MClear a => a end.
Definition mut_val (m : mut) : option hval := match m with MAppend _ v | MSet _ _ v => Some v | _ => None end.

(* well-formed (acyclic) heaps: cell a only refers to cells below a *)
Definition val_below (n : nat) (v : hval) : bool := match v with HInt _ => true | HRef a => a <? n end.
Fixpoint wf_from (n : nat) (h : heap) : bool :=
  match h with
  | [] => true
  | c :: r => forallb (val_below n) c && wf_from (S n) r
  end.
Definition wf (h : heap) : bool := wf_from 0 h.
