(* Model of what "recording a deep copy" means (generic_value.clone = copy.deepcopy + equality check):
   mutable list objects are cells of a heap, a value is an integer or a reference to a cell, cells hold values.
   Heaps are acyclic by construction in the theorems (a cell only refers to cells with smaller addresses).
   deepcopy allocates fresh cells at the end of the heap (sharing inside the copied value is not preserved by this
   model - copy.deepcopy preserves it through its memo - which does not matter for what is read back).
   Executable definitions only. *)
From Coq Require Import List ZArith Bool Arith.
Import ListNotations.

Inductive hval := HInt (z : Z) | HRef (a : nat).
Definition heap := list (list hval).

Inductive pure := PInt (z : Z) | PList (l : list pure).

(* the plain value behind a heap value (fuel bounds the nesting depth; None = dangling reference or out of fuel) *)
Fixpoint read (fuel : nat) (h : heap) (v : hval) : option pure :=
  match v with
  | HInt z => Some (PInt z)
  | HRef a =>
      match fuel with
      | O => None
      | S f =>
          match nth_error h a with
          | None => None
          | Some cell =>
              match (fix go (l : list hval) : option (list pure) :=
                       match l with
                       | [] => Some []
                       | x :: r => match read f h x, go r with
                                   | Some p, Some ps => Some (p :: ps)
                                   | _, _ => None
                                   end
                       end) cell with
              | Some ps => Some (PList ps)
              | None => None
              end
          end
      end
  end.

(* copy.deepcopy: returns the new heap and the copied value; fresh cells are appended *)
Fixpoint deepcopy (fuel : nat) (h : heap) (v : hval) : option (heap * hval) :=
  match v with
  | HInt z => Some (h, HInt z)
  | HRef a =>
      match fuel with
      | O => None
      | S f =>
          match nth_error h a with
          | None => None
          | Some cell =>
              match (fix go (hh : heap) (l : list hval) : option (heap * list hval) :=
                       match l with
                       | [] => Some (hh, [])
                       | x :: r =>
                           match deepcopy f hh x with
                           | None => None
                           | Some (h1, x') =>
                               match go h1 r with
                               | None => None
                               | Some (h2, r') => Some (h2, x' :: r')
                               end
                           end
                       end) h cell with
              | None => None
              | Some (h', cell') => Some (h' ++ [cell'], HRef (length h'))
              end
          end
      end
  end.

(* what the test can do afterwards to the objects it holds *)
Inductive mut :=
| MAppend (a : nat) (v : hval)
| MPop (a : nat)
| MSet (a i : nat) (v : hval)
| MClear (a : nat).

Fixpoint set_nth {X} (i : nat) (x : X) (l : list X) : list X :=
  match l, i with
  | [], _ => []
  | _ :: r, O => x :: r
  | y :: r, S j => y :: set_nth j x r
  end.
Definition upd_cell (h : heap) (a : nat) (f : list hval -> list hval) : heap :=
  match nth_error h a with
  | None => h
  | Some c => set_nth a (f c) h
  end.
Definition apply_mut (h : heap) (m : mut) : heap :=
  match m with
  | MAppend a v => upd_cell h a (fun c => c ++ [v])
  | MPop a => upd_cell h a (fun c => removelast c)
  | MSet a i v => upd_cell h a (fun c => set_nth i v c)
  | MClear a => upd_cell h a (fun _ => [])
  end.
Definition mut_addr (m : mut) : nat := match m with MAppend a _ | MPop a | MSet a _ _ | MClear a => a end.
Definition mut_val (m : mut) : option hval := match m with MAppend _ v | MSet _ _ v => Some v | _ => None end.

(* well-formed (acyclic) heaps: cell a only refers to cells below a *)
Definition val_below (n : nat) (v : hval) : bool := match v with HInt _ => true | HRef a => a <? n end.
Fixpoint wf_from (n : nat) (h : heap) : bool :=
  match h with
  | [] => true
  | c :: r => forallb (val_below n) c && wf_from (S n) r
  end.
Definition wf (h : heap) : bool := wf_from 0 h.

(* ------------------------------------------------------------------------- the recorder: observations (comparisons)
   interleaved with everything the test can do to the objects it holds.  The snapshot keeps clone(v) = a deep copy
   (generic_value.clone); the test holds no reference to the copies (they are reachable from the snapshot object only). *)
Inductive ev :=
| EObserve (v : hval)          (* a comparison: the snapshot records clone(v) *)
| EMutate (m : mut)            (* the test mutates one of ITS objects *)
| EAlloc (cell : list hval).   (* the test creates a new object *)

Record rstate := { r_heap : heap; r_recs : list hval; r_own : list bool }.
Definition owned (s : rstate) (a : nat) : bool := nth a (r_own s) false.
Definition visible (s : rstate) (v : hval) : bool :=      (* the test holds no reference to the recorded copies *)
  match v with HInt _ => true | HRef a => (a <? length (r_heap s)) && negb (owned s a) end.

Definition rstep (fuel : nat) (s : rstate) (e : ev) : rstate :=
  match e with
  | EObserve v =>
      if visible s v then
        match deepcopy fuel (r_heap s) v with
        | Some (h', v') => {| r_heap := h'; r_recs := r_recs s ++ [v'];
                              r_own := r_own s ++ repeat true (length h' - length (r_heap s)) |}
        | None => s                                   (* copy failed (model: out of fuel): nothing recorded *)
        end
      else s
  | EMutate m =>
      if visible s (HRef (mut_addr m)) && match mut_val m with Some v => visible s v | None => true end
      then {| r_heap := apply_mut (r_heap s) m; r_recs := r_recs s; r_own := r_own s |}
      else s
  | EAlloc cell =>
      if forallb (visible s) cell
      then {| r_heap := r_heap s ++ [cell]; r_recs := r_recs s; r_own := r_own s ++ [false] |}
      else s
  end.

Definition rrun (fuel : nat) (evs : list ev) (s : rstate) : rstate := fold_left (rstep fuel) evs s.
Definition rinit (h : heap) : rstate := {| r_heap := h; r_recs := []; r_own := repeat false (length h) |}.

(* clone = deepcopy + equality check of the copy against the original (generic_value.clone lines 22-40); both may be
   user-defined (__deepcopy__, __eq__).  None = UsageError *)
Section Clone.
Variable X : Type.
Variable cp : X -> X.                 (* copy.deepcopy, possibly a user-defined __deepcopy__ *)
Variable eqb : X -> X -> bool.        (* the == of the copy against the original, possibly user-defined *)

Definition clone (v : X) : option X := if eqb (cp v) v then Some (cp v) else None.     (* None = UsageError *)

(* recording into any state goes through clone *)
Definition record (S : Type) (upd : S -> X -> S) (s : S) (v : X) : S * bool :=
  match clone v with Some c => (upd s c, true) | None => (s, false) end.

End Clone.
