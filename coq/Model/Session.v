(* Model of the report / approval loop of pytest_sessionfinish (pytest_plugin.py, `used_changes = []; for flag in Flags.all(): ...`) over SEVERAL test files:
   the pending changes of the session are grouped by category; the categories are visited in the order create, fix, trim, update; a category is
   previewed when it is shown (review, report or the category itself among the flags); the preview applies the changes used so far, then the
   changes of the category on top, and shows a diff panel for EVERY file whose text differs; the category is approved (flag given / review answered
   yes) only if at least one panel was shown; approved categories accumulate and are written at the end.
   A change is `visible` when applying it changes the text of its file (a change whose generated text equals the old text after formatting is not).
   Executable definitions only. *)
From Coq Require Import List Bool Arith.
Import ListNotations.
From V Require Import Model.SnapOps.

Record change := { ch_cat : cat; ch_file : nat; ch_visible : bool }.
Record sconf := { shown : cat -> bool; approve : cat -> bool }.

Definition of_cat (c : cat) (l : list change) : list change := filter (fun ch => cat_eqb (ch_cat ch) c) l.
(* the files for which the preview of category c shows a diff panel *)
Definition panels (c : cat) (pending : list change) : list nat := map ch_file (filter ch_visible (of_cat c pending)).

Fixpoint loop (cf : sconf) (pending : list change) (cats : list cat) (used : list change) (reported : list cat) : list change * list cat :=
  match cats with
  | [] => (used, reported)
  | c :: r =>
      match of_cat c pending with
      | [] => loop cf pending r used reported
      | cs =>
          if negb (shown cf c) then loop cf pending r used reported
          else match panels c pending with
               | [] => loop cf pending r used reported                    (* any_changes stays False: nothing shown, nothing asked *)
               | _ => if approve cf c then loop cf pending r (used ++ cs) (reported ++ [c])
                      else loop cf pending r used (reported ++ [c])
               end
      end
  end.

Definition all_cats : list cat := [Create; Fix; Trim; Update].
Definition session (cf : sconf) (pending : list change) : list change * list cat := loop cf pending all_cats [] [].
(* what is written: the text of file f changes iff a visible used change belongs to it *)
Definition file_changed (used : list change) (f : nat) : bool := existsb (fun ch => Nat.eqb (ch_file ch) f && ch_visible ch) used.
Definition applied (used : list change) (f : nat) (c : cat) : bool := existsb (fun ch => Nat.eqb (ch_file ch) f && cat_eqb (ch_cat ch) c) used.
