(* Model of how SequenceAdapter.assign / ValueAdapter.assign treat the parts the user controls
   (src/inline_snapshot/_adapter/value_adapter.py:30-31, _unmanaged.py): an element of a flat sequence is either a
   managed leaf or an unmanaged expression (Is(...), dirty-equals value, inner snapshot(...)): it takes part in the
   alignment through its current value (Unmanaged.__eq__ compares the wrapped value) but ValueAdapter.assign returns
   it unchanged, whatever the new value is and whatever is approved.
   Result items: Keep = source text survives verbatim, Gen = generated code.  Executable definitions only. *)
From Coq Require Import List ZArith Bool.
Import ListNotations.
From V Require Import Model.Align Model.SnapOps.
Open Scope Z_scope.

Record uleaf := { u_val : Z; u_canon : bool; u_unmanaged : bool; u_id : nat }.
Inductive uitem := UKeep (l : uleaf) | UGen (v : Z).
Definition uleaf_eqb (o : uleaf) (n : Z) : bool := u_val o =? n.

Definition uscript (old : list uleaf) (new : list Z) : list dir := add_x (align uleaf Z uleaf_eqb old new).

Definition uassign_leaf (F : flags) (o : uleaf) (n : Z) : uitem :=
  if u_unmanaged o then UKeep o
  else if negb (u_val o =? n) then (if f_fix F then UGen n else UKeep o)
  else if negb (u_canon o) && f_update F then UGen n else UKeep o.

Fixpoint uwalk (F : flags) (s : list dir) (old : list uleaf) (new : list Z) : list uitem :=
  match s with
  | [] => []
  | (Dm | Dx) :: s' =>
      match old, new with
      | o :: old', n :: new' => uassign_leaf F o n :: uwalk F s' old' new'
      | _, _ => []
      end
  | Di :: s' =>
      match new with
      | n :: new' => (if f_fix F then [UGen n] else []) ++ uwalk F s' old new'
      | [] => []
      end
  | Dd :: s' =>
      match old with
      | o :: old' => (if f_fix F then [] else [UKeep o]) ++ uwalk F s' old' new
      | [] => []
      end
  | De :: _ => []
  end.
Definition useq_result (F : flags) (old : list uleaf) (new : list Z) : list uitem :=
  uwalk F (uscript old new) old new.

(* the unmanaged elements that are still there afterwards, in order *)
Definition kept_unmanaged (l : list uitem) : list uleaf :=
  flat_map (fun i => match i with UKeep o => if u_unmanaged o then [o] else [] | UGen _ => [] end) l.
Definition unmanaged_of (l : list uleaf) : list uleaf := filter u_unmanaged l.
