(* Model of _find_external.unused_externals with DiscStorage.list / lookup_all (src/inline_snapshot/_find_external.py, _external.py):
   which stored files a trim may remove.  File names and the references found in the test files are strings (lists of character codes);
   a reference `<prefix>*<suffix>` is a glob with one star, a reference without a star names one file.  Executable definitions only. *)
From Coq Require Import List NArith Bool Arith.
Import ListNotations.

Definition str := list N.

Fixpoint str_eqb (a b : str) : bool :=
  match a, b with
  | [], [] => true
  | x :: a', y :: b' => N.eqb x y && str_eqb a' b'
  | _, _ => false
  end.

Fixpoint starts (p n : str) : bool :=
  match p, n with
  | [], _ => true
  | x :: p', y :: n' => N.eqb x y && starts p' n'
  | _ :: _, [] => false
  end.

Definition ends (s n : str) : bool := starts (rev s) (rev n).

Inductive ref :=
| Glob (prefix suffix : str)          (* external("<prefix>*<suffix>") *)
| Exact (name : str).                 (* external("<name>") without a star *)

(* pathlib's glob for a pattern with one star inside one directory *)
Definition matches (r : ref) (n : str) : bool :=
  match r with
  | Glob p s => starts p n && ends s n && (length p + length s <=? length n)
  | Exact m => str_eqb m n
  end.

Definition lookup_all (store : list str) (r : ref) : list str := filter (matches r) store.

(* unused_externals(): everything in the storage directory that no reference of a participating test file matches *)
Definition unused (store : list str) (refs : list ref) : list str :=
  filter (fun n => negb (existsb (fun r => matches r n) refs)) store.
