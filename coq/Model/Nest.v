(* Model of Adapter.assign on ARBITRARILY NESTED values: lists / tuples (SequenceAdapter, _adapter/sequence_adapter.py:46-105),
   dict displays (DictAdapter, _adapter/dict_adapter.py:55-148), constructor calls of dataclass-like classes
   (GenericCallAdapter.assign, _adapter/generic_call_adapter.py:116-262) and leaves / nodes whose type changed (ValueAdapter,
   _adapter/value_adapter.py:25-75), dispatched by Adapter.get_adapter (_adapter/adapter.py:69-80): `type(old) is type(new)`.
   It generalises Model/TreeAssign.v (lists / tuples), Model/DictAssign.v (one dict display) and Model/CallAssign.v (one call)
   to one recursive function in which every container may hold every other one at any depth.

   Values:  integers; lists / tuples; dicts with integer keys (insertion order kept, as CPython does); objects of a class `c`
            of the class table `ct` (one value per field, declaration order).  `val_eqb` is Python's `==` on them: dicts are
            compared as finite maps (order-insensitive), objects by class and field values.
   Source:  hand-written leaves with a flag `canon` (source tokens = generated tokens, `5` vs `2+3`), user-controlled parts
            (Is(..), inner snapshot(..): identity + current value), list / tuple displays, dict displays (a key may be repeated:
            the display then evaluates to first position / last value and DictAdapter falls back to ValueAdapter), calls with
            positional and keyword arguments.
   Result:  which source text survives verbatim (QKeep), where code is generated (QGen) and which containers are edited element-
            wise; the children of an edited container are given in TEXT ORDER after _change.apply_all / generic_sequence_update
            placed the inserted entries (insert positions are indexes into the OLD container).
   Executable definitions only. *)
From Coq Require Import List ZArith Bool Arith.
Import ListNotations.
From V Require Import Model.Align Model.SnapOps Model.TreeAssign.

Inductive nval :=
| NAtom (z : Z)
| NSeq (k : skind) (l : list nval)
| NDict (l : list (Z * nval))
| NObj (c : Z) (fs : list (Z * nval)).

Inductive ntree :=
| NLeaf (z : Z) (canon : bool)
| NUnm (id : nat) (z : Z)
| NLst (k : skind) (l : list ntree)
| NDct (l : list (Z * ntree))
| NCall (c : Z) (pos : list ntree) (kws : list (Z * ntree)).

(* children of an edited call: None = positional argument, Some k = keyword argument k *)
Inductive nres :=
| QKeep (t : ntree)
| QGen (v : nval)
| QSeq (k : skind) (l : list nres)
| QDict (l : list (Z * nres))
| QCall (c : Z) (l : list (option Z * nres)).

(* class table: the fields of a class in declaration order, each with its default (if it has one) *)
Definition ctab := Z -> list (Z * option nval).

Fixpoint alookup {X} (k : Z) (l : list (Z * X)) : option X :=
  match l with
  | [] => None
  | (k', v) :: r => if Z.eqb k k' then Some v else alookup k r
  end.
Fixpoint zmemb (k : Z) (l : list Z) : bool :=
  match l with [] => false | x :: r => Z.eqb k x || zmemb k r end.
Fixpoint nodupb (l : list Z) : bool :=
  match l with [] => true | x :: r => negb (zmemb x r) && nodupb r end.

(* Python's dict display: a repeated key keeps its first position and takes the last value *)
Fixpoint dict_set {X} (k : Z) (v : X) (l : list (Z * X)) : list (Z * X) :=
  match l with
  | [] => [(k, v)]
  | (k', w) :: r => if Z.eqb k k' then (k', v) :: r else (k', w) :: dict_set k v r
  end.
Definition mkdict {X} (l : list (Z * X)) : list (Z * X) :=
  fold_left (fun d kv => dict_set (fst kv) (snd kv) d) l [].

(* the field values of a call with positional arguments pos and keyword arguments kws: positional arguments fill the first fields, then keywords, then defaults *)
Fixpoint fill (i : nat) (fields : list (Z * option nval)) (pos : list nval) (kws : list (Z * nval)) : list (Z * nval) :=
  match fields with
  | [] => []
  | (name, d) :: r =>
      (name, match nth_error pos i with
             | Some v => v
             | None => match alookup name kws with
                       | Some v => v
                       | None => match d with Some v => v | None => NAtom 0 end
                       end
             end) :: fill (S i) r pos kws
  end.

(* Python's == *)
Fixpoint val_eqb (a b : nval) {struct a} : bool :=
  match a, b with
  | NAtom x, NAtom y => Z.eqb x y
  | NSeq k l, NSeq k' l' =>
      skind_eqb k k' &&
      (fix go (l m : list nval) : bool :=
         match l, m with
         | [], [] => true
         | x :: l1, y :: m1 => val_eqb x y && go l1 m1
         | _, _ => false
         end) l l'
  | NDict l, NDict m =>
      Nat.eqb (length l) (length m) &&
      (fix go (l : list (Z * nval)) : bool :=
         match l with
         | [] => true
         | (k, v) :: l1 => match alookup k m with Some w => val_eqb v w | None => false end && go l1
         end) l
  | NObj c fs, NObj c' fs' =>
      Z.eqb c c' &&
      (fix go (l m : list (Z * nval)) : bool :=
         match l, m with
         | [], [] => true
         | (k, x) :: l1, (k', y) :: m1 => Z.eqb k k' && val_eqb x y && go l1 m1
         | _, _ => false
         end) fs fs'
  | _, _ => false
  end.

Section WithClasses.
Variable ct : ctab.

Fixpoint eval (t : ntree) : nval :=
  match t with
  | NLeaf z _ => NAtom z
  | NUnm _ z => NAtom z
  | NLst k l => NSeq k (map eval l)
  | NDct l => NDict (mkdict (map (fun kt => match kt with (k, t') => (k, eval t') end) l))
  | NCall c pos kws =>
      NObj c (fill 0 (ct c) (map eval pos) (map (fun kt => match kt with (k, t') => (k, eval t') end) kws))
  end.

(* `arguments(value)` of the shipped adapters: a field is flagged is_default (dataclass, attrs, pydantic) or left out
   (namedtuple) when it holds its default *)
Definition is_default (c : Z) (name : Z) (v : nval) : bool :=
  match alookup name (ct c) with
  | Some (Some d) => val_eqb d v
  | _ => false
  end.

(* the code generated for a value: no positional arguments, one keyword per field that does not hold its default *)
Fixpoint canon_tree (v : nval) : ntree :=
  match v with
  | NAtom z => NLeaf z true
  | NSeq k l => NLst k (map canon_tree l)
  | NDict l => NDct (map (fun kv => match kv with (k, v') => (k, canon_tree v') end) l)
  | NObj c fs =>
      NCall c [] (flat_map (fun kv => match kv with (k, v') => if is_default c k v' then [] else [(k, canon_tree v')] end) fs)
  end.

Fixpoint eval_r (r : nres) : nval :=
  match r with
  | QKeep t => eval t
  | QGen v => v
  | QSeq k l => NSeq k (map eval_r l)
  | QDict l => NDict (mkdict (map (fun kr => match kr with (k, r') => (k, eval_r r') end) l))
  | QCall c l =>
      NObj c (fill 0 (ct c)
                (flat_map (fun ar => match ar with (None, r') => [eval_r r'] | (Some _, _) => [] end) l)
                (flat_map (fun ar => match ar with (Some k, r') => [(k, eval_r r')] | (None, _) => [] end) l))
  end.

(* source tokens = generated tokens *)
Fixpoint ntree_eqb (a b : ntree) {struct a} : bool :=
  match a, b with
  | NLeaf x c, NLeaf y d => Z.eqb x y && Bool.eqb c d
  | NUnm i x, NUnm j y => Nat.eqb i j && Z.eqb x y
  | NLst k l, NLst k' l' =>
      skind_eqb k k' &&
      (fix go (l m : list ntree) : bool :=
         match l, m with
         | [], [] => true
         | x :: l1, y :: m1 => ntree_eqb x y && go l1 m1
         | _, _ => false
         end) l l'
  | NDct l, NDct m =>
      (fix go (l m : list (Z * ntree)) : bool :=
         match l, m with
         | [], [] => true
         | (k, x) :: l1, (k', y) :: m1 => Z.eqb k k' && ntree_eqb x y && go l1 m1
         | _, _ => false
         end) l m
  | NCall c p kw, NCall c' p' kw' =>
      Z.eqb c c' &&
      (fix go (l m : list ntree) : bool :=
         match l, m with
         | [], [] => true
         | x :: l1, y :: m1 => ntree_eqb x y && go l1 m1
         | _, _ => false
         end) p p' &&
      (fix go (l m : list (Z * ntree)) : bool :=
         match l, m with
         | [], [] => true
         | (k, x) :: l1, (k', y) :: m1 => Z.eqb k k' && ntree_eqb x y && go l1 m1
         | _, _ => false
         end) kw kw'
  | _, _ => false
  end.
(* a user-controlled part is never compared with generated tokens (update_allowed) *)
Definition canonical (t : ntree) : bool := ntree_eqb t (canon_tree (eval t)).

Definition is_unm (o : ntree) : bool := match o with NUnm _ _ => true | _ => false end.
(* contains_unmanaged: a user-controlled part anywhere in the expression *)
Fixpoint has_unm (o : ntree) : bool :=
  match o with
  | NLeaf _ _ => false
  | NUnm _ _ => true
  | NLst _ l => existsb has_unm l
  | NDct l => existsb (fun kt => match kt with (_, t') => has_unm t' end) l
  | NCall _ pos kws => existsb has_unm pos || existsb (fun kt => match kt with (_, t') => has_unm t' end) kws
  end.
Definition elt_eqb (o : ntree) (n : nval) : bool := val_eqb (eval o) n.
Definition script (olds : list ntree) (news : list nval) : list dir := add_x (align ntree nval elt_eqb olds news).

(* ValueAdapter.assign: a node as a whole *)
Definition value_assign (F : flags) (o : ntree) (n : nval) : nres :=
  if is_unm o then QKeep o
  else if negb (val_eqb (eval o) n) then (if f_fix F then QGen n else QKeep o)
  else if negb (canonical o) && f_update F then QGen n else QKeep o.

Section Children.
Variable asg : ntree -> nval -> nres.       (* the adapter of a child: get_adapter(old, new).assign *)
Variable F : flags.

(* SequenceAdapter.assign along the alignment script *)
Fixpoint walk (s : list dir) (os : list ntree) (ns : list nval) {struct s} : list nres :=
  match s with
  | [] => []
  | (Dm | Dx) :: s' =>
      match os, ns with
      | o' :: os', n' :: ns' => asg o' n' :: walk s' os' ns'
      | _, _ => []
      end
  | Di :: s' =>
      match ns with
      | n' :: ns' => (if f_fix F then [QGen n'] else []) ++ walk s' os ns'
      | [] => []
      end
  | Dd :: s' =>
      match os with
      | o' :: os' => (if f_fix F then [] else [QKeep o']) ++ walk s' os' ns
      | [] => []
      end
  | De :: _ => []
  end.

(* groups of new entries with their insert position (index into the old container); `pending` in reverse *)
Definition flush (pending : list (Z * nval)) (pos : nat) : list (nat * list (Z * nval)) :=
  match pending with [] => [] | _ => [(pos, rev pending)] end.

(* DictAdapter.assign: walking the new value in its order *)
Fixpoint dinserts (olds : list (Z * ntree)) (news : list (Z * nval)) (pending : list (Z * nval)) (pos : nat)
  : list (nat * list (Z * nval)) :=
  match news with
  | [] => match pending with [] => [] | _ => [(length olds, rev pending)] end
  | (k, v) :: r =>
      match alookup k olds with
      | Some _ => flush pending pos ++ dinserts olds r [] (S pos)
      | None => dinserts olds r ((k, v) :: pending) pos
      end
  end.

Definition dgens (l : list (Z * nval)) : list (Z * nres) := map (fun kv => (fst kv, QGen (snd kv))) l.
Definition dinserted_at (ins : list (nat * list (Z * nval))) (i : nat) : list (Z * nres) :=
  flat_map (fun g => if Nat.eqb (fst g) i then dgens (snd g) else []) ins.

Definition dassign_entry (e : Z * ntree) (news : list (Z * nval)) : list (Z * nres) :=
  match alookup (fst e) news with
  | None => if f_fix F then [] else [(fst e, QKeep (snd e))]            (* Delete, category fix *)
  | Some v => [(fst e, asg (snd e) v)]
  end.

Fixpoint dplace (ins : list (nat * list (Z * nval))) (news : list (Z * nval)) (i : nat) (olds : list (Z * ntree))
  : list (Z * nres) :=
  match olds with
  | [] => if f_fix F then dinserted_at ins i else []
  | e :: r => (if f_fix F then dinserted_at ins i else []) ++ dassign_entry e news ++ dplace ins news (S i) r
  end.

Definition dict_result (olds : list (Z * ntree)) (news : list (Z * nval)) : list (Z * nres) :=
  dplace (dinserts olds news [] 0) news 0 olds.

(* GenericCallAdapter.assign: the fields of the new object in their order; p = number of positional arguments of the old call *)
Fixpoint kw_index (k : Z) (kws : list (Z * ntree)) : option nat :=
  match kws with
  | [] => None
  | (k', _) :: r => if Z.eqb k k' then Some 0%nat else option_map S (kw_index k r)
  end.

Fixpoint cinserts (c : Z) (p : nat) (kws : list (Z * ntree)) (fs : list (Z * nval)) (pending : list (Z * nval)) (pos : nat)
  : list (nat * list (Z * nval)) :=
  match fs with
  | [] => flush pending pos
  | (name, v) :: r =>
      if is_default c name v then cinserts c p kws r pending pos
      else match kw_index name kws with
           | None => cinserts c p kws r ((name, v) :: pending) pos
           | Some i => flush pending pos ++ cinserts c p kws r [] (p + S i)
           end
  end.

Definition cgens (l : list (Z * nval)) : list (option Z * nres) := map (fun kv => (Some (fst kv), QGen (snd kv))) l.
Definition cinserted_at (ins : list (nat * list (Z * nval))) (i : nat) : list (option Z * nres) :=
  flat_map (fun g => if Nat.eqb (fst g) i then cgens (snd g) else []) ins.

(* an old positional argument: Delete, category fix (the shipped adapters describe every field as a keyword argument) *)
Definition cassign_pos (t : ntree) : list (option Z * nres) := if f_fix F then [] else [(None, QKeep t)].

(* an old keyword argument *)
Definition cassign_kw (c : Z) (fs : list (Z * nval)) (kt : Z * ntree) : list (option Z * nres) :=
  let (k, t) := kt in
  match alookup k fs with
  | None => if f_fix F then [] else [(Some k, QKeep t)]               (* no such field: outside the modelled scope *)
  | Some v =>
      if is_default c k v then
        if has_unm t then [(Some k, QKeep t)]       (* an argument that holds a user-controlled part is never deleted *)
        else if val_eqb (eval t) v
             then (if f_update F then [] else [(Some k, QKeep t)])
             else (if f_fix F then [] else [(Some k, QKeep t)])
      else [(Some k, asg t v)]
  end.

Definition cassign_el (c : Z) (fs : list (Z * nval)) (e : ntree + Z * ntree) : list (option Z * nres) :=
  match e with inl t => cassign_pos t | inr kt => cassign_kw c fs kt end.

Fixpoint cplace (c : Z) (ins : list (nat * list (Z * nval))) (fs : list (Z * nval)) (i : nat) (els : list (ntree + Z * ntree))
  : list (option Z * nres) :=
  match els with
  | [] => if f_fix F then cinserted_at ins i else []
  | e :: r => (if f_fix F then cinserted_at ins i else []) ++ cassign_el c fs e ++ cplace c ins fs (S i) r
  end.

Definition elements (pos : list ntree) (kws : list (Z * ntree)) : list (ntree + Z * ntree) := map inl pos ++ map inr kws.
Definition call_result (c : Z) (pos : list ntree) (kws : list (Z * ntree)) (fs : list (Z * nval)) : list (option Z * nres) :=
  cplace c (cinserts c (length pos) kws fs [] (length pos)) fs 0 (elements pos kws).

End Children.

Fixpoint assign (fuel : nat) (F : flags) (o : ntree) (n : nval) {struct fuel} : nres :=
  match fuel with
  | O => QKeep o
  | S f =>
    match o, n with
    | NLst k olds, NSeq k' news =>
        if skind_eqb k k' then QSeq k (walk (assign f F) F (script olds news) olds news)
        else value_assign F o n                                   (* type(old) is not type(new): ValueAdapter *)
    | NDct olds, NDict news =>
        if nodupb (map fst olds) then QDict (dict_result (assign f F) F olds news)
        else value_assign F o n                                   (* len(old_value) != len(old_node.keys) *)
    | NCall c pos kws, NObj c' fs =>
        if Z.eqb c c' then QCall c (call_result (assign f F) F c pos kws fs)
        else value_assign F o n
    | _, _ => value_assign F o n
    end
  end.

Fixpoint lmax (l : list nat) : nat := match l with [] => 0%nat | x :: r => Nat.max x (lmax r) end.
Fixpoint depth (t : ntree) : nat :=
  match t with
  | NLeaf _ _ => 0%nat
  | NUnm _ _ => 0%nat
  | NLst _ l => S (lmax (map depth l))
  | NDct l => S (lmax (map (fun kt => match kt with (_, t') => depth t' end) l))
  | NCall _ pos kws => S (Nat.max (lmax (map depth pos)) (lmax (map (fun kt => match kt with (_, t') => depth t' end) kws)))
  end.
(* enough fuel for every tree *)
Definition assign_nest (F : flags) (o : ntree) (n : nval) : nres := assign (S (depth o)) F o n.

End WithClasses.
