(* Model of UndecidedValue._get_changes (src/inline_snapshot/_snapshot/undecided_value.py:60-95): a snapshot() call that is evaluated but never
   compared.  Only `update` can apply: the value is walked along the adapters' `items` (value and node side by side); a leaf whose source tokens
   differ from the generated tokens is replaced by the generated code; user-controlled parts (Is(..), inner snapshot(..), f-strings) are skipped.
   It is another implementation than Adapter.assign (Model/Nest.v) of "what update does when the value is unchanged", and differs from it: keyword
   arguments that spell out a default are kept, positional arguments are not visited (the shipped adapters describe every field as a keyword argument,
   so `items` pairs no node with them), a dict display that repeats a key is left alone (its nodes cannot be paired with the values).
   Same value / source / result types as Model/Nest.v.  Executable definitions only. *)
From Coq Require Import List ZArith Bool Arith.
Import ListNotations.
From V Require Import Model.Align Model.SnapOps Model.TreeAssign Model.Nest.

Fixpoint undecided (upd : bool) (t : ntree) : nres :=
  match t with
  | NLeaf z canon => if upd && negb canon then QGen (NAtom z) else QKeep t
  | NUnm _ _ => QKeep t
  | NLst k l => QSeq k (map (undecided upd) l)
  | NDct l =>
      if nodupb (map fst l) then QDict (map (fun kt => match kt with (k, t') => (k, undecided upd t') end) l)
      else QKeep t
  | NCall c pos kws =>
      QCall c (map (fun p => (None, QKeep p)) pos ++ map (fun kt => match kt with (k, t') => (Some k, undecided upd t') end) kws)
  end.
