(* Model of the write phase of pytest_sessionfinish (pytest_plugin.py, everything after report_problems()):

     cr = ChangeRecorder(); apply_all(used_changes, cr)
     for test_file in cr.files():                       # phase A
         tree = ast.parse(test_file.new_code())         #   new_code: read, format(source)?, format(edited)?
         ensure_import(...)                             #   if the new code uses external / HasRepr
         for external_name in used: storage.persist()   #   rename <hash>-new.suffix -> <hash>.suffix
     cr.fix_all()                                       # phase B: per file new_code() again, then SourceFile.rewrite:
                                                        #   write a temporary file next to the test file, copy the mode, os.replace
     report_problems(console)

   together with SourceFile.new_code (_rewrite_code.py) and _format.format_code, as a sequential program over a small
   world (file contents on disk, external store, reported problems) in which every side-effecting call is a STEP at whose
   boundary one fault can be injected: an interruption (the process dies before the step) or a failure of the step
   (black raises / format-command exits non-zero; read, rename, open, write, copymode, replace raise OSError).  A failure
   inside SourceFile.rewrite removes the temporary file again (except clause); an interruption leaves it behind.  The formatter's deterministic behaviour is part of the configuration (ok / always fails / returns
   with exit status 0 something that is not the formatted code: unparsable text, nothing, another program).  Since the repair of finding F-55 format_code validates the output of a
   format-command (valid Python with the statements of its input) and otherwise records a problem and returns its input, like for a failing formatter; a formatter call that
   misbehaves once is the fault kind Fail at that call.  The constructors RGarbage / Garb are kept: the theorems show that they are unreachable.  Executable definitions only. *)
From Coq Require Import List Bool Arith.
Import ListNotations.

Inductive step :=
| SRead (f : nat)        (* new_code: open(filename).read() *)
| SFormat                (* one call of the formatter (black.format_str / format-command) *)
| SParse                 (* ast.parse(new code) *)
| SImport (f : nat)      (* ensure_import *)
| SPersist (e : nat)     (* storage.persist(external) *)
| SOpenW (f : nat)       (* open(<filename>.inline-snapshot.tmp, "bw") *)
| SWrite (f : nat)       (* code.write(...) into the temporary file *)
| SMode (f : nat)        (* shutil.copymode(filename, temporary file) *)
| SRename (f : nat).     (* os.replace(temporary file, filename): atomic *)

Inductive fkind := Crash | Fail.
Inductive fmode := FOk | FFails | FGarbage.        (* what the formatter does on every call *)
Inductive tkind := Raw | Fmt | Garb.               (* the edited text: as replaced / formatted / unparsable formatter output *)
Inductive content := Old | New (t : tkind) | Trunc.
Inductive halt := HCrash (s : step) | HRaise (s : step).

Record file := { f_id : nat; f_clean : bool; f_import : bool; f_exts : list nat }.
Record config := { c_enforce : bool; c_fmt : fmode; c_files : list file }.

(* the external store: (id, still has the -new infix) *)
(* tmp: the temporary files that exist (file id, content) *)
Record world := { disk : list (nat * content); store : list (nat * bool); problems : nat; reported : bool; trace : list step;
                  tmp : list (nat * content) }.

Definition res (A : Type) : Type := (A * world + halt * world)%type.
Definition bind {A B} (m : res A) (k : A -> world -> res B) : res B :=
  match m with inl (a, w) => k a w | inr hw => inr hw end.

Definition log (s : step) (w : world) : world :=
  {| disk := disk w; store := store w; problems := problems w; reported := reported w; trace := trace w ++ [s]; tmp := tmp w |}.

(* a step boundary: returns "this step has to fail" or halts the run (interruption) *)
Definition tick (flt : option (nat * fkind)) (s : step) (w : world) : res bool :=
  match flt with
  | Some (n, k) =>
      if n =? length (trace w)
      then match k with Crash => inr (HCrash s, w) | Fail => inl (true, log s w) end
      else inl (false, log s w)
  | None => inl (false, log s w)
  end.

(* a step whose failure is an exception that leaves pytest_sessionfinish *)
Definition raising (flt : option (nat * fkind)) (s : step) (w : world) : res unit :=
  bind (tick flt s w) (fun failed w' => if failed then inr (HRaise s, w') else inl (tt, w')).

Inductive fres := RFailed | RGarbage | RFormatted.
Definition add_problem (w : world) : world :=
  {| disk := disk w; store := store w; problems := S (problems w); reported := reported w; trace := trace w; tmp := tmp w |}.
(* _format.format_code: a failure is caught, a problem is recorded and the input is returned *)
Definition format_call (flt : option (nat * fkind)) (m : fmode) (w : world) : res fres :=
  bind (tick flt SFormat w) (fun failed w' =>
    if failed then inl (RFailed, add_problem w')
    else match m with
         | FFails => inl (RFailed, add_problem w')
         | FGarbage => inl (RFailed, add_problem w')   (* since the repair of F-55: the output is validated, the input is returned *)
         | FOk => inl (RFormatted, w')
         end).

(* SourceFile.new_code *)
Definition new_code (flt : option (nat * fkind)) (c : config) (f : file) (w : world) : res tkind :=
  bind (raising flt (SRead (f_id f)) w) (fun _ w1 =>
  bind (if c_enforce c then inl (true, w1)
        else bind (format_call flt (c_fmt c) w1) (fun r w2 =>
               inl (match r with
                    | RFailed => true              (* format_code returned its input: code == format_code(code) *)
                    | RGarbage => false
                    | RFormatted => f_clean f
                    end, w2)))
       (fun whole w3 =>
  if whole
  then bind (format_call flt (c_fmt c) w3) (fun r w4 =>
         inl (match r with RFailed => Raw | RGarbage => Garb | RFormatted => Fmt end, w4))
  else inl (Raw, w3))).

Fixpoint set_assoc {X} (k : nat) (v : X) (l : list (nat * X)) : list (nat * X) :=
  match l with
  | [] => []
  | (k', x) :: r => if k =? k' then (k', v) :: r else (k', x) :: set_assoc k v r
  end.
Definition set_disk (f : nat) (ct : content) (w : world) : world :=
  {| disk := set_assoc f ct (disk w); store := store w; problems := problems w; reported := reported w; trace := trace w; tmp := tmp w |}.
Definition set_tmp (l : list (nat * content)) (w : world) : world :=
  {| disk := disk w; store := store w; problems := problems w; reported := reported w; trace := trace w; tmp := l |}.
Definition persist (e : nat) (w : world) : world :=
  {| disk := disk w; store := set_assoc e false (store w); problems := problems w; reported := reported w; trace := trace w; tmp := tmp w |}.

Fixpoint persist_all (flt : option (nat * fkind)) (es : list nat) (w : world) : res unit :=
  match es with
  | [] => inl (tt, w)
  | e :: r => bind (raising flt (SPersist e) w) (fun _ w' => persist_all flt r (persist e w'))
  end.

(* phase A for one file *)
Definition prepare (flt : option (nat * fkind)) (c : config) (f : file) (w : world) : res unit :=
  bind (new_code flt c f w) (fun t w1 =>
  bind (tick flt SParse w1) (fun failed w2 =>
  if failed then inr (HRaise SParse, w2)
  else match t with
       | Garb => inr (HRaise SParse, w2)            (* SyntaxError *)
       | _ =>
         bind (if f_import f then raising flt (SImport (f_id f)) w2 else inl (tt, w2)) (fun _ w3 =>
         persist_all flt (f_exts f) w3)
       end)).

(* a failing step inside the try block of SourceFile.rewrite: the except clause removes the temporary file, then the exception
   leaves pytest_sessionfinish *)
Definition cleanup_raise (s : step) (w : world) : res unit := inr (HRaise s, set_tmp [] w).

(* phase B for one file: SourceFile.rewrite *)
Definition rewrite (flt : option (nat * fkind)) (c : config) (f : file) (w : world) : res unit :=
  bind (new_code flt c f w) (fun t w1 =>
  bind (raising flt (SOpenW (f_id f)) w1) (fun _ w2 =>
  let w3 := set_tmp [(f_id f, Trunc)] w2 in                  (* the temporary file exists and is empty *)
  bind (tick flt (SWrite (f_id f)) w3) (fun failed w4 =>
  if failed then cleanup_raise (SWrite (f_id f)) w4 else
  let w5 := set_tmp [(f_id f, New t)] w4 in
  bind (tick flt (SMode (f_id f)) w5) (fun failed w6 =>
  if failed then cleanup_raise (SMode (f_id f)) w6 else
  bind (tick flt (SRename (f_id f)) w6) (fun failed w7 =>
  if failed then cleanup_raise (SRename (f_id f)) w7
  else inl (tt, set_tmp [] (set_disk (f_id f) (New t) w7))))))).

Fixpoint each (g : file -> world -> res unit) (fs : list file) (w : world) : res unit :=
  match fs with
  | [] => inl (tt, w)
  | f :: r => bind (g f w) (fun _ w' => each g r w')
  end.

Definition report (w : world) : world :=
  {| disk := disk w; store := store w; problems := problems w; reported := Nat.ltb 0 (problems w); trace := trace w; tmp := tmp w |}.

Definition write_phase (flt : option (nat * fkind)) (c : config) (w : world) : res unit :=
  bind (each (prepare flt c) (c_files c) w) (fun _ w1 =>
  bind (each (rewrite flt c) (c_files c) w1) (fun _ w2 =>
  inl (tt, report w2))).

(* the world before the write phase: every file has its old content; `news` are the externals outsourced in this
   session (they carry the -new infix), `olds` are externals persisted by earlier sessions *)
Definition init (c : config) (news olds : list nat) : world :=
  {| disk := map (fun f => (f_id f, Old)) (c_files c);
     store := map (fun e => (e, true)) news ++ map (fun e => (e, false)) olds;
     problems := 0; reported := false; trace := []; tmp := [] |}.

Definition final {A} (r : res A) : world := match r with inl (_, w) => w | inr (_, w) => w end.
Definition halted {A} (r : res A) : option halt := match r with inl _ => None | inr (h, _) => Some h end.

(* start of the next session: DiscStorage.prune_new_files *)
Definition prune (s : list (nat * bool)) : list (nat * bool) := filter (fun e => negb (snd e)) s.
Fixpoint lookup {X} (k : nat) (l : list (nat * X)) : option X :=
  match l with [] => None | (k', x) :: r => if k =? k' then Some x else lookup k r end.
(* does external(e) still resolve after the next session start? *)
Definition resolves (e : nat) (s : list (nat * bool)) : bool :=
  match lookup e (prune s) with Some _ => true | None => false end.
