(* Model of CollectionValue._get_changes for `x in snapshot(<value>)` when the previous value is NO list display
   (a tuple, set, frozenset, dict, string ...): the value can only be replaced as a whole
   (src/inline_snapshot/_snapshot/collection_value.py, the branch `not isinstance(self._ast_node, ast.List)`, and `ordered`).
   Members are integers compared with Z.eqb (what `contains` does for values whose == does not raise).  Executable definitions only. *)
From Coq Require Import List ZArith Bool.
Import ListNotations.
Open Scope Z_scope.

Definition mem (x : Z) (l : list Z) : bool := existsb (Z.eqb x) l.

(* `ordered`: the members of a set are listed in sorted order (list(set) depends on the hash seed), other values in their own order *)
Fixpoint insert (x : Z) (l : list Z) : list Z :=
  match l with
  | [] => [x]
  | y :: r => if x <=? y then x :: l else y :: insert x r
  end.
Definition isort (l : list Z) : list Z := fold_right insert [] l.
Definition ordered (is_set : bool) (l : list Z) : list Z := if is_set then isort l else l.

(* tested values that are no members of the previous value *)
Definition missing (old tested : list Z) : list Z := filter (fun v => negb (mem v old)) tested.

Inductive res :=
| NoChange
| Repl (is_fix : bool) (new_value : list Z).     (* is_fix = false: the change has the category trim *)

(* unm: the previous value holds parts the user controls (Is(), f-strings, star-expressions)
   trim: state().update_flags.trim while the changes are computed
   is_set: the previous value is a set / frozenset (old is then its iteration order, which is arbitrary)
   old: the members of the previous value; tested: the distinct tested values in the order of the first test *)
Definition coll_replace (unm trim is_set : bool) (old tested : list Z) : res :=
  if unm then NoChange
  else match missing old tested with
       | [] => if forallb (fun o => mem o tested) old then NoChange else Repl false tested
       | m => Repl true (if trim then tested else ordered is_set old ++ m)
       end.
