(* Model of _change.generic_sequence_update (src/inline_snapshot/_change.py:103-163) at token level.
   What stands between the braces of a list / tuple / dict display or a call is an abstract token list
       g0 ++ [Old e0] ++ g1 ++ [Old e1] ++ ... ++ [Old e(n-1)] ++ gn
   where the gaps g hold `Comma` and trivia (`Triv id`: comments, line breaks, blanks - anything that is
   not an element and not a comma).  Deleting elements and inserting new ones (`New id`) replaces the
   spans between consecutive KEPT elements (or braces), exactly as the code does with
   rec.replace((end_of(last_token), start_of(first_token)), code); spans that are not replaced keep
   their tokens (so trivia ids surviving in the output = source text kept verbatim).
   `seq_update` returns the new token list between the braces.  Executable definitions only. *)
From Coq Require Import List Arith Bool.
Import ListNotations.

Inductive tok := Comma | Triv (id : nat) | Old (id : nat) | New (id : nat).
Definition tok_eqb (a b : tok) : bool :=
  match a, b with
  | Comma, Comma => true | Triv x, Triv y | Old x, Old y | New x, New y => Nat.eqb x y | _, _ => false end.

(* container between the braces:  g0 ++ [Old 0] ++ g1 ++ [Old 1] ++ ... ++ [Old (n-1)] ++ gn *)
Record cont := { g0 : list tok; items : list (nat * list tok) }.   (* element id, gap after it *)

Fixpoint intersperse (l : list tok) : list tok :=
  match l with [] => [] | [x] => [x] | x :: r => x :: Comma :: intersperse r end.

Record stt := { new_code : list tok; deleted : bool; is_start : bool; elements : nat;
                out : list tok; pending : list tok }.

Definition step (del : nat -> bool) (ins : nat -> list tok) (s : stt) (ie : nat * (nat * list tok)) : stt :=
  let '(index, (e, gap)) := ie in
  let nc := new_code s ++ ins index in
  if del index then
    {| new_code := nc; deleted := true; is_start := is_start s; elements := elements s;
       out := out s; pending := pending s ++ [Old e] ++ gap |}
  else
    let elems := elements s + length nc + 1 in
    let o := if deleted s || negb (match nc with [] => true | _ => false end)
             then out s ++ (if is_start s then [] else [Comma]) ++ intersperse nc ++ (match nc with [] => [] | _ => [Comma] end)
             else out s ++ pending s in
    {| new_code := []; deleted := false; is_start := false; elements := elems;
       out := o ++ [Old e]; pending := gap |}.

Fixpoint enum {X} (i : nat) (l : list X) : list (nat * X) :=
  match l with [] => [] | x :: r => (i, x) :: enum (S i) r end.

Definition seq_update (is_tuple : bool) (c : cont) (del : nat -> bool) (ins : nat -> list tok) : list tok :=
  let n := length (items c) in
  let s0 := {| new_code := []; deleted := false; is_start := true; elements := 0; out := []; pending := g0 c |} in
  let s := fold_left (step del ins) (enum 0 (items c)) s0 in
  let has_tail := negb (match ins n with [] => true | _ => false end) in
  let nc := if has_tail then new_code s ++ ins n else new_code s in
  let elems := if has_tail then elements s + length nc else elements s in
  if negb (match nc with [] => true | _ => false end) || deleted s || Nat.eqb elems 1 || Nat.leb n 1 then
    let code := intersperse nc in
    let code := if negb (is_start s) && negb (match code with [] => true | _ => false end) then Comma :: code else code in
    let code := if Nat.eqb elems 1 && is_tuple then code ++ [Comma] else code in
    out s ++ code
  else out s ++ pending s.

Fixpoint list_beq (a b : list tok) : bool :=
  match a, b with [], [] => true | x :: a', y :: b' => tok_eqb x y && list_beq a' b' | _, _ => false end.
(* ---- specification ---- *)
Definition is_elem (t : tok) := match t with Old _ | New _ => true | _ => false end.
Definition elems_of (l : list tok) := filter is_elem l.
(* comma structure: strip trivia; then must be e (, e)* [,]  or empty *)
Definition no_triv (l : list tok) := filter (fun t => match t with Triv _ => false | _ => true end) l.
Fixpoint wf_seq (l : list tok) : bool :=     (* l without trivia *)
  match l with
  | [] => true
  | e :: r => is_elem e && match r with
                           | [] => true
                           | Comma :: r' => wf_seq r'
                           | _ => false end
  end.
Definition trailing_comma (l : list tok) : bool := match rev (no_triv l) with Comma :: _ => true | _ => false end.

Fixpoint expected (del : nat -> bool) (ins : nat -> list tok) (its : list (nat * (nat * list tok))) : list tok :=
  match its with
  | [] => []
  | (i, (e, _)) :: r => ins i ++ (if del i then [] else [Old e]) ++ expected del ins r
  end.
Definition expected_all c del ins := expected del ins (enum 0 (items c)) ++ ins (length (items c)).

Definition ok_result (is_tuple : bool) c del ins : bool :=
  let r := seq_update is_tuple c del ins in
  let ex := expected_all c del ins in
  list_beq (elems_of r) ex
  && wf_seq (no_triv r)
  && (if is_tuple && Nat.eqb (length ex) 1 then trailing_comma r else true).

(* ---- premises of the correctness theorem ---- *)
Definition delf (d : list bool) (i : nat) : bool := nth i d false.
Definition insf (l : list (list tok)) (i : nat) : list tok := nth i l [].

(* the input itself is well-formed: elements separated by exactly one comma, optional trailing comma,
   and a one-element tuple has its trailing comma *)
Definition input_tokens (c : cont) : list tok :=
  g0 c ++ flat_map (fun it => Old (fst it) :: snd it) (items c).
Definition has_comma (g : list tok) : bool := existsb (tok_eqb Comma) g.
Definition wf_input (is_tuple : bool) (c : cont) : bool :=
  wf_seq (no_triv (input_tokens c))
  && negb (has_comma (g0 c))
  && (negb (is_tuple && Nat.eqb (length (items c)) 1)
      || match rev (items c) with (_, g) :: _ => has_comma g | [] => false end).

(* inserted tokens are `New` elements *)
Definition is_new (t : tok) : bool := match t with New _ => true | _ => false end.

(* an insert position never directly precedes a deleted element
   (alignment scripts order d before i: Proofs/AlignProofs.align_no_i_then_d) *)
Fixpoint ins_before_del (n : nat) (d : list bool) (l : list (list tok)) : bool :=
  match n with
  | O => false
  | S i => (delf d i && negb (match insf l i with [] => true | _ => false end)) || ins_before_del i d l
  end.
