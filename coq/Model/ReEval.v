(* Model of GenericValue._re_eval (src/inline_snapshot/_snapshot/generic_value.py): a snapshot() call is evaluated again and its hand-written argument
   is compared with the value that was stored at the first evaluation.  Stored values hold Unmanaged wrappers (Is(...), f-strings, ...) whose content is
   refreshed; every other part has to evaluate to the same value again, otherwise a usage error is raised.  Containers are lists / tuples (no keys) and
   dicts (keys), told apart by `kind`; leaves are integers.  Executable definitions only. *)
From Coq Require Import List ZArith Bool Arith.
Import ListNotations.

Inductive vt :=                              (* a freshly evaluated argument *)
| VLeaf (v : Z)
| VNode (kind : nat) (keys : list Z) (kids : list vt).

Inductive st :=                              (* what the snapshot stores *)
| SLeaf (v : Z)
| SUnm (cur : vt)                            (* Unmanaged: the value the user's expression had at the last evaluation *)
| SNode (kind : nat) (keys : list Z) (kids : list st).

Fixpoint keys_eqb (a b : list Z) : bool :=
  match a, b with
  | [], [] => true
  | x :: a', y :: b' => Z.eqb x y && keys_eqb a' b'
  | _, _ => false
  end.

(* None = UsageError("snapshot value should not change. Use Is(...) for dynamic snapshot parts.") *)
Fixpoint re_eval (s : st) (v : vt) : option st :=
  match s with
  | SUnm _ => Some (SUnm v)
  | SLeaf a => match v with
               | VLeaf b => if Z.eqb a b then Some (SLeaf a) else None
               | VNode _ _ _ => None
               end
  | SNode k ks kids =>
      match v with
      | VLeaf _ => None
      | VNode k' ks' vs =>
          if Nat.eqb k k' && keys_eqb ks ks' then
            match (fix go (ss : list st) (vs : list vt) : option (list st) :=
                     match ss, vs with
                     | [], [] => Some []
                     | s1 :: ss', v1 :: vs' =>
                         match re_eval s1 v1, go ss' vs' with
                         | Some s1', Some r => Some (s1' :: r)
                         | _, _ => None
                         end
                     | _, _ => None
                     end) kids vs with
            | Some kids' => Some (SNode k ks kids')
            | None => None
            end
          else None
      end
  end.

(* the value a stored tree stands for *)
Fixpoint plain (s : st) : vt :=
  match s with
  | SLeaf v => VLeaf v
  | SUnm cur => cur
  | SNode k ks kids => VNode k ks (map plain kids)
  end.

Fixpoint has_unm (s : st) : bool :=
  match s with
  | SLeaf _ => false
  | SUnm _ => true
  | SNode _ _ kids => existsb has_unm kids
  end.

(* the managed skeleton: unmanaged contents erased *)
Fixpoint skeleton (s : st) : st :=
  match s with
  | SLeaf v => SLeaf v
  | SUnm _ => SUnm (VLeaf 0)
  | SNode k ks kids => SNode k ks (map skeleton kids)
  end.
