(* Model of src/inline_snapshot/_align.py (align, nw_align, add_x).
   Executable definitions only; proofs live in Proofs/AlignProofs.v. *)
From Coq Require Import List Arith Bool.
Import ListNotations.
Open Scope nat_scope.

(* 'e' 'd' 'i' 'm' 'x' *)
Inductive dir := De | Dd | Di | Dm | Dx.

Definition dir_eqb (a b : dir) : bool :=
  match a, b with
  | De, De | Dd, Dd | Di, Di | Dm, Dm | Dx, Dx => true
  | _, _ => false
  end.

(* Python's max over (score, char): higher score wins, ties by char: 'm' > 'i' > 'd' *)
Definition rank (d : dir) : nat :=
  match d with De => 0 | Dd => 0 | Di => 1 | Dm => 2 | Dx => 3 end.
Definition cell := (nat * dir)%type.
Definition better (x y : cell) : cell :=
  if (fst y <? fst x) then x
  else if (fst x <? fst y) then y
  else if (rank (snd y) <=? rank (snd x)) then x else y.

Section A.
Variables (A B : Type) (eqb : A -> B -> bool).   (* eqb a b  =  Python `a == b`, arbitrary *)

(* one row of the matrix: new_line[bi] = max([(la, "i"), (lb, "d")] + [(lc + 1, "m")] if a == b) *)
Fixpoint row (a : A) (last : list cell) (bs : list B) (left : cell) {struct bs} : list cell :=
  match bs, last with
  | b :: bs', lc :: ((lb :: _) as last') =>
      let c0 := better (fst left, Di) (fst lb, Dd) in
      let c := if eqb a b then better c0 (S (fst lc), Dm) else c0 in
      c :: row a last' bs' c
  | _, _ => []
  end.
Definition first_row (bs : list B) : list cell := (0, De) :: map (fun _ => (0, Di)) bs.
Definition next_row (a : A) (last : list cell) (bs : list B) : list cell :=
  (0, Dd) :: row a last bs (0, Dd).
Fixpoint rows (as_ : list A) (bs : list B) (last : list cell) : list (list cell) :=
  match as_ with
  | [] => []
  | a :: as' => let r := next_row a last bs in r :: rows as' bs r
  end.
Definition matrix (as_ : list A) (bs : list B) : list (list cell) :=
  let r0 := first_row bs in r0 :: rows as_ bs r0.

Definition dirat (m : list (list cell)) ai bi : dir := snd (nth bi (nth ai m []) (0, De)).

(* backtracking on explicit fuel (|a| + |b| + 1 suffices, see back_valid) *)
Fixpoint back (fuel ai bi : nat) (m : list (list cell)) (acc : list dir) : list dir :=
  match fuel with
  | 0 => acc
  | S f =>
    match dirat m ai bi with
    | De | Dx => acc
    | Dm => back f (ai - 1) (bi - 1) m (Dm :: acc)
    | Di => back f ai (bi - 1) m (Di :: acc)
    | Dd => back f (ai - 1) bi m (Dd :: acc)
    end
  end.
Definition nw_align (as_ : list A) (bs : list B) : list dir :=
  back (S (length as_ + length bs)) (length as_) (length bs) (matrix as_ bs) [].

(* common prefix length under eqb (the zip loop with break) *)
Fixpoint common_prefix (as_ : list A) (bs : list B) : nat :=
  match as_, bs with
  | a :: as', b :: bs' => if eqb a b then S (common_prefix as' bs') else 0
  | _, _ => 0
  end.

Definition align (as_ : list A) (bs : list B) : list dir :=
  let start := common_prefix as_ bs in
  if (start =? length as_) && (start =? length bs) then repeat Dm start
  else
    let ra := skipn start as_ in
    let rb := skipn start bs in
    let end_ := common_prefix (rev ra) (rev rb) in
    let ma := firstn (length ra - end_) ra in
    let mb := firstn (length rb - end_) rb in
    repeat Dm start ++ nw_align ma mb ++ repeat Dm end_.
End A.

(* itertools.groupby run lengths *)
Fixpoint rle (l : list dir) : list (dir * nat) :=
  match l with
  | [] => []
  | c :: r =>
      match rle r with
      | (c', n) :: g => if dir_eqb c c' then (c, S n) :: g else (c, 1) :: (c', n) :: g
      | [] => [(c, 1)]
      end
  end.

Fixpoint add_x_groups (g : list (dir * nat)) : list dir :=
  match g with
  | [] => []
  | (c, n) :: r =>
      match r with
      | (c2, n2) :: r2 =>
          if dir_eqb c Dd && dir_eqb c2 Di && (n =? n2)
          then repeat Dx n ++ add_x_groups r2
          else repeat c n ++ add_x_groups r
      | [] => repeat c n
      end
  end.
Definition add_x (l : list dir) : list dir := add_x_groups (rle l).
