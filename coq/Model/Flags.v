(* Model of flag resolution (pytest_plugin.pytest_configure, _config.py defaults, _flags.py) and of the
   gate at the end of the session (pytest_plugin.pytest_sessionfinish: which pending categories are
   applied, whether unused externals are removed).  Executable definitions only. *)
From Coq Require Import List Bool Arith.
Import ListNotations.
From V Require Import Model.Tree.

Inductive flag := FCreate | FFix | FTrim | FUpdate | FDisable | FReview | FReport | FShortReport | FUnknown (n : nat).
Definition flag_eqb (a b : flag) : bool :=
  match a, b with
  | FCreate, FCreate | FFix, FFix | FTrim, FTrim | FUpdate, FUpdate | FDisable, FDisable
  | FReview, FReview | FReport, FReport | FShortReport, FShortReport => true
  | FUnknown n, FUnknown m => Nat.eqb n m
  | _, _ => false
  end.
Definition mem (f : flag) (l : list flag) : bool := existsb (flag_eqb f) l.
Definition is_cat (f : flag) : bool := match f with FCreate | FFix | FTrim | FUpdate => true | _ => false end.
Definition is_known (f : flag) : bool := match f with FUnknown _ => false | _ => true end.

Record env := {
  cli : option (list flag);          (* --inline-snapshot=... (or a shortcut option), split at "," , empty items dropped *)
  env_var : option (list flag);      (* INLINE_SNAPSHOT_DEFAULT_FLAGS *)
  cfg_default : list flag;           (* default-flags     (built-in default: report) *)
  cfg_default_tui : list flag;       (* default-flags-tui (built-in default: create, review) *)
  tty : bool;                        (* rich Console().is_terminal *)
  xdist : bool;                      (* -n N with N <> 0, or an xdist worker process *)
  ci : bool;                         (* a CI environment variable is set and PYCHARM_HOSTED is not *)
  cpython : bool
}.

Record cats4 := { c_create : bool; c_fix : bool; c_trim : bool; c_update : bool }.
Definition none4 := {| c_create := false; c_fix := false; c_trim := false; c_update := false |}.
Definition all4 := {| c_create := true; c_fix := true; c_trim := true; c_update := true |}.
Definition of_flags (l : list flag) : cats4 :=
  {| c_create := mem FCreate l; c_fix := mem FFix l; c_trim := mem FTrim l; c_update := mem FUpdate l |}.

Inductive resolved :=
| UsageError
| Resolved (flags : list flag) (active : bool) (update_flags : cats4).

Definition nonempty_without_disable (l : list flag) : bool := existsb (fun f => negb (flag_eqb f FDisable)) l.

Definition resolve (e : env) : resolved :=
  let default := match env_var e with
                 | Some l => l
                 | None => if tty e then cfg_default_tui e else cfg_default e
                 end in
  let flags := match cli e with Some l => l | None => default end in
  if (match cli e with Some l => xdist e && nonempty_without_disable l | None => false end) then UsageError
  else if negb (forallb is_known flags) then UsageError
  else if mem FDisable flags && nonempty_without_disable flags then UsageError
  else if xdist e || negb (cpython e) || ci e then Resolved flags false none4
  else if mem FReview flags then Resolved flags true all4
  else Resolved flags (negb (mem FDisable flags)) (of_flags (filter is_cat flags)).

(* ---- the end of the session ---- *)
Inductive cat := Create | Fix | Trim | Update.
Definition cat_flag (c : cat) : flag := match c with Create => FCreate | Fix => FFix | Trim => FTrim | Update => FUpdate end.
Definition all_cats := [Create; Fix; Trim; Update].      (* iteration order of Flags.all() *)

Record session := {
  pending : cat -> bool;          (* some snapshot has a change of this category *)
  diff_nonempty : cat -> bool;    (* applying them (on top of the already approved ones) changes some file *)
  answer : cat -> bool;           (* the answer to the review question for this category *)
  skip_updates : bool             (* skip-snapshot-updates-for-now *)
}.

(* is category c applied to the files? *)
Definition applied (e : env) (s : session) (c : cat) : bool :=
  match resolve e with
  | UsageError => false
  | Resolved flags active _ =>
      active
      && negb (mem FShortReport flags)
      && pending s c
      && (mem FReview flags || mem FReport flags || mem (cat_flag c) flags)
      && negb (match c with Update => skip_updates s && negb (mem FUpdate flags) | _ => false end)
      && diff_nonempty s c
      && (mem (cat_flag c) flags || (mem FReview flags && answer s c))
  end.

(* what the user approved: a category flag from the effective source, or a 'y' answer in review mode *)
Definition approved (e : env) (s : session) (c : cat) : bool :=
  match resolve e with
  | UsageError => false
  | Resolved flags _ _ => mem (cat_flag c) flags || (mem FReview flags && answer s c)
  end.

(* are unused persisted externals removed?  pinned tree: update_flags.trim (true in review mode without
   any question, F-04); repaired tree: the trim flag itself *)
Definition removes_unused_externals_gen (fixed : bool) (e : env) : bool :=
  match resolve e with
  | UsageError => false
  | Resolved flags active uf =>
      active && negb (mem FShortReport flags)
      && (if fixed then mem FTrim flags else c_trim uf)
  end.
Definition removes_unused_externals (e : env) : bool := removes_unused_externals_gen fixed_F04 e.

(* the testing helper Example.run_inline: flags are the category names given, everything else ignored *)
Definition inline_applied (given : list flag) (s : session) (c : cat) : bool :=
  pending s c && mem (cat_flag c) given.
