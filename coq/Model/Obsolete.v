(* Model of _change.without_obsolete_changes (src/inline_snapshot/_change.py:193-214): changes inside of a node which is
   deleted or replaced by ANOTHER change are dropped before anything is applied.
   A change is (removes?, chain) where chain = the node of the change followed by its ancestors (node, node.parent, ...),
   nodes being natural numbers (identities); removes? = the change is a Delete or a Replace (of a node that is not None).
   Executable definitions only. *)
From Coq Require Import List Bool Arith.
Import ListNotations.

Record change := { c_removes : bool; c_chain : list nat }.
Definition c_node (c : change) : option nat := hd_error (c_chain c).

(* removed_nodes: (index of the change, its node) for every Delete / Replace *)
Fixpoint removed_from (i : nat) (l : list change) : list (nat * nat) :=
  match l with
  | [] => []
  | c :: r =>
      match c_removes c, c_node c with
      | true, Some n => (i, n) :: removed_from (S i) r
      | _, _ => removed_from (S i) r
      end
  end.
Definition removed_nodes (l : list change) : list (nat * nat) := removed_from 0 l.

(* is_obsolete(change): some node of its chain is removed by another change *)
Definition is_obsolete (rem : list (nat * nat)) (i : nat) (c : change) : bool :=
  existsb (fun node => existsb (fun r => Nat.eqb (snd r) node && negb (Nat.eqb (fst r) i)) rem) (c_chain c).

Fixpoint filter_from (rem : list (nat * nat)) (i : nat) (l : list change) : list (nat * change) :=
  match l with
  | [] => []
  | c :: r => if is_obsolete rem i c then filter_from rem (S i) r else (i, c) :: filter_from rem (S i) r
  end.
(* the surviving changes with their indices *)
Definition without_obsolete (l : list change) : list (nat * change) := filter_from (removed_nodes l) 0 l.
