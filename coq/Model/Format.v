(* Model of the whole-file formatting decision of _rewrite_code.SourceFile.new_code (lines 161-186) and of
   _format.format_code's degradation on failure.  The formatter is an arbitrary function `fmt` (black, or the
   format-command); `fmt_ok x = false` models a crash / non-zero exit on input x, in which case format_code
   returns its input unchanged and records a problem.  Executable definitions only (over an abstract text type
   with decidable equality). *)
From Coq Require Import Bool.

Section Format.
Variable text : Type.
Variable eqb : text -> text -> bool.
Variable fmt : text -> text.            (* the formatter when it succeeds *)
Variable fmt_ok : text -> bool.         (* does the formatter succeed on this input? *)

(* _format.format_code: result and "a problem was reported" *)
Definition format_code (x : text) : text * bool :=
  if fmt_ok x then (fmt x, false) else (x, true).

(* new_code: `src` = file content, `edited` = content after the replacements were applied,
   `enforce` = a format-command is configured *)
Definition whole_file (enforce : bool) (src : text) : bool :=
  enforce || eqb src (fst (format_code src)).
Definition new_code (enforce : bool) (src edited : text) : text * bool :=
  if whole_file enforce src then format_code edited else (edited, false).
End Format.
