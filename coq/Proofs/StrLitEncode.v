(* Writing a literal into a file whose encoding (PEP 263 coding cookie) cannot represent every character: the repair F-97 encodes the new
   file content with errors="backslashreplace".  Model: every character of the literal that the encoding cannot represent is replaced by
   Python's backslashreplace escape (\xNN, \uNNNN, \UNNNNNNNN - the escapes of Model/StrLit.v's unicode_escape for characters >= 128).
   Theorem: for one-line str literals (repr) the escaped literal still reads back as the value, for every encoding that represents ASCII. *)
From Coq Require Import List NArith Bool Lia.
Import ListNotations.
From V Require Import Model.StrLit Proofs.StrLitRepr.
Open Scope N_scope.

Section E.
Variable enc_ok : cp -> bool.                         (* can the encoding of the file represent this character? *)
Hypothesis Hascii : forall c, c < 128 -> enc_ok c = true.

Notation enc_char := (StrLit.enc_char enc_ok).
Notation encode_text := (StrLit.encode_text enc_ok).

Lemma encode_text_app a b : encode_text (a ++ b) = encode_text a ++ encode_text b.
Proof. unfold StrLit.encode_text. rewrite map_app, concat_app. reflexivity. Qed.

Lemma encode_ascii : forall t, Forall (fun x => x < 128) t -> encode_text t = t.
Proof. induction t as [|x t IH]; intros H; [reflexivity|]. inversion H as [|x' t' Hx Ht]; subst.
  unfold StrLit.encode_text in *. cbn [map concat]. unfold StrLit.enc_char at 1. rewrite (Hascii x Hx). cbn [app]. f_equal. apply IH; exact Ht. Qed.

Lemma hexdigit_ascii n : n < 16 -> hexdigit n < 128.
Proof. intros H. unfold hexdigit. destruct (n <? 10); lia. Qed.

Lemma hex_fixed_ascii d : forall n, Forall (fun x => x < 128) (hex_fixed d n).
Proof. induction d as [|d IH]; intros n; cbn [hex_fixed]; [constructor|].
  apply Forall_app. split; [apply IH|]. constructor; [|constructor]. apply hexdigit_ascii. apply N.mod_lt. lia. Qed.

Variable printable : cp -> bool.
Definition printable' (c : cp) : bool := printable c && enc_ok c.

(* escaping what the encoding cannot represent = treating those characters as not printable *)
Lemma encode_repr_char q c : (q = 39 \/ q = 34) ->
  encode_text (repr_char printable q c) = repr_char printable' q c.
Proof. intros Hq. unfold repr_char.
  assert (Hesc : forall e d, e < 128 -> encode_text ([92; e] ++ hex_fixed d c) = [92; e] ++ hex_fixed d c).
  { intros e d He. apply encode_ascii. apply Forall_app. split; [repeat constructor; lia | apply hex_fixed_ascii]. }
  destruct ((c =? q) || (c =? 92)) eqn:E1.
  { apply encode_ascii. apply orb_prop in E1. destruct E1 as [E|E]; apply N.eqb_eq in E; subst c; repeat constructor; destruct Hq; subst; lia. }
  destruct (c =? 9); [apply encode_ascii; repeat constructor; lia|].
  destruct (c =? 10); [apply encode_ascii; repeat constructor; lia|].
  destruct (c =? 13); [apply encode_ascii; repeat constructor; lia|].
  destruct ((c <? 32) || (c =? 127)) eqn:E5; [apply Hesc; lia|].
  apply orb_false_elim in E5. destruct E5 as [E5a E5b]. apply N.ltb_ge in E5a. apply N.eqb_neq in E5b.
  destruct (c <? 127) eqn:E6.
  { apply N.ltb_lt in E6. apply encode_ascii. repeat constructor. lia. }
  apply N.ltb_ge in E6.
  unfold printable'. destruct (printable c); cbn [andb].
  - (* printable: written raw unless the encoding cannot represent it *)
    unfold StrLit.encode_text. cbn [map concat]. rewrite app_nil_r. unfold StrLit.enc_char.
    destruct (enc_ok c); [reflexivity|].
    unfold unicode_escape.
    destruct (c =? 92) eqn:X1; [apply N.eqb_eq in X1; lia|].
    destruct (c =? 9) eqn:X2; [apply N.eqb_eq in X2; lia|].
    destruct (c =? 10) eqn:X3; [apply N.eqb_eq in X3; lia|].
    destruct (c =? 13) eqn:X4; [apply N.eqb_eq in X4; lia|].
    reflexivity.
  - destruct (c <? 256); [apply Hesc; lia|]. destruct (c <? 65536); apply Hesc; lia.
Qed.

Lemma encode_repr_chars q : (q = 39 \/ q = 34) -> forall s,
  encode_text (concat (map (repr_char printable q) s)) = concat (map (repr_char printable' q) s).
Proof. intros Hq. induction s as [|c s IH]; [reflexivity|].
  cbn [map concat]. rewrite encode_text_app, encode_repr_char by exact Hq. rewrite IH. reflexivity. Qed.

Theorem encode_py_repr s : encode_text (py_repr printable s) = py_repr printable' s.
Proof. unfold py_repr. pose proof (pick_q_cases s) as Hq. set (q := pick_q s) in *.
  rewrite !encode_text_app. rewrite (encode_repr_chars q Hq).
  assert (Eq : encode_text [q] = [q]) by (apply encode_ascii; repeat constructor; destruct Hq as [-> | ->]; lia).
  rewrite Eq. reflexivity. Qed.

(* C12 for files with a coding cookie: the one-line literal, escaped for the encoding of the file, reads back as the value *)
Theorem backslashreplace_roundtrip s : Forall (fun c => c <= 1114111) s ->
  decode_literal (encode_text (py_repr printable s)) = Done s [].
Proof. intros Hs. rewrite encode_py_repr. apply py_repr_roundtrip; exact Hs. Qed.

(* nothing is escaped that the encoding can represent *)
Theorem encode_identity_when_representable t : Forall (fun c => enc_ok c = true) t -> encode_text t = t.
Proof. induction t as [|x t IH]; intros H; [reflexivity|]. inversion H as [|x' t' Hx Ht]; subst.
  unfold StrLit.encode_text in *. cbn [map concat]. unfold StrLit.enc_char at 1. rewrite Hx. cbn [app]. f_equal. apply IH; exact Ht. Qed.
End E.

(* latin-1: the euro sign is escaped, e-acute is written raw; the literal of "é€" *)
Example latin1_example :
  let latin1 := fun c => c <? 256 in
  StrLit.encode_text latin1 (py_repr (fun _ => true) [233; 8364]) = [39; 233; 92; 117; 50; 48; 97; 99; 39]
  /\ decode_literal (StrLit.encode_text latin1 (py_repr (fun _ => true) [233; 8364])) = Done [233; 8364] [].
Proof. split; vm_compute; reflexivity. Qed.
