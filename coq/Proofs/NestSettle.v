(* Proofs about Model/Nest.v, part 7 (C08): a run with fix and update approved leaves an expression in which nothing is left to do, so that every
   later run with the same observation - whatever is approved then - keeps the text verbatim: a second run is a no-op, for lists / tuples, dict
   displays and constructor calls nested in each other at any depth.
   Stdlib only; no axioms. *)
From Coq Require Import List Arith ZArith Bool Lia Permutation.
Import ListNotations.
From V Require Import Model.Align Model.SnapOps Model.TreeAssign Model.Nest Proofs.AlignValid Proofs.AlignProofs Proofs.SeqAssignProofs Proofs.UnmanagedProofs
  Proofs.NestProofs Proofs.NestValue Proofs.NestFix Proofs.NestEqual Proofs.NestUpdate Proofs.NestStable.
Open Scope nat_scope.

Lemma flat_map_keys_nodup : forall (X : Type) (f : Z * nval -> list (Z * X)) (l : list (Z * nval)),
  (forall kv x, In x (f kv) -> fst x = fst kv) -> (forall kv, length (f kv) <= 1) ->
  NoDup (map fst l) -> NoDup (map fst (flat_map f l)).
Proof.
  intros X f l Hk Hl. induction l as [|kv r IH]; intros Hnd; [constructor|]. cbn [map] in Hnd. inversion Hnd as [|? ? Hni Hnd']; subst.
  cbn [flat_map]. rewrite map_app. apply NoDup_app_intro; [|exact (IH Hnd')|].
  - specialize (Hl kv). destruct (f kv) as [|x [|y t]]; cbn [length] in Hl; [constructor|repeat constructor; intros []|lia].
  - intros x Hx Hy. apply in_map_iff in Hx. destruct Hx as [a [Ea Ha]]. apply in_map_iff in Hy. destruct Hy as [b [Eb Hb]].
    apply in_flat_map in Hb. destruct Hb as [kv' [Hkv' Hb]]. apply Hni. apply in_map_iff. exists kv'. split; [|exact Hkv'].
    rewrite <- (Hk kv' b Hb), Eb, <- Ea. exact (Hk kv a Ha).
Qed.

Section WithClasses.
Variable ct : ctab.
Hypothesis Hct : ct_ok ct.
Hypothesis Hwf : ct_wf ct.

(* the source text a result stands for *)
Fixpoint to_tree (r : nres) : ntree :=
  match r with
  | QKeep t => t
  | QGen v => canon_tree ct v
  | QSeq k l => NLst k (map to_tree l)
  | QDict l => NDct (map (fun kr => match kr with (k, r') => (k, to_tree r') end) l)
  | QCall c l =>
      NCall c (flat_map (fun ar => match ar with (None, r') => [to_tree r'] | (Some _, _) => [] end) l)
              (flat_map (fun ar => match ar with (Some k, r') => [(k, to_tree r')] | (None, _) => [] end) l)
  end.
Definition ev_t (r : nres) : nval := eval ct (to_tree r).

(* nothing is left to do: the expression is within the scope of nest_equal_stable, update finds nothing, the value is == n *)
Definition settled (t : ntree) (n : nval) : Prop := okc ct t = true /\ ustable ct t = true /\ val_eqb (eval ct t) n = true.

Lemma settled_seq : forall k ts ns, Forall2 settled ts ns -> settled (NLst k ts) (NSeq k ns).
Proof.
  intros k ts ns H. unfold settled. cbn [okc ustable eval]. rewrite val_eqb_seq.
  assert (Ek : skind_eqb k k = true) by (destruct k; reflexivity). rewrite Ek. cbn [andb].
  induction H as [|t n ts ns [H1 [H2 H3]] H IH]; [repeat split|]. destruct IH as [I1 [I2 I3]].
  cbn [forallb map vlist_eqb]. rewrite H1, H2, H3, I1, I2, I3. repeat split.
Qed.

(* ------------------------------------------------------------------------- generated code is settled *)
Definition canon_kws (c : Z) (fs : list (Z * nval)) : list (Z * ntree) :=
  flat_map (fun kv : Z * nval => match kv with (k, v') => if is_default ct c k v' then [] else [(k, canon_tree ct v')] end) fs.
Lemma canon_tree_obj : forall c fs, canon_tree ct (NObj c fs) = NCall c [] (canon_kws c fs).
Proof. reflexivity. Qed.
Lemma canon_kws_in : forall c fs k t, In (k, t) (canon_kws c fs) -> exists v, In (k, v) fs /\ is_default ct c k v = false /\ t = canon_tree ct v.
Proof.
  intros c fs k t Hin. unfold canon_kws in Hin. apply in_flat_map in Hin. destruct Hin as [[k0 v] [Hf Hin]].
  destruct (is_default ct c k0 v) eqn:Ed; [destruct Hin|]. destruct Hin as [E|[]]. injection E as <- <-. exists v. repeat split; assumption.
Qed.
Lemma canon_kws_nodup : forall c fs, NoDup (map fst fs) -> NoDup (map fst (canon_kws c fs)).
Proof.
  intros c fs. unfold canon_kws. apply flat_map_keys_nodup.
  - intros [k v] x Hx. destruct (is_default ct c k v); [destruct Hx|]. destruct Hx as [<-|[]]. reflexivity.
  - intros [k v]. destruct (is_default ct c k v); cbn [length]; lia.
Qed.

Lemma canon_settled : forall v, okv ct v = true -> settled (canon_tree ct v) v.
Proof.
  induction v as [z|k l IH|l IH|c fs IH] using nval_induction; intros Hv.
  - unfold settled. cbn [canon_tree okc ustable eval val_eqb]. rewrite Z.eqb_refl. repeat split.
  - cbn [canon_tree]. apply settled_seq. cbn [okv] in Hv. rewrite forallb_forall in Hv. rewrite Forall_forall in IH.
    induction l as [|x r IHr]; cbn [map]; constructor.
    + apply IH; [left; reflexivity|apply Hv; left; reflexivity].
    + apply IHr; [intros y Hy; apply IH; right; exact Hy|intros y Hy; apply Hv; right; exact Hy].
  - rewrite okv_dict in Hv. apply andb_true_iff in Hv. destruct Hv as [Hnd Hv]. rewrite Forall_forall in IH.
    assert (Hs : forall k v', In (k, v') l -> settled (canon_tree ct v') v') by (intros k v' Hin; apply (IH (k, v') Hin); exact (okv_entries_in ct _ _ _ Hv Hin)).
    cbn [canon_tree]. set (ents := map (fun kv : Z * nval => match kv with (k, v') => (k, canon_tree ct v') end) l).
    assert (Ek : map fst ents = map fst l) by (unfold ents; rewrite map_map; apply map_ext; intros [k v']; reflexivity).
    unfold settled. rewrite okc_dct, ustable_dct, Ek, Hnd. cbn [andb]. split; [|split].
    + unfold okc_entries. rewrite forallb_forall. intros [k t] Hin. unfold ents in Hin. apply in_map_iff in Hin. destruct Hin as [[k0 v'] [E Hin]]. injection E as <- <-. cbn [snd]. exact (proj1 (Hs k0 v' Hin)).
    + unfold ustable_entries. rewrite forallb_forall. intros [k t] Hin. unfold ents in Hin. apply in_map_iff in Hin. destruct Hin as [[k0 v'] [E Hin]]. injection E as <- <-. cbn [snd]. exact (proj1 (proj2 (Hs k0 v' Hin))).
    + apply nodupb_NoDup in Hnd. cbn [eval]. fold (ev_kt ct). rewrite mkdict_nodup by (rewrite ev_kt_keys, Ek; exact Hnd).
      rewrite val_eqb_dict. unfold ents. rewrite !map_length, Nat.eqb_refl. cbn [andb].
      apply dsub_intro. intros k w Hin. apply in_map_iff in Hin. destruct Hin as [[k0 t] [E Hin]]. cbn [ev_kt] in E. injection E as <- <-.
      apply in_map_iff in Hin. destruct Hin as [[k1 v'] [E Hin]]. injection E as <- <-. exists v'. split; [apply alookup_nodup; assumption|exact (proj2 (proj2 (Hs k1 v' Hin)))].
  - rewrite okv_obj in Hv. apply andb_true_iff in Hv. destruct Hv as [Hn1 Hv]. apply zlist_eqb_eq in Hn1. rewrite Forall_forall in IH.
    assert (Hnf : NoDup (map fst fs)) by (rewrite Hn1; apply Hct).
    assert (Hs : forall k v', In (k, v') fs -> settled (canon_tree ct v') v') by (intros k v' Hin; apply (IH (k, v') Hin); exact (okv_entries_in ct _ _ _ Hv Hin)).
    rewrite canon_tree_obj. pose proof (canon_kws_nodup c fs Hnf) as Hnk.
    unfold settled. rewrite okc_call, ustable_call. unfold call_ok. cbn [forallb andb]. split; [|split].
    + apply andb_true_iff. split; [apply andb_true_iff; split; [apply andb_true_iff; split|]|].
      * apply nodupb_NoDup. exact Hnk.
      * rewrite forallb_forall. intros [k t] Hin. cbn [fst]. destruct (canon_kws_in c fs k t Hin) as [v [Hv' _]]. apply zmemb_In. rewrite <- Hn1. apply in_map_iff. exists (k, v). split; [reflexivity|exact Hv'].
      * rewrite forallb_forall. intros [name [d|]] Hin; cbn [fst snd]; [reflexivity|]. apply zmemb_In.
        assert (Hname : In name (map fst fs)) by (rewrite Hn1; apply in_map_iff; exists (name, None); split; [reflexivity|exact Hin]).
        apply in_map_iff in Hname. destruct Hname as [[n0 v] [E Hv']]. cbn [fst] in E. subst n0.
        apply in_map_iff. exists (name, canon_tree ct v). split; [reflexivity|]. unfold canon_kws. apply in_flat_map. exists (name, v). split; [exact Hv'|].
        unfold is_default. rewrite (alookup_nodup _ name None (ct c) (Hct c) Hin). left. reflexivity.
      * unfold okc_entries. rewrite forallb_forall. intros [k t] Hin. cbn [snd]. destruct (canon_kws_in c fs k t Hin) as [v [Hv' [_ ->]]]. exact (proj1 (Hs k v Hv')).
    + apply andb_true_iff. split.
      * rewrite forallb_forall. intros [k t] Hin. cbn [fst snd]. destruct (canon_kws_in c fs k t Hin) as [v [Hv' [Hd ->]]]. apply negb_true_iff.
        destruct (is_default ct c k (eval ct (canon_tree ct v))) eqn:E; [|reflexivity]. exfalso. unfold is_default in *.
        destruct (alookup k (ct c)) as [[d|]|]; try discriminate.
        pose proof (val_eqb_trans d _ v E (proj2 (proj2 (Hs k v Hv')))) as Hdv. congruence.
      * unfold ustable_entries. rewrite forallb_forall. intros [k t] Hin. cbn [snd]. destruct (canon_kws_in c fs k t Hin) as [v [Hv' [_ ->]]]. exact (proj1 (proj2 (Hs k v Hv'))).
    + cbn [eval map]. fold (ev_kt ct). rewrite val_eqb_obj, Z.eqb_refl. cbn [andb].
      apply fill_fields_eqb; [apply Hct|exact Hn1|]. intros name d v Hf Hv'.
      destruct (is_default ct c name v) eqn:Ed.
      * assert (El : alookup name (map (ev_kt ct) (canon_kws c fs)) = None).
        { apply alookup_none. rewrite ev_kt_keys. intros Hin. apply in_map_iff in Hin. destruct Hin as [[k t] [E Hin]]. cbn [fst] in E. subst k.
          destruct (canon_kws_in c fs name t Hin) as [v2 [Hv2 [Hd2 _]]].
          assert (v2 = v) by (pose proof (alookup_nodup _ name v fs Hnf Hv') as E1; pose proof (alookup_nodup _ name v2 fs Hnf Hv2) as E2; congruence). subst v2. congruence. }
        rewrite El. unfold is_default in Ed. rewrite (alookup_nodup _ name d (ct c) (Hct c) Hf) in Ed. destruct d as [d|]; [exact Ed|discriminate].
      * assert (Hin : In (name, canon_tree ct v) (canon_kws c fs)).
        { unfold canon_kws. apply in_flat_map. exists (name, v). split; [exact Hv'|]. rewrite Ed. left. reflexivity. }
        rewrite (alookup_ev_kt ct _ name _ Hnk Hin). exact (proj2 (proj2 (Hs name v Hv'))).
Qed.

(* ------------------------------------------------------------------------- a source expression that is written canonically is the generated code of
   its value *)
Lemma ntree_eqb_eq : forall a b, ntree_eqb a b = true -> a = b.
Proof.
  induction a as [z c|i z|k l IH|l IH|c pos kws IHp IHk] using ntree_induction; intros b H; destruct b as [z' c'|i' z'|k' l'|l'|c' pos' kws']; cbn [ntree_eqb] in H; try discriminate.
  - apply andb_true_iff in H. destruct H as [H1 H2]. apply Z.eqb_eq in H1. apply Bool.eqb_prop in H2. congruence.
  - apply andb_true_iff in H. destruct H as [H1 H2]. apply Nat.eqb_eq in H1. apply Z.eqb_eq in H2. congruence.
  - apply andb_true_iff in H. destruct H as [H1 H2]. assert (k = k') by (destruct k, k'; try discriminate; reflexivity). subst k'. f_equal.
    rewrite Forall_forall in IH. clear H1. revert l' H2. induction l as [|x r IHr]; intros [|y m] H2; try discriminate; [reflexivity|].
    apply andb_true_iff in H2. destruct H2 as [E1 E2]. f_equal; [apply IH; [left; reflexivity|exact E1]|apply IHr; [intros z Hz; apply IH; right; exact Hz|exact E2]].
  - f_equal. rewrite Forall_forall in IH. revert l' H. induction l as [|[k x] r IHr]; intros [|[k' y] m] H; try discriminate; [reflexivity|].
    apply andb_true_iff in H. destruct H as [H E2]. apply andb_true_iff in H. destruct H as [E0 E1]. apply Z.eqb_eq in E0. subst k'.
    f_equal; [f_equal; apply (IH (k, x)); [left; reflexivity|exact E1]|apply IHr; [intros z Hz; apply IH; right; exact Hz|exact E2]].
  - apply andb_true_iff in H. destruct H as [H H3]. apply andb_true_iff in H. destruct H as [H1 H2]. apply Z.eqb_eq in H1. subst c'.
    rewrite Forall_forall in IHp, IHk. f_equal.
    + clear H3. revert pos' H2. induction pos as [|x r IHr]; intros [|y m] H2; try discriminate; [reflexivity|].
      apply andb_true_iff in H2. destruct H2 as [E1 E2]. f_equal; [apply IHp; [left; reflexivity|exact E1]|apply IHr; [intros z Hz; apply IHp; right; exact Hz|exact E2]].
    + clear H2. revert kws' H3. induction kws as [|[k x] r IHr]; intros [|[k' y] m] H; try discriminate; [reflexivity|].
      apply andb_true_iff in H. destruct H as [H E2]. apply andb_true_iff in H. destruct H as [E0 E1]. apply Z.eqb_eq in E0. subst k'.
      f_equal; [f_equal; apply (IHk (k, x)); [left; reflexivity|exact E1]|apply IHr; [intros z Hz; apply IHk; right; exact Hz|exact E2]].
Qed.

(* the value of a source expression is a well-formed observation, provided that the calls are well-formed and the defaults of the class table are *)
Definition ct_okv : Prop := forall c name d, In (name, Some d) (ct c) -> okv ct d = true.
Hypothesis Hcv : ct_okv.

Lemma fill_okv : forall fields i pos kws,
  (forall name d, In (name, Some d) fields -> okv ct d = true) -> (forall v, In v pos -> okv ct v = true) -> (forall kv, In kv kws -> okv ct (snd kv) = true) ->
  okv_entries ct (fill i fields pos kws) = true /\ map fst (fill i fields pos kws) = map fst fields.
Proof.
  induction fields as [|[name d] r IH]; intros i pos kws Hd Hp Hk; [split; reflexivity|]. cbn [fill]. unfold okv_entries. cbn [forallb snd map fst].
  destruct (IH (S i) pos kws (fun n0 d0 H0 => Hd n0 d0 (or_intror H0)) Hp Hk) as [I1 I2]. split; [|rewrite I2; reflexivity].
  apply andb_true_iff. split; [|exact I1].
  destruct (nth_error pos i) as [v|] eqn:E; [apply Hp; apply nth_error_In in E; exact E|].
  destruct (alookup name kws) as [v|] eqn:E2; [apply alookup_in in E2; exact (Hk (name, v) E2)|].
  destruct d as [d|]; [apply (Hd name d); left; reflexivity|reflexivity].
Qed.
Lemma eval_okv : forall o, okv ct (eval ct o) = true.
Proof.
  induction o as [z c|i z|k l IH|l IH|c pos kws IHp IHk] using ntree_induction; cbn [eval].
  - reflexivity.
  - reflexivity.
  - cbn [okv]. rewrite forallb_forall. intros v Hv. apply in_map_iff in Hv. destruct Hv as [t [<- Ht]]. rewrite Forall_forall in IH. exact (IH t Ht).
  - rewrite okv_dict.
    destruct (mkdict_wf _ (fun v => okv ct v = true) (map (fun kt : Z * ntree => match kt with (k, t') => (k, eval ct t') end) l)) as [M1 M2].
    { intros kv Hkv. apply in_map_iff in Hkv. destruct Hkv as [[k t] [<- Ht]]. cbn [snd]. rewrite Forall_forall in IH. exact (IH (k, t) Ht). }
    apply andb_true_iff. split; [apply nodupb_NoDup; exact M1|]. unfold okv_entries. rewrite forallb_forall. exact M2.
  - rewrite okv_obj.
    destruct (fill_okv (ct c) 0 (map (eval ct) pos) (map (fun kt : Z * ntree => match kt with (k, t') => (k, eval ct t') end) kws)) as [F1 F2].
    + intros name d Hin. exact (Hcv c name d Hin).
    + intros v Hv. apply in_map_iff in Hv. destruct Hv as [t [<- Ht]]. rewrite Forall_forall in IHp. exact (IHp t Ht).
    + intros kv Hkv. apply in_map_iff in Hkv. destruct Hkv as [[k t] [<- Ht]]. cbn [snd]. rewrite Forall_forall in IHk. exact (IHk (k, t) Ht).
    + rewrite F1, F2. cbn [andb]. apply andb_true_iff. split; [apply zlist_eqb_eq; reflexivity|reflexivity].
Qed.

Lemma canonical_settled : forall o n, canonical ct o = true -> val_eqb (eval ct o) n = true -> settled o n.
Proof.
  intros o n Hc He. unfold canonical in Hc. apply ntree_eqb_eq in Hc.
  destruct (canon_settled (eval ct o) (eval_okv o)) as [S1 [S2 _]]. rewrite <- Hc in S1, S2. repeat split; assumption.
Qed.

(* ------------------------------------------------------------------------- a run with fix and update settles the expression *)
Lemma value_assign_settles : forall F o n, okt o = true -> okv ct n = true -> f_fix F = true -> f_update F = true ->
  settled (to_tree (value_assign ct F o n)) n.
Proof.
  intros F o n Ho Hn HF HU. unfold value_assign. rewrite (okt_not_unm o Ho), HF, HU. destruct (val_eqb (eval ct o) n) eqn:E; cbn [negb].
  - destruct (canonical ct o) eqn:Ec; cbn [negb andb to_tree]; [apply canonical_settled; assumption|apply canon_settled; exact Hn].
  - cbn [to_tree]. apply canon_settled. exact Hn.
Qed.

Notation NV := (valid ntree nval (elt_eqb ct)).
Lemma walk_settles : forall asg F s os ns, NV s os ns -> f_fix F = true ->
  (forall o n, In o os -> In n ns -> settled (to_tree (asg o n)) n) -> (forall n, In n ns -> okv ct n = true) ->
  Forall2 settled (map to_tree (walk asg F s os ns)) ns.
Proof.
  intros asg F s os ns H HF Ha Hr.
  induction H as [|s o n os ns He H IH|s o os ns H IH|s n os ns H IH|s o n os ns H IH]; cbn [walk]; try rewrite HF; cbn [app map].
  - constructor.
  - constructor; [apply Ha; left; reflexivity|]. apply IH; [intros o' n' Ho Hn'; apply Ha; right; assumption|intros n' Hn'; apply Hr; right; exact Hn'].
  - apply IH; [intros o' n' Ho Hn'; apply Ha; [right; exact Ho|exact Hn']|exact Hr].
  - constructor; [cbn [to_tree]; apply canon_settled; apply Hr; left; reflexivity|]. apply IH; [intros o' n' Ho Hn'; apply Ha; [exact Ho|right; exact Hn']|intros n' Hn'; apply Hr; right; exact Hn'].
  - constructor; [apply Ha; left; reflexivity|]. apply IH; [intros o' n' Ho Hn'; apply Ha; right; assumption|intros n' Hn'; apply Hr; right; exact Hn'].
Qed.

(* what a repaired dict display consists of *)
Lemma dict_result_members : forall asg F olds news k r, f_fix F = true -> NoDup (map fst olds) -> NoDup (map fst news) ->
  In (k, r) (dict_result asg F olds news) ->
  (exists o v, In (k, o) olds /\ In (k, v) news /\ r = asg o v) \/ (exists v, In (k, v) news /\ r = QGen v).
Proof.
  intros asg F olds news k r HF Hno Hnn Hin. apply (Permutation_in _ (dict_result_perm asg F olds news HF Hno Hnn)) in Hin.
  apply in_app_or in Hin. destruct Hin as [Hin|Hin].
  - left. apply in_flat_map in Hin. destruct Hin as [[k0 o] [He Hin]]. unfold dassign_entry in Hin. cbn [fst snd] in Hin.
    destruct (alookup k0 news) as [v|] eqn:El; [|rewrite HF in Hin; destruct Hin].
    destruct Hin as [E|[]]. injection E as <- <-. exists o, v. split; [exact He|split; [apply alookup_in; exact El|reflexivity]].
  - right. apply in_map_iff in Hin. destruct Hin as [[k0 v] [E Hin]]. cbn [fst snd] in E. injection E as <- <-.
    unfold new_entries in Hin. apply filter_In in Hin. exists v. split; [tauto|reflexivity].
Qed.

Definition tk (kr : Z * nres) : Z * ntree := match kr with (k, r') => (k, to_tree r') end.
Lemma tk_keys : forall l, map fst (map tk l) = map fst l.
Proof. intros l. rewrite map_map. apply map_ext. intros [k r]. reflexivity. Qed.

Lemma dict_settles : forall asg F olds news, f_fix F = true -> NoDup (map fst olds) -> NoDup (map fst news) -> okv_entries ct news = true ->
  (forall k o v, In (k, o) olds -> In (k, v) news -> settled (to_tree (asg o v)) v) ->
  settled (to_tree (QDict (dict_result asg F olds news))) (NDict news).
Proof.
  intros asg F olds news HF Hno Hnn Hv Ha. cbn [to_tree]. fold tk.
  set (res := dict_result asg F olds news).
  assert (Hm : forall k r, In (k, r) res -> exists v, In (k, v) news /\ settled (to_tree r) v).
  { intros k r Hin. destruct (dict_result_members asg F olds news k r HF Hno Hnn Hin) as [[o [v [H1 [H2 ->]]]]|[v [H2 ->]]].
    - exists v. split; [exact H2|exact (Ha k o v H1 H2)].
    - exists v. split; [exact H2|]. cbn [to_tree]. apply canon_settled. exact (okv_entries_in ct _ _ _ Hv H2). }
  pose proof (dict_result_nodup asg F olds news HF Hno Hnn) as K1. fold res in K1.
  unfold settled. rewrite okc_dct, ustable_dct, tk_keys. split; [|split].
  - unfold okc_entries. rewrite forallb_forall. intros [k t] Hin. apply in_map_iff in Hin. destruct Hin as [[k0 r] [E Hin]]. cbn [tk] in E. injection E as <- <-. cbn [snd].
    destruct (Hm k0 r Hin) as [v [_ S]]. exact (proj1 S).
  - apply andb_true_iff. split; [apply nodupb_NoDup; exact K1|].
    unfold ustable_entries. rewrite forallb_forall. intros [k t] Hin. apply in_map_iff in Hin. destruct Hin as [[k0 r] [E Hin]]. cbn [tk] in E. injection E as <- <-. cbn [snd].
    destruct (Hm k0 r Hin) as [v [_ S]]. exact (proj1 (proj2 S)).
  - cbn [eval]. rewrite map_map.
    replace (map (fun x : Z * nres => match tk x with (k, t') => (k, eval ct t') end) res) with (map (ev_kr_gen ev_t) res) by (apply map_ext; intros [k r]; reflexivity).
    apply (dict_fix_eq_gen ev_t asg F olds news HF Hno Hnn).
    + intros k o v H1 H2. exact (proj2 (proj2 (Ha k o v H1 H2))).
    + intros k v H2. unfold ev_t. cbn [to_tree]. exact (proj2 (proj2 (canon_settled v (okv_entries_in ct _ _ _ Hv H2)))).
Qed.

(* what the arguments of a repaired call consist of, when fix and update are approved and the call held no user-controlled part *)
Lemma call_result_members : forall asg F c pos kws fs a r, f_fix F = true -> f_update F = true ->
  (forall k t, In (k, t) kws -> has_unm t = false) ->
  In (a, r) (call_result ct asg F c pos kws fs) ->
  exists k v, a = Some k /\ In (k, v) fs /\ is_default ct c k v = false /\ ((exists t, In (k, t) kws /\ r = asg t v) \/ r = QGen v).
Proof.
  intros asg F c pos kws fs a r HF HU Hunm Hin. apply (Permutation_in _ (call_result_perm ct asg F c pos kws fs HF)) in Hin.
  apply in_app_or in Hin. destruct Hin as [Hin|Hin].
  - apply in_flat_map in Hin. destruct Hin as [e [He Hin]]. destruct e as [t|[k0 t]]; cbn [cassign_el] in Hin; [unfold cassign_pos in Hin; rewrite HF in Hin; destruct Hin|].
    apply in_elements_kw in He. unfold cassign_kw in Hin. destruct (alookup k0 fs) as [v|] eqn:El; [|rewrite HF in Hin; destruct Hin].
    destruct (is_default ct c k0 v) eqn:Ed.
    + rewrite (Hunm k0 t He), HU, HF in Hin. destruct (val_eqb (eval ct t) v); destruct Hin.
    + destruct Hin as [E|[]]. injection E as <- <-. exists k0, v. split; [reflexivity|]. split; [apply alookup_in; exact El|]. split; [exact Ed|]. left. exists t. split; [exact He|reflexivity].
  - apply in_map_iff in Hin. destruct Hin as [[k0 v] [E Hin]]. cbn [fst snd] in E. injection E as <- <-.
    unfold new_fields in Hin. apply filter_In in Hin. destruct Hin as [Hin Hc]. cbn [fst snd] in Hc. apply andb_true_iff in Hc. destruct Hc as [Hc1 _].
    exists k0, v. split; [reflexivity|]. split; [exact Hin|]. split; [apply negb_true_iff; exact Hc1|]. right. reflexivity.
Qed.

Definition tpos (l : list (option Z * nres)) : list ntree := flat_map (fun ar : option Z * nres => match ar with (None, r') => [to_tree r'] | (Some _, _) => [] end) l.
Definition tkws (l : list (option Z * nres)) : list (Z * ntree) := flat_map (fun ar : option Z * nres => match ar with (Some k, r') => [(k, to_tree r')] | (None, _) => [] end) l.
Lemma tkws_in : forall l k t, In (k, t) (tkws l) <-> exists r, In (Some k, r) l /\ t = to_tree r.
Proof.
  intros l k t. unfold tkws. rewrite in_flat_map. split.
  - intros [[[k0|] r] [Hin Hx]]; [|destruct Hx]. destruct Hx as [E|[]]. injection E as <- <-. exists r. split; [exact Hin|reflexivity].
  - intros [r [Hin ->]]. exists (Some k, r). split; [exact Hin|left; reflexivity].
Qed.
Lemma tkws_keys : forall l, map fst (tkws l) = map fst (kwvals_gen ev_t l).
Proof. induction l as [|[[k|] r] l IH]; [reflexivity| |exact IH]. unfold tkws, kwvals_gen in *. cbn [flat_map app map fst]. rewrite IH. reflexivity. Qed.
Lemma tkws_eval : forall l, map (ev_kt ct) (tkws l) = kwvals_gen ev_t l.
Proof. induction l as [|[[k|] r] l IH]; [reflexivity| |exact IH]. unfold tkws, kwvals_gen in *. cbn [flat_map app map ev_kt]. rewrite IH. reflexivity. Qed.
Lemma tpos_eval : forall l, map (eval ct) (tpos l) = posvals_gen ev_t l.
Proof. induction l as [|[[k|] r] l IH]; [reflexivity|exact IH|]. unfold tpos, posvals_gen in *. cbn [flat_map app map]. rewrite IH. reflexivity. Qed.


Lemma tpos_nil : forall l, (forall a r, In (a, r) l -> a <> None) -> tpos l = [].
Proof.
  induction l as [|[[k|] r] l IH]; intros H; [reflexivity| |exfalso; apply (H None r); [left; reflexivity|reflexivity]].
  unfold tpos. cbn [flat_map app]. apply IH. intros a r' Hin. apply (H a r'). right. exact Hin.
Qed.

(* the keywords of a repaired call: no keyword twice, every field that does not hold its default is given *)
Lemma cassign_el_keys : forall asg F c fs e x, In x (cassign_el ct asg F c fs e) -> match e with inl _ => fst x = None | inr (k, _) => fst x = Some k end.
Proof.
  intros asg F c fs [t|[k t]] x Hin; cbn [cassign_el] in Hin.
  - unfold cassign_pos in Hin. destruct (f_fix F); [destruct Hin|]. destruct Hin as [<-|[]]. reflexivity.
  - unfold cassign_kw in Hin. destruct (alookup k fs) as [v|]; [destruct (is_default ct c k v); [destruct (has_unm t); [|destruct (val_eqb (eval ct t) v); [destruct (f_update F)|destruct (f_fix F)]]|]|destruct (f_fix F)];
      cbn in Hin; try tauto; destruct Hin as [<-|[]]; reflexivity.
Qed.
Lemma call_result_kw_nodup : forall asg F c pos kws fs, f_fix F = true -> NoDup (map fst kws) -> NoDup (map fst fs) ->
  NoDup (map fst (tkws (call_result ct asg F c pos kws fs))).
Proof.
  intros asg F c pos kws fs HF Hnk Hnf. rewrite tkws_keys.
  pose proof (call_result_perm ct asg F c pos kws fs HF) as P.
  set (A := flat_map (cassign_el ct asg F c fs) (elements pos kws)) in P.
  set (B := map (fun kv : Z * nval => (Some (fst kv), QGen (snd kv))) (new_fields ct c kws fs)) in P.
  assert (PK : Permutation (kwvals_gen ev_t (call_result ct asg F c pos kws fs)) (kwvals_gen ev_t A ++ kwvals_gen ev_t B)) by (rewrite <- kwvals_app; apply kwvals_perm; exact P).
  eapply Permutation_NoDup; [apply Permutation_map, Permutation_sym, PK|].
  rewrite map_app. apply NoDup_app_intro.
  - unfold A, elements. rewrite flat_map_app, kwvals_app.
    assert (E1 : kwvals_gen ev_t (flat_map (cassign_el ct asg F c fs) (map inl pos)) = []).
    { clear. induction pos as [|t r IH]; [reflexivity|]. cbn [map flat_map]. rewrite kwvals_app, IH, app_nil_r. cbn [cassign_el]. unfold cassign_pos. destruct (f_fix F); reflexivity. }
    rewrite E1. cbn [app]. clear -Hnk. induction kws as [|[k t] r IH]; [constructor|]. cbn [map fst] in Hnk. inversion Hnk as [|? ? Hni Hnk']; subst.
    cbn [map flat_map]. rewrite kwvals_app, map_app. apply NoDup_app_intro; [|exact (IH Hnk')|].
    + assert (L : length (cassign_el ct asg F c fs (inr (k, t))) <= 1).
      { cbn [cassign_el]. unfold cassign_kw. destruct (alookup k fs) as [v|]; [destruct (is_default ct c k v); [destruct (has_unm t); [|destruct (val_eqb (eval ct t) v); [destruct (f_update F)|destruct (f_fix F)]]|]|destruct (f_fix F)]; cbn [length]; lia. }
      destruct (cassign_el ct asg F c fs (inr (k, t))) as [|[[k0|] r0] [|y q]]; cbn [length] in L; try lia; unfold kwvals_gen; cbn; repeat constructor; intros [].
    + intros x Hx Hy. apply in_map_iff in Hx. destruct Hx as [[k1 w1] [E Hx]]. cbn [fst] in E. subst k1. apply (in_kwvals ev_t) in Hx. destruct Hx as [r1 [Hx _]].
      apply cassign_el_keys in Hx. cbn [fst] in Hx. injection Hx as ->.
      apply in_map_iff in Hy. destruct Hy as [[k2 w2] [E Hy]]. cbn [fst] in E. subst k2. apply (in_kwvals ev_t) in Hy. destruct Hy as [r2 [Hy _]].
      apply in_flat_map in Hy. destruct Hy as [e [He Hy]]. apply in_map_iff in He. destruct He as [[k' t'] [<- He]].
      apply cassign_el_keys in Hy. cbn [fst] in Hy. injection Hy as ->. apply Hni. apply in_map_iff. exists (k', t'). split; [reflexivity|exact He].
  - unfold B. rewrite kwvals_gens_keys. unfold new_fields. apply filter_keys_nodup. exact Hnf.
  - intros x Hx Hy. apply in_map_iff in Hx. destruct Hx as [[k1 w1] [E Hx]]. cbn [fst] in E. subst k1. apply (in_kwvals ev_t) in Hx. destruct Hx as [r1 [Hx _]].
    unfold A in Hx. apply in_flat_map in Hx. destruct Hx as [e [He Hx]]. apply cassign_el_keys in Hx. destruct e as [t|[k' t]]; cbn [fst] in Hx; [discriminate|]. injection Hx as ->.
    apply in_elements_kw in He.
    apply in_map_iff in Hy. destruct Hy as [[k2 w2] [E Hy]]. cbn [fst] in E. subst k2. apply (in_kwvals ev_t) in Hy. destruct Hy as [r2 [Hy _]].
    unfold B in Hy. apply in_map_iff in Hy. destruct Hy as [[k0 v] [E Hin]]. cbn [fst snd] in E. injection E as <- <-.
    unfold new_fields in Hin. apply filter_In in Hin. destruct Hin as [_ Hc]. cbn [fst snd] in Hc. apply andb_true_iff in Hc. destruct Hc as [_ Hc2].
    destruct (kw_index k0 kws) eqn:Ei; [discriminate|]. apply kw_index_none in Ei. apply Ei. apply in_map_iff. exists (k0, t). split; [reflexivity|exact He].
Qed.
Lemma call_result_kw_complete : forall asg F c pos kws fs name v, f_fix F = true -> NoDup (map fst fs) -> In (name, v) fs -> is_default ct c name v = false ->
  In name (map fst (tkws (call_result ct asg F c pos kws fs))).
Proof.
  intros asg F c pos kws fs name v HF Hnf Hin Hd. rewrite tkws_keys.
  pose proof (call_result_perm ct asg F c pos kws fs HF) as P.
  eapply Permutation_in; [apply Permutation_map, Permutation_sym, (kwvals_perm ev_t), P|]. rewrite kwvals_app, map_app. apply in_or_app.
  destruct (kw_index name kws) as [i|] eqn:Ei.
  - left. apply kw_index_some in Ei. destruct Ei as [_ Ei]. apply in_map_iff in Ei. destruct Ei as [[k t] [E Hkt]]. cbn [fst] in E. subst k.
    apply in_map_iff. exists (name, ev_t (asg t v)). split; [reflexivity|]. apply (in_kwvals ev_t). exists (asg t v). split; [|reflexivity].
    apply in_flat_map. exists (inr (name, t)). split; [unfold elements; apply in_or_app; right; apply in_map; exact Hkt|].
    cbn [cassign_el]. unfold cassign_kw. rewrite (alookup_nodup _ name v fs Hnf Hin), Hd. left. reflexivity.
  - right. apply in_map_iff. exists (name, ev_t (QGen v)). split; [reflexivity|]. apply (in_kwvals ev_t). exists (QGen v). split; [|reflexivity].
    apply in_map_iff. exists (name, v). split; [reflexivity|]. unfold new_fields. apply filter_In. split; [exact Hin|]. cbn [fst snd]. rewrite Hd, Ei. reflexivity.
Qed.

Lemma call_settles : forall asg F c pos kws fs, f_fix F = true -> f_update F = true -> NoDup (map fst kws) -> map fst fs = map fst (ct c) ->
  okv_entries ct fs = true -> (forall k t, In (k, t) kws -> has_unm t = false) ->
  (forall k t v, In (k, t) kws -> In (k, v) fs -> settled (to_tree (asg t v)) v) ->
  settled (to_tree (QCall c (call_result ct asg F c pos kws fs))) (NObj c fs).
Proof.
  intros asg F c pos kws fs HF HU Hnk Hconf Hv Hunm Ha.
  assert (Hnf : NoDup (map fst fs)) by (rewrite Hconf; apply Hct).
  cbn [to_tree]. fold (tpos (call_result ct asg F c pos kws fs)). fold (tkws (call_result ct asg F c pos kws fs)).
  set (res := call_result ct asg F c pos kws fs).
  assert (Hp : tpos res = []).
  { apply tpos_nil. intros a r Hin Ea. destruct (call_result_members asg F c pos kws fs a r HF HU Hunm Hin) as [k [v [E _]]]. congruence. }
  assert (Hm : forall k t, In (k, t) (tkws res) -> exists v, In (k, v) fs /\ is_default ct c k v = false /\ settled t v).
  { intros k t Hin. apply tkws_in in Hin. destruct Hin as [r [Hin ->]].
    destruct (call_result_members asg F c pos kws fs (Some k) r HF HU Hunm Hin) as [k0 [v [E [Hkv [Hd Hr]]]]]. injection E as <-.
    exists v. split; [exact Hkv|]. split; [exact Hd|]. destruct Hr as [[t [Hkt ->]] | ->]; [exact (Ha k t v Hkt Hkv)|cbn [to_tree]; apply canon_settled; exact (okv_entries_in ct _ _ _ Hv Hkv)]. }
  pose proof (call_result_kw_nodup asg F c pos kws fs HF Hnk Hnf) as K1. fold res in K1.
  rewrite Hp. unfold settled. rewrite okc_call, ustable_call. unfold call_ok. cbn [forallb andb]. split; [|split].
  - apply andb_true_iff. split; [apply andb_true_iff; split; [apply andb_true_iff; split|]|].
    + apply nodupb_NoDup. exact K1.
    + rewrite forallb_forall. intros [k t] Hin. cbn [fst]. destruct (Hm k t Hin) as [v [Hkv _]]. apply zmemb_In. rewrite <- Hconf. apply in_map_iff. exists (k, v). split; [reflexivity|exact Hkv].
    + rewrite forallb_forall. intros [name [d|]] Hin; cbn [fst snd]; [reflexivity|]. apply zmemb_In.
      assert (Hname : In name (map fst fs)) by (rewrite Hconf; apply in_map_iff; exists (name, None); split; [reflexivity|exact Hin]).
      apply in_map_iff in Hname. destruct Hname as [[n0 v] [E Hkv]]. cbn [fst] in E. subst n0.
      apply (call_result_kw_complete asg F c pos kws fs name v HF Hnf Hkv). unfold is_default. rewrite (alookup_nodup _ name None (ct c) (Hct c) Hin). reflexivity.
    + unfold okc_entries. rewrite forallb_forall. intros [k t] Hin. cbn [snd]. destruct (Hm k t Hin) as [v [_ [_ S]]]. exact (proj1 S).
  - apply andb_true_iff. split.
    + rewrite forallb_forall. intros [k t] Hin. cbn [fst snd]. destruct (Hm k t Hin) as [v [Hkv [Hd S]]]. apply negb_true_iff.
      destruct (is_default ct c k (eval ct t)) eqn:E; [|reflexivity]. exfalso. unfold is_default in *.
      destruct (alookup k (ct c)) as [[d|]|]; try discriminate.
      pose proof (val_eqb_trans d _ v E (proj2 (proj2 S))) as Hdv. congruence.
    + unfold ustable_entries. rewrite forallb_forall. intros [k t] Hin. cbn [snd]. destruct (Hm k t Hin) as [v [_ [_ S]]]. exact (proj1 (proj2 S)).
  - cbn [eval map]. fold (ev_kt ct). rewrite tkws_eval.
    pose proof (call_fix_eq_gen ct ev_t asg F c pos kws fs Hct HF Hnk Hconf Hunm) as G. fold res in G.
    rewrite <- tpos_eval, Hp in G. cbn [map] in G. apply G.
    + intros k t v Hkt Hkv. exact (proj2 (proj2 (Ha k t v Hkt Hkv))).
    + intros k t _. reflexivity.
    + intros k v Hkv. unfold ev_t. cbn [to_tree]. exact (proj2 (proj2 (canon_settled v (okv_entries_in ct _ _ _ Hv Hkv)))).
Qed.

(* ------------------------------------------------------------------------- the theorems *)
Theorem run_settles : forall f F o n, depth o < f -> okt o = true -> okv ct n = true -> f_fix F = true -> f_update F = true ->
  settled (to_tree (assign ct f F o n)) n.
Proof.
  induction f as [|f IH]; intros F o n Hd Ho Hn HF HU; [lia|]. rewrite assign_S.
  destruct o as [z c|i z|k olds|olds|c pos kws]; destruct n as [m|k' news|news|c' fs]; try (apply value_assign_settles; assumption).
  - destruct (skind_eqb k k') eqn:Ek; [|apply value_assign_settles; assumption].
    assert (k' = k) by (destruct k, k'; try discriminate; reflexivity). subst k'. cbn [to_tree]. apply settled_seq.
    apply walk_settles; [apply script_valid|exact HF| |intros n Hin; cbn [okv] in Hn; exact (forallb_in _ _ _ _ Hn Hin)].
    intros o n Hin Hinn. apply IH; [eapply depth_lst; [exact Hd|exact Hin]|cbn [okt] in Ho; exact (forallb_in _ _ _ _ Ho Hin)|cbn [okv] in Hn; exact (forallb_in _ _ _ _ Hn Hinn)|exact HF|exact HU].
  - destruct (nodupb (map fst olds)) eqn:End; [|apply value_assign_settles; assumption].
    apply nodupb_NoDup in End. rewrite okt_dct in Ho. rewrite okv_dict in Hn. apply andb_true_iff in Hn. destruct Hn as [Hn1 Hn2]. apply nodupb_NoDup in Hn1.
    apply dict_settles; [exact HF|exact End|exact Hn1|exact Hn2|].
    intros k o v Hko Hkv. apply IH; [eapply depth_dct; [exact Hd|exact Hko]|exact (okt_entries_in _ _ _ Ho Hko)|exact (okv_entries_in ct _ _ _ Hn2 Hkv)|exact HF|exact HU].
  - destruct (Z.eqb c c') eqn:Ec; [|apply value_assign_settles; assumption].
    apply Z.eqb_eq in Ec. subst c'. rewrite okt_call in Ho. apply andb_true_iff in Ho. destruct Ho as [Ho Ho3]. apply andb_true_iff in Ho. destruct Ho as [Ho1 Ho2].
    apply nodupb_NoDup in Ho2. rewrite okv_obj in Hn. apply andb_true_iff in Hn. destruct Hn as [Hn1 Hn2]. apply zlist_eqb_eq in Hn1.
    apply call_settles; [exact HF|exact HU|exact Ho2|exact Hn1|exact Hn2| |].
    + intros k t Hkt. apply okt_no_unm. exact (okt_entries_in _ _ _ Ho3 Hkt).
    + intros k t v Hkt Hkv. apply IH; [eapply depth_call_kw; [exact Hd|exact Hkt]|exact (okt_entries_in _ _ _ Ho3 Hkt)|exact (okv_entries_in ct _ _ _ Hn2 Hkv)|exact HF|exact HU].
Qed.

(* C08 for nested values: after a run in which fix and update are approved (whatever else is), every later run that observes the same value -
   with ANY approved set - keeps the text it finds verbatim: nothing to create, fix, trim or update, no file is modified *)
Theorem nest_second_run_noop : forall F F' o n, okt o = true -> okv ct n = true -> f_fix F = true -> f_update F = true ->
  let t := to_tree (assign_nest ct F o n) in
  verbatim (assign_nest ct F' t n) = Some t.
Proof.
  intros F F' o n Ho Hn HF HU t.
  destruct (run_settles (S (depth o)) F o n (Nat.lt_succ_diag_r _) Ho Hn HF HU) as [S1 [S2 S3]]. fold (assign_nest ct F o n) in S1, S2, S3. fold t in S1, S2, S3.
  unfold assign_nest at 1. apply (nest_equal_stable ct); [exact Hct|exact Hwf|lia|exact S1|exact Hn|exact S2|exact S3].
Qed.

End WithClasses.

(* the premises are satisfiable: the class table of the examples in Proofs/NestEqual.v has well-formed defaults, and a first run with all categories
   on a non-trivial expression changes the text while the second run (any approved set) keeps it *)
Lemma ex_ct_okv : ct_okv ex_ct.
Proof.
  intros c name d Hin. unfold ex_ct in Hin. destruct (Z.eqb c 0); [|destruct (Z.eqb c 1)]; cbn [In] in Hin;
    repeat match goal with
           | H : _ \/ _ |- _ => destruct H
           | H : False |- _ => destruct H
           | H : (_, _) = (_, _) |- _ => (injection H as _ <-; reflexivity) || discriminate H
           end.
Qed.
Definition all_flags : flags := {| f_create := true; f_fix := true; f_trim := true; f_update := true |}.
Example nest_second_run_example :
  okt ex_old = true /\ okv ex_ct ex_new2 = true /\
  to_tree ex_ct (assign_nest ex_ct all_flags ex_old ex_new2) <> ex_old /\
  verbatim (assign_nest ex_ct all_flags (to_tree ex_ct (assign_nest ex_ct all_flags ex_old ex_new2)) ex_new2) = Some (to_tree ex_ct (assign_nest ex_ct all_flags ex_old ex_new2)).
Proof. vm_compute. repeat split. discriminate. Qed.
