(* Proofs about Model/Nest.v, part 8 (C11): the equal common prefix of an edited list / tuple keeps its whole source text - nested dict displays,
   constructor calls and hand-written leaves included - whatever happens behind it, as long as update is not approved.
   Stdlib only; no axioms. *)
From Coq Require Import List Arith ZArith Bool Lia.
Import ListNotations.
From V Require Import Model.Align Model.SnapOps Model.TreeAssign Model.Nest Proofs.AlignValid Proofs.AlignProofs Proofs.SeqAssignProofs Proofs.UnmanagedProofs
  Proofs.NestProofs Proofs.NestValue Proofs.NestFix Proofs.NestEqual.
Open Scope nat_scope.

Section WithClasses.
Variable ct : ctab.

Lemma nwalk_m_prefix : forall asg F c t os ns, c <= length os -> c <= length ns ->
  Forall2 (fun o n => verbatim (asg o n) = Some o) (firstn c os) (firstn c ns) ->
  exists rest, walk asg F (repeat Dm c ++ t) os ns = rest /\ verbatim_list (firstn c rest) = Some (firstn c os) /\ c <= length rest.
Proof.
  intros asg F. induction c as [|c IH]; intros t os ns Ho Hn HF.
  - eexists. split; [reflexivity|]. split; [reflexivity|lia].
  - destruct os as [|o os]; [cbn in Ho; lia|]. destruct ns as [|n ns]; [cbn in Hn; lia|].
    cbn [firstn] in HF. inversion HF as [|? ? ? ? Hon HF']; subst. cbn [length] in Ho, Hn.
    destruct (IH t os ns ltac:(lia) ltac:(lia) HF') as [rest [E [Hv Hl]]].
    eexists. split; [reflexivity|]. cbn [repeat app walk]. rewrite E. cbn [firstn verbatim_list length].
    rewrite Hon, Hv. split; [reflexivity|lia].
Qed.

Lemma nscript_m_prefix : forall olds news, exists t,
  script ct olds news = repeat Dm (common_prefix ntree nval (elt_eqb ct) olds news) ++ t.
Proof.
  intros olds news. unfold script. rewrite align_unfold. unfold align_start.
  set (c := common_prefix ntree nval (elt_eqb ct) olds news).
  exists (skipn c (add_x (repeat Dm c ++ nw_align ntree nval (elt_eqb ct) (align_mid_a ntree nval (elt_eqb ct) olds news) (align_mid_b ntree nval (elt_eqb ct) olds news)
                                   ++ repeat Dm (align_end ntree nval (elt_eqb ct) olds news)))).
  rewrite <- (add_x_keeps_m_prefix c) at 2. rewrite firstn_skipn. reflexivity.
Qed.

Lemma firstn_In : forall X n (l : list X) x, In x (firstn n l) -> In x l.
Proof. intros X n l x H. rewrite <- (firstn_skipn n l). apply in_or_app. left. exact H. Qed.

Theorem nest_prefix_verbatim : forall f F k olds news, ct_ok ct -> depth (NLst k olds) < S f -> okc ct (NLst k olds) = true -> okv ct (NSeq k news) = true ->
  f_update F = false ->
  let c := common_prefix ntree nval (elt_eqb ct) olds news in
  exists items, assign ct (S f) F (NLst k olds) (NSeq k news) = QSeq k items /\ verbatim_list (firstn c items) = Some (firstn c olds).
Proof.
  intros f F k olds news Hct Hd Ho Hn HU c. rewrite assign_S.
  assert (Ek : skind_eqb k k = true) by (destruct k; reflexivity). rewrite Ek.
  destruct (nscript_m_prefix olds news) as [t Ht]. fold c in Ht. rewrite Ht.
  assert (HF : Forall2 (fun o n => verbatim (assign ct f F o n) = Some o) (firstn c olds) (firstn c news)).
  { pose proof (cp_F2 ntree nval (elt_eqb ct) olds news) as H2. fold c in H2.
    assert (Hio : forall o, In o (firstn c olds) -> In o olds) by (intros o; apply firstn_In).
    assert (Hin : forall n, In n (firstn c news) -> In n news) by (intros n; apply firstn_In).
    induction H2 as [|o n l m Hon H2 IH]; constructor.
    - apply nest_equal_keeps_text; [exact Hct|eapply depth_lst; [exact Hd|apply Hio; left; reflexivity]|cbn [okc] in Ho; apply (forallb_in _ _ _ _ Ho); apply Hio; left; reflexivity
                                    |cbn [okv] in Hn; apply (forallb_in _ _ _ _ Hn); apply Hin; left; reflexivity|exact HU|exact Hon].
    - apply IH; [intros o' Ho'; apply Hio; right; exact Ho'|intros n' Hn'; apply Hin; right; exact Hn']. }
  destruct (nwalk_m_prefix (assign ct f F) F c t olds news (cp_le_l _ _ _ olds news) (cp_le_r _ _ _ olds news) HF) as [rest [E [Hv _]]].
  exists rest. split; [rewrite E; reflexivity|exact Hv].
Qed.

End WithClasses.
