From Coq Require Import List NArith Bool Arith Lia.
Import ListNotations.
From V Require Import Model.Unused.

Lemma unused_spec store refs n :
  In n (unused store refs) <-> In n store /\ forall r, In r refs -> matches r n = false.
Proof.
  unfold unused. rewrite filter_In. rewrite negb_true_iff. split; intros [H1 H2]; split; try exact H1.
  - intros r Hr. destruct (matches r n) eqn:E; [|reflexivity].
    assert (existsb (fun r => matches r n) refs = true) as X by (apply existsb_exists; exists r; tauto). congruence.
  - destruct (existsb (fun r => matches r n) refs) eqn:E; [|reflexivity].
    apply existsb_exists in E. destruct E as [r [Hr Hm]]. rewrite (H2 r Hr) in Hm. discriminate.
Qed.

(* a file that a reference of a participating test file matches is never handed to trim *)
Lemma referenced_never_unused store refs r n : In r refs -> matches r n = true -> ~ In n (unused store refs).
Proof. intros Hr Hm H. apply unused_spec in H. destruct H as [_ H]. rewrite (H r Hr) in Hm. discriminate. Qed.

Lemma unused_subset store refs n : In n (unused store refs) -> In n store.
Proof. intros H. apply unused_spec in H. tauto. Qed.

(* more references: fewer candidates *)
Lemma unused_antitone store refs refs' n : incl refs refs' -> In n (unused store refs') -> In n (unused store refs).
Proof.
  intros Hi H. apply unused_spec in H. destruct H as [Hs H]. apply unused_spec. split; [exact Hs|].
  intros r Hr. apply H. apply Hi. exact Hr.
Qed.

Lemma starts_app p q n : starts (p ++ q) n = true -> starts p n = true.
Proof.
  revert n. induction p as [|x p IH]; intros n H; [reflexivity|].
  destruct n as [|y n]; cbn [app starts] in *; [discriminate|].
  apply andb_true_iff in H. destruct H as [H1 H2]. rewrite H1. cbn [andb]. apply IH. exact H2.
Qed.

(* a reference written with fewer hash characters (a smaller hash-length, a name shortened by hand) still matches what the longer one matched *)
Lemma shorter_prefix_still_matches p q s n : matches (Glob (p ++ q) s) n = true -> matches (Glob p s) n = true.
Proof.
  unfold matches. intros H. apply andb_true_iff in H. destruct H as [H H3]. apply andb_true_iff in H. destruct H as [H1 H2].
  rewrite (starts_app _ _ _ H1), H2. cbn [andb]. apply Nat.leb_le. apply Nat.leb_le in H3. rewrite app_length in H3. lia.
Qed.

Lemma starts_refl n : starts n n = true.
Proof. induction n as [|x n IH]; [reflexivity|]. cbn [starts]. rewrite N.eqb_refl, IH. reflexivity. Qed.

Lemma starts_prefix p q : starts p (p ++ q) = true.
Proof. induction p as [|x p IH]; [reflexivity|]. cbn [app starts]. rewrite N.eqb_refl, IH. reflexivity. Qed.

(* the reference inline-snapshot itself writes - the first k characters of the hash, a star, the suffix - matches the persisted file and the not yet persisted one *)
Lemma written_reference_matches h1 h2 infix s : matches (Glob h1 s) (h1 ++ h2 ++ infix ++ s) = true.
Proof.
  unfold matches. rewrite starts_prefix. cbn [andb]. unfold ends.
  rewrite !rev_app_distr. rewrite <- !app_assoc. rewrite starts_prefix. cbn [andb].
  apply Nat.leb_le. rewrite !app_length. lia.
Qed.

Lemma str_eqb_eq a b : str_eqb a b = true <-> a = b.
Proof.
  revert b. induction a as [|x a IH]; destruct b as [|y b]; cbn [str_eqb]; try (split; discriminate); try tauto.
  rewrite andb_true_iff, N.eqb_eq, IH. split; [intros [-> ->]; reflexivity | intros H; injection H as -> ->; tauto].
Qed.

Lemma lookup_all_spec store r n : In n (lookup_all store r) <-> In n store /\ matches r n = true.
Proof. unfold lookup_all. apply filter_In. Qed.

(* unused = list() minus the union of lookup_all over the references (the way the code computes it) *)
Lemma unused_as_difference store refs n :
  In n (unused store refs) <-> In n store /\ ~ exists r, In r refs /\ In n (lookup_all store r).
Proof.
  rewrite unused_spec. split; intros [Hs H]; split; try exact Hs.
  - intros [r [Hr Hl]]. apply lookup_all_spec in Hl. destruct Hl as [_ Hm]. rewrite (H r Hr) in Hm. discriminate.
  - intros r Hr. destruct (matches r n) eqn:E; [|reflexivity]. exfalso. apply H. exists r. split; [exact Hr|]. apply lookup_all_spec. tauto.
Qed.

Example unused_example :
  let store := [[1; 2; 3; 4; 46; 116]; [1; 2; 9; 9; 46; 116]; [5; 5; 5; 5; 45; 110; 46; 116]]%N in
  unused store [Glob [1; 2; 3]%N [46; 116]%N] = [[1; 2; 9; 9; 46; 116]; [5; 5; 5; 5; 45; 110; 46; 116]]%N
  /\ unused store [Glob [1; 2]%N [46; 116]%N; Glob [5]%N [46; 116]%N] = []
  /\ unused store [] = store.
Proof. repeat split. Qed.
