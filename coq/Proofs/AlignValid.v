(* Proofs about Model/Align.v : validity of alignment scripts. *)
From Coq Require Import List Arith Bool Lia.
Import ListNotations.
From V Require Import Model.Align.
Open Scope nat_scope.

Section A.
Variables (A B : Type) (eqb : A -> B -> bool).
Notation row := (row A B eqb). Notation next_row := (next_row A B eqb).
Notation rows := (rows A B eqb). Notation matrix := (matrix A B eqb).
Notation nw_align := (nw_align A B eqb).
Notation first_row := (first_row B).

Inductive valid : list dir -> list A -> list B -> Prop :=
| v_nil : valid [] [] []
| v_m s a b as_ bs : eqb a b = true -> valid s as_ bs -> valid (Dm :: s) (a :: as_) (b :: bs)
| v_d s a as_ bs : valid s as_ bs -> valid (Dd :: s) (a :: as_) bs
| v_i s b as_ bs : valid s as_ bs -> valid (Di :: s) as_ (b :: bs)
| v_x s a b as_ bs : valid s as_ bs -> valid (Dx :: s) (a :: as_) (b :: bs).

(* ---- direction facts ---- *)
Lemma better_snd x y : snd (better x y) = snd x \/ snd (better x y) = snd y.
Proof. unfold better. destruct (fst y <? fst x); auto. destruct (fst x <? fst y); auto.
  destruct (rank (snd y) <=? rank (snd x)); auto. Qed.

Definition cell_ok (a : A) (b : B) (c : cell) : Prop :=
  snd c = Di \/ snd c = Dd \/ (snd c = Dm /\ eqb a b = true).

Lemma row_length a last bs left : length last = S (length bs) -> length (row a last bs left) = length bs.
Proof. revert last left. induction bs as [|b bs IH]; intros last left H; simpl; auto.
  destruct last as [|lc [|lb last']]; simpl in H; try lia. simpl. f_equal. apply IH. simpl. lia. Qed.

Lemma row_ok a last bs left : length last = S (length bs) ->
  forall j b, nth_error bs j = Some b -> exists c, nth_error (row a last bs left) j = Some c /\ cell_ok a b c.
Proof. revert last left. induction bs as [|b0 bs IH]; intros last left H j b Hj.
  - destruct j; discriminate.
  - destruct last as [|lc [|lb last']]; simpl in H; try lia. simpl.
    destruct j as [|j]; simpl in *.
    + inversion Hj; subst. eexists; split; [reflexivity|]. unfold cell_ok.
      destruct (eqb a b) eqn:E.
      * destruct (better_snd (better (fst left, Di) (fst lb, Dd)) (S (fst lc), Dm)) as [H1|H1]; rewrite H1.
        -- destruct (better_snd (fst left, Di) (fst lb, Dd)) as [H2|H2]; rewrite H2; simpl; auto.
        -- simpl; auto.
      * destruct (better_snd (fst left, Di) (fst lb, Dd)) as [H2|H2]; rewrite H2; simpl; auto.
    + apply IH; auto; simpl; lia.
Qed.

Lemma next_row_length a last bs : length last = S (length bs) -> length (next_row a last bs) = S (length bs).
Proof. intros H. unfold next_row. simpl. f_equal. apply row_length; auto. Qed.

Lemma rows_nth bs : forall as_ last, length last = S (length bs) ->
  forall i a, nth_error as_ i = Some a ->
  exists prev, length prev = S (length bs) /\ nth_error (rows as_ bs last) i = Some (next_row a prev bs).
Proof. induction as_ as [|a0 as_ IH]; intros last H i a Hi.
  - destruct i; discriminate.
  - destruct i as [|i]; simpl in *.
    + inversion Hi; subst. exists last. auto.
    + apply IH; auto. apply next_row_length; auto.
Qed.

Lemma first_row_length bs : length (first_row bs) = S (length bs).
Proof. unfold first_row. simpl. rewrite map_length. reflexivity. Qed.

Lemma nth_of_nth_error {X} (l : list X) i d x : nth_error l i = Some x -> nth i l d = x.
Proof. revert i. induction l; destruct i; simpl; intros H; try discriminate; [inversion H; auto | auto]. Qed.

(* direction facts for the whole matrix *)
Lemma dir_00 as_ bs : dirat (matrix as_ bs) 0 0 = De.
Proof. reflexivity. Qed.
Lemma dir_0j as_ bs j : j < length bs -> dirat (matrix as_ bs) 0 (S j) = Di.
Proof. intros H. unfold dirat, matrix. simpl.
  destruct (nth_error (map (fun _ : B => (0, Di)) bs) j) eqn:E.
  - rewrite (nth_of_nth_error _ _ _ _ E). apply nth_error_In in E. apply in_map_iff in E. destruct E as [? [E _]]. subst. reflexivity.
  - apply nth_error_None in E. rewrite map_length in E. lia. Qed.
Lemma dir_i0 as_ bs i : i < length as_ -> dirat (matrix as_ bs) (S i) 0 = Dd.
Proof. intros H. unfold dirat, matrix. simpl.
  destruct (nth_error as_ i) eqn:E; [|apply nth_error_None in E; lia].
  destruct (rows_nth bs as_ (first_row bs) (first_row_length bs) i a E) as [prev [_ Hn]].
  rewrite (nth_of_nth_error _ _ _ _ Hn). reflexivity. Qed.
Lemma dir_ij as_ bs i j a b : nth_error as_ i = Some a -> nth_error bs j = Some b ->
  cell_ok a b (nth (S j) (nth (S i) (matrix as_ bs) []) (0, De)).
Proof. intros Ha Hb. unfold matrix. simpl.
  destruct (rows_nth bs as_ (first_row bs) (first_row_length bs) i a Ha) as [prev [Hl Hn]].
  rewrite (nth_of_nth_error _ _ _ _ Hn). unfold next_row. simpl.
  destruct (row_ok a prev bs (0, Dd) Hl j b Hb) as [c [Hc Hok]].
  rewrite (nth_of_nth_error _ _ _ _ Hc). exact Hok. Qed.

Lemma skipn_cons_nth {X} (l : list X) i x : nth_error l i = Some x -> skipn i l = x :: skipn (S i) l.
Proof. revert i. induction l; destruct i; simpl; intros H; try discriminate.
  - inversion H; auto. - apply IHl; auto. Qed.

Lemma back_valid as_ bs : forall fuel ai bi acc,
  ai <= length as_ -> bi <= length bs -> ai + bi < fuel ->
  valid acc (skipn ai as_) (skipn bi bs) ->
  valid (back fuel ai bi (matrix as_ bs) acc) as_ bs.
Proof. induction fuel as [|f IH]; intros ai bi acc Ha Hb Hf Hv; [lia|]. simpl.
  destruct ai as [|i], bi as [|j].
  - rewrite dir_00. exact Hv.
  - rewrite dir_0j by lia. simpl. replace (j - 0) with j by lia.
    destruct (nth_error bs j) eqn:E; [|apply nth_error_None in E; lia].
    apply IH; try lia. rewrite (skipn_cons_nth _ _ _ E). constructor. exact Hv.
  - rewrite dir_i0 by lia. simpl. replace (i - 0) with i by lia.
    destruct (nth_error as_ i) eqn:E; [|apply nth_error_None in E; lia].
    apply IH; try lia. rewrite (skipn_cons_nth _ _ _ E). constructor. exact Hv.
  - destruct (nth_error as_ i) eqn:Ea; [|apply nth_error_None in Ea; lia].
    destruct (nth_error bs j) eqn:Eb; [|apply nth_error_None in Eb; lia].
    pose proof (dir_ij as_ bs i j a b Ea Eb) as Hok. unfold dirat.
    destruct Hok as [H|[H|[H He]]]; rewrite H; simpl; replace (i - 0) with i by lia; replace (j - 0) with j by lia.
    + apply IH; try lia. rewrite (skipn_cons_nth _ _ _ Eb). constructor. exact Hv.
    + apply IH; try lia. rewrite (skipn_cons_nth _ _ _ Ea). constructor. exact Hv.
    + apply IH; try lia. rewrite (skipn_cons_nth _ _ _ Ea), (skipn_cons_nth _ _ _ Eb). constructor; auto.
Qed.

Theorem nw_align_valid as_ bs : valid (nw_align as_ bs) as_ bs.
Proof. unfold nw_align. apply back_valid; try lia.
  rewrite !skipn_all. constructor. Qed.
End A.
