From Coq Require Import List NArith Bool Lia.
Import ListNotations.
From V Require Import Model.StrLit Proofs.StrLitRepr.
Open Scope N_scope.

Section RT.
Variable q : cp.
Hypothesis Hq : q = 39 \/ q = 34.

Definition stk (k : nat) : st := match k with O => SNorm | _ => SQ k end.
Definition pushq (k : nat) (acc : str) : str := repeat q k ++ acc.

(* an atom is either a raw character, or an escape text that the scanner turns into `snd a` *)
Definition raw_atom (a : atom) : Prop := exists c, a = ([c], [c]) /\ c <> 92.
Definition esc_atom (a : atom) : Prop :=
  exists t, fst a = 92 :: t /\ forall r acc, run q true SEsc (t ++ r) acc = run q true SNorm r (rev (snd a) ++ acc).
Definition atom_ok (a : atom) : Prop := raw_atom a \/ esc_atom a.

Definition is_rawq (a : atom) : bool := eqs (fst a) [q].

(* pending-quote counter after an atom; None = three raw quotes in a row *)
Definition stepk (k : nat) (a : atom) : option nat :=
  if is_rawq a then (match k with 2%nat => None | _ => Some (S k) end) else Some O.
Definition stepacc (k : nat) (a : atom) (acc : str) : str :=
  if is_rawq a then acc else rev (snd a) ++ pushq k acc.

Fixpoint scank (k : nat) (l : list atom) : option nat :=
  match l with [] => Some k | a :: r => match stepk k a with Some k' => scank k' r | None => None end end.
Fixpoint scanacc (k : nat) (l : list atom) (acc : str) : str :=
  match l with [] => acc | a :: r => match stepk k a with Some k' => scanacc k' r (stepacc k a acc) | None => acc end end.

Lemma eqs_true a b : eqs a b = true -> a = b.
Proof. unfold eqs. destruct (list_eq_dec N.eq_dec a b); auto; discriminate. Qed.
Lemma eqs_false a b : eqs a b = false -> a <> b.
Proof. unfold eqs. destruct (list_eq_dec N.eq_dec a b); auto; discriminate. Qed.

Lemma q_not_bs : q <> 92. Proof. destruct Hq; subst; discriminate. Qed.

Lemma run_stk_esc k t r acc : (k <= 2)%nat ->
  run q true (stk k) (92 :: t ++ r) acc = run q true SEsc (t ++ r) (pushq k acc).
Proof. intros Hk. destruct k as [|k]; cbn [stk run].
  - reflexivity.
  - destruct (92 =? q) eqn:E; [apply N.eqb_eq in E; pose proof q_not_bs; congruence|]. reflexivity. Qed.

Lemma run_atom k a r acc : atom_ok a -> (k <= 2)%nat -> forall k', stepk k a = Some k' ->
  run q true (stk k) (fst a ++ r) acc = run q true (stk k') r (stepacc k a acc).
Proof. intros Hok Hk k' Hs. unfold stepk, stepacc in *.
  destruct (is_rawq a) eqn:R.
  - (* raw quote *)
    apply eqs_true in R. rewrite R. cbn [app].
    destruct k as [|[|[|k]]]; try lia; inversion Hs; subst; cbn [stk run]; rewrite ?N.eqb_refl; try reflexivity.
    destruct (q =? 92) eqn:E; [apply N.eqb_eq in E; pose proof q_not_bs; congruence|]. reflexivity.
  - inversion Hs; subst k'. apply eqs_false in R. destruct Hok as [[c [Ha Hc]]|[t [Ht Hrun]]].
    + subst a. cbn [fst snd app rev] in *. assert (c <> q) by congruence.
      destruct k as [|k]; cbn [stk run].
      * destruct (c =? 92) eqn:E1; [apply N.eqb_eq in E1; congruence|].
        destruct (c =? q) eqn:E2; [apply N.eqb_eq in E2; congruence|]. rewrite andb_false_r. reflexivity.
      * destruct (c =? q) eqn:E2; [apply N.eqb_eq in E2; congruence|].
        destruct (c =? 92) eqn:E1; [apply N.eqb_eq in E1; congruence|]. reflexivity.
    + rewrite Ht. cbn [app]. etransitivity; [apply (run_stk_esc k t r acc Hk) | apply Hrun].
Qed.

Lemma stepk_le k a k' : (k <= 2)%nat -> stepk k a = Some k' -> (k' <= 2)%nat.
Proof. unfold stepk. intros Hk. destruct (is_rawq a); [destruct k as [|[|[|k]]]|]; intros H; inversion H; lia. Qed.

Lemma run_atoms : forall l k r acc, Forall atom_ok l -> (k <= 2)%nat -> forall k', scank k l = Some k' ->
  run q true (stk k) (flat l ++ r) acc = run q true (stk k') r (scanacc k l acc).
Proof. induction l as [|a l IH]; intros k r acc Hl Hk k' Hs.
  - simpl in *. inversion Hs; subst. reflexivity.
  - inversion Hl; subst. cbn [scank scanacc] in *. destruct (stepk k a) as [k1|] eqn:E; [|discriminate].
    unfold flat. cbn [map concat]. rewrite <- app_assoc. rewrite (run_atom k a _ acc H1 Hk k1 E).
    apply IH; auto. eapply stepk_le; eauto.
Qed.

(* decoded content: pending quotes + accumulated = everything decoded so far *)
Lemma scanacc_dec : forall l k acc k', scank k l = Some k' -> Forall (fun a => is_rawq a = true -> snd a = [q]) l ->
  pushq k' (scanacc k l acc) = rev (dec l) ++ pushq k acc.
Proof. induction l as [|a l IH]; intros k acc k' Hs Hd.
  - simpl in *. inversion Hs; subst. reflexivity.
  - inversion Hd; subst. cbn [scank scanacc] in *. destruct (stepk k a) as [k1|] eqn:E; [|discriminate].
    rewrite (IH k1 _ k' Hs H2). unfold dec. cbn [map concat]. rewrite rev_app_distr, <- app_assoc. f_equal.
    unfold stepk, stepacc in *. destruct (is_rawq a) eqn:R.
    + rewrite (H1 eq_refl). cbn [rev app]. destruct k as [|[|[|k]]]; inversion E; subst; unfold pushq; cbn [repeat app]; reflexivity.
    + inversion E; subst. reflexivity.
Qed.

Theorem scan_atoms_done l rest : Forall atom_ok l -> Forall (fun a => is_rawq a = true -> snd a = [q]) l ->
  scank 0 l = Some O ->
  run q true SNorm (flat l ++ q3 q ++ rest) [] = Done (dec l) rest.
Proof. intros Hok Hd Hs. rewrite (run_atoms l 0 _ [] Hok ltac:(lia) 0%nat Hs). cbn [stk q3 app run].
  destruct (q =? 92) eqn:E; [apply N.eqb_eq in E; pose proof q_not_bs; congruence|]. rewrite N.eqb_refl.
  pose proof (scanacc_dec l 0 [] 0 Hs Hd) as H. unfold pushq in H. cbn [repeat app] in H. rewrite H, app_nil_r, rev_involutive. reflexivity.
Qed.
End RT.
