(* Proofs about Model/Nest.v, part 5: Python's == on well-formed values is an equivalence relation, every source expression evaluates to a
   well-formed value, and a run WITHOUT fix never changes the value an argument evaluates to - in particular `update` (which rewrites
   non-canonical leaves and deletes keyword arguments that spell out the default of their field) is value preserving (C05), for lists /
   tuples, dict displays and constructor calls nested in each other at any depth.
   Stdlib only; no axioms. *)
From Coq Require Import List Arith ZArith Bool Lia Permutation.
Import ListNotations.
From V Require Import Model.Align Model.SnapOps Model.TreeAssign Model.Nest Proofs.AlignValid Proofs.AlignProofs Proofs.UnmanagedProofs Proofs.NestProofs Proofs.NestValue Proofs.NestFix.
Open Scope nat_scope.

(* ------------------------------------------------------------------------- == is symmetric and transitive *)
Lemma val_eqb_trans : forall a b c, val_eqb a b = true -> val_eqb b c = true -> val_eqb a c = true.
Proof.
  induction a as [z|k l IH|l IH|c0 fs IH] using nval_induction; intros b c Hab Hbc.
  - destruct b; cbn [val_eqb] in Hab; try discriminate. destruct c; cbn [val_eqb] in Hbc; try discriminate.
    cbn [val_eqb]. apply Z.eqb_eq in Hab. apply Z.eqb_eq in Hbc. apply Z.eqb_eq. congruence.
  - destruct b as [|k' l'| |]; try discriminate. destruct c as [|k'' l''| |]; try discriminate.
    rewrite val_eqb_seq in *. apply andb_true_iff in Hab. apply andb_true_iff in Hbc. destruct Hab as [K1 L1]. destruct Hbc as [K2 L2].
    apply andb_true_iff. split; [destruct k, k', k''; try discriminate; reflexivity|].
    apply vlist_eqb_F2 in L1. apply vlist_eqb_F2 in L2. apply vlist_eqb_F2. rewrite Forall_forall in IH.
    clear K1 K2. revert l'' L2. induction L1 as [|x y l l' Hxy L1 IHL]; intros l'' L2; inversion L2; subst; constructor.
    + apply (IH x (or_introl eq_refl) y); assumption.
    + apply IHL; [intros z Hz; apply IH; right; exact Hz|assumption].
  - destruct b as [| |m|]; try discriminate. destruct c as [| |n|]; try discriminate.
    rewrite val_eqb_dict in *. apply andb_true_iff in Hab. apply andb_true_iff in Hbc. destruct Hab as [K1 L1]. destruct Hbc as [K2 L2].
    apply Nat.eqb_eq in K1. apply Nat.eqb_eq in K2. apply andb_true_iff. split; [apply Nat.eqb_eq; congruence|].
    apply dsub_intro. intros k v Hin. destruct (dsub_elim _ _ k v L1 Hin) as [w [Hw Hvw]].
    destruct (dsub_elim _ _ k w L2 (alookup_in _ _ _ _ Hw)) as [u [Hu Hwu]]. exists u. split; [exact Hu|].
    rewrite Forall_forall in IH. exact (IH (k, v) Hin w u Hvw Hwu).
  - destruct b as [| | |c1 fs1]; try discriminate. destruct c as [| | |c2 fs2]; try discriminate.
    rewrite val_eqb_obj in *. apply andb_true_iff in Hab. apply andb_true_iff in Hbc. destruct Hab as [K1 L1]. destruct Hbc as [K2 L2].
    apply Z.eqb_eq in K1. apply Z.eqb_eq in K2. apply andb_true_iff. split; [apply Z.eqb_eq; congruence|].
    rewrite Forall_forall in IH. clear K1 K2. revert fs1 fs2 L1 L2.
    induction fs as [|[k x] r IHr]; intros [|[k1 y] r1] [|[k2 z] r2] L1 L2; cbn [fields_eqb] in *; try discriminate; [reflexivity|].
    apply andb_true_iff in L1. destruct L1 as [L1 R1]. apply andb_true_iff in L1. destruct L1 as [E1 V1].
    apply andb_true_iff in L2. destruct L2 as [L2 R2]. apply andb_true_iff in L2. destruct L2 as [E2 V2].
    apply Z.eqb_eq in E1. apply Z.eqb_eq in E2. subst k1 k2. rewrite Z.eqb_refl. cbn [andb].
    pose proof (IH (k, x) (or_introl eq_refl) y z V1 V2) as Hx. cbn [snd] in Hx. rewrite Hx. cbn [andb].
    apply (IHr (fun kv Hkv => IH kv (or_intror Hkv)) r1 r2 R1 R2).
Qed.

Lemma val_eqb_sym : forall a b, wfv a = true -> wfv b = true -> val_eqb a b = true -> val_eqb b a = true.
Proof.
  induction a as [z|k l IH|l IH|c0 fs IH] using nval_induction; intros b Ha Hb Hab.
  - destruct b; cbn [val_eqb] in Hab; try discriminate. cbn [val_eqb]. rewrite Z.eqb_sym. exact Hab.
  - destruct b as [|k' l'| |]; try discriminate. rewrite val_eqb_seq in *. apply andb_true_iff in Hab. destruct Hab as [K1 L1].
    apply andb_true_iff. split; [destruct k, k'; try discriminate; reflexivity|].
    cbn [wfv] in Ha, Hb. rewrite forallb_forall in Ha, Hb. rewrite Forall_forall in IH.
    apply vlist_eqb_F2 in L1. apply vlist_eqb_F2. clear K1.
    induction L1 as [|x y l l' Hxy L1 IHL]; constructor.
    + apply (IH x (or_introl eq_refl) y); [apply Ha; left; reflexivity|apply Hb; left; reflexivity|exact Hxy].
    + apply IHL; [intros z Hz; apply IH; right; exact Hz|intros z Hz; apply Ha; right; exact Hz|intros z Hz; apply Hb; right; exact Hz].
  - destruct b as [| |m|]; try discriminate. rewrite val_eqb_dict in *. apply andb_true_iff in Hab. destruct Hab as [K1 L1].
    apply Nat.eqb_eq in K1. rewrite wfv_dict in Ha, Hb. apply andb_true_iff in Ha. destruct Ha as [Na Wa]. apply andb_true_iff in Hb. destruct Hb as [Nb Wb].
    apply nodupb_NoDup in Na. apply nodupb_NoDup in Nb.
    apply andb_true_iff. split; [apply Nat.eqb_eq; congruence|].
    (* the keys of l are keys of m; equally many, no duplicates: the keys of m are keys of l *)
    assert (Hincl : incl (map fst l) (map fst m)).
    { intros k Hk. apply in_map_iff in Hk. destruct Hk as [[k0 v] [E Hin]]. cbn [fst] in E. subst k0.
      destruct (dsub_elim _ _ k v L1 Hin) as [w [Hw _]]. apply alookup_in in Hw. apply in_map_iff. exists (k, w). split; [reflexivity|exact Hw]. }
    assert (Hback : incl (map fst m) (map fst l)) by (apply (NoDup_length_incl Na); [rewrite !map_length; lia|exact Hincl]).
    apply dsub_intro. intros k w Hin.
    assert (Hk : In k (map fst l)) by (apply Hback; apply in_map_iff; exists (k, w); split; [reflexivity|exact Hin]).
    destruct (alookup_some_key _ k l Hk) as [v Hv]. exists v. split; [exact Hv|].
    pose proof (alookup_in _ _ _ _ Hv) as Hvin. destruct (dsub_elim _ _ k v L1 Hvin) as [w' [Hw' Hvw']].
    assert (w' = w) by (pose proof (alookup_nodup _ k w m Nb Hin) as E; congruence). subst w'.
    rewrite Forall_forall in IH. apply (IH (k, v) Hvin w); [exact (wfv_entries_in l k v Wa Hvin)|exact (wfv_entries_in m k w Wb Hin)|exact Hvw'].
  - destruct b as [| | |c1 fs1]; try discriminate. rewrite val_eqb_obj in *. apply andb_true_iff in Hab. destruct Hab as [K1 L1].
    rewrite Z.eqb_sym. rewrite K1. cbn [andb]. rewrite wfv_obj in Ha, Hb. unfold wfv_entries in Ha, Hb. rewrite forallb_forall in Ha, Hb.
    rewrite Forall_forall in IH. clear K1. revert fs1 L1 Hb.
    induction fs as [|[k x] r IHr]; intros [|[k1 y] r1] L1 Hb; cbn [fields_eqb] in *; try discriminate; [reflexivity|].
    apply andb_true_iff in L1. destruct L1 as [L1 R1]. apply andb_true_iff in L1. destruct L1 as [E1 V1].
    rewrite Z.eqb_sym, E1. cbn [andb].
    pose proof (IH (k, x) (or_introl eq_refl) y (Ha (k, x) (or_introl eq_refl)) (Hb (k1, y) (or_introl eq_refl)) V1) as Hx. cbn [snd] in Hx. rewrite Hx. cbn [andb].
    apply IHr; [intros kv Hkv; apply IH; right; exact Hkv|intros kv Hkv; apply Ha; right; exact Hkv|exact R1|intros kv Hkv; apply Hb; right; exact Hkv].
Qed.

(* ------------------------------------------------------------------------- every source expression evaluates to a well-formed value *)
Section TreeInd.
Variable P : ntree -> Prop.
Hypothesis Hleaf : forall z c, P (NLeaf z c).
Hypothesis Hunm : forall i z, P (NUnm i z).
Hypothesis Hlst : forall k l, Forall P l -> P (NLst k l).
Hypothesis Hdct : forall l, Forall (fun kt => P (snd kt)) l -> P (NDct l).
Hypothesis Hcall : forall c pos kws, Forall P pos -> Forall (fun kt => P (snd kt)) kws -> P (NCall c pos kws).
Fixpoint ntree_induction (t : ntree) : P t :=
  match t with
  | NLeaf z c => Hleaf z c
  | NUnm i z => Hunm i z
  | NLst k l => Hlst k l ((fix go (l : list ntree) : Forall P l :=
                             match l with [] => Forall_nil _ | x :: r => Forall_cons x (ntree_induction x) (go r) end) l)
  | NDct l => Hdct l ((fix go (l : list (Z * ntree)) : Forall (fun kt => P (snd kt)) l :=
                         match l with [] => Forall_nil _ | (k, x) :: r => Forall_cons (k, x) (ntree_induction x) (go r) end) l)
  | NCall c pos kws =>
      Hcall c pos kws
        ((fix go (l : list ntree) : Forall P l :=
            match l with [] => Forall_nil _ | x :: r => Forall_cons x (ntree_induction x) (go r) end) pos)
        ((fix go (l : list (Z * ntree)) : Forall (fun kt => P (snd kt)) l :=
            match l with [] => Forall_nil _ | (k, x) :: r => Forall_cons (k, x) (ntree_induction x) (go r) end) kws)
  end.
End TreeInd.

Lemma dict_set_keys : forall X k (v : X) l, NoDup (map fst l) -> NoDup (map fst (dict_set k v l)) /\ (forall k', In k' (map fst (dict_set k v l)) <-> k' = k \/ In k' (map fst l)).
Proof.
  intros X k v l. induction l as [|[k0 w] r IH]; intros Hnd; cbn [dict_set map fst].
  - split; [repeat constructor; intros []|]. intros k'. cbn [In]. split; intros [H|H]; auto; destruct H.
  - inversion Hnd as [|? ? Hni Hnd']; subst. destruct (Z.eqb k k0) eqn:E.
    + apply Z.eqb_eq in E. subst k0. cbn [map fst]. split; [exact Hnd|]. intros k'. cbn [In]. split; [intros [H|H]; auto|intros [H|[H|H]]; auto].
    + apply Z.eqb_neq in E. destruct (IH Hnd') as [I1 I2]. cbn [map fst]. split.
      * constructor; [|exact I1]. intros Hin. apply I2 in Hin. destruct Hin as [Hin|Hin]; [congruence|exact (Hni Hin)].
      * intros k'. cbn [In]. rewrite I2. split; [intros [H|[H|H]]; auto|intros [H|[H|H]]; auto].
Qed.
Lemma dict_set_values : forall X (Q : X -> Prop) k (v : X) l, Q v -> (forall kv, In kv l -> Q (snd kv)) -> forall kv, In kv (dict_set k v l) -> Q (snd kv).
Proof.
  intros X Q k v l Hv. induction l as [|[k0 w] r IH]; intros Hl kv Hin; cbn [dict_set] in Hin.
  - destruct Hin as [<-|[]]. exact Hv.
  - destruct (Z.eqb k k0).
    + destruct Hin as [<-|Hin]; [exact Hv|apply Hl; right; exact Hin].
    + destruct Hin as [<-|Hin]; [apply (Hl (k0, w)); left; reflexivity|]. apply IH; [intros kv' H'; apply Hl; right; exact H'|exact Hin].
Qed.
Lemma mkdict_wf : forall X (Q : X -> Prop) (l : list (Z * X)), (forall kv, In kv l -> Q (snd kv)) ->
  NoDup (map fst (mkdict l)) /\ (forall kv, In kv (mkdict l) -> Q (snd kv)).
Proof.
  intros X Q l Hl. unfold mkdict.
  assert (G : forall acc, NoDup (map fst acc) -> (forall kv, In kv acc -> Q (snd kv)) ->
              NoDup (map fst (fold_left (fun d kv => dict_set (fst kv) (snd kv) d) l acc)) /\
              (forall kv, In kv (fold_left (fun d kv => dict_set (fst kv) (snd kv) d) l acc) -> Q (snd kv))).
  { induction l as [|[k v] r IH]; intros acc Hn Ha; [split; assumption|]. cbn [fold_left fst snd]. apply IH.
    - intros kv Hkv. apply Hl. right. exact Hkv.
    - apply dict_set_keys. exact Hn.
    - apply dict_set_values; [apply (Hl (k, v)); left; reflexivity|exact Ha]. }
  apply G; [constructor|intros kv []].
Qed.

(* source trees: no call repeats a keyword (user-controlled parts are allowed) *)
Fixpoint wfk (t : ntree) : bool :=
  match t with
  | NLeaf _ _ => true
  | NUnm _ _ => true
  | NLst _ l => forallb wfk l
  | NDct l => (fix go (l : list (Z * ntree)) : bool := match l with [] => true | (_, x) :: r => wfk x && go r end) l
  | NCall _ pos kws =>
      forallb wfk pos && nodupb (map fst kws) &&
      (fix go (l : list (Z * ntree)) : bool := match l with [] => true | (_, x) :: r => wfk x && go r end) kws
  end.
Definition wfk_entries (l : list (Z * ntree)) : bool := forallb (fun kt => wfk (snd kt)) l.
Lemma wfk_dct : forall l, wfk (NDct l) = wfk_entries l.
Proof. intros. cbn [wfk]. induction l as [|[k x] r IH]; [reflexivity|]. cbn [wfk_entries forallb snd]. rewrite IH. reflexivity. Qed.
Lemma wfk_call : forall c pos kws, wfk (NCall c pos kws) = forallb wfk pos && nodupb (map fst kws) && wfk_entries kws.
Proof. intros. cbn [wfk]. f_equal. induction kws as [|[k x] r IH]; [reflexivity|]. cbn [wfk_entries forallb snd]. rewrite IH. reflexivity. Qed.
Lemma wfk_entries_in : forall l k t, wfk_entries l = true -> In (k, t) l -> wfk t = true.
Proof. intros l k t H Hin. unfold wfk_entries in H. rewrite forallb_forall in H. exact (H (k, t) Hin). Qed.

Section WithClasses.
Variable ct : ctab.
(* the defaults of the class table are well-formed values *)
Definition ct_wf : Prop := forall c name d, In (name, Some d) (ct c) -> wfv d = true.

Lemma fill_wf : forall fields i pos kws, (forall name d, In (name, Some d) fields -> wfv d = true) ->
  (forall v, In v pos -> wfv v = true) -> (forall kv, In kv kws -> wfv (snd kv) = true) ->
  wfv_entries (fill i fields pos kws) = true.
Proof.
  induction fields as [|[name d] r IH]; intros i pos kws Hd Hp Hk; [reflexivity|]. cbn [fill]. unfold wfv_entries. cbn [forallb snd].
  apply andb_true_iff. split.
  - destruct (nth_error pos i) as [v|] eqn:E; [apply Hp; apply nth_error_In in E; exact E|].
    destruct (alookup name kws) as [v|] eqn:E2; [apply alookup_in in E2; exact (Hk (name, v) E2)|].
    destruct d as [d|]; [apply (Hd name d); left; reflexivity|reflexivity].
  - apply IH; [intros n0 d0 H0; apply (Hd n0 d0); right; exact H0|exact Hp|exact Hk].
Qed.

Lemma eval_wfv : ct_wf -> forall o, wfv (eval ct o) = true.
Proof.
  intros Hct. induction o as [z c|i z|k l IH|l IH|c pos kws IHp IHk] using ntree_induction; cbn [eval].
  - reflexivity.
  - reflexivity.
  - cbn [wfv]. rewrite forallb_forall. intros v Hv. apply in_map_iff in Hv. destruct Hv as [t [<- Ht]]. rewrite Forall_forall in IH. exact (IH t Ht).
  - rewrite wfv_dict.
    destruct (mkdict_wf _ (fun v => wfv v = true) (map (fun kt : Z * ntree => match kt with (k, t') => (k, eval ct t') end) l)) as [M1 M2].
    { intros kv Hkv. apply in_map_iff in Hkv. destruct Hkv as [[k t] [<- Ht]]. cbn [snd]. rewrite Forall_forall in IH. exact (IH (k, t) Ht). }
    apply andb_true_iff. split; [apply nodupb_NoDup; exact M1|]. unfold wfv_entries. rewrite forallb_forall. exact M2.
  - rewrite wfv_obj. apply fill_wf.
    + intros name d Hin. exact (Hct c name d Hin).
    + intros v Hv. apply in_map_iff in Hv. destruct Hv as [t [<- Ht]]. rewrite Forall_forall in IHp. exact (IHp t Ht).
    + intros kv Hkv. apply in_map_iff in Hkv. destruct Hkv as [[k t] [<- Ht]]. cbn [snd]. rewrite Forall_forall in IHk. exact (IHk (k, t) Ht).
Qed.
Lemma eval_refl : ct_wf -> forall o, val_eqb (eval ct o) (eval ct o) = true.
Proof. intros Hct o. apply val_eqb_refl, eval_wfv, Hct. Qed.

(* ------------------------------------------------------------------------- a run without fix keeps the value *)
Lemma value_assign_nofix : forall F o n, ct_wf -> okv ct n = true -> f_fix F = false ->
  val_eqb (eval_r ct (value_assign ct F o n)) (eval ct o) = true.
Proof.
  intros F o n Hct Hn HF. unfold value_assign. destruct (is_unm o); [apply eval_refl; exact Hct|]. rewrite HF.
  destruct (val_eqb (eval ct o) n) eqn:E; cbn [negb]; [|apply eval_refl; exact Hct].
  destruct (negb (canonical ct o) && f_update F); cbn [eval_r]; [|apply eval_refl; exact Hct].
  apply val_eqb_sym; [apply eval_wfv; exact Hct|apply okv_wfv with (ct := ct); exact Hn|exact E].
Qed.

Notation NV := (valid ntree nval (elt_eqb ct)).
Lemma walk_nofix_value : forall asg F s os ns, NV s os ns -> f_fix F = false -> ct_wf ->
  (forall o n, In o os -> In n ns -> val_eqb (eval_r ct (asg o n)) (eval ct o) = true) ->
  vlist_eqb (map (eval_r ct) (walk asg F s os ns)) (map (eval ct) os) = true.
Proof.
  intros asg F s os ns H HF Hct Ha.
  induction H as [|s o n os ns He H IH|s o os ns H IH|s n os ns H IH|s o n os ns H IH]; cbn [walk]; try rewrite HF; cbn [app map vlist_eqb].
  - reflexivity.
  - rewrite Ha by (left; reflexivity). cbn [andb]. apply IH. intros o' n' Ho Hn. apply Ha; right; assumption.
  - cbn [eval_r]. rewrite eval_refl by exact Hct. cbn [andb]. apply IH. intros o' n' Ho Hn. apply Ha; [right; exact Ho|exact Hn].
  - apply IH. intros o' n' Ho Hn. apply Ha; [exact Ho|right; exact Hn].
  - rewrite Ha by (left; reflexivity). cbn [andb]. apply IH. intros o' n' Ho Hn. apply Ha; right; assumption.
Qed.

Definition ev_kt' (kt : Z * ntree) : Z * nval := match kt with (k, t') => (k, eval ct t') end.
Lemma ev_kt'_keys : forall l, map fst (map ev_kt' l) = map fst l.
Proof. intros l. rewrite map_map. apply map_ext. intros [k r]. reflexivity. Qed.

(* without fix a dict display keeps its keys, in their order *)
Lemma dplace_nofix_shape : forall asg F ins news olds i, f_fix F = false ->
  map fst (dplace asg F ins news i olds) = map fst olds /\
  (forall k r, In (k, r) (dplace asg F ins news i olds) -> exists o, In (k, o) olds /\ (r = QKeep o \/ exists v, In (k, v) news /\ r = asg o v)).
Proof.
  intros asg F ins news olds. induction olds as [|[k o] r IH]; intros i HF; cbn [dplace]; rewrite HF; [split; [reflexivity|intros ? ? []]|].
  cbn [app]. destruct (IH (S i) HF) as [I1 I2]. unfold dassign_entry. cbn [fst snd]. rewrite HF.
  destruct (alookup k news) as [v|] eqn:El; cbn [app map fst].
  - split; [rewrite I1; reflexivity|]. intros k' r' [E|Hin].
    + injection E as <- <-. exists o. split; [left; reflexivity|]. right. exists v. split; [apply alookup_in; exact El|reflexivity].
    + destruct (I2 k' r' Hin) as [o' [Ho' H']]. exists o'. split; [right; exact Ho'|exact H'].
  - split; [rewrite I1; reflexivity|]. intros k' r' [E|Hin].
    + injection E as <- <-. exists o. split; [left; reflexivity|]. left. reflexivity.
    + destruct (I2 k' r' Hin) as [o' [Ho' H']]. exists o'. split; [right; exact Ho'|exact H'].
Qed.

Lemma dict_nofix_eq : forall asg F olds news, f_fix F = false -> ct_wf -> NoDup (map fst olds) ->
  (forall k o v, In (k, o) olds -> In (k, v) news -> val_eqb (eval_r ct (asg o v)) (eval ct o) = true) ->
  val_eqb (eval_r ct (QDict (dict_result asg F olds news))) (eval ct (NDct olds)) = true.
Proof.
  intros asg F olds news HF Hct Hnd Ha. unfold dict_result.
  destruct (dplace_nofix_shape asg F (dinserts olds news [] 0) news olds 0 HF) as [S1 S2].
  set (res := dplace asg F (dinserts olds news [] 0) news 0 olds) in *.
  cbn [eval_r eval]. change (fun kr : Z * nres => match kr with (k, r') => (k, eval_r ct r') end) with (ev_kr ct). fold ev_kt'.
  rewrite mkdict_nodup by (rewrite ev_kr_keys, S1; exact Hnd). rewrite mkdict_nodup by (rewrite ev_kt'_keys; exact Hnd).
  rewrite val_eqb_dict, !map_length. apply andb_true_iff. split.
  - apply Nat.eqb_eq. rewrite <- (map_length fst res), S1, map_length. reflexivity.
  - apply dsub_intro. intros k w Hin. apply in_map_iff in Hin. destruct Hin as [[k0 r] [E Hin]]. unfold ev_kr, ev_kr_gen in E. injection E as <- <-.
    destruct (S2 k0 r Hin) as [o [Ho Hr]]. exists (eval ct o). split.
    + apply alookup_nodup; [rewrite ev_kt'_keys; exact Hnd|]. apply in_map_iff. exists (k0, o). split; [reflexivity|exact Ho].
    + destruct Hr as [->|[v [Hv ->]]]; [cbn [eval_r]; apply eval_refl; exact Hct|exact (Ha k0 o v Ho Hv)].
Qed.

(* ---- constructor calls: positional arguments stay, a keyword argument stays, is assigned in place, or - with update - is deleted when it
   spells out the default of its field *)
Lemma cplace_nofix_shape : forall asg F c ins fs els i, f_fix F = false ->
  forall x, In x (cplace ct asg F c ins fs i els) -> exists e, In e els /\ In x (cassign_el ct asg F c fs e).
Proof.
  intros asg F c ins fs els. induction els as [|e r IH]; intros i HF x Hin; cbn [cplace] in Hin; rewrite HF in Hin; [destruct Hin|].
  cbn [app] in Hin. apply in_app_or in Hin. destruct Hin as [Hin|Hin].
  - exists e. split; [left; reflexivity|exact Hin].
  - destruct (IH (S i) HF x Hin) as [e' [He' Hx]]. exists e'. split; [right; exact He'|exact Hx].
Qed.
Lemma cplace_nofix_pos : forall asg F c ins fs pos kws i, f_fix F = false ->
  posvals ct (cplace ct asg F c ins fs i (elements pos kws)) = map (eval ct) pos.
Proof.
  intros asg F c ins fs pos kws. unfold elements. induction pos as [|t r IH]; intros i HF; cbn [map app].
  - apply (posvals_nil (eval_r ct)). intros x Hx. destruct (cplace_nofix_shape asg F c ins fs (map inr kws) i HF x Hx) as [e [He Hxe]].
    apply in_map_iff in He. destruct He as [[k t] [<- _]]. cbn [cassign_el] in Hxe. unfold cassign_kw in Hxe.
    destruct (alookup k fs) as [v|]; [destruct (is_default ct c k v); [destruct (has_unm t); [|destruct (val_eqb (eval ct t) v); [destruct (f_update F)|destruct (f_fix F)]]|]|destruct (f_fix F)];
      cbn in Hxe; try tauto; destruct Hxe as [<-|[]]; discriminate.
  - cbn [cplace]. rewrite HF. cbn [app cassign_el]. unfold cassign_pos. rewrite HF. cbn [app]. unfold posvals, posvals_gen. cbn [flat_map app]. f_equal. apply IH. exact HF.
Qed.

Lemma call_nofix_eq : forall asg F c pos kws fs, f_fix F = false -> ct_wf -> ct_ok ct -> NoDup (map fst kws) -> okv_entries ct fs = true ->
  NoDup (map fst fs) ->
  (forall k t v, In (k, t) kws -> In (k, v) fs -> val_eqb (eval_r ct (asg t v)) (eval ct t) = true) ->
  val_eqb (eval_r ct (QCall c (call_result ct asg F c pos kws fs))) (eval ct (NCall c pos kws)) = true.
Proof.
  intros asg F c pos kws fs HF Hct Hok Hnk Hfs Hnf Ha. unfold call_result.
  set (res := cplace ct asg F c (cinserts ct c (length pos) kws fs [] (length pos)) fs 0 (elements pos kws)).
  cbn [eval_r eval]. change (flat_map (fun ar : option Z * nres => match ar with (None, r') => [eval_r ct r'] | (Some _, _) => [] end) res) with (posvals ct res).
  change (flat_map (fun ar : option Z * nres => match ar with (Some k, r') => [(k, eval_r ct r')] | (None, _) => [] end) res) with (kwvals ct res). fold ev_kt'.
  unfold res at 1. rewrite cplace_nofix_pos by exact HF. fold res.
  rewrite val_eqb_obj, Z.eqb_refl. cbn [andb].
  (* what the keywords of the result are *)
  assert (K : forall k w, In (k, w) (kwvals ct res) -> exists t, In (k, t) kws /\ val_eqb w (eval ct t) = true).
  { intros k w Hin. apply (in_kwvals' ct) in Hin. destruct Hin as [r [Hin ->]].
    destruct (cplace_nofix_shape asg F c _ fs _ 0 HF _ Hin) as [e [He Hx]]. destruct e as [t|[k0 t]]; cbn [cassign_el] in Hx.
    - unfold cassign_pos in Hx. rewrite HF in Hx. destruct Hx as [E|[]]. discriminate.
    - apply in_elements_kw in He. unfold cassign_kw in Hx. destruct (alookup k0 fs) as [v|] eqn:El.
      + destruct (is_default ct c k0 v).
        * destruct (has_unm t); [destruct Hx as [E|[]]; injection E as <- <-; exists t; split; [exact He|apply eval_refl; exact Hct]|].
          destruct (val_eqb (eval ct t) v); [destruct (f_update F)|rewrite HF in Hx]; try destruct Hx as [E|[]]; try destruct Hx;
            injection E as <- <-; exists t; (split; [exact He|apply eval_refl; exact Hct]).
        * destruct Hx as [E|[]]. injection E as <- <-. exists t. split; [exact He|]. apply (Ha k0 t v He). apply alookup_in. exact El.
      + rewrite HF in Hx. destruct Hx as [E|[]]. injection E as <- <-. exists t. split; [exact He|apply eval_refl; exact Hct]. }
  (* a keyword that disappeared spelled out the default of its field *)
  assert (D : forall k t, In (k, t) kws -> ~ In k (map fst (kwvals ct res)) ->
              exists v d, alookup k (ct c) = Some (Some d) /\ val_eqb d v = true /\ val_eqb (eval ct t) v = true /\ wfv v = true).
  { intros k t Hkt Hni.
    assert (Hin : forall x, In x (cassign_el ct asg F c fs (inr (k, t))) -> In x res).
    { intros x Hx. unfold res. clear -Hkt Hx HF. generalize 0 as i. generalize (cinserts ct c (length pos) kws fs [] (length pos)) as ins.
      assert (He : In (inr (k, t)) (elements pos kws)) by (unfold elements; apply in_or_app; right; apply in_map; exact Hkt).
      induction (elements pos kws) as [|e r IH]; intros ins i; [destruct He|]. cbn [cplace]. apply in_or_app. right. apply in_or_app.
      destruct He as [->|He]; [left; exact Hx|right; apply IH; exact He]. }
    cbn [cassign_el] in Hin. unfold cassign_kw in Hin.
    assert (Hkeep : forall r, In (Some k, r) res -> False).
    { intros r Hr. apply Hni. apply in_map_iff. exists (k, eval_r ct r). split; [reflexivity|]. apply (in_kwvals' ct). exists r. split; [exact Hr|reflexivity]. }
    destruct (alookup k fs) as [v|] eqn:El; [|rewrite HF in Hin; exfalso; apply (Hkeep (QKeep t)); apply Hin; left; reflexivity].
    destruct (is_default ct c k v) eqn:Ed; [|exfalso; apply (Hkeep (asg t v)); apply Hin; left; reflexivity].
    destruct (has_unm t); [exfalso; apply (Hkeep (QKeep t)); apply Hin; left; reflexivity|].
    destruct (val_eqb (eval ct t) v) eqn:Ev; [|rewrite HF in Hin; exfalso; apply (Hkeep (QKeep t)); apply Hin; left; reflexivity].
    unfold is_default in Ed. destruct (alookup k (ct c)) as [[d|]|] eqn:Ec; try discriminate.
    exists v, d. split; [reflexivity|]. split; [exact Ed|]. split; [exact Ev|].
    apply okv_wfv with (ct := ct). apply alookup_in in El. exact (okv_entries_in ct fs k v Hfs El). }
  (* field by field *)
  assert (Hfields : forall fields i, NoDup (map fst fields) -> (forall name d, In (name, d) fields -> alookup name (ct c) = Some d) ->
            fields_eqb (fill i fields (map (eval ct) pos) (kwvals ct res)) (fill i fields (map (eval ct) pos) (map ev_kt' kws)) = true).
  { induction fields as [|[name d] r IH]; intros i Hndf Hlook; [reflexivity|]. cbn [fill fields_eqb]. rewrite Z.eqb_refl. cbn [andb].
    inversion Hndf as [|? ? Hni Hnd']; subst.
    rewrite IH by (try exact Hnd'; intros n0 d0 H0; apply Hlook; right; exact H0). rewrite andb_true_r.
    destruct (nth_error (map (eval ct) pos) i) as [pv|] eqn:Ep.
    - apply nth_error_In in Ep. apply in_map_iff in Ep. destruct Ep as [t [<- _]]. apply eval_refl. exact Hct.
    - destruct (alookup name (kwvals ct res)) as [w|] eqn:E1.
      + apply alookup_in in E1. destruct (K name w E1) as [t [Ht Hw]].
        rewrite (alookup_nodup _ name (eval ct t) (map ev_kt' kws)); [exact Hw|rewrite ev_kt'_keys; exact Hnk|].
        apply in_map_iff. exists (name, t). split; [reflexivity|exact Ht].
      + apply alookup_none in E1. destruct (alookup name (map ev_kt' kws)) as [u|] eqn:E2.
        * apply alookup_in in E2. apply in_map_iff in E2. destruct E2 as [[k0 t] [E Ht]]. cbn [ev_kt'] in E. injection E as -> <-.
          destruct (D name t Ht E1) as [v [d' [Hd' [Hdv [Htv Hwv]]]]].
          rewrite (Hlook name d (or_introl eq_refl)) in Hd'. injection Hd' as ->.
          apply (val_eqb_trans d' v (eval ct t) Hdv). apply val_eqb_sym; [apply eval_wfv; exact Hct|exact Hwv|exact Htv].
        * destruct d as [d|]; [|reflexivity]. apply val_eqb_refl. apply (Hct c name d).
          apply alookup_in. apply Hlook. left. reflexivity. }
  apply Hfields; [apply Hok|]. intros name d Hin. apply alookup_nodup; [apply Hok|exact Hin].
Qed.

(* C05 / C02 for nested values: a run in which fix is not approved never changes the value the argument evaluates to - whatever is
   observed, whatever else is approved.  In particular an update (non-canonical leaves rewritten, keyword arguments that spell out the default
   of their field deleted, dict displays with a repeated key regenerated) is value preserving at every depth. *)
Theorem nest_nofix_value : forall f F o n, ct_wf -> ct_ok ct -> wfk o = true -> okv ct n = true -> f_fix F = false ->
  val_eqb (eval_r ct (assign ct f F o n)) (eval ct o) = true.
Proof.
  induction f as [|f IH]; intros F o n Hct Hok Hk Hn HF; [cbn [assign eval_r]; apply eval_refl; exact Hct|]. rewrite assign_S.
  destruct o as [z c|i z|k olds|olds|c pos kws]; destruct n as [m|k' news|news|c' fs]; try (apply value_assign_nofix; assumption).
  - destruct (skind_eqb k k') eqn:Ek; [|apply value_assign_nofix; assumption].
    cbn [eval_r eval]. rewrite val_eqb_seq. assert (Ekk : skind_eqb k k = true) by (destruct k; reflexivity). rewrite Ekk. cbn [andb].
    apply walk_nofix_value; [apply script_valid|exact HF|exact Hct|].
    intros o n Hin Hinn. apply IH; [exact Hct|exact Hok|cbn [wfk] in Hk; exact (forallb_in _ _ _ _ Hk Hin)|cbn [okv] in Hn; exact (forallb_in _ _ _ _ Hn Hinn)|exact HF].
  - destruct (nodupb (map fst olds)) eqn:End; [|apply value_assign_nofix; assumption].
    apply nodupb_NoDup in End. rewrite wfk_dct in Hk. rewrite okv_dict in Hn. apply andb_true_iff in Hn. destruct Hn as [_ Hn2].
    apply dict_nofix_eq; [exact HF|exact Hct|exact End|].
    intros k o v Hko Hkv. apply IH; [exact Hct|exact Hok|exact (wfk_entries_in _ _ _ Hk Hko)|exact (okv_entries_in ct _ _ _ Hn2 Hkv)|exact HF].
  - destruct (Z.eqb c c') eqn:Ec; [|apply value_assign_nofix; assumption].
    apply Z.eqb_eq in Ec. subst c'. rewrite wfk_call in Hk. apply andb_true_iff in Hk. destruct Hk as [Hk Hk3]. apply andb_true_iff in Hk. destruct Hk as [_ Hk2].
    apply nodupb_NoDup in Hk2. rewrite okv_obj in Hn. apply andb_true_iff in Hn. destruct Hn as [Hn1 Hn2]. apply zlist_eqb_eq in Hn1.
    apply call_nofix_eq; [exact HF|exact Hct|exact Hok|exact Hk2|exact Hn2|rewrite Hn1; apply Hok|].
    intros k t v Hkt Hkv. apply IH; [exact Hct|exact Hok|exact (wfk_entries_in _ _ _ Hk3 Hkt)|exact (okv_entries_in ct _ _ _ Hn2 Hkv)|exact HF].
Qed.

End WithClasses.

(* the premises are satisfiable: the class table of the examples in Proofs/NestEqual.v, and an update-only run that deletes a keyword
   spelling out its default ({5: [A(f0=2+3, f1=0), (1,)], 6: B(f4=(2,))} observed unchanged) *)
From V Require Import Proofs.NestEqual.
Lemma ex_ct_wf : ct_wf ex_ct.
Proof.
  intros c name d Hin. unfold ex_ct in Hin. destruct (Z.eqb c 0); [|destruct (Z.eqb c 1)]; cbn [In] in Hin;
    repeat match goal with
           | H : _ \/ _ |- _ => destruct H
           | H : False |- _ => destruct H
           | H : (_, _) = (_, _) |- _ => (injection H as _ <-; reflexivity) || discriminate H
           end.
Qed.
Example nest_update_premises_hold :
  wfk ex_old = true /\ okv ex_ct ex_new = true /\
  val_eqb (eval_r ex_ct (assign_nest ex_ct {| f_create := false; f_fix := false; f_trim := false; f_update := true |} ex_old ex_new)) (eval ex_ct ex_old) = true /\
  verbatim (assign_nest ex_ct {| f_create := false; f_fix := false; f_trim := false; f_update := true |} ex_old ex_new) <> Some ex_old.
Proof. vm_compute. repeat split. discriminate. Qed.
