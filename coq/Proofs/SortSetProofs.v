(* Determinism of sort_set_values: the result does not depend on the order in which the elements of the set are
   presented (i.e. on the hash seed), for the repaired tree; refutation for the pinned tree. *)
From Coq Require Import List Arith NArith Bool Lia Permutation Sorted.
From V.Model Require Import SortSet.
Import ListNotations.

(* ------------------------------------------------------------------------------------------------------------ *)
(* S1: py_sorted returns a permutation of its input, for every ltx                                              *)
(* ------------------------------------------------------------------------------------------------------------ *)
Section Perm.
Variable A : Type.
Variable ltx : A -> A -> option bool.

Lemma bsearch_S : forall f pivot pre l r,
  bsearch A ltx (S f) pivot pre l r =
  if l <? r then
    match nth_error pre (l + (r - l) / 2) with
    | None => Some l
    | Some x => match ltx pivot x with
                | None => None
                | Some true => bsearch A ltx f pivot pre l (l + (r - l) / 2)
                | Some false => bsearch A ltx f pivot pre (S (l + (r - l) / 2)) r
                end
    end
  else Some l.
Proof. reflexivity. Qed.

Lemma mid_bounds : forall l r, l < r -> l <= l + (r - l) / 2 < r.
Proof.
  intros l r Hlr. split; [lia|].
  assert (Hd : (r - l) / 2 < r - l) by (apply Nat.div_lt; lia). lia.
Qed.

Lemma bsearch_bound : forall fuel pivot pre l r k,
  l <= r -> bsearch A ltx fuel pivot pre l r = Some k -> l <= k <= r.
Proof.
  induction fuel as [|f IH]; intros pivot pre l r k Hlr H.
  - simpl in H. inversion H; subst; lia.
  - rewrite bsearch_S in H. destruct (l <? r) eqn:Elr.
    + apply Nat.ltb_lt in Elr. pose proof (mid_bounds l r Elr) as Hp.
      destruct (nth_error pre (l + (r - l) / 2)) as [x|] eqn:En.
      * destruct (ltx pivot x) as [[|]|] eqn:Ec.
        -- apply IH in H; lia.
        -- apply IH in H; lia.
        -- discriminate.
      * inversion H; subst; lia.
    + inversion H; subst; lia.
Qed.

Lemma binsert_index : forall pre pivot k,
  bsearch A ltx (S (length pre)) pivot pre 0 (length pre) = Some k -> k <= length pre.
Proof. intros pre pivot k H. apply bsearch_bound in H; lia. Qed.

Lemma binsert_perm : forall pre x pre', binsert A ltx pre x = Some pre' -> Permutation (x :: pre) pre'.
Proof.
  intros pre x pre' H. unfold binsert in H.
  destruct (bsearch A ltx (S (length pre)) x pre 0 (length pre)) as [k|] eqn:Ek; [|discriminate].
  inversion H; subst.
  apply Permutation_trans with (x :: firstn k pre ++ skipn k pre).
  - rewrite firstn_skipn. apply Permutation_refl.
  - apply Permutation_middle.
Qed.

Lemma binsort_perm : forall rest pre s, binsort A ltx pre rest = Some s -> Permutation (pre ++ rest) s.
Proof.
  induction rest as [|x r IH]; intros pre s H; simpl in H.
  - inversion H; subst. rewrite app_nil_r. apply Permutation_refl.
  - destruct (binsert A ltx pre x) as [pre'|] eqn:Eb; [|discriminate].
    apply binsert_perm in Eb. apply IH in H.
    apply Permutation_trans with (pre' ++ r); [|exact H].
    apply Permutation_trans with ((x :: pre) ++ r).
    + simpl. apply Permutation_sym, Permutation_middle.
    + apply Permutation_app_tail. exact Eb.
Qed.

(* run_asc splits: the run followed by the rest IS the input (no reordering) *)
Lemma run_asc_eq : forall l last acc run rest,
  run_asc A ltx last l acc = Some (run, rest) -> run ++ rest = rev acc ++ l.
Proof.
  induction l as [|x r IH]; intros last acc run rest H; simpl in H.
  - inversion H; subst. reflexivity.
  - destruct (ltx x last) as [[|]|] eqn:Ec.
    + inversion H; subst. reflexivity.
    + apply IH in H. rewrite H. simpl. rewrite <- app_assoc. reflexivity.
    + discriminate.
Qed.

Lemma run_asc_perm : forall l last acc run rest,
  run_asc A ltx last l acc = Some (run, rest) -> Permutation (acc ++ l) (run ++ rest).
Proof.
  intros l last acc run rest H. apply run_asc_eq in H. rewrite H.
  apply Permutation_app_tail. apply Permutation_rev.
Qed.

Lemma run_desc_perm : forall l last acc run rest,
  run_desc A ltx last l acc = Some (run, rest) -> Permutation (acc ++ l) (run ++ rest).
Proof.
  induction l as [|x r IH]; intros last acc run rest H; simpl in H.
  - inversion H; subst. apply Permutation_refl.
  - destruct (ltx x last) as [[|]|] eqn:Ec.
    + apply IH in H. apply Permutation_trans with ((x :: acc) ++ r); [|exact H].
      simpl. apply Permutation_sym, Permutation_middle.
    + inversion H; subst. apply Permutation_refl.
    + discriminate.
Qed.

Lemma count_run_perm : forall l run rest,
  count_run A ltx l = Some (run, rest) -> Permutation l (run ++ rest).
Proof.
  intros l run rest H. destruct l as [|a [|b r]]; simpl in H.
  - inversion H; subst. apply Permutation_refl.
  - inversion H; subst. apply Permutation_refl.
  - destruct (ltx b a) as [[|]|] eqn:Ec.
    + apply run_desc_perm in H. apply Permutation_trans with ([b; a] ++ r); [|exact H].
      simpl. apply perm_swap.
    + apply run_asc_perm in H. apply Permutation_trans with ([b; a] ++ r); [|exact H].
      simpl. apply perm_swap.
    + discriminate.
Qed.

Theorem py_sorted_perm : forall l s, py_sorted A ltx l = Some s -> Permutation l s.
Proof.
  intros l s H. unfold py_sorted in H.
  destruct (count_run A ltx l) as [[run rest]|] eqn:Ec; [|discriminate].
  apply count_run_perm in Ec. apply binsort_perm in H.
  apply Permutation_trans with (run ++ rest); assumption.
Qed.

Lemma py_sorted_length : forall l s, py_sorted A ltx l = Some s -> length s = length l.
Proof. intros l s H. apply py_sorted_perm in H. symmetry. apply Permutation_length. exact H. Qed.

Lemma py_sorted_in : forall l s x, py_sorted A ltx l = Some s -> (In x l <-> In x s).
Proof.
  intros l s x H. apply py_sorted_perm in H. split; intro Hi.
  - eapply Permutation_in; eauto.
  - eapply Permutation_in; [apply Permutation_sym|]; eauto.
Qed.
End Perm.

(* a deliberately non-transitive "rock paper scissors" relation on 0,1,2 plus ordinary < elsewhere *)
Definition rps (a b : nat) : option bool :=
  Some (match a, b with 0, 1 => true | 1, 2 => true | 2, 0 => true | _, _ => false end).
Example py_sorted_perm_ex :
  py_sorted nat rps [2; 0; 1; 2; 1; 0; 0] = Some [2; 0; 0; 0; 1; 1; 2]
  /\ Permutation [2; 0; 1; 2; 1; 0; 0] [2; 0; 0; 0; 1; 1; 2].
Proof. split; [vm_compute; reflexivity|]. apply (py_sorted_perm nat rps). vm_compute. reflexivity. Qed.
Example binsert_perm_ex : binsert nat rps [0; 1; 2] 1 = Some [0; 1; 1; 2].
Proof. vm_compute. reflexivity. Qed.
Example count_run_desc_ex :
  count_run nat (fun a b => Some (a <? b)) [5; 3; 1; 4; 2] = Some ([1; 3; 5], [4; 2]).
Proof. vm_compute. reflexivity. Qed.
Example count_run_asc_ex :
  count_run nat (fun a b => Some (a <? b)) [1; 3; 3; 2; 7] = Some ([1; 3; 3], [2; 7]).
Proof. vm_compute. reflexivity. Qed.

(* ------------------------------------------------------------------------------------------------------------ *)
(* Basic order vocabulary                                                                                       *)
(* ------------------------------------------------------------------------------------------------------------ *)
Definition irrefl {A} (ltb : A -> A -> bool) : Prop := forall a, ltb a a = false.
Definition trans {A} (ltb : A -> A -> bool) : Prop :=
  forall a b c, ltb a b = true -> ltb b c = true -> ltb a c = true.
Definition total_on {A} (ltb : A -> A -> bool) (l : list A) : Prop :=
  forall a b, In a l -> In b l -> a <> b -> ltb a b = true \/ ltb b a = true.

(* ------------------------------------------------------------------------------------------------------------ *)
(* S8: the pinned tree depends on the presentation order for a partial order; the repaired tree does not        *)
(* ------------------------------------------------------------------------------------------------------------ *)
Definition elt_key (e : elt) : list N :=
  match e with EFs l => map N.of_nat l | _ => [] end.

Definition fs_l1 : list elt := [EFs [0]; EFs [1]; EFs [2]].
Definition fs_l2 : list elt := [EFs [1]; EFs [0]; EFs [2]].

Lemma fs_l1_l2_perm : Permutation fs_l1 fs_l2.
Proof. unfold fs_l1, fs_l2. apply perm_swap. Qed.

Theorem partial_order_pinned_refuted :
  exists l l', Permutation l l' /\
    sort_set_values elt elt_ltx elt_key false l <> sort_set_values elt elt_ltx elt_key false l'.
Proof.
  exists fs_l1, fs_l2. split; [exact fs_l1_l2_perm|].
  intro H. vm_compute in H. discriminate H.
Qed.

Theorem partial_order_fixed_witness :
  sort_set_values elt elt_ltx elt_key true fs_l1 = sort_set_values elt elt_ltx elt_key true fs_l2.
Proof. vm_compute. reflexivity. Qed.

Example partial_order_pinned_values :
  sort_set_values elt elt_ltx elt_key false fs_l1 = [[0]; [1]; [2]]%N
  /\ sort_set_values elt elt_ltx elt_key false fs_l2 = [[1]; [0]; [2]]%N
  /\ sort_set_values elt elt_ltx elt_key true fs_l1 = [[0]; [1]; [2]]%N
  /\ sort_set_values elt elt_ltx elt_key true fs_l2 = [[0]; [1]; [2]]%N.
Proof. vm_compute. repeat split. Qed.

(* the three singletons are pairwise incomparable and no comparison raises *)
Example fs_incomparable :
  forallb (fun a => forallb (fun b => match elt_ltx a b with Some false => true | _ => false end) fs_l1) fs_l1
  = true.
Proof. vm_compute. reflexivity. Qed.

(* strict subset on lists-as-sets is a strict partial order *)
Definition fs_ltb (a b : list nat) : bool := subset a b && negb (subset b a).

Lemma elt_ltx_EFs : forall x y, elt_ltx (EFs x) (EFs y) = Some (fs_ltb x y).
Proof. reflexivity. Qed.

Lemma subset_spec : forall a b, subset a b = true <-> (forall x, In x a -> In x b).
Proof.
  intros a b. unfold subset. rewrite forallb_forall. split; intros H x Hx.
  - apply H in Hx. apply existsb_exists in Hx. destruct Hx as [y [Hy Heq]].
    apply Nat.eqb_eq in Heq. subst. exact Hy.
  - apply existsb_exists. exists x. split; [apply H; exact Hx|apply Nat.eqb_refl].
Qed.

Lemma subset_refl : forall a, subset a a = true.
Proof. intro a. apply subset_spec. auto. Qed.

Lemma subset_trans : forall a b c, subset a b = true -> subset b c = true -> subset a c = true.
Proof.
  intros a b c Hab Hbc. rewrite subset_spec in *. auto.
Qed.

Theorem subset_strict_irrefl : irrefl fs_ltb.
Proof. intro a. unfold fs_ltb. rewrite subset_refl. reflexivity. Qed.

Theorem subset_strict_trans : trans fs_ltb.
Proof.
  intros a b c Hab Hbc. unfold fs_ltb in *.
  apply andb_true_iff in Hab. destruct Hab as [Hab Hba].
  apply andb_true_iff in Hbc. destruct Hbc as [Hbc Hcb].
  apply andb_true_iff. split.
  - eapply subset_trans; eauto.
  - apply negb_true_iff in Hcb. apply negb_true_iff.
    destruct (subset c a) eqn:Eca; [|reflexivity].
    rewrite (subset_trans c a b Eca Hab) in Hcb. discriminate.
Qed.

Example subset_strict_ex :
  fs_ltb [1] [2; 1] = true /\ fs_ltb [2; 1] [1; 2; 3] = true /\ fs_ltb [1] [1; 2; 3] = true
  /\ fs_ltb [1; 2] [2; 1] = false /\ fs_ltb [0] [1] = false /\ fs_ltb [1] [0] = false.
Proof. vm_compute. repeat split. Qed.

(* ------------------------------------------------------------------------------------------------------------ *)
(* S3: a sorted permutation is unique (for any antisymmetric relation; strict orders are an instance)           *)
(* ------------------------------------------------------------------------------------------------------------ *)
Section Unique.
Variable A : Type.

Lemma sorted_perm_unique_gen : forall (R : A -> A -> Prop),
  (forall a b, R a b -> R b a -> a = b) ->
  forall s s', StronglySorted R s -> StronglySorted R s' -> Permutation s s' -> s = s'.
Proof.
  intros R Hanti. induction s as [|a t IH]; intros s' Hs Hs' Hp.
  - apply Permutation_nil in Hp. subst. reflexivity.
  - destruct s' as [|b t'].
    + apply Permutation_sym, Permutation_nil in Hp. discriminate.
    + inversion Hs as [|? ? Hst Hfa]; subst. inversion Hs' as [|? ? Hst' Hfb]; subst.
      rewrite Forall_forall in Hfa, Hfb.
      assert (Hab : a = b).
      { assert (Hina : In a (b :: t')) by (eapply Permutation_in; [exact Hp|left; reflexivity]).
        assert (Hinb : In b (a :: t)) by
          (eapply Permutation_in; [apply Permutation_sym; exact Hp|left; reflexivity]).
        destruct Hina as [Hba|Hina]; [symmetry; exact Hba|].
        destruct Hinb as [Hab|Hinb]; [exact Hab|].
        apply Hanti; [apply Hfa; exact Hinb|apply Hfb; exact Hina]. }
      subst b. f_equal. apply IH; try assumption.
      eapply Permutation_cons_inv. exact Hp.
Qed.

Variable ltb : A -> A -> bool.

Theorem sorted_perm_unique :
  irrefl ltb -> trans ltb ->
  forall s s', StronglySorted (fun a b => ltb a b = true) s ->
               StronglySorted (fun a b => ltb a b = true) s' ->
               Permutation s s' -> s = s'.
Proof.
  intros Hirr Htr. apply sorted_perm_unique_gen.
  intros a b Hab Hba. pose proof (Htr a b a Hab Hba) as Haa. rewrite Hirr in Haa. discriminate.
Qed.
End Unique.

Example sorted_perm_unique_ex :
  forall s, StronglySorted (fun a b => Nat.ltb a b = true) s -> Permutation s [3; 1; 2] -> s = [1; 2; 3].
Proof.
  intros s Hs Hp. apply (sorted_perm_unique nat Nat.ltb).
  - intro a. apply Nat.ltb_irrefl.
  - intros a b c H1 H2. apply Nat.ltb_lt in H1, H2. apply Nat.ltb_lt. lia.
  - exact Hs.
  - repeat constructor; apply Nat.ltb_lt; lia.
  - apply Permutation_trans with [3; 1; 2]; [exact Hp|].
    apply Permutation_trans with [1; 3; 2]; [apply perm_swap|apply perm_skip, perm_swap].
Qed.

(* ------------------------------------------------------------------------------------------------------------ *)
(* Generic correctness of count_run + binary insertion for a total (never raising) comparison.                  *)
(* `Rel` is the order the result is sorted by: strict (`ltb a b = true`) or with duplicates (`a = b \/ ...`).   *)
(* Elements at distinct positions must be `cmp`-comparable.                                                     *)
(* ------------------------------------------------------------------------------------------------------------ *)
Fixpoint pairwise {A} (P : A -> A -> Prop) (l : list A) : Prop :=
  match l with
  | [] => True
  | a :: r => Forall (P a) r /\ pairwise P r
  end.

Lemma pairwise_perm : forall A (P : A -> A -> Prop), (forall a b, P a b -> P b a) ->
  forall l l', Permutation l l' -> pairwise P l -> pairwise P l'.
Proof.
  intros A P Hsym l l' Hp. induction Hp as [|x l l' Hp IH|x y l|l l' l'' Hp1 IH1 Hp2 IH2]; intro H.
  - exact I.
  - simpl in *. destruct H as [Hf Hr]. split; [|apply IH; exact Hr].
    rewrite Forall_forall in *. intros z Hz. apply Hf. eapply Permutation_in; [apply Permutation_sym|]; eauto.
  - simpl in *. destruct H as [Hfy [Hfx Hr]]. inversion Hfy as [|? ? Hyx Hfy']; subst.
    repeat split; try assumption. constructor; [apply Hsym; exact Hyx|exact Hfx].
  - auto.
Qed.

Lemma pairwise_app_cross : forall A (P : A -> A -> Prop) l1 l2 a b,
  pairwise P (l1 ++ l2) -> In a l1 -> In b l2 -> P a b.
Proof.
  intros A P. induction l1 as [|x l1 IH]; intros l2 a b H Ha Hb.
  - destruct Ha.
  - simpl in H. destruct H as [Hf Hr]. destruct Ha as [Ha|Ha].
    + subst x. rewrite Forall_forall in Hf. apply Hf. apply in_or_app. right. exact Hb.
    + eapply IH; eauto.
Qed.

Lemma pairwise_all : forall A (P : A -> A -> Prop) l, (forall a b, P a b) -> pairwise P l.
Proof.
  intros A P l H. induction l as [|a l IH]; simpl; [exact I|].
  split; [apply Forall_forall; intros; apply H|exact IH].
Qed.

Lemma sorted_nth : forall A (R : A -> A -> Prop) l, StronglySorted R l ->
  forall i j x y, i < j -> nth_error l i = Some x -> nth_error l j = Some y -> R x y.
Proof.
  intros A R l Hs. induction Hs as [|a l Hs IH Hf]; intros i j x y Hij Hi Hj.
  - destruct i; discriminate.
  - destruct j as [|j]; [lia|]. destruct i as [|i]; simpl in *.
    + inversion Hi; subst. rewrite Forall_forall in Hf. apply Hf. eapply nth_error_In; eauto.
    + apply (IH i j); [lia|assumption|assumption].
Qed.

Lemma Forall_firstn_nth : forall A (P : A -> Prop) pre k,
  (forall i x, i < k -> nth_error pre i = Some x -> P x) -> Forall P (firstn k pre).
Proof.
  intros A P. induction pre as [|a pre IH]; intros k H; destruct k as [|k]; simpl; try constructor.
  - apply (H 0); [lia|reflexivity].
  - apply IH. intros i x Hi Hn. apply (H (S i)); [lia|exact Hn].
Qed.

Lemma Forall_skipn_nth : forall A (P : A -> Prop) pre k,
  (forall i x, k <= i -> nth_error pre i = Some x -> P x) -> Forall P (skipn k pre).
Proof.
  intros A P. induction pre as [|a pre IH]; intros k H; destruct k as [|k]; simpl; try constructor.
  - apply (H 0); [lia|reflexivity].
  - apply Forall_forall. intros x Hx. apply In_nth_error in Hx. destruct Hx as [n Hn].
    apply (H (S n)); [lia|exact Hn].
  - apply IH. intros i x Hi Hn. apply (H (S i)); [lia|exact Hn].
Qed.

Lemma sorted_insert : forall A (R : A -> A -> Prop) l1 l2 x,
  StronglySorted R (l1 ++ l2) -> Forall (fun y => R y x) l1 -> Forall (R x) l2 ->
  StronglySorted R (l1 ++ x :: l2).
Proof.
  intros A R. induction l1 as [|a l1 IH]; intros l2 x Hs H1 H2; simpl in *.
  - constructor; assumption.
  - inversion Hs as [|? ? Hs' Hfa]; subst. inversion H1 as [|? ? Hax H1']; subst.
    constructor; [apply IH; assumption|].
    rewrite Forall_forall in *. intros z Hz. apply in_app_or in Hz. destruct Hz as [Hz|[Hz|Hz]].
    + apply Hfa. apply in_or_app. left. exact Hz.
    + subst z. exact Hax.
    + apply Hfa. apply in_or_app. right. exact Hz.
Qed.

Lemma sorted_rev : forall A (R : A -> A -> Prop) l,
  StronglySorted (fun a b => R b a) l -> StronglySorted R (rev l).
Proof.
  intros A R l Hs. induction Hs as [|a l Hs IH Hf]; simpl; [constructor|].
  apply sorted_insert.
  - rewrite app_nil_r. exact IH.
  - rewrite Forall_forall in *. intros y Hy. apply Hf. apply in_rev. exact Hy.
  - constructor.
Qed.

Section Generic.
Variable A : Type.
Variable ltb : A -> A -> bool.
Variable Rel : A -> A -> Prop.
Hypothesis Rel_lt : forall a b, ltb a b = true -> Rel a b.
Hypothesis Rel_mono : forall a b c, Rel a b -> ltb c a = true -> ltb c b = true.

Let ltx := fun a b : A => Some (ltb a b).

Definition cmp (a b : A) : Prop := (ltb a b = false -> Rel b a) /\ (ltb b a = false -> Rel a b).

Lemma cmp_sym : forall a b, cmp a b -> cmp b a.
Proof. intros a b [H1 H2]. split; assumption. Qed.

(* the loop invariant of the binary search; fuel S (length pre) suffices by the measure r - l *)
Lemma bsearch_spec : forall fuel pivot pre l r,
  StronglySorted Rel pre -> l <= r -> r <= length pre -> r - l < fuel ->
  (forall i x, i < l -> nth_error pre i = Some x -> ltb pivot x = false) ->
  (forall i x, r <= i -> nth_error pre i = Some x -> ltb pivot x = true) ->
  exists k, bsearch A ltx fuel pivot pre l r = Some k /\ l <= k <= r /\
    (forall i x, i < k -> nth_error pre i = Some x -> ltb pivot x = false) /\
    (forall i x, k <= i -> nth_error pre i = Some x -> ltb pivot x = true).
Proof.
  induction fuel as [|f IH]; intros pivot pre l r Hs Hlr Hr Hfuel Hlo Hhi; [lia|].
  rewrite bsearch_S. destruct (l <? r) eqn:Elr.
  - apply Nat.ltb_lt in Elr. pose proof (mid_bounds l r Elr) as Hp.
    set (p := l + (r - l) / 2) in *.
    destruct (nth_error pre p) as [x|] eqn:En.
    + unfold ltx at 1. destruct (ltb pivot x) eqn:Ec.
      * destruct (IH pivot pre l p Hs) as [k [Hk [Hb [Hk1 Hk2]]]]; try lia.
        -- exact Hlo.
        -- intros i y Hi Hy. destruct (Nat.eq_dec i p) as [Heq|Hne].
           ++ subst i. rewrite En in Hy. inversion Hy; subst. exact Ec.
           ++ apply (Rel_mono x y pivot); [|exact Ec].
              apply (sorted_nth A Rel pre Hs p i); [lia|exact En|exact Hy].
        -- exists k. repeat split; try assumption; lia.
      * destruct (IH pivot pre (S p) r Hs) as [k [Hk [Hb [Hk1 Hk2]]]]; try lia.
        -- intros i y Hi Hy. destruct (Nat.eq_dec i p) as [Heq|Hne].
           ++ subst i. rewrite En in Hy. inversion Hy; subst. exact Ec.
           ++ destruct (ltb pivot y) eqn:Ey; [|reflexivity].
              rewrite (Rel_mono y x pivot) in Ec; [discriminate| |exact Ey].
              apply (sorted_nth A Rel pre Hs i p); [lia|exact Hy|exact En].
        -- exact Hhi.
        -- exists k. repeat split; try assumption; lia.
    + apply nth_error_None in En. lia.
  - apply Nat.ltb_ge in Elr. exists l. repeat split; try assumption; try lia.
    intros i x Hi Hx. apply (Hhi i x); [lia|exact Hx].
Qed.

Lemma binsert_sorted : forall pre x,
  StronglySorted Rel pre -> (forall y, In y pre -> cmp y x) ->
  exists pre', binsert A ltx pre x = Some pre' /\ StronglySorted Rel pre'.
Proof.
  intros pre x Hs Hc. unfold binsert.
  destruct (bsearch_spec (S (length pre)) x pre 0 (length pre) Hs) as [k [Hk [Hb [Hk1 Hk2]]]];
    [lia|lia|lia| | |].
  - intros i y Hi. lia.
  - intros i y Hi Hy. assert (Hlt : i < length pre) by (apply nth_error_Some; rewrite Hy; discriminate). lia.
  - rewrite Hk. eexists. split; [reflexivity|].
    apply sorted_insert.
    + rewrite firstn_skipn. exact Hs.
    + pose proof (Forall_firstn_nth A _ pre k Hk1) as Hf. rewrite Forall_forall in *.
      intros y Hy. apply (Hc y); [|apply Hf; exact Hy].
      rewrite <- (firstn_skipn k pre). apply in_or_app. left. exact Hy.
    + pose proof (Forall_skipn_nth A _ pre k Hk2) as Hf. rewrite Forall_forall in *.
      intros y Hy. apply Rel_lt. apply Hf. exact Hy.
Qed.

Lemma binsort_sorted : forall rest pre,
  StronglySorted Rel pre -> pairwise cmp (pre ++ rest) ->
  exists s, binsort A ltx pre rest = Some s /\ StronglySorted Rel s.
Proof.
  induction rest as [|x r IH]; intros pre Hs Hpw; simpl.
  - exists pre. split; [reflexivity|exact Hs].
  - destruct (binsert_sorted pre x Hs) as [pre' [Hb Hs']].
    + intros y Hy. apply (pairwise_app_cross A cmp pre (x :: r)); [exact Hpw|exact Hy|left; reflexivity].
    + rewrite Hb. apply IH; [exact Hs'|].
      apply (pairwise_perm A cmp cmp_sym (pre ++ x :: r)); [|exact Hpw].
      apply Permutation_trans with ((x :: pre) ++ r).
      * simpl. apply Permutation_sym, Permutation_middle.
      * apply Permutation_app_tail. apply (binsert_perm A ltx). exact Hb.
Qed.

(* ascending run: acc holds the run reversed, headed by `last` *)
Lemma run_asc_sorted : forall l last acc,
  StronglySorted (fun a b => Rel b a) (last :: acc) -> pairwise cmp ((last :: acc) ++ l) ->
  exists run rest, run_asc A ltx last l (last :: acc) = Some (run, rest) /\ StronglySorted Rel run.
Proof.
  induction l as [|x r IH]; intros last acc Hs Hpw.
  - cbn [run_asc]. eexists. eexists. split; [reflexivity|]. apply sorted_rev. exact Hs.
  - cbn [run_asc]. unfold ltx at 1. destruct (ltb x last) eqn:Ec.
    + eexists. eexists. split; [reflexivity|]. apply sorted_rev. exact Hs.
    + apply IH.
      * constructor; [exact Hs|].
        assert (Hcx : forall y, In y (last :: acc) -> cmp y x).
        { intros y Hy. apply (pairwise_app_cross A cmp (last :: acc) (x :: r)); [exact Hpw|exact Hy|].
          left; reflexivity. }
        inversion Hs as [|? ? Hs' Hfl]; subst. rewrite Forall_forall in Hfl.
        apply Forall_forall. intros y Hy. destruct Hy as [Hy|Hy].
        -- subst y. apply (Hcx last); [left; reflexivity|exact Ec].
        -- destruct (ltb x y) eqn:Exy.
           ++ rewrite (Rel_mono y last x) in Ec; [discriminate|apply Hfl; exact Hy|exact Exy].
           ++ apply (Hcx y); [right; exact Hy|exact Exy].
      * apply (pairwise_perm A cmp cmp_sym ((last :: acc) ++ x :: r)); [|exact Hpw].
        change ((x :: last :: acc) ++ r) with (x :: (last :: acc) ++ r).
        apply Permutation_sym, Permutation_middle.
Qed.

(* strictly descending run: acc holds the run already reversed (ascending), headed by `last` *)
Lemma run_desc_sorted : forall l last acc,
  StronglySorted Rel (last :: acc) ->
  exists run rest, run_desc A ltx last l (last :: acc) = Some (run, rest) /\ StronglySorted Rel run.
Proof.
  induction l as [|x r IH]; intros last acc Hs.
  - simpl. eexists. eexists. split; [reflexivity|exact Hs].
  - cbn [run_desc]. unfold ltx at 1. destruct (ltb x last) eqn:Ec.
    + apply IH. constructor; [exact Hs|].
      inversion Hs as [|? ? Hs' Hfl]; subst. rewrite Forall_forall in Hfl.
      apply Forall_forall. intros y Hy. apply Rel_lt. destruct Hy as [Hy|Hy].
      * subst y. exact Ec.
      * apply (Rel_mono last y x); [apply Hfl; exact Hy|exact Ec].
    + eexists. eexists. split; [reflexivity|exact Hs].
Qed.

Lemma count_run_sorted : forall l, pairwise cmp l ->
  exists run rest, count_run A ltx l = Some (run, rest) /\ StronglySorted Rel run.
Proof.
  intros l Hpw. destruct l as [|a [|b r]].
  - simpl. eexists. eexists. split; [reflexivity|constructor].
  - simpl. eexists. eexists. split; [reflexivity|]. repeat constructor.
  - cbn [count_run]. unfold ltx at 1. destruct (ltb b a) eqn:Ec.
    + apply run_desc_sorted. repeat constructor. apply Rel_lt. exact Ec.
    + apply run_asc_sorted.
      * repeat constructor. simpl in Hpw. destruct Hpw as [Hfa _]. inversion Hfa as [|? ? Hab _]; subst.
        destruct Hab as [_ Hab]. apply Hab. exact Ec.
      * apply (pairwise_perm A cmp cmp_sym (a :: b :: r)); [|exact Hpw]. simpl. apply perm_swap.
Qed.

Theorem py_sorted_sorted_gen : forall l, pairwise cmp l ->
  exists s, py_sorted A ltx l = Some s /\ StronglySorted Rel s.
Proof.
  intros l Hpw. unfold py_sorted.
  destruct (count_run_sorted l Hpw) as [run [rest [Hc Hs]]]. rewrite Hc.
  apply binsort_sorted; [exact Hs|].
  apply (pairwise_perm A cmp cmp_sym l); [|exact Hpw].
  apply (count_run_perm A ltx). exact Hc.
Qed.
End Generic.

(* ------------------------------------------------------------------------------------------------------------ *)
(* S2: for a strict order that is total on the (distinct) elements, py_sorted returns the strictly sorted list  *)
(* ------------------------------------------------------------------------------------------------------------ *)
Section Defined.
Variable A : Type.
Variable ltx : A -> A -> option bool.
Hypothesis Hdef : forall a b, ltx a b <> None.

Lemma bsearch_defined : forall fuel pivot pre l r, bsearch A ltx fuel pivot pre l r <> None.
Proof.
  induction fuel as [|f IH]; intros pivot pre l r; [simpl; discriminate|].
  rewrite bsearch_S. destruct (l <? r); [|discriminate].
  destruct (nth_error pre (l + (r - l) / 2)) as [x|]; [|discriminate].
  destruct (ltx pivot x) as [[|]|] eqn:Ec; try apply IH. exfalso. exact (Hdef _ _ Ec).
Qed.

Lemma binsert_defined : forall pre x, binsert A ltx pre x <> None.
Proof.
  intros pre x. unfold binsert.
  destruct (bsearch A ltx (S (length pre)) x pre 0 (length pre)) eqn:Eb; [discriminate|].
  exfalso. exact (bsearch_defined _ _ _ _ _ Eb).
Qed.

Lemma binsort_defined : forall rest pre, binsort A ltx pre rest <> None.
Proof.
  induction rest as [|x r IH]; intros pre; simpl; [discriminate|].
  destruct (binsert A ltx pre x) eqn:Eb; [apply IH|]. exfalso. exact (binsert_defined _ _ Eb).
Qed.

Lemma run_asc_defined : forall l last acc, run_asc A ltx last l acc <> None.
Proof.
  induction l as [|x r IH]; intros last acc; simpl; [discriminate|].
  destruct (ltx x last) as [[|]|] eqn:Ec; [discriminate|apply IH|]. exfalso. exact (Hdef _ _ Ec).
Qed.

Lemma run_desc_defined : forall l last acc, run_desc A ltx last l acc <> None.
Proof.
  induction l as [|x r IH]; intros last acc; simpl; [discriminate|].
  destruct (ltx x last) as [[|]|] eqn:Ec; [apply IH|discriminate|]. exfalso. exact (Hdef _ _ Ec).
Qed.

Lemma count_run_defined : forall l, count_run A ltx l <> None.
Proof.
  intros [|a [|b r]]; simpl; try discriminate.
  destruct (ltx b a) as [[|]|] eqn:Ec; [apply run_desc_defined|apply run_asc_defined|].
  exfalso. exact (Hdef _ _ Ec).
Qed.

Theorem py_sorted_total_defined : forall l, py_sorted A ltx l <> None.
Proof.
  intros l. unfold py_sorted. destruct (count_run A ltx l) as [[run rest]|] eqn:Ec.
  - apply binsort_defined.
  - exfalso. exact (count_run_defined _ Ec).
Qed.

Corollary py_sorted_total_some : forall l, exists s, py_sorted A ltx l = Some s.
Proof.
  intros l. destruct (py_sorted A ltx l) as [s|] eqn:E; [exists s; reflexivity|].
  exfalso. exact (py_sorted_total_defined _ E).
Qed.
End Defined.

Example py_sorted_total_defined_ex : py_sorted nat rps [0; 1; 2; 0; 1; 2] <> None.
Proof. apply py_sorted_total_defined. intros a b. unfold rps. discriminate. Qed.

Lemma total_on_perm : forall A (ltb : A -> A -> bool) l l',
  Permutation l l' -> total_on ltb l -> total_on ltb l'.
Proof.
  intros A ltb l l' Hp Ht a b Ha Hb Hne.
  apply Ht; [| |exact Hne]; (eapply Permutation_in; [apply Permutation_sym; exact Hp|assumption]).
Qed.

Section Strict.
Variable A : Type.
Variable ltb : A -> A -> bool.
Hypothesis Htr : trans ltb.      (* irreflexivity is not needed in this section *)

Let ltx := fun a b : A => Some (ltb a b).
Let lt := fun a b : A => ltb a b = true.

Lemma lt_Rel_mono : forall a b c, lt a b -> ltb c a = true -> ltb c b = true.
Proof. intros a b c Hab Hca. exact (Htr c a b Hca Hab). Qed.

Lemma pairwise_cmp_strict : forall l, NoDup l -> total_on ltb l -> pairwise (cmp A ltb lt) l.
Proof.
  induction l as [|a r IH]; intros Hnd Ht; simpl; [exact I|].
  inversion Hnd as [|? ? Hnin Hnd']; subst. split.
  - apply Forall_forall. intros b Hb.
    assert (Hne : a <> b) by (intro Heq; subst; contradiction).
    assert (Hab : ltb a b = true \/ ltb b a = true).
    { apply Ht; [left; reflexivity|right; exact Hb|exact Hne]. }
    unfold cmp, lt. split; intro Hf; destruct Hab as [Hab|Hab]; congruence.
  - apply IH; [exact Hnd'|].
    intros x y Hx Hy Hne. apply Ht; [right; exact Hx|right; exact Hy|exact Hne].
Qed.

Theorem py_sorted_sorted_total_tr : forall l,
  NoDup l -> total_on ltb l ->
  exists s, py_sorted A (fun a b => Some (ltb a b)) l = Some s /\
            StronglySorted (fun a b => ltb a b = true) s.
Proof.
  intros l Hnd Ht.
  apply (py_sorted_sorted_gen A ltb lt (fun a b H => H) lt_Rel_mono).
  apply pairwise_cmp_strict; assumption.
Qed.

(* ---------------------------------------------------------------------------------------------------------- *)
(* S4: the chain test holds exactly when the order is total on the elements                                   *)
(* ---------------------------------------------------------------------------------------------------------- *)
Lemma chain_defined : forall s, chain A ltx s <> None.
Proof.
  induction s as [|a [|b r] IH]; simpl; try discriminate.
  unfold ltx at 1. destruct (ltb a b); [exact IH|discriminate].
Qed.

Lemma chain_sorted : forall s, chain A ltx s = Some true -> StronglySorted lt s.
Proof.
  induction s as [|a [|b r] IH]; intro H.
  - constructor.
  - repeat constructor.
  - cbn [chain] in H. unfold ltx at 1 in H. destruct (ltb a b) eqn:Eab; [|discriminate].
    specialize (IH H). constructor; [exact IH|].
    inversion IH as [|? ? _ Hfb]; subst. constructor; [exact Eab|].
    rewrite Forall_forall in *. intros z Hz. exact (Htr a b z Eab (Hfb z Hz)).
Qed.

Lemma sorted_chain : forall s, StronglySorted lt s -> chain A ltx s = Some true.
Proof.
  induction s as [|a [|b r] IH]; intro H; try reflexivity.
  inversion H as [|? ? Hs Hf]; subst. inversion Hf as [|? ? Hab _]; subst.
  cbn [chain]. unfold ltx at 1. unfold lt in Hab. rewrite Hab. apply IH. exact Hs.
Qed.

Lemma sorted_trichotomy : forall s, StronglySorted lt s ->
  forall a b, In a s -> In b s -> a = b \/ ltb a b = true \/ ltb b a = true.
Proof.
  intros s Hs. induction Hs as [|x s Hs IH Hf]; intros a b Ha Hb; [destruct Ha|].
  rewrite Forall_forall in Hf. destruct Ha as [Ha|Ha], Hb as [Hb|Hb].
  - left. congruence.
  - subst a. right. left. apply Hf. exact Hb.
  - subst b. right. right. apply Hf. exact Ha.
  - apply IH; assumption.
Qed.

Lemma sorted_total_on : forall s, StronglySorted lt s -> total_on ltb s.
Proof.
  intros s Hs a b Ha Hb Hne. destruct (sorted_trichotomy s Hs a b Ha Hb) as [Heq|H]; [contradiction|exact H].
Qed.

Theorem chain_iff_total_tr : forall l s,
  NoDup l -> py_sorted A (fun a b => Some (ltb a b)) l = Some s ->
  (chain A (fun a b => Some (ltb a b)) s = Some true <-> total_on ltb l).
Proof.
  intros l s Hnd Hs. pose proof (py_sorted_perm A _ l s Hs) as Hp. split; intro H.
  - apply (total_on_perm A ltb s l); [apply Permutation_sym; exact Hp|].
    apply sorted_total_on. apply chain_sorted. exact H.
  - destruct (py_sorted_sorted_total_tr l Hnd H) as [s0 [Hs0 Hsorted]].
    rewrite Hs in Hs0. inversion Hs0; subst. apply sorted_chain. exact Hsorted.
Qed.
End Strict.

(* the statements as requested (irreflexivity is a redundant premise here: NoDup + total_on + trans suffice) *)
Theorem py_sorted_sorted_total : forall A (ltb : A -> A -> bool) l,
  irrefl ltb -> trans ltb -> NoDup l -> total_on ltb l ->
  exists s, py_sorted A (fun a b => Some (ltb a b)) l = Some s /\
            StronglySorted (fun a b => ltb a b = true) s.
Proof. intros A ltb l _ Htr. apply py_sorted_sorted_total_tr. exact Htr. Qed.

Theorem chain_iff_total : forall A (ltb : A -> A -> bool) l s,
  irrefl ltb -> trans ltb -> NoDup l -> py_sorted A (fun a b => Some (ltb a b)) l = Some s ->
  (chain A (fun a b => Some (ltb a b)) s = Some true <-> total_on ltb l).
Proof. intros A ltb l s _ Htr. apply chain_iff_total_tr. exact Htr. Qed.

Definition nat_ltx (a b : nat) : option bool := Some (a <? b).
Lemma nat_ltb_irrefl : irrefl Nat.ltb.
Proof. intro a. apply Nat.ltb_irrefl. Qed.
Lemma nat_ltb_trans : trans Nat.ltb.
Proof. intros a b c H1 H2. apply Nat.ltb_lt in H1, H2. apply Nat.ltb_lt. lia. Qed.

Example py_sorted_sorted_total_ex :
  py_sorted nat (fun a b => Some (a <? b)) [5; 3; 9; 1; 4; 8; 2; 7; 6; 0] = Some [0; 1; 2; 3; 4; 5; 6; 7; 8; 9]
  /\ py_sorted nat (fun a b => Some (a <? b)) [9; 8; 7; 3; 5; 4] = Some [3; 4; 5; 7; 8; 9].
Proof. vm_compute. split; reflexivity. Qed.

Example chain_iff_total_ex :
  (* total: chain holds; partial (strict subset on lists): chain fails *)
  (exists s, py_sorted nat (fun a b => Some (a <? b)) [2; 0; 1] = Some s
             /\ chain nat (fun a b => Some (a <? b)) s = Some true)
  /\ (exists s, py_sorted (list nat) (fun a b => Some (fs_ltb a b)) [[0; 1]; [0]; [1]] = Some s
             /\ chain (list nat) (fun a b => Some (fs_ltb a b)) s = Some false).
Proof. split; eexists; vm_compute; split; reflexivity. Qed.

Example chain_iff_total_ex2 : ~ total_on fs_ltb [[0; 1]; [0]; [1]].
Proof.
  intro Ht.
  apply (chain_iff_total (list nat) fs_ltb [[0; 1]; [0]; [1]] [[0]; [1]; [0; 1]]
           subset_strict_irrefl subset_strict_trans) in Ht.
  - vm_compute in Ht. discriminate.
  - repeat constructor; simpl; intuition discriminate.
  - vm_compute. reflexivity.
Qed.

(* ------------------------------------------------------------------------------------------------------------ *)
(* S5: sorting strings (total order, duplicates allowed) is independent of the presentation order               *)
(* ------------------------------------------------------------------------------------------------------------ *)
Theorem str_ltb_irrefl : irrefl str_ltb.
Proof.
  intro a. induction a as [|x a IH]; simpl; [reflexivity|].
  rewrite N.ltb_irrefl, N.eqb_refl, IH. reflexivity.
Qed.

Theorem str_ltb_trans : trans str_ltb.
Proof.
  intro a. induction a as [|x a IH]; intros b c Hab Hbc.
  - destruct b as [|y b]; [discriminate|]. destruct c as [|z c]; [discriminate|reflexivity].
  - destruct b as [|y b]; [discriminate|]. destruct c as [|z c]; [discriminate|].
    simpl in *. apply orb_true_iff in Hab. apply orb_true_iff in Hbc. apply orb_true_iff.
    destruct Hab as [Hab|Hab], Hbc as [Hbc|Hbc].
    + left. apply N.ltb_lt in Hab, Hbc. apply N.ltb_lt. lia.
    + apply andb_true_iff in Hbc. destruct Hbc as [Hyz _]. apply N.eqb_eq in Hyz. subst z. left. exact Hab.
    + apply andb_true_iff in Hab. destruct Hab as [Hxy _]. apply N.eqb_eq in Hxy. subst y. left. exact Hbc.
    + apply andb_true_iff in Hab. destruct Hab as [Hxy Hab]. apply N.eqb_eq in Hxy. subst y.
      apply andb_true_iff in Hbc. destruct Hbc as [Hyz Hbc]. right. rewrite Hyz. simpl.
      exact (IH b c Hab Hbc).
Qed.

Theorem str_ltb_total : forall a b, str_ltb a b = false -> str_ltb b a = false -> a = b.
Proof.
  induction a as [|x a IH]; intros b Hab Hba; destruct b as [|y b]; try discriminate; [reflexivity|].
  simpl in *. apply orb_false_iff in Hab. destruct Hab as [Hxy Hab].
  apply orb_false_iff in Hba. destruct Hba as [Hyx Hba].
  apply N.ltb_ge in Hxy, Hyx. assert (Heq : x = y) by lia. subst y.
  rewrite N.eqb_refl in Hab, Hba. simpl in Hab, Hba. f_equal. apply IH; assumption.
Qed.

Corollary str_ltb_total_on : forall l, total_on str_ltb l.
Proof.
  intros l a b _ _ Hne. destruct (str_ltb a b) eqn:Eab; [left; reflexivity|].
  destruct (str_ltb b a) eqn:Eba; [right; reflexivity|].
  exfalso. apply Hne. apply str_ltb_total; assumption.
Qed.

(* the non-strict order the result is sorted by *)
Definition str_le (a b : list N) : Prop := a = b \/ str_ltb a b = true.

Lemma str_le_antisym : forall a b, str_le a b -> str_le b a -> a = b.
Proof.
  intros a b [Hab|Hab] [Hba|Hba]; try congruence.
  pose proof (str_ltb_trans a b a Hab Hba) as Haa. rewrite str_ltb_irrefl in Haa. discriminate.
Qed.

Lemma str_le_mono : forall a b c, str_le a b -> str_ltb c a = true -> str_ltb c b = true.
Proof. intros a b c [Hab|Hab] Hca; [subst; exact Hca|exact (str_ltb_trans c a b Hca Hab)]. Qed.

Lemma str_cmp_all : forall a b, cmp (list N) str_ltb str_le a b.
Proof.
  intros a b. unfold cmp, str_le. split; intro Hf.
  - destruct (str_ltb b a) eqn:E; [right; reflexivity|left; apply str_ltb_total; assumption].
  - destruct (str_ltb a b) eqn:E; [right; reflexivity|left; apply str_ltb_total; assumption].
Qed.

Theorem py_sorted_strings : forall l,
  exists s, py_sorted (list N) str_ltx l = Some s /\ StronglySorted str_le s /\ Permutation l s.
Proof.
  intros l.
  destruct (py_sorted_sorted_gen (list N) str_ltb str_le (fun a b H => or_intror H) str_le_mono l)
    as [s [Hs Hsorted]].
  - apply pairwise_all. exact str_cmp_all.
  - exists s. repeat split; try assumption. apply (py_sorted_perm (list N) str_ltx). exact Hs.
Qed.

Theorem sorted_strings_sorted : forall l, StronglySorted str_le (sorted_strings l).
Proof.
  intros l. unfold sorted_strings. destruct (py_sorted_strings l) as [s [Hs [Hsorted _]]].
  rewrite Hs. exact Hsorted.
Qed.

Theorem sorted_strings_perm : forall l, Permutation l (sorted_strings l).
Proof.
  intros l. unfold sorted_strings. destruct (py_sorted_strings l) as [s [Hs [_ Hp]]].
  rewrite Hs. exact Hp.
Qed.

Theorem sorted_strings_perm_invariant : forall l l', Permutation l l' -> sorted_strings l = sorted_strings l'.
Proof.
  intros l l' Hp. apply (sorted_perm_unique_gen (list N) str_le str_le_antisym).
  - apply sorted_strings_sorted.
  - apply sorted_strings_sorted.
  - apply Permutation_trans with l; [apply Permutation_sym, sorted_strings_perm|].
    apply Permutation_trans with l'; [exact Hp|apply sorted_strings_perm].
Qed.

Example str_ltb_ex :
  str_ltb [97; 98]%N [97; 98; 99]%N = true /\ str_ltb [97; 99]%N [97; 98; 99]%N = false
  /\ str_ltb [] []%N = false /\ str_ltb [98]%N [97; 120]%N = false.
Proof. vm_compute. repeat split. Qed.

Example sorted_strings_ex :
  sorted_strings [[98]; [97; 98]; [97]; [98]; []; [97; 98]]%N = [[]; [97]; [97; 98]; [97; 98]; [98]; [98]]%N
  /\ sorted_strings [[97; 98]; [98]; []; [98]; [97; 98]; [97]]%N = [[]; [97]; [97; 98]; [97; 98]; [98]; [98]]%N.
Proof. vm_compute. split; reflexivity. Qed.

(* the repaired tree either falls back to the sorted strings of the input, or sorted() returned a chain *)
Lemma fallback_or_chain : forall A (ltx : A -> A -> option bool) (key : A -> list N) l,
  sort_set_values A ltx key true l = sorted_strings (map key l)
  \/ exists s, py_sorted A ltx l = Some s /\ chain A ltx s = Some true.
Proof.
  intros A ltx key l. unfold sort_set_values. destruct (py_sorted A ltx l) as [s|] eqn:Es; [|left; reflexivity].
  assert (Hm : sorted_strings (map key s) = sorted_strings (map key l)).
  { apply sorted_strings_perm_invariant, Permutation_map, Permutation_sym.
    apply (py_sorted_perm A ltx). exact Es. }
  destruct (chain A ltx s) as [[|]|] eqn:Ec.
  - right. exists s. split; reflexivity || assumption.
  - left. exact Hm.
  - left. exact Hm.
Qed.

(* ------------------------------------------------------------------------------------------------------------ *)
(* S6 MAIN: for every strict partial order and every key, the repaired tree is independent of the order         *)
(* ------------------------------------------------------------------------------------------------------------ *)
Theorem sort_set_values_perm_invariant : forall A (ltb : A -> A -> bool) (key : A -> list N) l l',
  irrefl ltb -> trans ltb -> NoDup l -> Permutation l l' ->
  sort_set_values A (fun a b => Some (ltb a b)) key true l =
  sort_set_values A (fun a b => Some (ltb a b)) key true l'.
Proof.
  intros A ltb key l l' Hirr Htr Hnd Hp.
  set (ltx := fun a b : A => Some (ltb a b)).
  assert (Hdef : forall a b, ltx a b <> None) by (intros a b; unfold ltx; discriminate).
  assert (Hnd' : NoDup l') by (eapply Permutation_NoDup; eauto).
  destruct (py_sorted_total_some A ltx Hdef l) as [s Hs].
  destruct (py_sorted_total_some A ltx Hdef l') as [s' Hs'].
  pose proof (py_sorted_perm A ltx l s Hs) as Hps.
  pose proof (py_sorted_perm A ltx l' s' Hs') as Hps'.
  assert (Hss' : Permutation s s').
  { apply Permutation_trans with l; [apply Permutation_sym; exact Hps|].
    apply Permutation_trans with l'; assumption. }
  pose proof (chain_iff_total A ltb l s Hirr Htr Hnd Hs) as Hc.
  pose proof (chain_iff_total A ltb l' s' Hirr Htr Hnd' Hs') as Hc'.
  fold ltx in Hc, Hc'.
  assert (Hcc : chain A ltx s = Some true <-> chain A ltx s' = Some true).
  { rewrite Hc, Hc'. split; apply total_on_perm; [exact Hp|apply Permutation_sym; exact Hp]. }
  unfold sort_set_values. rewrite Hs, Hs'.
  destruct (chain A ltx s) as [[|]|] eqn:Ec.
  - (* a chain: both sorted lists are THE strictly sorted permutation *)
    assert (Ec' : chain A ltx s' = Some true) by (apply Hcc; reflexivity).
    rewrite Ec'. f_equal.
    apply (sorted_perm_unique A ltb Hirr Htr); [| |exact Hss'].
    + apply (chain_sorted A ltb Htr). exact Ec.
    + apply (chain_sorted A ltb Htr). exact Ec'.
  - destruct (chain A ltx s') as [[|]|] eqn:Ec'.
    + destruct Hcc as [_ Hcc]. specialize (Hcc eq_refl). discriminate.
    + apply sorted_strings_perm_invariant. apply Permutation_map. exact Hss'.
    + apply sorted_strings_perm_invariant. apply Permutation_map. exact Hss'.
  - destruct (chain A ltx s') as [[|]|] eqn:Ec'.
    + destruct Hcc as [_ Hcc]. specialize (Hcc eq_refl). discriminate.
    + apply sorted_strings_perm_invariant. apply Permutation_map. exact Hss'.
    + apply sorted_strings_perm_invariant. apply Permutation_map. exact Hss'.
Qed.

(* instance: frozensets under strict subset, every presentation order of {{0},{1},{0,1},{2}} *)
Example sort_set_values_perm_invariant_ex :
  let key := fun l : list nat => map N.of_nat l in
  let ssv := sort_set_values (list nat) (fun a b => Some (fs_ltb a b)) key true in
  ssv [[0]; [1]; [0; 1]; [2]] = [[0]; [0; 1]; [1]; [2]]%N
  /\ ssv [[2]; [0; 1]; [1]; [0]] = [[0]; [0; 1]; [1]; [2]]%N
  /\ ssv [[0; 1]; [2]; [0]; [1]] = [[0]; [0; 1]; [1]; [2]]%N
  (* a chain is returned in subset order, not in string order *)
  /\ ssv [[5; 1]; [5]; [5; 1; 0]] = [[5]; [5; 1]; [5; 1; 0]]%N
  /\ ssv [[5; 1; 0]; [5; 1]; [5]] = [[5]; [5; 1]; [5; 1; 0]]%N.
Proof. vm_compute. repeat split. Qed.

Corollary sort_set_values_frozenset_perm_invariant : forall (key : list nat -> list N) l l',
  NoDup l -> Permutation l l' ->
  sort_set_values (list nat) (fun a b => Some (fs_ltb a b)) key true l =
  sort_set_values (list nat) (fun a b => Some (fs_ltb a b)) key true l'.
Proof.
  intros key l l'. apply sort_set_values_perm_invariant; [exact subset_strict_irrefl|exact subset_strict_trans].
Qed.

(* strengthening: NoDup is not needed - with duplicates sorted() can never return a strict chain *)
Lemma sorted_strict_NoDup : forall A (ltb : A -> A -> bool), irrefl ltb ->
  forall s, StronglySorted (fun a b => ltb a b = true) s -> NoDup s.
Proof.
  intros A ltb Hirr s Hs. induction Hs as [|a s Hs IH Hf]; constructor; [|exact IH].
  intro Hin. rewrite Forall_forall in Hf. specialize (Hf a Hin). rewrite Hirr in Hf. discriminate.
Qed.

Lemma chain_NoDup : forall A (ltb : A -> A -> bool) l s, irrefl ltb -> trans ltb ->
  py_sorted A (fun a b => Some (ltb a b)) l = Some s -> chain A (fun a b => Some (ltb a b)) s = Some true ->
  NoDup l.
Proof.
  intros A ltb l s Hirr Htr Hs Hc.
  apply (Permutation_NoDup (Permutation_sym (py_sorted_perm A _ l s Hs))).
  apply (sorted_strict_NoDup A ltb Hirr). apply (chain_sorted A ltb Htr). exact Hc.
Qed.

Theorem sort_set_values_perm_invariant_dup : forall A (ltb : A -> A -> bool) (key : A -> list N) l l',
  irrefl ltb -> trans ltb -> Permutation l l' ->
  sort_set_values A (fun a b => Some (ltb a b)) key true l =
  sort_set_values A (fun a b => Some (ltb a b)) key true l'.
Proof.
  intros A ltb key l l' Hirr Htr Hp.
  destruct (fallback_or_chain A (fun a b => Some (ltb a b)) key l) as [Hf|[s [Hs Hc]]].
  - destruct (fallback_or_chain A (fun a b => Some (ltb a b)) key l') as [Hf'|[s' [Hs' Hc']]].
    + rewrite Hf, Hf'. apply sorted_strings_perm_invariant, Permutation_map. exact Hp.
    + symmetry. apply sort_set_values_perm_invariant; try assumption.
      * exact (chain_NoDup A ltb l' s' Hirr Htr Hs' Hc').
      * apply Permutation_sym. exact Hp.
  - apply sort_set_values_perm_invariant; try assumption.
    exact (chain_NoDup A ltb l s Hirr Htr Hs Hc).
Qed.

Example sort_set_values_perm_invariant_dup_ex :
  let ssv := sort_set_values nat (fun a b => Some (a <? b)) (fun n => [N.of_nat (10 - n)]) true in
  ssv [1; 2; 3] = [[9]; [8]; [7]]%N /\ ssv [3; 1; 2] = [[9]; [8]; [7]]%N
  (* with a duplicate the chain test fails and the strings are sorted instead *)
  /\ ssv [1; 2; 3; 2] = [[7]; [8]; [8]; [9]]%N /\ ssv [2; 3; 2; 1] = [[7]; [8]; [8]; [9]]%N.
Proof. vm_compute. repeat split. Qed.

(* for contrast: the pinned tree IS order-independent when the order is total on the elements *)
Theorem sort_set_values_pinned_total_perm_invariant :
  forall A (ltb : A -> A -> bool) (key : A -> list N) l l',
  irrefl ltb -> trans ltb -> NoDup l -> total_on ltb l -> Permutation l l' ->
  sort_set_values A (fun a b => Some (ltb a b)) key false l =
  sort_set_values A (fun a b => Some (ltb a b)) key false l'.
Proof.
  intros A ltb key l l' Hirr Htr Hnd Ht Hp.
  destruct (py_sorted_sorted_total A ltb l Hirr Htr Hnd Ht) as [s [Hs Hsorted]].
  destruct (py_sorted_sorted_total A ltb l' Hirr Htr (Permutation_NoDup Hp Hnd)
              (total_on_perm A ltb l l' Hp Ht)) as [s' [Hs' Hsorted']].
  unfold sort_set_values. rewrite Hs, Hs'. f_equal.
  apply (sorted_perm_unique A ltb Hirr Htr); try assumption.
  apply Permutation_trans with l; [apply Permutation_sym; exact (py_sorted_perm A _ l s Hs)|].
  apply Permutation_trans with l'; [exact Hp|exact (py_sorted_perm A _ l' s' Hs')].
Qed.

Example sort_set_values_pinned_total_ex :
  let ssv := sort_set_values nat (fun a b => Some (a <? b)) (fun n => [N.of_nat (10 - n)]) false in
  ssv [1; 2; 3] = [[9]; [8]; [7]]%N /\ ssv [3; 1; 2] = [[9]; [8]; [7]]%N /\ ssv [2; 3; 1] = [[9]; [8]; [7]]%N.
Proof. vm_compute. repeat split. Qed.

(* ------------------------------------------------------------------------------------------------------------ *)
(* S7: every comparison raises                                                                                  *)
(* ------------------------------------------------------------------------------------------------------------ *)
Theorem sort_set_values_typeerror_perm_invariant :
  forall A (ltx : A -> A -> option bool) (key : A -> list N) fixed l l',
  (forall a b, ltx a b = None) -> Permutation l l' ->
  sort_set_values A ltx key fixed l = sort_set_values A ltx key fixed l'.
Proof.
  intros A ltx key fixed l l' Hnone Hp.
  destruct l as [|a [|b r]].
  - apply Permutation_nil in Hp. subst. reflexivity.
  - apply Permutation_length_1_inv in Hp. subst. reflexivity.
  - destruct l' as [|a' [|b' r']].
    + apply Permutation_sym, Permutation_nil in Hp. discriminate.
    + apply Permutation_length in Hp. simpl in Hp. lia.
    + unfold sort_set_values, py_sorted. cbn [count_run]. rewrite !Hnone.
      apply sorted_strings_perm_invariant. apply Permutation_map. exact Hp.
Qed.

Example sort_set_values_typeerror_ex :
  let key := fun n : nat => [N.of_nat n] in
  sort_set_values nat (fun _ _ => None) key true [3; 1; 2] = [[1]; [2]; [3]]%N
  /\ sort_set_values nat (fun _ _ => None) key false [2; 3; 1] = [[1]; [2]; [3]]%N
  /\ sort_set_values elt elt_ltx (fun e => match e with EInt n _ => [n] | _ => [] end) true
       [EInt 1 false; ENone] = [[]; [1]]%N.
Proof. vm_compute. repeat split. Qed.

(* ------------------------------------------------------------------------------------------------------------ *)
(* S9: the mixed case - some comparisons raise, some do not                                                     *)
(* ------------------------------------------------------------------------------------------------------------ *)
(* the functions only look at the comparison on the elements of the list *)
Section Ext.
Variable A : Type.
Variables ltx ltx' : A -> A -> option bool.

Lemma bsearch_ext_in : forall fuel pivot pre l r,
  (forall x, In x pre -> ltx pivot x = ltx' pivot x) ->
  bsearch A ltx fuel pivot pre l r = bsearch A ltx' fuel pivot pre l r.
Proof.
  induction fuel as [|f IH]; intros pivot pre l r H; [reflexivity|].
  rewrite !bsearch_S. destruct (l <? r); [|reflexivity].
  destruct (nth_error pre (l + (r - l) / 2)) as [x|] eqn:En; [|reflexivity].
  rewrite <- (H x) by (eapply nth_error_In; eauto).
  destruct (ltx pivot x) as [[|]|]; [apply IH; exact H|apply IH; exact H|reflexivity].
Qed.

Lemma binsert_ext_in : forall pre x,
  (forall y, In y pre -> ltx x y = ltx' x y) -> binsert A ltx pre x = binsert A ltx' pre x.
Proof. intros pre x H. unfold binsert. rewrite (bsearch_ext_in _ _ _ _ _ H). reflexivity. Qed.

Lemma binsort_ext_in : forall rest pre,
  (forall a b, In a (pre ++ rest) -> In b (pre ++ rest) -> ltx a b = ltx' a b) ->
  binsort A ltx pre rest = binsort A ltx' pre rest.
Proof.
  induction rest as [|x r IH]; intros pre H; [reflexivity|]. simpl.
  rewrite <- (binsert_ext_in pre x).
  - destruct (binsert A ltx pre x) as [pre'|] eqn:Eb; [|reflexivity].
    apply IH. apply binsert_perm in Eb.
    assert (Hin : forall z, In z (pre' ++ r) -> In z (pre ++ x :: r)).
    { intros z Hz. apply in_app_or in Hz. apply in_or_app. destruct Hz as [Hz|Hz].
      - apply (Permutation_in z (Permutation_sym Eb)) in Hz. destruct Hz as [Hz|Hz].
        + right. left. exact Hz.
        + left. exact Hz.
      - right. right. exact Hz. }
    intros a b Ha Hb. apply H; apply Hin; assumption.
  - intros y Hy. apply H; apply in_or_app; [right; left; reflexivity|left; exact Hy].
Qed.

Lemma run_asc_ext_in : forall l last acc,
  (forall a b, In a (last :: l) -> In b (last :: l) -> ltx a b = ltx' a b) ->
  run_asc A ltx last l acc = run_asc A ltx' last l acc.
Proof.
  induction l as [|x r IH]; intros last acc H; [reflexivity|]. simpl.
  rewrite <- (H x last) by (simpl; auto).
  destruct (ltx x last) as [[|]|]; try reflexivity.
  apply IH. intros a b Ha Hb. apply H; right; assumption.
Qed.

Lemma run_desc_ext_in : forall l last acc,
  (forall a b, In a (last :: l) -> In b (last :: l) -> ltx a b = ltx' a b) ->
  run_desc A ltx last l acc = run_desc A ltx' last l acc.
Proof.
  induction l as [|x r IH]; intros last acc H; [reflexivity|]. simpl.
  rewrite <- (H x last) by (simpl; auto).
  destruct (ltx x last) as [[|]|]; try reflexivity.
  apply IH. intros a b Ha Hb. apply H; right; assumption.
Qed.

Lemma count_run_ext_in : forall l,
  (forall a b, In a l -> In b l -> ltx a b = ltx' a b) -> count_run A ltx l = count_run A ltx' l.
Proof.
  intros [|a [|b r]] H; try reflexivity. simpl.
  rewrite <- (H b a) by (simpl; auto).
  destruct (ltx b a) as [[|]|]; try reflexivity.
  - apply run_desc_ext_in. intros x y Hx Hy. apply H; right; assumption.
  - apply run_asc_ext_in. intros x y Hx Hy. apply H; right; assumption.
Qed.

Lemma py_sorted_ext_in : forall l,
  (forall a b, In a l -> In b l -> ltx a b = ltx' a b) -> py_sorted A ltx l = py_sorted A ltx' l.
Proof.
  intros l H. unfold py_sorted. rewrite <- (count_run_ext_in l H).
  destruct (count_run A ltx l) as [[run rest]|] eqn:Ec; [|reflexivity].
  apply count_run_perm in Ec. apply binsort_ext_in.
  intros a b Ha Hb. apply H; (eapply Permutation_in; [apply Permutation_sym; exact Ec|assumption]).
Qed.

Lemma chain_ext_in : forall s,
  (forall a b, In a s -> In b s -> ltx a b = ltx' a b) -> chain A ltx s = chain A ltx' s.
Proof.
  induction s as [|a [|b r] IH]; intro H; try reflexivity.
  cbn [chain]. rewrite <- (H a b) by (simpl; auto).
  destruct (ltx a b) as [[|]|]; try reflexivity.
  apply IH. intros x y Hx Hy. apply H; right; assumption.
Qed.

Lemma sort_set_values_ext_in : forall key fixed l,
  (forall a b, In a l -> In b l -> ltx a b = ltx' a b) ->
  sort_set_values A ltx key fixed l = sort_set_values A ltx' key fixed l.
Proof.
  intros key fixed l H. unfold sort_set_values. rewrite <- (py_sorted_ext_in l H).
  destruct (py_sorted A ltx l) as [s|] eqn:Es; [|reflexivity].
  destruct fixed; [|reflexivity].
  rewrite <- (chain_ext_in s); [reflexivity|].
  intros a b Ha Hb. apply H; apply (py_sorted_in A ltx l s _ Es); assumption.
Qed.
End Ext.

Section Mixed.
Variable A : Type.
Variable ltx : A -> A -> option bool.
Variable key : A -> list N.

(* "TypeError-consistent": comparability (`a < b` does not raise) is symmetric and transitive (a partial
   equivalence: None < None raises, so reflexivity is not assumed), and `<` is a strict partial order. *)
Hypothesis comparable_sym : forall a b, ltx a b = None -> ltx b a = None.
Hypothesis comparable_trans : forall a b c, ltx a b <> None -> ltx b c <> None -> ltx a c <> None.
Hypothesis lt_irrefl : forall a, ltx a a <> Some true.
Hypothesis lt_trans : forall a b c, ltx a b = Some true -> ltx b c = Some true -> ltx a c = Some true.

Definition ltb_of (a b : A) : bool := match ltx a b with Some true => true | _ => false end.

Lemma ltb_of_irrefl : irrefl ltb_of.
Proof. intro a. unfold ltb_of. destruct (ltx a a) as [[|]|] eqn:E; try reflexivity. exfalso. exact (lt_irrefl a E). Qed.

Lemma ltb_of_true : forall a b, ltb_of a b = true <-> ltx a b = Some true.
Proof. intros a b. unfold ltb_of. destruct (ltx a b) as [[|]|]; split; congruence. Qed.

Lemma ltb_of_trans : trans ltb_of.
Proof. intros a b c Hab Hbc. rewrite ltb_of_true in *. eapply lt_trans; eauto. Qed.

Definition one_class (l : list A) : Prop := forall x y, In x l -> In y l -> ltx x y <> None.

Lemma one_class_ltx : forall l, one_class l ->
  forall a b, In a l -> In b l -> ltx a b = Some (ltb_of a b).
Proof.
  intros l H a b Ha Hb. specialize (H a b Ha Hb). unfold ltb_of.
  destruct (ltx a b) as [[|]|]; congruence.
Qed.

(* all elements in one comparability class: reduces to S6 *)
Lemma one_class_perm_invariant : forall l l',
  one_class l -> Permutation l l' ->
  sort_set_values A ltx key true l = sort_set_values A ltx key true l'.
Proof.
  intros l l' Hcl Hp.
  assert (Hcl' : one_class l').
  { intros x y Hx Hy. apply Hcl; (eapply Permutation_in; [apply Permutation_sym; exact Hp|assumption]). }
  rewrite (sort_set_values_ext_in A ltx (fun a b => Some (ltb_of a b)) key true l (one_class_ltx l Hcl)).
  rewrite (sort_set_values_ext_in A ltx (fun a b => Some (ltb_of a b)) key true l' (one_class_ltx l' Hcl')).
  apply sort_set_values_perm_invariant_dup; [exact ltb_of_irrefl|exact ltb_of_trans|exact Hp].
Qed.

Lemma chain_head_lt : forall t a, chain A ltx (a :: t) = Some true -> Forall (fun x => ltx a x = Some true) t.
Proof.
  induction t as [|b r IH]; intros a H; [constructor|].
  cbn [chain] in H. destruct (ltx a b) as [[|]|] eqn:Eab; try discriminate.
  specialize (IH b H). constructor; [exact Eab|].
  rewrite Forall_forall in *. intros z Hz. exact (lt_trans a b z Eab (IH z Hz)).
Qed.

(* a chain of length >= 2 lives in one comparability class *)
Lemma chain_one_class : forall a b r, chain A ltx (a :: b :: r) = Some true -> one_class (a :: b :: r).
Proof.
  intros a b r H. pose proof (chain_head_lt (b :: r) a H) as Hf.
  assert (Hab : ltx a b <> None).
  { inversion Hf as [|? ? Hab _]; subst. rewrite Hab. discriminate. }
  assert (Hba : ltx b a <> None) by (intro Hn; apply Hab; apply comparable_sym; exact Hn).
  assert (Haa : ltx a a <> None) by (exact (comparable_trans a b a Hab Hba)).
  assert (Hax : forall x, In x (a :: b :: r) -> ltx a x <> None).
  { intros x [Hx|Hx]; [subst x; exact Haa|].
    rewrite Forall_forall in Hf. rewrite (Hf x Hx). discriminate. }
  intros x y Hx Hy.
  apply (comparable_trans x a y); [|apply Hax; exact Hy].
  intro Hn. apply (Hax x Hx). apply comparable_sym. exact Hn.
Qed.

Lemma one_class_perm : forall l l', Permutation l l' -> one_class l -> one_class l'.
Proof.
  intros l l' Hp H x y Hx Hy.
  apply H; (eapply Permutation_in; [apply Permutation_sym; exact Hp|assumption]).
Qed.

Lemma sorted_chain_one_class : forall l s,
  py_sorted A ltx l = Some s -> chain A ltx s = Some true -> one_class l \/ length l < 2.
Proof.
  intros l s Hs Hc. pose proof (py_sorted_perm A ltx l s Hs) as Hp.
  destruct s as [|a [|b r]].
  - right. apply Permutation_length in Hp. simpl in Hp. lia.
  - right. apply Permutation_length in Hp. simpl in Hp. lia.
  - left. apply (one_class_perm (a :: b :: r) l (Permutation_sym Hp)). apply chain_one_class. exact Hc.
Qed.

Lemma short_perm_eq : forall (l l' : list A), length l < 2 -> Permutation l l' -> l = l'.
Proof.
  intros [|a [|b r]] l' Hlen Hp.
  - apply Permutation_nil in Hp. congruence.
  - apply Permutation_length_1_inv in Hp. congruence.
  - simpl in Hlen. lia.
Qed.

Theorem sort_set_values_perm_invariant_mixed : forall l l',
  Permutation l l' ->
  sort_set_values A ltx key true l = sort_set_values A ltx key true l'.
Proof.
  intros l l' Hp.
  destruct (fallback_or_chain A ltx key l) as [Hf|[s [Hs Hc]]].
  - destruct (fallback_or_chain A ltx key l') as [Hf'|[s' [Hs' Hc']]].
    + rewrite Hf, Hf'. apply sorted_strings_perm_invariant, Permutation_map. exact Hp.
    + destruct (sorted_chain_one_class l' s' Hs' Hc') as [Hcl|Hlen].
      * symmetry. apply one_class_perm_invariant; [exact Hcl|apply Permutation_sym; exact Hp].
      * rewrite (short_perm_eq l' l Hlen (Permutation_sym Hp)). reflexivity.
  - destruct (sorted_chain_one_class l s Hs Hc) as [Hcl|Hlen].
    + apply one_class_perm_invariant; assumption.
    + rewrite (short_perm_eq l l' Hlen Hp). reflexivity.
Qed.

(* the question of S9: under these premises one presentation order raising while another yields a chain is
   impossible *)
Theorem mixed_none_vs_chain_impossible : forall l l' s',
  Permutation l l' -> py_sorted A ltx l = None -> py_sorted A ltx l' = Some s' ->
  chain A ltx s' = Some true -> False.
Proof.
  intros l l' s' Hp Hn Hs' Hc'.
  destruct (sorted_chain_one_class l' s' Hs' Hc') as [Hcl|Hlen].
  - apply (one_class_perm l' l (Permutation_sym Hp)) in Hcl.
    rewrite (py_sorted_ext_in A ltx (fun a b => Some (ltb_of a b)) l (one_class_ltx l Hcl)) in Hn.
    revert Hn. apply py_sorted_total_defined. intros a b. discriminate.
  - rewrite (short_perm_eq l' l Hlen (Permutation_sym Hp)) in Hs'. congruence.
Qed.

(* both raise: both fall back (no premise on ltx needed, see below) *)
End Mixed.

Theorem both_raise_fallback : forall A (ltx : A -> A -> option bool) key fixed l l',
  Permutation l l' -> py_sorted A ltx l = None -> py_sorted A ltx l' = None ->
  sort_set_values A ltx key fixed l = sort_set_values A ltx key fixed l'.
Proof.
  intros A ltx key fixed l l' Hp Hn Hn'. unfold sort_set_values. rewrite Hn, Hn'.
  apply sorted_strings_perm_invariant, Permutation_map. exact Hp.
Qed.

Example both_raise_fallback_ex :
  let key := fun e => match e with EInt n _ => [n] | EStr s => s | _ => [] end in
  py_sorted elt elt_ltx [EInt 3 false; ENone; EInt 1 false] = None
  /\ py_sorted elt elt_ltx [ENone; EInt 1 false; EInt 3 false] = None
  /\ sort_set_values elt elt_ltx key false [EInt 3 false; ENone; EInt 1 false] = [[]; [1]; [3]]%N
  /\ sort_set_values elt elt_ltx key false [ENone; EInt 1 false; EInt 3 false] = [[]; [1]; [3]]%N.
Proof. vm_compute. repeat split. Qed.

(* the model's element universe satisfies the premises of the mixed theorem *)
Lemma int_ltb_irrefl : forall n s, int_ltb n s n s = false.
Proof. intros n [|]; simpl; apply N.ltb_irrefl. Qed.

Lemma int_ltb_trans : forall n1 s1 n2 s2 n3 s3,
  int_ltb n1 s1 n2 s2 = true -> int_ltb n2 s2 n3 s3 = true -> int_ltb n1 s1 n3 s3 = true.
Proof.
  intros n1 [|] n2 [|] n3 [|]; simpl; intros H1 H2; try discriminate; try reflexivity;
    apply N.ltb_lt in H1, H2; apply N.ltb_lt; lia.
Qed.

Lemma elt_comparable_sym : forall a b, elt_ltx a b = None -> elt_ltx b a = None.
Proof. intros [n s|x|x|] [m s'|y|y|]; simpl; intro H; try reflexivity; discriminate. Qed.

Lemma elt_comparable_trans : forall a b c, elt_ltx a b <> None -> elt_ltx b c <> None -> elt_ltx a c <> None.
Proof.
  intros [n s|x|x|] [m s'|y|y|] [k s''|z|z|]; simpl; intros H1 H2;
    try (exfalso; apply H1; reflexivity); try (exfalso; apply H2; reflexivity); discriminate.
Qed.

Lemma elt_lt_irrefl : forall a, elt_ltx a a <> Some true.
Proof.
  intros [n s|x|x|]; simpl; intro H; try discriminate; injection H as H'.
  - rewrite int_ltb_irrefl in H'. discriminate.
  - rewrite str_ltb_irrefl in H'. discriminate.
  - change (fs_ltb x x = true) in H'. rewrite subset_strict_irrefl in H'. discriminate.
Qed.

Lemma elt_lt_trans : forall a b c, elt_ltx a b = Some true -> elt_ltx b c = Some true -> elt_ltx a c = Some true.
Proof.
  intros [n s|x|x|] [m s'|y|y|] [k s''|z|z|]; simpl; intros H1 H2; try discriminate;
    injection H1 as H1'; injection H2 as H2'; f_equal.
  - eapply int_ltb_trans; eauto.
  - eapply str_ltb_trans; eauto.
  - exact (subset_strict_trans x y z H1' H2').
Qed.

Theorem sort_set_values_elt_perm_invariant : forall (key : elt -> list N) l l',
  Permutation l l' ->
  sort_set_values elt elt_ltx key true l = sort_set_values elt elt_ltx key true l'.
Proof.
  intros key. apply sort_set_values_perm_invariant_mixed.
  - exact elt_comparable_sym.
  - exact elt_comparable_trans.
  - exact elt_lt_irrefl.
  - exact elt_lt_trans.
Qed.

Example sort_set_values_mixed_ex :
  let key := fun e => match e with
                      | EInt n _ => [48 + n] | EStr s => 39 :: s | EFs l => 102 :: map N.of_nat l | ENone => [78]
                      end%N in
  (* ints and a str: TypeError in one order (3 < 'a'), TypeError in the other: same fallback *)
  sort_set_values elt elt_ltx key true [EInt 3 false; EStr [97%N]; EInt 1 false] = [[39; 97]; [49]; [51]]%N
  /\ sort_set_values elt elt_ltx key true [EInt 1 false; EInt 3 false; EStr [97%N]] = [[39; 97]; [49]; [51]]%N
  (* one class (ints, total): numeric order, not string order: -2 < 1 < 3 *)
  /\ sort_set_values elt elt_ltx key true [EInt 3 false; EInt 2 true; EInt 1 false] = [[50]; [49]; [51]]%N
  /\ sort_set_values elt elt_ltx key true [EInt 1 false; EInt 3 false; EInt 2 true] = [[50]; [49]; [51]]%N.
Proof. vm_compute. repeat split. Qed.

(* the premises of the mixed theorem are needed: if comparability is not transitive (0 ~ 1 ~ 2 but 0 < 2
   raises), one presentation order yields a chain and another raises *)
Definition bad_ltx (a b : nat) : option bool :=
  match a, b with
  | 0, 2 => None
  | 2, 0 => None
  | _, _ => Some (a <? b)
  end.
Example mixed_needs_comparable_trans :
  let key := fun n : nat => [N.of_nat (10 - n)] in
  Permutation [0; 1; 2] [0; 2; 1]
  /\ py_sorted nat bad_ltx [0; 1; 2] = Some [0; 1; 2] /\ chain nat bad_ltx [0; 1; 2] = Some true
  /\ py_sorted nat bad_ltx [0; 2; 1] = None
  /\ sort_set_values nat bad_ltx key true [0; 1; 2] = [[10]; [9]; [8]]%N
  /\ sort_set_values nat bad_ltx key true [0; 2; 1] = [[8]; [9]; [10]]%N.
Proof. split; [apply perm_skip, perm_swap|]. vm_compute. repeat split. Qed.

Example mixed_none_vs_chain_impossible_ex : forall s,
  py_sorted elt elt_ltx [EInt 1 false; EStr [97%N]; EInt 0 false] = None ->
  py_sorted elt elt_ltx [EStr [97%N]; EInt 0 false; EInt 1 false] = Some s ->
  chain elt elt_ltx s = Some true -> False.
Proof.
  intros s. apply (mixed_none_vs_chain_impossible elt elt_ltx elt_comparable_sym elt_comparable_trans
                     elt_lt_trans).
  apply Permutation_trans with [EStr [97%N]; EInt 1 false; EInt 0 false]; [apply perm_swap|].
  apply perm_skip, perm_swap.
Qed.

(* ------------------------------------------------------------------------------------------------------------ *)
Print Assumptions py_sorted_perm.
Print Assumptions py_sorted_sorted_total.
Print Assumptions py_sorted_total_defined.
Print Assumptions sorted_perm_unique.
Print Assumptions chain_iff_total.
Print Assumptions str_ltb_irrefl.
Print Assumptions str_ltb_trans.
Print Assumptions str_ltb_total.
Print Assumptions sorted_strings_sorted.
Print Assumptions sorted_strings_perm.
Print Assumptions sorted_strings_perm_invariant.
Print Assumptions sort_set_values_perm_invariant.
Print Assumptions sort_set_values_perm_invariant_dup.
Print Assumptions sort_set_values_pinned_total_perm_invariant.
Print Assumptions sort_set_values_typeerror_perm_invariant.
Print Assumptions partial_order_pinned_refuted.
Print Assumptions partial_order_fixed_witness.
Print Assumptions subset_strict_irrefl.
Print Assumptions subset_strict_trans.
Print Assumptions sort_set_values_perm_invariant_mixed.
Print Assumptions mixed_none_vs_chain_impossible.
Print Assumptions both_raise_fallback.
Print Assumptions sort_set_values_elt_perm_invariant.
