From Coq Require Import List ZArith Bool Arith Lia.
Import ListNotations.
From V Require Import Model.ReEval.

Section StInd.
  Variable P : st -> Prop.
  Hypothesis Hleaf : forall v, P (SLeaf v).
  Hypothesis Hunm : forall c, P (SUnm c).
  Hypothesis Hnode : forall k ks kids, Forall P kids -> P (SNode k ks kids).
  Fixpoint st_ind2 (s : st) : P s :=
    match s with
    | SLeaf v => Hleaf v
    | SUnm c => Hunm c
    | SNode k ks kids =>
        Hnode k ks kids ((fix go (l : list st) : Forall P l :=
                            match l with
                            | [] => Forall_nil P
                            | x :: r => Forall_cons x (st_ind2 x) (go r)
                            end) kids)
    end.
End StInd.

Fixpoint re_list (ss : list st) (vs : list vt) : option (list st) :=
  match ss, vs with
  | [], [] => Some []
  | s1 :: ss', v1 :: vs' =>
      match re_eval s1 v1, re_list ss' vs' with
      | Some s1', Some r => Some (s1' :: r)
      | _, _ => None
      end
  | _, _ => None
  end.

Lemma re_eval_node k ks kids v :
  re_eval (SNode k ks kids) v =
  match v with
  | VLeaf _ => None
  | VNode k' ks' vs =>
      if Nat.eqb k k' && keys_eqb ks ks' then
        match re_list kids vs with Some kids' => Some (SNode k ks kids') | None => None end
      else None
  end.
Proof. destruct v; reflexivity. Qed.

Lemma keys_eqb_eq a b : keys_eqb a b = true <-> a = b.
Proof.
  revert b. induction a as [|x a IH]; destruct b as [|y b]; cbn [keys_eqb]; try (split; [discriminate|discriminate]); try tauto.
  rewrite andb_true_iff, Z.eqb_eq, IH. split.
  - intros [-> ->]. reflexivity.
  - intros H. injection H as -> ->. tauto.
Qed.

Lemma keys_eqb_refl a : keys_eqb a a = true.
Proof. apply keys_eqb_eq. reflexivity. Qed.

(* after an accepted re-evaluation the stored value reads as the new value of the argument: nothing stale is kept *)
Lemma re_eval_plain : forall s v s', re_eval s v = Some s' -> plain s' = v.
Proof.
  induction s as [a|c|k ks kids IH] using st_ind2; intros v s' H.
  - destruct v as [b|k' ks' vs]; cbn [re_eval] in H; [|discriminate].
    destruct (Z.eqb a b) eqn:E; [|discriminate]. injection H as <-. apply Z.eqb_eq in E. subst. reflexivity.
  - cbn [re_eval] in H. injection H as <-. reflexivity.
  - rewrite re_eval_node in H. destruct v as [b|k' ks' vs]; [discriminate|].
    destruct (Nat.eqb k k' && keys_eqb ks ks') eqn:E; [|discriminate].
    apply andb_true_iff in E. destruct E as [Ek Eks]. apply Nat.eqb_eq in Ek. apply keys_eqb_eq in Eks. subst k' ks'.
    destruct (re_list kids vs) as [kids'|] eqn:R; [|discriminate]. injection H as <-. cbn [plain]. f_equal.
    revert vs kids' R. induction IH as [|s1 ss H1 Hs IHs]; intros vs kids' R.
    + destruct vs; [|discriminate]. injection R as <-. reflexivity.
    + destruct vs as [|v1 vs]; [discriminate|]. cbn [re_list] in R.
      destruct (re_eval s1 v1) as [s1'|] eqn:R1; [|discriminate].
      destruct (re_list ss vs) as [r|] eqn:R2; [|discriminate]. injection R as <-.
      cbn [map]. f_equal; [apply H1; exact R1 | apply IHs; exact R2].
Qed.

(* ... and nothing but the contents of the user-controlled parts changed *)
Lemma re_eval_skeleton : forall s v s', re_eval s v = Some s' -> skeleton s' = skeleton s.
Proof.
  induction s as [a|c|k ks kids IH] using st_ind2; intros v s' H.
  - destruct v as [b|k' ks' vs]; cbn [re_eval] in H; [|discriminate].
    destruct (Z.eqb a b); [|discriminate]. injection H as <-. reflexivity.
  - cbn [re_eval] in H. injection H as <-. reflexivity.
  - rewrite re_eval_node in H. destruct v as [b|k' ks' vs]; [discriminate|].
    destruct (Nat.eqb k k' && keys_eqb ks ks'); [|discriminate].
    destruct (re_list kids vs) as [kids'|] eqn:R; [|discriminate]. injection H as <-. cbn [skeleton]. f_equal.
    revert vs kids' R. induction IH as [|s1 ss H1 Hs IHs]; intros vs kids' R.
    + destruct vs; [|discriminate]. injection R as <-. reflexivity.
    + destruct vs as [|v1 vs]; [discriminate|]. cbn [re_list] in R.
      destruct (re_eval s1 v1) as [s1'|] eqn:R1; [|discriminate].
      destruct (re_list ss vs) as [r|] eqn:R2; [|discriminate]. injection R as <-.
      cbn [map]. f_equal; [eapply H1; exact R1 | eapply IHs; exact R2].
Qed.

(* completeness: every value that agrees with the stored one on the managed parts is accepted *)
Lemma re_eval_complete : forall s s', skeleton s' = skeleton s -> re_eval s (plain s') = Some s'.
Proof.
  induction s as [a|c|k ks kids IH] using st_ind2; intros s' H.
  - destruct s' as [a'|c'|k' ks' kids']; cbn [skeleton] in H; try discriminate.
    injection H as ->. cbn [plain re_eval]. rewrite Z.eqb_refl. reflexivity.
  - destruct s' as [a'|c'|k' ks' kids']; cbn [skeleton] in H; try discriminate. reflexivity.
  - destruct s' as [a'|c'|k' ks' kids']; cbn [skeleton] in H; try discriminate.
    injection H as -> -> Hk. cbn [plain]. rewrite re_eval_node. rewrite Nat.eqb_refl, keys_eqb_refl. cbn [andb].
    assert (re_list kids (map plain kids') = Some kids') as ->; [|reflexivity].
    revert kids' Hk. induction IH as [|s1 ss H1 Hs IHs]; intros kids' Hk.
    + destruct kids'; [reflexivity|discriminate].
    + destruct kids' as [|s1' ss']; [discriminate|]. cbn [map] in Hk. injection Hk as Hk1 Hk2.
      cbn [map re_list]. rewrite (H1 s1' Hk1). rewrite (IHs ss' Hk2). reflexivity.
Qed.

Lemma re_eval_same s : re_eval s (plain s) = Some s.
Proof. apply re_eval_complete. reflexivity. Qed.

Lemma has_unm_skeleton : forall s, has_unm (skeleton s) = has_unm s.
Proof.
  induction s as [a|c|k ks kids IH] using st_ind2; try reflexivity.
  cbn [skeleton has_unm]. induction IH as [|s1 ss H1 Hs IHs]; [reflexivity|].
  cbn [map existsb]. rewrite H1, IHs. reflexivity.
Qed.

Lemma skeleton_no_unm : forall s, has_unm s = false -> skeleton s = s.
Proof.
  induction s as [a|c|k ks kids IH] using st_ind2; intros H; try reflexivity; try discriminate.
  cbn [skeleton]. f_equal. cbn [has_unm] in H.
  induction IH as [|s1 ss H1 Hs IHs]; [reflexivity|].
  cbn [existsb] in H. apply orb_false_iff in H. destruct H as [Ha Hb].
  cbn [map]. rewrite (H1 Ha), (IHs Hb). reflexivity.
Qed.

(* the statement of C14 for arguments without user-controlled parts: accepted exactly when the argument evaluates to the same value, and then nothing changes *)
Lemma re_eval_no_unm_iff s v s' : has_unm s = false -> (re_eval s v = Some s' <-> (plain s = v /\ s' = s)).
Proof.
  intros Hu. split.
  - intros H. pose proof (re_eval_plain _ _ _ H) as Hp. pose proof (re_eval_skeleton _ _ _ H) as Hs.
    assert (has_unm s' = false) as Hu' by (rewrite <- has_unm_skeleton, Hs, has_unm_skeleton; exact Hu).
    assert (s' = s) as -> by (rewrite <- (skeleton_no_unm _ Hu'), Hs; apply skeleton_no_unm; exact Hu).
    tauto.
  - intros [<- ->]. apply re_eval_same.
Qed.

Lemma re_eval_changed_raises s v : has_unm s = false -> plain s <> v -> re_eval s v = None.
Proof.
  intros Hu Hne. destruct (re_eval s v) as [s'|] eqn:E; [|reflexivity].
  apply (re_eval_no_unm_iff s v s' Hu) in E. destruct E as [E _]. contradiction.
Qed.

(* in general: accepted exactly when the new value agrees with the stored one on every managed part *)
Lemma re_eval_accepts_iff s v : (exists s', re_eval s v = Some s') <-> (exists s', skeleton s' = skeleton s /\ plain s' = v).
Proof.
  split.
  - intros [s' H]. exists s'. split; [eapply re_eval_skeleton; exact H | eapply re_eval_plain; exact H].
  - intros [s' [Hs <-]]. exists s'. apply re_eval_complete. exact Hs.
Qed.

Example re_eval_example :
  let s := SNode 1 [10; 20]%Z [SLeaf 1%Z; SNode 0 [] [SUnm (VLeaf 5%Z); SLeaf 2%Z]] in
  re_eval s (VNode 1 [10; 20]%Z [VLeaf 1%Z; VNode 0 [] [VLeaf 7%Z; VLeaf 2%Z]]) = Some (SNode 1 [10; 20]%Z [SLeaf 1%Z; SNode 0 [] [SUnm (VLeaf 7%Z); SLeaf 2%Z]])
  /\ re_eval s (VNode 1 [10; 21]%Z [VLeaf 1%Z; VNode 0 [] [VLeaf 7%Z; VLeaf 2%Z]]) = None
  /\ re_eval s (VNode 1 [10; 20]%Z [VLeaf 1%Z; VNode 0 [] [VLeaf 7%Z; VLeaf 3%Z]]) = None
  /\ re_eval s (VNode 1 [10; 20]%Z [VLeaf 1%Z; VNode 0 [] [VLeaf 7%Z]]) = None.
Proof. repeat split. Qed.
