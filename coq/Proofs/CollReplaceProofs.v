From Coq Require Import List ZArith Bool Lia Permutation.
Import ListNotations.
From V Require Import Model.CollReplace.
Open Scope Z_scope.

Lemma mem_In x l : mem x l = true <-> In x l.
Proof.
  unfold mem. rewrite existsb_exists. split.
  - intros [y [Hy He]]. apply Z.eqb_eq in He. subst. exact Hy.
  - intros H. exists x. split; [exact H | apply Z.eqb_refl].
Qed.

Lemma mem_perm x l l' : Permutation l l' -> mem x l = mem x l'.
Proof.
  intros P. destruct (mem x l) eqn:E.
  - symmetry. apply mem_In. apply (Permutation_in _ P). apply mem_In. exact E.
  - destruct (mem x l') eqn:E'; [|reflexivity].
    apply mem_In in E'. apply (Permutation_in _ (Permutation_sym P)) in E'. apply mem_In in E'. congruence.
Qed.

Lemma insert_comm a b l : insert a (insert b l) = insert b (insert a l).
Proof.
  induction l as [|y r IH]; cbn [insert].
  - destruct (a <=? b) eqn:E1, (b <=? a) eqn:E2; try reflexivity.
    + apply Z.leb_le in E1. apply Z.leb_le in E2. assert (a = b) by lia. subst. reflexivity.
    + apply Z.leb_gt in E1. apply Z.leb_gt in E2. lia.
  - destruct (b <=? y) eqn:Eb, (a <=? y) eqn:Ea; cbn [insert]; rewrite ?Ea, ?Eb.
    + destruct (a <=? b) eqn:E1, (b <=? a) eqn:E2; try reflexivity.
      * apply Z.leb_le in E1. apply Z.leb_le in E2. assert (a = b) by lia. subst. reflexivity.
      * apply Z.leb_gt in E1. apply Z.leb_gt in E2. lia.
    + destruct (a <=? b) eqn:E1; [|reflexivity].
      apply Z.leb_le in E1. apply Z.leb_le in Eb. apply Z.leb_gt in Ea. lia.
    + destruct (b <=? a) eqn:E2; [|reflexivity].
      apply Z.leb_le in E2. apply Z.leb_le in Ea. apply Z.leb_gt in Eb. lia.
    + rewrite IH. reflexivity.
Qed.

Lemma isort_perm l l' : Permutation l l' -> isort l = isort l'.
Proof.
  unfold isort. induction 1 as [|x l l' P IH|x y l|l l' l'' P1 IH1 P2 IH2]; cbn [fold_right].
  - reflexivity.
  - rewrite IH. reflexivity.
  - apply insert_comm.
  - congruence.
Qed.

Lemma insert_perm x l : Permutation (x :: l) (insert x l).
Proof.
  induction l as [|y r IH]; cbn [insert].
  - apply Permutation_refl.
  - destruct (x <=? y).
    + apply Permutation_refl.
    + eapply perm_trans; [apply perm_swap|]. apply perm_skip. exact IH.
Qed.

Lemma isort_is_perm l : Permutation l (isort l).
Proof.
  unfold isort. induction l as [|x l IH]; cbn [fold_right].
  - apply perm_nil.
  - eapply perm_trans; [apply perm_skip; exact IH|]. apply insert_perm.
Qed.

Lemma ordered_In b x l : In x (ordered b l) <-> In x l.
Proof.
  destruct b; cbn [ordered]; [|tauto].
  split; intros H.
  - apply (Permutation_in _ (Permutation_sym (isort_is_perm l))). exact H.
  - apply (Permutation_in _ (isort_is_perm l)). exact H.
Qed.

Lemma missing_perm old old' tested : Permutation old old' -> missing old tested = missing old' tested.
Proof.
  intros P. unfold missing. apply filter_ext. intros v. rewrite (mem_perm v _ _ P). reflexivity.
Qed.

Lemma forallb_perm (f : Z -> bool) l l' : Permutation l l' -> forallb f l = forallb f l'.
Proof.
  induction 1 as [|x l l' P IH|x y l|l l' l'' P1 IH1 P2 IH2]; cbn [forallb].
  - reflexivity.
  - rewrite IH. reflexivity.
  - rewrite !andb_assoc. rewrite (andb_comm (f y) (f x)). reflexivity.
  - congruence.
Qed.

Lemma missing_In old tested v : In v (missing old tested) <-> In v tested /\ mem v old = false.
Proof.
  unfold missing. rewrite filter_In. rewrite negb_true_iff. tauto.
Qed.

(* user-controlled parts freeze the value *)
Lemma unm_frozen trim is_set old tested : coll_replace true trim is_set old tested = NoChange.
Proof. reflexivity. Qed.

(* the category is fix exactly when a tested value is no member; trim exactly when every tested value is a member and some member was not tested *)
Lemma fix_iff_missing trim is_set old tested :
  (exists nv, coll_replace false trim is_set old tested = Repl true nv) <-> (exists v, In v tested /\ mem v old = false).
Proof.
  unfold coll_replace. destruct (missing old tested) as [|m ms] eqn:E.
  - split.
    + intros [nv H]. destruct (forallb _ old); discriminate.
    + intros [v Hv]. apply missing_In in Hv. rewrite E in Hv. destruct Hv.
  - split.
    + intros _. exists m. apply missing_In. rewrite E. left. reflexivity.
    + intros _. eexists. reflexivity.
Qed.

Lemma trim_iff trim is_set old tested :
  (exists nv, coll_replace false trim is_set old tested = Repl false nv)
  <-> ((forall v, In v tested -> mem v old = true) /\ exists o, In o old /\ mem o tested = false).
Proof.
  unfold coll_replace. destruct (missing old tested) as [|m ms] eqn:E.
  - destruct (forallb (fun o => mem o tested) old) eqn:F.
    + split; [intros [nv H]; discriminate|].
      intros [_ [o [Ho Hm]]]. rewrite forallb_forall in F. rewrite (F o Ho) in Hm. discriminate.
    + split; [|intros _; eexists; reflexivity].
      intros _. split.
      * intros v Hv. destruct (mem v old) eqn:M; [reflexivity|].
        assert (In v (missing old tested)) as Hin by (apply missing_In; tauto). rewrite E in Hin. destruct Hin.
      * destruct (forallb_forall (fun o => mem o tested) old) as [_ Hall].
        destruct (existsb (fun o => negb (mem o tested)) old) eqn:X.
        -- apply existsb_exists in X. destruct X as [o [Ho Hn]]. exists o. split; [exact Ho|]. apply negb_true_iff. exact Hn.
        -- exfalso. assert (forallb (fun o => mem o tested) old = true) as Ht.
           { apply Hall. intros o Ho. destruct (mem o tested) eqn:M; [reflexivity|].
             assert (existsb (fun o => negb (mem o tested)) old = true) as Hx by (apply existsb_exists; exists o; rewrite M; tauto). congruence. }
           congruence.
  - split; [intros [nv H]; discriminate|].
    intros [Hall _]. assert (In m (missing old tested)) as Hin by (rewrite E; left; reflexivity).
    apply missing_In in Hin. destruct Hin as [Ht Hm]. rewrite (Hall m Ht) in Hm. discriminate.
Qed.

(* whatever is written: every tested value is a member afterwards *)
Lemma new_value_holds_tested unm trim is_set old tested f nv :
  coll_replace unm trim is_set old tested = Repl f nv -> forall v, In v tested -> In v nv.
Proof.
  unfold coll_replace. destruct unm; [discriminate|].
  destruct (missing old tested) as [|m ms] eqn:E.
  - destruct (forallb _ old); [discriminate|]. intros H. injection H as _ <-. tauto.
  - intros H. injection H as _ <-. destruct trim; [tauto|].
    intros v Hv. apply in_or_app. destruct (mem v old) eqn:M.
    + left. apply ordered_In. apply mem_In. exact M.
    + right. rewrite <- E. apply missing_In. tauto.
Qed.

(* a fix computed while trim is not approved loses no member of the previous value *)
Lemma fix_without_trim_keeps_old is_set old tested nv :
  coll_replace false false is_set old tested = Repl true nv -> forall o, In o old -> In o nv.
Proof.
  unfold coll_replace. destruct (missing old tested) as [|m ms] eqn:E.
  - destruct (forallb _ old); discriminate.
  - intros H. injection H as <-. intros o Ho. apply in_or_app. left. apply ordered_In. exact Ho.
Qed.

(* ... and what it appends are exactly the missing tested values, in the order they were tested *)
Lemma fix_without_trim_shape is_set old tested nv :
  coll_replace false false is_set old tested = Repl true nv -> nv = ordered is_set old ++ missing old tested.
Proof.
  unfold coll_replace. destruct (missing old tested) as [|m ms] eqn:E.
  - destruct (forallb _ old); discriminate.
  - intros H. injection H as <-. reflexivity.
Qed.

(* a change of category trim, and a fix computed with trim approved, write exactly the tested values *)
Lemma trim_writes_tested unm trim is_set old tested f nv :
  coll_replace unm trim is_set old tested = Repl f nv -> (f = false \/ trim = true) -> nv = tested.
Proof.
  unfold coll_replace. destruct unm; [discriminate|].
  destruct (missing old tested) as [|m ms] eqn:E.
  - destruct (forallb _ old); [discriminate|]. intros H. injection H as _ <-. reflexivity.
  - intros H [Hf|Ht]; injection H as <- <-; [discriminate|]. rewrite Ht. reflexivity.
Qed.

(* nothing is invented: every written member was a member before or was tested *)
Lemma new_value_from_old_or_tested unm trim is_set old tested f nv :
  coll_replace unm trim is_set old tested = Repl f nv -> forall v, In v nv -> In v old \/ In v tested.
Proof.
  unfold coll_replace. destruct unm; [discriminate|].
  destruct (missing old tested) as [|m ms] eqn:E.
  - destruct (forallb _ old); [discriminate|]. intros H. injection H as _ <-. tauto.
  - intros H. injection H as _ <-. destruct trim; [tauto|].
    intros v Hv. apply in_app_or in Hv. destruct Hv as [Hv|Hv].
    + left. apply ordered_In in Hv. exact Hv.
    + right. rewrite <- E in Hv. apply missing_In in Hv. tauto.
Qed.

(* the members of a set have no order: the result does not depend on the iteration order (the hash seed) *)
Lemma set_order_irrelevant unm trim old old' tested :
  Permutation old old' -> coll_replace unm trim true old tested = coll_replace unm trim true old' tested.
Proof.
  intros P. unfold coll_replace. destruct unm; [reflexivity|].
  rewrite (missing_perm _ _ tested P).
  destruct (missing old' tested) as [|m ms].
  - rewrite (forallb_perm _ _ _ P). reflexivity.
  - cbn [ordered]. rewrite (isort_perm _ _ P). reflexivity.
Qed.

(* the change is the same whether it is computed in the first or in a later run on an unchanged file: nothing but the arguments matters (determinism is definitional);
   a value that already holds exactly the tested values produces no change *)
Lemma missing_nil old tested : (forall v, In v tested -> mem v old = true) -> missing old tested = [].
Proof.
  unfold missing. induction tested as [|x r IH]; intros H; [reflexivity|].
  cbn [filter]. rewrite (H x (or_introl eq_refl)). cbn [negb]. apply IH. intros v Hv. apply H. right. exact Hv.
Qed.

Lemma settled_no_change trim is_set l : coll_replace false trim is_set l l = NoChange.
Proof.
  unfold coll_replace.
  rewrite (missing_nil l l) by (intros v Hv; apply mem_In; exact Hv).
  assert (forallb (fun o => mem o l) l = true) as ->; [|reflexivity].
  apply forallb_forall. intros o Ho. apply mem_In. exact Ho.
Qed.

Example coll_example :
  coll_replace false false true [3; 1; 2] [2; 5] = Repl true [1; 2; 3; 5]
  /\ coll_replace false false true [2; 3; 1] [2; 5] = Repl true [1; 2; 3; 5]
  /\ coll_replace false true false [1; 2] [2; 3] = Repl true [2; 3]
  /\ coll_replace false false false [1; 2] [2] = Repl false [2]
  /\ coll_replace true false false [1; 2] [5] = NoChange.
Proof. repeat split. Qed.

(* review mode computes every change with all update flags switched on: the change of category fix then holds exactly the tested values,
   so approving fix alone drops a member that was never tested (known finding F-89) *)
Lemma review_fix_alone_drops_untested :
  exists (old tested nv : list Z) (o : Z),
    coll_replace false true false old tested = Repl true nv /\ In o old /\ ~ In o nv.
Proof.
  exists [1; 2], [2; 3], [2; 3], 1. split; [reflexivity|]. split; [left; reflexivity|].
  intros [H|[H|[]]]; discriminate.
Qed.

(* one category at a time: a fix computed without trim writes a LIST display; the next run trims it element-wise (Model/SnapOps.v / the list branch of _get_changes):
   what survives are the members that were tested.  Compared with approving fix and trim together (the tested values, in the order of the first test): *)
Definition fix_then_trim (is_set : bool) (old tested : list Z) : list Z :=
  filter (fun v => mem v tested) (ordered is_set old ++ missing old tested).

(* ... the same members ... *)
Lemma fix_then_trim_same_members is_set old tested v : In v (fix_then_trim is_set old tested) <-> In v tested.
Proof.
  unfold fix_then_trim. rewrite filter_In. split.
  - intros [_ H]. apply mem_In. exact H.
  - intros H. split; [|apply mem_In; exact H].
    apply in_or_app. destruct (mem v old) eqn:M.
    + left. apply ordered_In. apply mem_In. exact M.
    + right. apply missing_In. tauto.
Qed.

(* ... but not always the same order: the syntax trees of the two routes differ for this input *)
Lemma fix_then_trim_order_differs :
  exists (old tested nv : list Z),
    coll_replace false true false old tested = Repl true nv /\ fix_then_trim false old tested <> nv.
Proof. exists [1; 2], [3; 2], [3; 2]. split; [reflexivity|]. unfold fix_then_trim. cbn. discriminate. Qed.

(* when the tested values that are members come first, in the order of the display, the two routes agree literally *)
Lemma fix_then_trim_agrees_example :
  fix_then_trim false [1; 2] [2; 3] = [2; 3] /\ coll_replace false true false [1; 2] [2; 3] = Repl true [2; 3].
Proof. split; reflexivity. Qed.
