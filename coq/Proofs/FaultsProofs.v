(* Proofs about Model/Faults.v: for every configuration (any number of files and externals), every fault point and both
   fault kinds.  No enumeration of fault points: induction over the file lists. *)
From Coq Require Import List Bool Arith Lia.
Import ListNotations.
From V Require Import Model.Faults.

(* ------------------------------------------------------------------------- association lists *)
Lemma in_set_assoc : forall X k (v : X) l g x, In (g, x) (set_assoc k v l) -> In (g, x) l \/ (g = k /\ x = v).
Proof.
  intros X k v l. induction l as [|[k' y] r IH]; intros g x H; cbn [set_assoc] in H; [destruct H|].
  destruct (k =? k') eqn:E.
  - apply Nat.eqb_eq in E. subst k'. destruct H as [H|H]; [injection H as <- <-; right; split; reflexivity|left; right; exact H].
  - destruct H as [H|H]; [left; left; exact H|]. destruct (IH g x H) as [H1|H1]; [left; right; exact H1|right; exact H1].
Qed.
Lemma set_assoc_twice : forall X k (v v' : X) l, set_assoc k v (set_assoc k v' l) = set_assoc k v l.
Proof.
  intros X k v v' l. induction l as [|[k' y] r IH]; cbn [set_assoc]; [reflexivity|].
  destruct (k =? k') eqn:E; cbn [set_assoc]; rewrite E; [reflexivity|]. rewrite IH. reflexivity.
Qed.
Lemma lookup_set_assoc_same : forall X k (v : X) l, lookup k l <> None -> lookup k (set_assoc k v l) = Some v.
Proof.
  intros X k v l. induction l as [|[k' y] r IH]; intros H; cbn [lookup set_assoc] in *; [congruence|].
  destruct (k =? k') eqn:E; cbn [lookup]; rewrite E; [reflexivity|]. apply IH. exact H.
Qed.
Lemma lookup_set_assoc_other : forall X k k2 (v : X) l, k2 <> k -> lookup k2 (set_assoc k v l) = lookup k2 l.
Proof.
  intros X k k2 v l Hne. induction l as [|[k' y] r IH]; cbn [lookup set_assoc]; [reflexivity|].
  destruct (k =? k') eqn:E; cbn [lookup].
  - apply Nat.eqb_eq in E. subst k'. destruct (k2 =? k) eqn:E2; [apply Nat.eqb_eq in E2; congruence|reflexivity].
  - rewrite IH. reflexivity.
Qed.
Lemma lookup_prune_false : forall e s, lookup e s = Some false -> lookup e (prune s) = Some false.
Proof.
  intros e s. induction s as [|[k b] r IH]; intros H; cbn [lookup prune filter] in *; [discriminate|].
  destruct (e =? k) eqn:E.
  - injection H as ->. cbn [snd negb lookup]. rewrite E. reflexivity.
  - cbn [snd]. destruct b; cbn [negb lookup]; [|rewrite E]; apply IH; exact H.
Qed.

(* the store only moves towards "persisted" and keeps its keys *)
Definition le_store (s s' : list (nat * bool)) : Prop :=
  forall e, (lookup e s = Some false -> lookup e s' = Some false) /\ (lookup e s <> None -> lookup e s' <> None).
Lemma le_store_refl : forall s, le_store s s.
Proof. intros s e. tauto. Qed.
Lemma le_store_trans : forall a b c, le_store a b -> le_store b c -> le_store a c.
Proof. intros a b c H1 H2 e. destruct (H1 e), (H2 e). tauto. Qed.
Lemma le_store_persist : forall e s, le_store s (set_assoc e false s).
Proof.
  intros e s k. destruct (Nat.eq_dec k e) as [->|Hne].
  - split; intros H; rewrite lookup_set_assoc_same; congruence.
  - rewrite lookup_set_assoc_other by exact Hne. tauto.
Qed.

(* ------------------------------------------------------------------------- the primitives *)
Definition not_write (h : halt) : Prop :=
  match h with HCrash (SWrite _) | HRaise (SWrite _) => False | _ => True end.

Lemma tick_spec : forall flt s w,
  (exists b, tick flt s w = inl (b, log s w) /\ (b = true -> exists n, flt = Some (n, Fail) /\ n = length (trace w)))
  \/ (tick flt s w = inr (HCrash s, w)).
Proof.
  intros flt s w. unfold tick. destruct flt as [[n k]|]; [|left; exists false; split; [reflexivity|discriminate]].
  destruct (n =? length (trace w)) eqn:E; [|left; exists false; split; [reflexivity|discriminate]].
  apply Nat.eqb_eq in E. destruct k; [right; reflexivity|]. left. exists true. split; [reflexivity|]. intros _. exists n. split; [reflexivity|exact E].
Qed.

(* frame: a computation that leaves disk and store alone and never halts at a write *)
Definition quiet {A} (w : world) (r : res A) : Prop :=
  disk (final r) = disk w /\ store (final r) = store w /\ (forall h, halted r = Some h -> not_write h).

Lemma quiet_raising : forall flt s w, (forall f, s <> SWrite f) -> quiet w (raising flt s w).
Proof.
  intros flt s w Hs. unfold raising. destruct (tick_spec flt s w) as [[b [E _]]|E]; rewrite E; cbn [bind].
  - destruct b; repeat split; cbn; try reflexivity; intros h H; inversion H; subst; destruct s; cbn; try exact I; exfalso; eapply Hs; reflexivity.
  - repeat split; cbn; try reflexivity. intros h H. inversion H; subst. destruct s; cbn; try exact I. exfalso; eapply Hs; reflexivity.
Qed.

Lemma quiet_format_call : forall flt m w, quiet w (format_call flt m w).
Proof.
  intros flt m w. unfold format_call. destruct (tick_spec flt SFormat w) as [[b [E _]]|E]; rewrite E; cbn [bind].
  - destruct b; [|destruct m]; repeat split; cbn; try reflexivity; intros h H; discriminate.
  - repeat split; cbn; try reflexivity. intros h H. inversion H. exact I.
Qed.

Lemma quiet_bind : forall A B (m : res A) (k : A -> world -> res B) w,
  quiet w m -> (forall a w1, m = inl (a, w1) -> quiet w1 (k a w1)) -> quiet w (bind m k).
Proof.
  intros A B m k w [Hd [Hs Hh]] Hk. destruct m as [[a w1]|[h w1]]; cbn [bind].
  - cbn [final] in Hd, Hs. destruct (Hk a w1 eq_refl) as [Hd2 [Hs2 Hh2]]. repeat split; [congruence|congruence|exact Hh2].
  - repeat split; assumption.
Qed.
Lemma quiet_ret : forall A (a : A) w, quiet w (inl (a, w) : res A).
Proof. intros. repeat split; cbn; try reflexivity. intros h H; discriminate. Qed.

Lemma quiet_new_code : forall flt c f w, quiet w (new_code flt c f w).
Proof.
  intros flt c f w. unfold new_code.
  apply quiet_bind; [apply quiet_raising; intros g; discriminate|]. intros [] w1 _.
  apply quiet_bind.
  - destruct (c_enforce c); [apply quiet_ret|]. apply quiet_bind; [apply quiet_format_call|]. intros r w2 _. apply quiet_ret.
  - intros whole w3 _. destruct whole; [|apply quiet_ret]. apply quiet_bind; [apply quiet_format_call|]. intros r w4 _. apply quiet_ret.
Qed.

(* ------------------------------------------------------------------------- phase A *)
(* phase A never touches the disk, only persists, and when it completes every external of the file is persisted *)
Definition phaseA_ok {A} (exts : list nat) (w : world) (r : res A) : Prop :=
  disk (final r) = disk w /\ le_store (store w) (store (final r)) /\ (forall h, halted r = Some h -> not_write h)
  /\ (halted r = None -> forall e, In e exts -> lookup e (store w) <> None -> lookup e (store (final r)) = Some false).

Lemma phaseA_of_quiet : forall A w (r : res A), quiet w r -> phaseA_ok [] w r.
Proof. intros A w r [Hd [Hs Hh]]. split; [exact Hd|]. split; [rewrite Hs; apply le_store_refl|]. split; [exact Hh|intros _ e []]. Qed.

Lemma phaseA_transport : forall A es w w' (r : res A),
  disk w' = disk w -> store w' = store w -> phaseA_ok es w' r -> phaseA_ok es w r.
Proof.
  intros A es w w' r Hd Hs [A1 [A2 [A3 A4]]]. split; [congruence|]. split; [rewrite <- Hs; exact A2|]. split; [exact A3|].
  intros Hn e Hin Hk. apply A4; [exact Hn|exact Hin|rewrite Hs; exact Hk].
Qed.

Lemma phaseA_halt_quiet : forall A es w (h : halt) w1,
  disk w1 = disk w -> store w1 = store w -> not_write h -> phaseA_ok es w (inr (h, w1) : res A).
Proof.
  intros A es w h w1 Hd Hs Hh. split; [exact Hd|]. split; [cbn [final]; rewrite Hs; apply le_store_refl|]. split; [|discriminate].
  intros h0 H. injection H as <-. exact Hh.
Qed.

Lemma phaseA_persist_all : forall flt es w, phaseA_ok es w (persist_all flt es w).
Proof.
  intros flt es. induction es as [|e r IH]; intros w; cbn [persist_all].
  - split; [reflexivity|]. split; [apply le_store_refl|]. split; [intros h H; discriminate|intros _ e []].
  - destruct (quiet_raising flt (SPersist e) w) as [Hd [Hs Hh]]; [intros g; discriminate|].
    destruct (raising flt (SPersist e) w) as [[[] w1]|[h w1]] eqn:E; cbn [bind].
    + cbn [final] in Hd, Hs. destruct (IH (persist e w1)) as [Hd2 [Hs2 [Hh2 Hp2]]]. cbn [persist disk store] in Hd2, Hs2, Hp2.
      assert (Hle : le_store (store w) (set_assoc e false (store w1))) by (rewrite Hs; apply le_store_persist).
      split; [congruence|]. split; [exact (le_store_trans _ _ _ Hle Hs2)|]. split; [exact Hh2|].
      intros Hn e0 [<-|Hin] Hk.
        -- destruct (Hs2 e) as [H _]. apply H. rewrite Hs. apply lookup_set_assoc_same. exact Hk.
        -- apply Hp2; [exact Hn|exact Hin|]. destruct (Hle e0) as [_ H]. apply H. exact Hk.
    + cbn [final halted] in *. apply phaseA_halt_quiet; [exact Hd|exact Hs|apply Hh; reflexivity].
Qed.

Lemma phaseA_prepare : forall flt c f w, phaseA_ok (f_exts f) w (prepare flt c f w).
Proof.
  intros flt c f w. unfold prepare.
  destruct (quiet_new_code flt c f w) as [Hd [Hs Hh]].
  destruct (new_code flt c f w) as [[t w1]|[h w1]]; cbn [bind final halted] in *.
  2:{ apply phaseA_halt_quiet; [exact Hd|exact Hs|apply Hh; reflexivity]. }
  apply (phaseA_transport _ _ w w1); [exact Hd|exact Hs|]. clear Hd Hs Hh.
  destruct (tick_spec flt SParse w1) as [[b [E _]]|E]; rewrite E; cbn [bind].
  2:{ apply phaseA_halt_quiet; [reflexivity|reflexivity|exact I]. }
  assert (Hbad : phaseA_ok (f_exts f) w1 (inr (HRaise SParse, log SParse w1) : res unit)).
  { apply phaseA_halt_quiet; [reflexivity|reflexivity|exact I]. }
  destruct b; [exact Hbad|].
  assert (Hgo : phaseA_ok (f_exts f) w1
                  (bind (if f_import f then raising flt (SImport (f_id f)) (log SParse w1) else inl (tt, log SParse w1))
                        (fun _ w3 => persist_all flt (f_exts f) w3))).
  { assert (Hq : quiet (log SParse w1) (if f_import f then raising flt (SImport (f_id f)) (log SParse w1) else inl (tt, log SParse w1))).
    { destruct (f_import f); [apply quiet_raising; intros g; discriminate|apply quiet_ret]. }
    destruct Hq as [Hd [Hs Hh]].
    destruct (if f_import f then raising flt (SImport (f_id f)) (log SParse w1) else inl (tt, log SParse w1)) as [[[] w3]|[h w3]]; cbn [bind final halted] in *.
    - apply (phaseA_transport _ _ w1 w3); [exact Hd|exact Hs|]. apply phaseA_persist_all.
    - apply phaseA_halt_quiet; [exact Hd|exact Hs|apply Hh; reflexivity]. }
  destruct t; [exact Hgo|exact Hgo|exact Hbad].
Qed.

Lemma phaseA_each : forall flt c fs w,
  let r := each (prepare flt c) fs w in
  disk (final r) = disk w /\ le_store (store w) (store (final r)) /\ (forall h, halted r = Some h -> not_write h)
  /\ (halted r = None -> forall f, In f fs -> forall e, In e (f_exts f) -> lookup e (store w) <> None ->
        lookup e (store (final r)) = Some false).
Proof.
  intros flt c fs. induction fs as [|f r IH]; intros w; cbn [each].
  - cbn zeta. split; [reflexivity|]. split; [apply le_store_refl|]. split; [intros h H; discriminate|intros _ f []].
  - destruct (phaseA_prepare flt c f w) as [A1 [A2 [A3 A4]]].
    destruct (prepare flt c f w) as [[[] w1]|[h w1]]; cbn [bind final halted] in *.
    + specialize (IH w1). cbn zeta in IH. destruct IH as [B1 [B2 [B3 B4]]].
      cbn zeta. split; [congruence|]. split; [exact (le_store_trans _ _ _ A2 B2)|]. split; [exact B3|].
      intros Hn f0 [<-|Hin] e He Hk.
      * destruct (B2 e) as [H _]. apply H. apply A4; [reflexivity|exact He|exact Hk].
      * apply (B4 Hn f0 Hin e He). destruct (A2 e) as [_ H]. apply H. exact Hk.
    + cbn zeta. cbn [final halted]. split; [exact A1|]. split; [exact A2|]. split; [exact A3|discriminate].
Qed.

(* ------------------------------------------------------------------------- phase B *)
Lemma rewrite_spec : forall flt c f w,
  store (final (rewrite flt c f w)) = store w /\
  match rewrite flt c f w with
  | inl (_, w') => exists t w1, new_code flt c f w = inl (t, w1) /\ disk w' = set_assoc (f_id f) (New t) (disk w)
  | inr (h, w') => disk w' = disk w            (* whatever fails or is interrupted: the test file itself is untouched *)
  end.
Proof.
  intros flt c f w. unfold rewrite.
  destruct (quiet_new_code flt c f w) as [Hd [Hs Hh]].
  destruct (new_code flt c f w) as [[t w1]|[h w1]]; cbn [bind final halted] in *.
  2:{ split; [exact Hs|exact Hd]. }
  destruct (quiet_raising flt (SOpenW (f_id f)) w1) as [Hd2 [Hs2 Hh2]]; [intros g; discriminate|].
  destruct (raising flt (SOpenW (f_id f)) w1) as [[[] w2]|[h w2]]; cbn [bind final halted] in *.
  2:{ split; congruence. }
  destruct (tick_spec flt (SWrite (f_id f)) (set_tmp [(f_id f, Trunc)] w2)) as [[b1 [E1 _]]|E1]; rewrite E1; cbn [bind].
  2:{ cbn [final]. split; cbn; congruence. }
  destruct b1; [unfold cleanup_raise; cbn [final]; split; cbn; congruence|].
  destruct (tick_spec flt (SMode (f_id f)) (set_tmp [(f_id f, New t)] (log (SWrite (f_id f)) (set_tmp [(f_id f, Trunc)] w2)))) as [[b2 [E2 _]]|E2]; rewrite E2; cbn [bind].
  2:{ cbn [final]. split; cbn; congruence. }
  destruct b2; [unfold cleanup_raise; cbn [final]; split; cbn; congruence|].
  match goal with |- context [tick flt (SRename (f_id f)) ?W] => destruct (tick_spec flt (SRename (f_id f)) W) as [[b3 [E3 _]]|E3]; rewrite E3; cbn [bind] end.
  2:{ cbn [final]. split; cbn; congruence. }
  destruct b3; [unfold cleanup_raise; cbn [final]; split; cbn; congruence|].
  cbn [final]. split; [cbn; congruence|]. exists t, w1. split; [reflexivity|]. cbn. congruence.
Qed.

(* what phase B can do to the disk: an entry is kept or gets a complete new content - nothing else, at any fault point *)
Lemma phaseB_each : forall flt c fs w,
  let r := each (rewrite flt c) fs w in
  store (final r) = store w /\
  forall g ct, In (g, ct) (disk (final r)) ->
    In (g, ct) (disk w)
    \/ (exists f t w0 w1, In f fs /\ g = f_id f /\ ct = New t /\ new_code flt c f w0 = inl (t, w1)).
Proof.
  intros flt c fs. induction fs as [|f r IH]; intros w; cbn [each].
  - cbn zeta. split; [reflexivity|]. intros g ct H. left. exact H.
  - destruct (rewrite_spec flt c f w) as [Hs Hr].
    destruct (rewrite flt c f w) as [[[] w1]|[h w1]]; cbn [bind final halted] in *.
    + destruct Hr as [t [w0 [Enc Hd]]]. specialize (IH w1). cbn zeta in IH. destruct IH as [Hs2 Hd2].
      cbn zeta. split; [congruence|]. intros g ct Hin. destruct (Hd2 g ct Hin) as [H|H].
      * rewrite Hd in H. apply in_set_assoc in H. destruct H as [H|[-> ->]]; [left; exact H|].
        right. exists f, t, w, w0. split; [left; reflexivity|]. repeat split. exact Enc.
      * right. destruct H as [f0 [t0 [wa [wb [Hf [Hg [Hc Hn]]]]]]]. exists f0, t0, wa, wb. split; [right; exact Hf|]. repeat split; assumption.
    + cbn zeta. cbn [final halted]. split; [exact Hs|]. intros g ct Hin. left. rewrite <- Hr. exact Hin.
Qed.

(* ------------------------------------------------------------------------- the write phase as a whole *)
Lemma init_disk_old : forall c news olds g ct, In (g, ct) (disk (init c news olds)) -> ct = Old.
Proof.
  intros c news olds g ct H. cbn [init disk] in H. apply in_map_iff in H. destruct H as [f [E _]]. congruence.
Qed.

Lemma lookup_app_not_none : forall e (a b : list (nat * bool)), lookup e a <> None \/ lookup e b <> None -> lookup e (a ++ b) <> None.
Proof.
  intros e a b. induction a as [|[k x] r IH]; cbn [lookup app]; intros H.
  - destruct H as [H|H]; [congruence|exact H].
  - destruct (e =? k); [discriminate|]. apply IH. exact H.
Qed.
Lemma lookup_map_in : forall e (l : list nat) (b : bool), In e l -> lookup e (map (fun x => (x, b)) l) <> None.
Proof.
  intros e l b. induction l as [|x r IH]; intros H; cbn [map lookup]; [destruct H|].
  destruct (e =? x) eqn:E; [discriminate|]. apply IH. destruct H as [->|H]; [rewrite Nat.eqb_refl in E; discriminate|exact H].
Qed.
Lemma init_store_has : forall c news olds e, In e (news ++ olds) -> lookup e (store (init c news olds)) <> None.
Proof.
  intros c news olds e H. cbn [init store]. apply lookup_app_not_none. apply in_app_or in H.
  destruct H as [H|H]; [left|right]; apply lookup_map_in; exact H.
Qed.

Section Run.
Variable flt : option (nat * fkind).
Variable c : config.
Variables news olds : list nat.
Let run := write_phase flt c (init c news olds).

(* the shape of a run: phase A result, then phase B result *)
Lemma run_cases :
  (exists h wA, each (prepare flt c) (c_files c) (init c news olds) = inr (h, wA) /\ run = inr (h, wA))
  \/ (exists wA, each (prepare flt c) (c_files c) (init c news olds) = inl (tt, wA) /\
        ((exists h wB, each (rewrite flt c) (c_files c) wA = inr (h, wB) /\ run = inr (h, wB))
         \/ (exists wB, each (rewrite flt c) (c_files c) wA = inl (tt, wB) /\ run = inl (tt, report wB)))).
Proof.
  unfold run, write_phase.
  destruct (each (prepare flt c) (c_files c) (init c news olds)) as [[[] wA]|[h wA]]; cbn [bind].
  - right. exists wA. split; [reflexivity|].
    destruct (each (rewrite flt c) (c_files c) wA) as [[[] wB]|[h wB]]; cbn [bind].
    + right. exists wB. split; reflexivity.
    + left. exists h, wB. split; reflexivity.
  - left. exists h, wA. split; reflexivity.
Qed.

(* C15 (1): no test file is ever truncated: the new content is written into a temporary file which replaces the test file
   atomically - at every fault point, for both fault kinds *)
Theorem no_torn_file : forall g, ~ In (g, Trunc) (disk (final run)).
Proof.
  intros g Hin. destruct run_cases as [[h [wA [EA E]]]|[wA [EA [[h [wB [EB E]]]|[wB [EB E]]]]]]; rewrite E in Hin; cbn [final halted] in *.
  - pose proof (phaseA_each flt c (c_files c) (init c news olds)) as P. cbn zeta in P. rewrite EA in P. cbn [final] in P.
    destruct P as [Hd _]. rewrite Hd in Hin. apply init_disk_old in Hin. discriminate.
  - pose proof (phaseA_each flt c (c_files c) (init c news olds)) as P. cbn zeta in P. rewrite EA in P. cbn [final] in P.
    destruct P as [Hd _]. pose proof (phaseB_each flt c (c_files c) wA) as Q. cbn zeta in Q. rewrite EB in Q. cbn [final halted] in Q.
    destruct Q as [_ Q]. destruct (Q g Trunc Hin) as [H|H].
    + rewrite Hd in H. apply init_disk_old in H. discriminate.
    + destruct H as [f [t [w0 [w1 [_ [_ [H _]]]]]]]. discriminate.
  - pose proof (phaseA_each flt c (c_files c) (init c news olds)) as P. cbn zeta in P. rewrite EA in P. cbn [final] in P.
    destruct P as [Hd _]. pose proof (phaseB_each flt c (c_files c) wA) as Q. cbn zeta in Q. rewrite EB in Q. cbn [final halted] in Q.
    destruct Q as [_ Q]. cbn [report disk] in Hin. destruct (Q g Trunc Hin) as [H|H].
    + rewrite Hd in H. apply init_disk_old in H. discriminate.
    + destruct H as [f [t [w0 [w1 [_ [_ [H _]]]]]]]. discriminate.
Qed.

(* C15 (2): if ANY file on disk has new content - at any interruption point, after any failure - then every external
   that the new code of ANY changed file refers to is persisted and survives the start of the next session *)
Theorem no_dangling_external : forall g t, In (g, New t) (disk (final run)) ->
  forall f, In f (c_files c) -> forall e, In e (f_exts f) -> In e (news ++ olds) -> resolves e (store (final run)) = true.
Proof.
  intros g t Hin f Hf e He Hk.
  assert (Hhas : lookup e (store (init c news olds)) <> None) by (apply init_store_has; exact Hk).
  pose proof (phaseA_each flt c (c_files c) (init c news olds)) as P. cbn zeta in P.
  destruct run_cases as [[h [wA [EA E]]]|[wA [EA HB]]].
  - rewrite E in Hin. rewrite EA in P. cbn [final] in *. destruct P as [Hd _]. rewrite Hd in Hin. apply init_disk_old in Hin. discriminate.
  - rewrite EA in P. cbn [final halted] in P. destruct P as [_ [_ [_ Hp]]].
    specialize (Hp eq_refl f Hf e He Hhas).
    assert (Hst : store (final run) = store wA).
    { pose proof (phaseB_each flt c (c_files c) wA) as Q. cbn zeta in Q. destruct Q as [Q _].
      destruct HB as [[h [wB [EB ->]]]|[wB [EB ->]]]; rewrite EB in Q; cbn [final report store] in *; exact Q. }
    unfold resolves. rewrite Hst. rewrite (lookup_prune_false e (store wA) Hp). reflexivity.
Qed.

(* externals persisted by earlier sessions are never lost by the write phase *)
Theorem old_externals_stay : forall e, In e olds -> ~ In e news -> resolves e (store (final run)) = true.
Proof.
  intros e He Hn.
  assert (H0 : lookup e (store (init c news olds)) = Some false).
  { cbn [init store]. clear - He Hn. induction news as [|x r IH]; cbn [map app lookup].
    - induction olds as [|y r IH]; [destruct He|]. cbn [map lookup]. destruct (e =? y) eqn:E; [reflexivity|].
      apply IH. destruct He as [->|He]; [rewrite Nat.eqb_refl in E; discriminate|exact He].
    - destruct (e =? x) eqn:E; [apply Nat.eqb_eq in E; subst; exfalso; apply Hn; left; reflexivity|]. apply IH. intros H. apply Hn. right. exact H. }
  pose proof (phaseA_each flt c (c_files c) (init c news olds)) as P. cbn zeta in P.
  assert (H1 : lookup e (store (final run)) = Some false).
  { destruct run_cases as [[h [wA [EA ->]]]|[wA [EA HB]]]; rewrite EA in P; cbn [final] in *; destruct P as [_ [Hle _]].
    - destruct (Hle e) as [H _]. apply H. exact H0.
    - pose proof (phaseB_each flt c (c_files c) wA) as Q. cbn zeta in Q. destruct Q as [Q _].
      destruct HB as [[h [wB [EB ->]]]|[wB [EB ->]]]; rewrite EB in Q; cbn [final report store] in *; rewrite Q; destruct (Hle e) as [H _]; apply H; exact H0. }
  unfold resolves. rewrite (lookup_prune_false _ _ H1). reflexivity.
Qed.

(* while phase A has not completed, nothing at all has been written *)
Theorem phaseA_halt_writes_nothing : forall h wA,
  each (prepare flt c) (c_files c) (init c news olds) = inr (h, wA) ->
  halted run = Some h /\ forall g ct, In (g, ct) (disk (final run)) -> ct = Old.
Proof.
  intros h wA EA. unfold run, write_phase. rewrite EA. cbn [bind halted final]. split; [reflexivity|].
  pose proof (phaseA_each flt c (c_files c) (init c news olds)) as P. cbn zeta in P. rewrite EA in P. cbn [final] in P.
  destruct P as [Hd _]. intros g ct Hin. rewrite Hd in Hin. apply init_disk_old in Hin. exact Hin.
Qed.
End Run.

(* ------------------------------------------------------------------------- unparsable formatter output *)
Definition fres_of (m : fmode) : fres := match m with FFails => RFailed | FGarbage => RFailed | FOk => RFormatted end.
Definition nc_pure (c : config) (f : file) : tkind :=
  let whole := if c_enforce c then true
               else match fres_of (c_fmt c) with RFailed => true | RGarbage => false | RFormatted => f_clean f end in
  if whole then match fres_of (c_fmt c) with RFailed => Raw | RGarbage => Garb | RFormatted => Fmt end else Raw.

Definition no_fail (flt : option (nat * fkind)) : Prop := forall n, flt <> Some (n, Fail).

Lemma format_call_nofail : forall flt m w r w', no_fail flt -> format_call flt m w = inl (r, w') -> r = fres_of m.
Proof.
  intros flt m w r w' Hnf H. unfold format_call in H.
  destruct (tick_spec flt SFormat w) as [[b [E Hb]]|E]; rewrite E in H; cbn [bind] in H; [|discriminate].
  destruct b; [exfalso; destruct (Hb eq_refl) as [n [Hn _]]; exact (Hnf n Hn)|].
  destruct m; injection H as <- _; reflexivity.
Qed.
Lemma format_call_mode : forall flt m w r w', format_call flt m w = inl (r, w') -> r <> RGarbage.
Proof.
  intros flt m w r w' H. unfold format_call in H.
  destruct (tick_spec flt SFormat w) as [[b [E _]]|E]; rewrite E in H; cbn [bind] in H; [|discriminate].
  destruct b; [injection H as <- _; discriminate|]. destruct m; injection H as <- _; discriminate.
Qed.

Lemma new_code_nofail : forall flt c f w t w', no_fail flt -> new_code flt c f w = inl (t, w') -> t = nc_pure c f.
Proof.
  intros flt c f w t w' Hnf H. unfold new_code in H. unfold nc_pure.
  destruct (raising flt (SRead (f_id f)) w) as [[[] w1]|[h w1]]; cbn [bind] in H; [|discriminate].
  destruct (c_enforce c).
  - cbn [bind] in H. destruct (format_call flt (c_fmt c) w1) as [[r w4]|[h w4]] eqn:E; cbn [bind] in H; [|discriminate].
    apply format_call_nofail in E; [|exact Hnf]. subst r. injection H as <- _. reflexivity.
  - destruct (format_call flt (c_fmt c) w1) as [[r w2]|[h w2]] eqn:E; cbn [bind] in H; [|discriminate].
    apply format_call_nofail in E; [|exact Hnf]. subst r.
    destruct (match fres_of (c_fmt c) with RFailed => true | RGarbage => false | RFormatted => f_clean f end).
    + destruct (format_call flt (c_fmt c) w2) as [[r w4]|[h w4]] eqn:E2; cbn [bind] in H; [|discriminate].
      apply format_call_nofail in E2; [|exact Hnf]. subst r. injection H as <- _. reflexivity.
    + injection H as <- _. reflexivity.
Qed.

Lemma new_code_mode : forall flt c f w t w', new_code flt c f w = inl (t, w') -> t <> Garb.
Proof.
  intros flt c f w t w' H. unfold new_code in H.
  destruct (raising flt (SRead (f_id f)) w) as [[[] w1]|[h w1]]; cbn [bind] in H; [|discriminate].
  assert (G : forall w3, bind (format_call flt (c_fmt c) w3)
                (fun r w4 => inl (match r with RFailed => Raw | RGarbage => Garb | RFormatted => Fmt end, w4)) = inl (t, w') -> t <> Garb).
  { intros w3 H3. destruct (format_call flt (c_fmt c) w3) as [[r w4]|[h w4]] eqn:E; cbn [bind] in H3; [|discriminate].
    apply format_call_mode in E. injection H3 as <- _. destruct r; congruence. }
  destruct (c_enforce c).
  - cbn [bind] in H. exact (G w1 H).
  - destruct (format_call flt (c_fmt c) w1) as [[r w2]|[h w2]]; cbn [bind] in H; [|discriminate].
    destruct (match r with RFailed => true | RGarbage => false | RFormatted => f_clean f end); [exact (G w2 H)|].
    injection H as <- _. discriminate.
Qed.

Lemma prepare_complete : forall flt c f w w', prepare flt c f w = inl (tt, w') ->
  exists t w1, new_code flt c f w = inl (t, w1) /\ t <> Garb.
Proof.
  intros flt c f w w' H. unfold prepare in H.
  destruct (new_code flt c f w) as [[t w1]|[h w1]]; cbn [bind] in H; [|discriminate].
  exists t, w1. split; [reflexivity|]. intros ->.
  destruct (tick flt SParse w1) as [[b w2]|[h w2]]; cbn [bind] in H; [|discriminate]. destruct b; discriminate.
Qed.

Lemma each_prepare_complete : forall flt c fs w w', each (prepare flt c) fs w = inl (tt, w') ->
  forall f, In f fs -> exists t w0 w1, new_code flt c f w0 = inl (t, w1) /\ t <> Garb.
Proof.
  intros flt c fs. induction fs as [|f r IH]; intros w w' H f0 Hin; [destruct Hin|]. cbn [each] in H.
  destruct (prepare flt c f w) as [[[] w1]|[h w1]] eqn:E; cbn [bind] in H; [|discriminate].
  destruct Hin as [<-|Hin].
  - destruct (prepare_complete flt c f w w1 E) as [t [w2 [H1 H2]]]. exists t, w, w2. split; assumption.
  - exact (IH w1 w' H f0 Hin).
Qed.

(* C15 (3): what a misbehaving formatter prints is never written - whatever it does on its calls (fails, or prints with exit status 0
   something that is not the formatted code) and whatever fault is injected on top: format_code hands back its input instead
   (repair of finding F-55; before it this needed the premise "no second, transient failure" and did not cover a formatter that
   misbehaves on one call only). *)
Theorem no_garbage_written : forall flt c news olds g,
  ~ In (g, New Garb) (disk (final (write_phase flt c (init c news olds)))).
Proof.
  intros flt c news olds g Hin.
  pose proof (phaseA_each flt c (c_files c) (init c news olds)) as P. cbn zeta in P.
  destruct (run_cases flt c news olds) as [[h [wA [EA E]]]|[wA [EA HB]]].
  - rewrite E in Hin. rewrite EA in P. cbn [final] in *. destruct P as [Hd _]. rewrite Hd in Hin. apply init_disk_old in Hin. discriminate.
  - rewrite EA in P. cbn [final] in P. destruct P as [Hd _].
    pose proof (phaseB_each flt c (c_files c) wA) as Q. cbn zeta in Q. destruct Q as [_ Q].
    assert (Hin' : In (g, New Garb) (disk (final (each (rewrite flt c) (c_files c) wA)))).
    { destruct HB as [[h [wB [EB E]]]|[wB [EB E]]]; rewrite E in Hin; rewrite EB; cbn [final report disk] in *; exact Hin. }
    destruct (Q g (New Garb) Hin') as [H|H].
    + rewrite Hd in H. apply init_disk_old in H. discriminate.
    + destruct H as [f [t [w0 [w1 [Hf [_ [Ht Hn]]]]]]]. injection Ht as <-.
      apply new_code_mode in Hn. congruence.
Qed.

(* the configuration for which the pinned tree wrote unparsable text (a formatter that returns it AND fails once during phase A;
   the former garbage_double_fault_refuted): repaired *)
Example garbage_double_fault_repaired :
  let c := {| c_enforce := true; c_fmt := FGarbage; c_files := [{| f_id := 0; f_clean := true; f_import := false; f_exts := [] |}] |} in
  let r := write_phase (Some (1, Fail)) c (init c [] []) in
  disk (final r) = [(0, New Raw)] /\ halted r = None /\ reported (final r) = true.
Proof. vm_compute. repeat split. Qed.

(* an interruption inside SourceFile.rewrite leaves the test file as it was and a temporary file next to it *)
Example crash_leaves_only_a_temporary_file :
  let c := {| c_enforce := false; c_fmt := FOk; c_files := [{| f_id := 0; f_clean := true; f_import := false; f_exts := [] |}] |} in
  let r := write_phase (Some (8, Crash)) c (init c [] []) in
  disk (final r) = [(0, Old)] /\ tmp (final r) = [(0, Trunc)] /\ halted r = Some (HCrash (SWrite 0)).
Proof. vm_compute. repeat split. Qed.

(* ------------------------------------------------------------------------- a completed run *)
Lemma lookup_set_assoc_cases : forall X k g (v : X) l,
  lookup g (set_assoc k v l) = if (g =? k) then (match lookup g l with None => None | Some _ => Some v end) else lookup g l.
Proof.
  intros X k g v l. destruct (g =? k) eqn:E.
  - apply Nat.eqb_eq in E. subst g. destruct (lookup k l) eqn:E2.
    + apply lookup_set_assoc_same. congruence.
    + clear - E2. induction l as [|[k' y] r IH]; cbn [lookup set_assoc] in *; [reflexivity|].
      destruct (k =? k') eqn:E; [discriminate|]. cbn [lookup]. rewrite E. exact (IH E2).
  - apply lookup_set_assoc_other. intros ->. rewrite Nat.eqb_refl in E. discriminate.
Qed.

Lemma each_rewrite_lookup : forall flt c fs w w', each (rewrite flt c) fs w = inl (tt, w') ->
  (forall g, lookup g (disk w) <> None -> lookup g (disk w') <> None) /\
  (forall g t, lookup g (disk w) = Some (New t) -> exists t', lookup g (disk w') = Some (New t')) /\
  (forall f, In f fs -> lookup (f_id f) (disk w) <> None -> exists t, lookup (f_id f) (disk w') = Some (New t)).
Proof.
  intros flt c fs. induction fs as [|f r IH]; intros w w' H; cbn [each] in H.
  - injection H as <-. split; [tauto|]. split; [intros g t Hg; exists t; exact Hg|intros f []].
  - pose proof (rewrite_spec flt c f w) as [_ Hr].
    destruct (rewrite flt c f w) as [[[] w1]|[h w1]]; cbn [bind] in H; [|discriminate].
    destruct Hr as [t [w0 [_ Hd]]]. destruct (IH w1 w' H) as [I1 [I2 I3]].
    assert (K1 : forall g, lookup g (disk w) <> None -> lookup g (disk w1) <> None).
    { intros g Hg. rewrite Hd, lookup_set_assoc_cases. destruct (g =? f_id f); [destruct (lookup g (disk w)); congruence|exact Hg]. }
    split; [intros g Hg; apply I1; apply K1; exact Hg|]. split.
    + intros g t0 Hg. assert (exists t1, lookup g (disk w1) = Some (New t1)) as [t1 Ht1].
      { rewrite Hd, lookup_set_assoc_cases. destruct (g =? f_id f); [rewrite Hg; exists t; reflexivity|exists t0; exact Hg]. }
      exact (I2 g t1 Ht1).
    + intros f0 [<-|Hin] Hk.
      * apply (I2 (f_id f) t). rewrite Hd, lookup_set_assoc_cases, Nat.eqb_refl. destruct (lookup (f_id f) (disk w)); congruence.
      * apply (I3 f0 Hin). apply K1. exact Hk.
Qed.

(* a run that was not stopped gave every changed file a complete new content *)
Theorem completed_all_new : forall flt c news olds,
  halted (write_phase flt c (init c news olds)) = None ->
  forall f, In f (c_files c) -> exists t, lookup (f_id f) (disk (final (write_phase flt c (init c news olds)))) = Some (New t).
Proof.
  intros flt c news olds Hh f Hf.
  destruct (run_cases flt c news olds) as [[h [wA [EA E]]]|[wA [EA [[h [wB [EB E]]]|[wB [EB E]]]]]]; rewrite E in *; cbn [halted final] in *; try discriminate.
  destruct (each_rewrite_lookup flt c (c_files c) wA wB EB) as [_ [_ I3]]. cbn [report disk]. apply (I3 f Hf).
  pose proof (phaseA_each flt c (c_files c) (init c news olds)) as P. cbn zeta in P. rewrite EA in P. cbn [final] in P. destruct P as [Hd _].
  rewrite Hd. cbn [init disk]. clear - Hf. induction (c_files c) as [|x r IH]; [destruct Hf|]. cbn [map lookup].
  destruct (f_id f =? f_id x) eqn:E; [discriminate|]. apply IH. destruct Hf as [->|Hf]; [rewrite Nat.eqb_refl in E; discriminate|exact Hf].
Qed.

(* ------------------------------------------------------------------------- formatter failures are counted and reported,
   and never stop the run *)
Section Fmt.
Variable flt : option (nat * fkind).
Variable c : config.

(* every formatter call that failed - the injected failure, or any call of a formatter that always fails / never prints the formatted
   code - is counted as a problem *)
Definition J (w : world) : Prop :=
  forall n, (flt = Some (n, Fail) \/ c_fmt c <> FOk) -> nth_error (trace w) n = Some SFormat -> 1 <= problems w.
Definition Jp {A} (w : world) (r : res A) : Prop := J w -> J (final r).

Lemma tick_false : forall s w w', tick flt s w = inl (false, w') -> forall n, flt = Some (n, Fail) -> n <> length (trace w).
Proof.
  intros s w w' H n Hn ->. unfold tick in H. rewrite Hn, Nat.eqb_refl in H. discriminate.
Qed.

Lemma J_log_other : forall s w, s <> SFormat -> J w -> J (log s w).
Proof.
  intros s w Hs Hj n Hn Ht. cbn [log trace problems] in *. destruct (Nat.lt_ge_cases n (length (trace w))) as [Hl|Hl].
  - rewrite nth_error_app1 in Ht by exact Hl. exact (Hj n Hn Ht).
  - rewrite nth_error_app2 in Ht by exact Hl. destruct (n - length (trace w)) as [|k]; cbn in Ht; [congruence|destruct k; discriminate].
Qed.

Lemma Jp_bind : forall A B (m : res A) (k : A -> world -> res B) w,
  Jp w m -> (forall a w1, m = inl (a, w1) -> Jp w1 (k a w1)) -> Jp w (bind m k).
Proof.
  intros A B m k w Hm Hk Hj. destruct m as [[a w1]|[h w1]]; cbn [bind]; [|exact (Hm Hj)]. exact (Hk a w1 eq_refl (Hm Hj)).
Qed.
Lemma Jp_ret : forall A (a : A) w, Jp w (inl (a, w) : res A).
Proof. intros A a w Hj. exact Hj. Qed.

Lemma Jp_tick_other : forall s w, s <> SFormat -> Jp w (tick flt s w).
Proof.
  intros s w Hs Hj. destruct (tick_spec flt s w) as [[b [E _]]|E]; rewrite E; cbn [final]; [apply J_log_other; assumption|exact Hj].
Qed.
Lemma Jp_raising : forall s w, s <> SFormat -> Jp w (raising flt s w).
Proof.
  intros s w Hs. unfold raising. apply Jp_bind; [apply Jp_tick_other; exact Hs|]. intros b w1 _. destruct b; intros Hj; exact Hj.
Qed.
Lemma Jp_format_call : forall w, Jp w (format_call flt (c_fmt c) w).
Proof.
  intros w Hj. unfold format_call. destruct (tick_spec flt SFormat w) as [[b [E _]]|E]; rewrite E; cbn [bind]; [|exact Hj].
  assert (Hadd : J (add_problem (log SFormat w))) by (intros n _ _; cbn; lia).
  destruct b; cbn [final]; [exact Hadd|].
  destruct (c_fmt c) eqn:Em; cbn [final]; [|exact Hadd|exact Hadd].
  intros n Hn Ht. cbn [log trace problems] in *.
  destruct Hn as [Hn|Hn]; [|congruence].
  pose proof (tick_false SFormat w _ E n Hn) as Hne.
  destruct (Nat.lt_ge_cases n (length (trace w))) as [Hl|Hl].
  - rewrite nth_error_app1 in Ht by exact Hl. exact (Hj n (or_introl Hn) Ht).
  - rewrite nth_error_app2 in Ht by exact Hl. destruct (n - length (trace w)) as [|k] eqn:Ek; [lia|]. destruct k; discriminate.
Qed.
Lemma Jp_new_code : forall f w, Jp w (new_code flt c f w).
Proof.
  intros f w. unfold new_code. apply Jp_bind; [apply Jp_raising; discriminate|]. intros [] w1 _.
  apply Jp_bind.
  - destruct (c_enforce c); [apply Jp_ret|]. apply Jp_bind; [apply Jp_format_call|]. intros r w2 _. apply Jp_ret.
  - intros whole w3 _. destruct whole; [|apply Jp_ret]. apply Jp_bind; [apply Jp_format_call|]. intros r w4 _. apply Jp_ret.
Qed.
Lemma J_same : forall w w', trace w' = trace w -> problems w' = problems w -> J w -> J w'.
Proof. intros w w' Ht Hp Hj n Hn H. rewrite Ht in H. rewrite Hp. exact (Hj n Hn H). Qed.
Lemma Jp_persist_all : forall es w, Jp w (persist_all flt es w).
Proof.
  induction es as [|e r IH]; intros w; cbn [persist_all]; [apply Jp_ret|].
  apply Jp_bind; [apply Jp_raising; discriminate|]. intros [] w1 _ Hj. apply IH. exact (J_same w1 (persist e w1) eq_refl eq_refl Hj).
Qed.
Lemma Jp_prepare : forall f w, Jp w (prepare flt c f w).
Proof.
  intros f w. unfold prepare. apply Jp_bind; [apply Jp_new_code|]. intros t w1 _.
  apply Jp_bind; [apply Jp_tick_other; discriminate|]. intros b w2 _.
  destruct b; [intros Hj; exact Hj|]. destruct t; try (intros Hj; exact Hj);
    (apply Jp_bind; [destruct (f_import f); [apply Jp_raising; discriminate|apply Jp_ret]|intros [] w3 _; apply Jp_persist_all]).
Qed.
Lemma Jp_rewrite : forall f w, Jp w (rewrite flt c f w).
Proof.
  intros f w. unfold rewrite. apply Jp_bind; [apply Jp_new_code|]. intros t w1 _.
  apply Jp_bind; [apply Jp_raising; discriminate|]. intros [] w2 _ Hj.
  assert (Hj3 : J (set_tmp [(f_id f, Trunc)] w2)) by exact (J_same w2 _ eq_refl eq_refl Hj).
  revert Hj3. apply Jp_bind; [apply Jp_tick_other; discriminate|]. intros b1 w4 _ Hj4.
  destruct b1; [unfold cleanup_raise; cbn [final]; exact (J_same w4 _ eq_refl eq_refl Hj4)|].
  assert (Hj5 : J (set_tmp [(f_id f, New t)] w4)) by exact (J_same w4 _ eq_refl eq_refl Hj4).
  revert Hj5. apply Jp_bind; [apply Jp_tick_other; discriminate|]. intros b2 w6 _ Hj6.
  destruct b2; [unfold cleanup_raise; cbn [final]; exact (J_same w6 _ eq_refl eq_refl Hj6)|].
  revert Hj6. apply Jp_bind; [apply Jp_tick_other; discriminate|]. intros b3 w7 _ Hj7.
  destruct b3; [unfold cleanup_raise; cbn [final]; exact (J_same w7 _ eq_refl eq_refl Hj7)|].
  cbn [final]. exact (J_same w7 _ eq_refl eq_refl Hj7).
Qed.
Lemma Jp_each : forall (g : file -> world -> res unit), (forall f w, Jp w (g f w)) -> forall fs w, Jp w (each g fs w).
Proof.
  intros g Hg fs. induction fs as [|f r IH]; intros w; cbn [each]; [apply Jp_ret|].
  apply Jp_bind; [apply Hg|]. intros [] w1 _. apply IH.
Qed.

(* a formatter call that fails is counted as a problem *)
Theorem format_failure_counted : forall news olds n,
  flt = Some (n, Fail) -> nth_error (trace (final (write_phase flt c (init c news olds)))) n = Some SFormat ->
  1 <= problems (final (write_phase flt c (init c news olds))).
Proof.
  intros news olds n Hn Ht.
  assert (Hp : Jp (init c news olds) (write_phase flt c (init c news olds))).
  { unfold write_phase. apply Jp_bind; [apply Jp_each; apply Jp_prepare|].
    intros [] w1 _. apply Jp_bind; [apply Jp_each; apply Jp_rewrite|]. intros [] w2 _ Hj. exact (J_same w2 (report w2) eq_refl eq_refl Hj). }
  assert (Hj : J (final (write_phase flt c (init c news olds)))).
  { apply Hp. intros k _ Hk. cbn [init trace] in Hk. destruct k; discriminate. }
  exact (Hj n (or_introl Hn) Ht).
Qed.

(* how a run can be stopped: by the interruption, or by a failing step that is not a formatter call.  (So a formatter call that fails
   or prints something else than the formatted code never stops the run.) *)
Definition L {A} (r : res A) : Prop :=
  match r with
  | inl _ => True
  | inr (HCrash s, w') => exists n, flt = Some (n, Crash)
  | inr (HRaise s, w') => s <> SFormat /\ (exists n, flt = Some (n, Fail) /\ nth_error (trace w') n = Some s)
  end.
Lemma L_bind : forall A B (m : res A) (k : A -> world -> res B), L m -> (forall a w1, m = inl (a, w1) -> L (k a w1)) -> L (bind m k).
Proof. intros A B m k Hm Hk. destruct m as [[a w1]|[h w1]]; cbn [bind]; [exact (Hk a w1 eq_refl)|exact Hm]. Qed.
Lemma tick_cases : forall s w,
  tick flt s w = inl (false, log s w) \/
  (tick flt s w = inl (true, log s w) /\ flt = Some (length (trace w), Fail)) \/
  (tick flt s w = inr (HCrash s, w) /\ flt = Some (length (trace w), Crash)).
Proof.
  intros s w. unfold tick. destruct flt as [[n k]|]; [|left; reflexivity].
  destruct (n =? length (trace w)) eqn:E; [|left; reflexivity]. apply Nat.eqb_eq in E. subst n.
  destruct k; [right; right|right; left]; split; reflexivity.
Qed.
Lemma nth_error_log : forall s w, nth_error (trace (log s w)) (length (trace w)) = Some s.
Proof. intros s w. cbn [log trace]. rewrite nth_error_app2 by lia. rewrite Nat.sub_diag. reflexivity. Qed.
Lemma L_raising : forall s w, s <> SFormat -> L (raising flt s w).
Proof.
  intros s w Hs. unfold raising. destruct (tick_cases s w) as [E|[[E Hf]|[E Hf]]]; rewrite E; cbn [bind L].
  - exact I.
  - split; [exact Hs|]. exists (length (trace w)). split; [exact Hf|apply nth_error_log].
  - exists (length (trace w)). exact Hf.
Qed.
Lemma L_format_call : forall m w, L (format_call flt m w).
Proof.
  intros m w. unfold format_call. destruct (tick_cases SFormat w) as [E|[[E Hf]|[E Hf]]]; rewrite E; cbn [bind L].
  - destruct m; exact I.
  - exact I.
  - exists (length (trace w)). exact Hf.
Qed.
Lemma L_new_code : forall f w, L (new_code flt c f w).
Proof.
  intros f w. unfold new_code. apply L_bind; [apply L_raising; discriminate|]. intros [] w1 _.
  apply L_bind.
  - destruct (c_enforce c); [exact I|]. apply L_bind; [apply L_format_call|]. intros r w2 _. exact I.
  - intros whole w3 _. destruct whole; [|exact I]. apply L_bind; [apply L_format_call|]. intros r w4 _. exact I.
Qed.
Lemma L_persist_all : forall es w, L (persist_all flt es w).
Proof.
  induction es as [|e r IH]; intros w; cbn [persist_all]; [exact I|]. apply L_bind; [apply L_raising; discriminate|]. intros [] w1 _. apply IH.
Qed.
Lemma L_prepare : forall f w, L (prepare flt c f w).
Proof.
  intros f w. unfold prepare.
  pose proof (L_new_code f w) as Hn. destruct (new_code flt c f w) as [[t w1]|[h w1]] eqn:En; cbn [bind]; [|exact Hn].
  destruct (tick_cases SParse w1) as [E|[[E Hf]|[E Hf]]]; rewrite E; cbn [bind].
  - destruct t.
    + apply L_bind; [destruct (f_import f); [apply L_raising; discriminate|exact I]|intros [] w3 _; apply L_persist_all].
    + apply L_bind; [destruct (f_import f); [apply L_raising; discriminate|exact I]|intros [] w3 _; apply L_persist_all].
    + exfalso. apply new_code_mode in En. congruence.
  - cbn [L]. split; [discriminate|]. exists (length (trace w1)). split; [exact Hf|apply nth_error_log].
  - cbn [L]. exists (length (trace w1)). exact Hf.
Qed.
Lemma L_step_cleanup : forall s w (k : world -> res unit), s <> SFormat -> (forall w', L (k w')) ->
  L (bind (tick flt s w) (fun failed w' => if failed then cleanup_raise s w' else k w')).
Proof.
  intros s w k Hs Hk. destruct (tick_cases s w) as [E|[[E Hf]|[E Hf]]]; rewrite E; cbn [bind].
  - apply Hk.
  - unfold cleanup_raise. cbn [L]. split; [exact Hs|]. exists (length (trace w)). split; [exact Hf|]. cbn [set_tmp trace]. apply nth_error_log.
  - cbn [L]. exists (length (trace w)). exact Hf.
Qed.
Lemma L_rewrite : forall f w, L (rewrite flt c f w).
Proof.
  intros f w. unfold rewrite. apply L_bind; [apply L_new_code|]. intros t w1 _.
  apply L_bind; [apply L_raising; discriminate|]. intros [] w2 _.
  apply (L_step_cleanup (SWrite (f_id f)) _ (fun w4 => bind (tick flt (SMode (f_id f)) (set_tmp [(f_id f, New t)] w4)) _)); [discriminate|]. intros w4.
  apply (L_step_cleanup (SMode (f_id f)) _ (fun w6 => bind (tick flt (SRename (f_id f)) w6) _)); [discriminate|]. intros w6.
  apply (L_step_cleanup (SRename (f_id f)) _ (fun w7 => inl (tt, set_tmp [] (set_disk (f_id f) (New t) w7)))); [discriminate|]. intros w7. exact I.
Qed.
Lemma L_each : forall (g : file -> world -> res unit), (forall f w, L (g f w)) -> forall fs w, L (each g fs w).
Proof.
  intros g Hg fs. induction fs as [|f r IH]; intros w; cbn [each]; [exact I|]. apply L_bind; [apply Hg|]. intros [] w1 _. apply IH.
Qed.
Lemma L_write_phase : forall w, L (write_phase flt c w).
Proof.
  intros w. unfold write_phase. apply L_bind; [apply L_each; apply L_prepare|]. intros [] w1 _.
  apply L_bind; [apply L_each; apply L_rewrite|]. intros [] w2 _. exact I.
Qed.

(* C15 (4): a formatter failure (black raises, format-command exits non-zero or prints something else than the formatted code) degrades: the run is not stopped, every
   changed file gets a complete new content, and the problem is reported *)
Theorem format_failure_degrades : forall news olds n,
  flt = Some (n, Fail) -> nth_error (trace (final (write_phase flt c (init c news olds)))) n = Some SFormat ->
  halted (write_phase flt c (init c news olds)) = None
  /\ reported (final (write_phase flt c (init c news olds))) = true
  /\ forall f, In f (c_files c) -> exists t, lookup (f_id f) (disk (final (write_phase flt c (init c news olds)))) = Some (New t) /\ t <> Garb.
Proof.
  intros news olds n Hn Ht.
  assert (Hh : halted (write_phase flt c (init c news olds)) = None).
  { pose proof (L_write_phase (init c news olds)) as HL.
    destruct (write_phase flt c (init c news olds)) as [[[] w]|[h w]]; [reflexivity|]. exfalso. cbn [final] in Ht. cbn [L] in HL.
    destruct h as [s|s].
    - destruct HL as [k Hk]. congruence.
    - destruct HL as [Hs [k [Hk Hnth]]]. rewrite Hn in Hk. injection Hk as <-. congruence. }
  split; [exact Hh|]. split.
  - pose proof (format_failure_counted news olds n Hn Ht) as Hp.
    destruct (run_cases flt c news olds) as [[h [wA [EA E]]]|[wA [EA [[h [wB [EB E]]]|[wB [EB E]]]]]]; rewrite E in *; cbn [halted final] in *; try discriminate.
    cbn [report reported problems] in *. apply Nat.ltb_lt. lia.
  - intros f Hf. destruct (completed_all_new flt c news olds Hh f Hf) as [t Hl]. exists t. split; [exact Hl|]. intros ->.
    apply (no_garbage_written flt c news olds (f_id f)).
    clear - Hl. induction (disk (final (write_phase flt c (init c news olds)))) as [|[k y] l IH]; cbn [lookup] in Hl; [discriminate|].
    destruct (f_id f =? k) eqn:E; [apply Nat.eqb_eq in E; injection Hl as ->; left; congruence|right; exact (IH Hl)].
Qed.
(* C15 (4'): a formatter that misbehaves on EVERY call (always fails, or always prints with exit status 0 something that is not the
   formatted code - unparsable text, nothing, another program) and no other fault: the run completes, every changed file gets the complete
   unformatted new content, and if the formatter was called at all a problem is reported *)
Theorem bad_formatter_degrades : forall news olds,
  flt = None -> c_fmt c <> FOk ->
  halted (write_phase flt c (init c news olds)) = None
  /\ (forall f, In f (c_files c) -> lookup (f_id f) (disk (final (write_phase flt c (init c news olds)))) = Some (New Raw))
  /\ (forall n, nth_error (trace (final (write_phase flt c (init c news olds)))) n = Some SFormat ->
       reported (final (write_phase flt c (init c news olds))) = true).
Proof.
  intros news olds Hflt Hm.
  assert (Hh : halted (write_phase flt c (init c news olds)) = None).
  { pose proof (L_write_phase (init c news olds)) as HL.
    destruct (write_phase flt c (init c news olds)) as [[[] w]|[h w]]; [reflexivity|]. exfalso. cbn [L] in HL.
    destruct h as [s|s]; [destruct HL as [k Hk]|destruct HL as [_ [k [Hk _]]]]; congruence. }
  assert (Hnf : no_fail flt) by (intros n Hn; congruence).
  assert (Hraw : forall f, nc_pure c f = Raw).
  { intros f. unfold nc_pure. destruct (c_fmt c); [congruence| |]; cbn [fres_of]; destruct (c_enforce c); reflexivity. }
  split; [exact Hh|]. split.
  - intros f Hf. destruct (completed_all_new flt c news olds Hh f Hf) as [t Hl]. rewrite Hl. f_equal. f_equal.
    assert (Hin : In (f_id f, New t) (disk (final (write_phase flt c (init c news olds))))).
    { clear - Hl. induction (disk (final (write_phase flt c (init c news olds)))) as [|[k y] l IH]; cbn [lookup] in Hl; [discriminate|].
      destruct (f_id f =? k) eqn:E; [apply Nat.eqb_eq in E; injection Hl as ->; left; congruence|right; exact (IH Hl)]. }
    pose proof (phaseA_each flt c (c_files c) (init c news olds)) as P. cbn zeta in P.
    destruct (run_cases flt c news olds) as [[h [wA [EA E]]]|[wA [EA HB]]]; [rewrite E in Hh; discriminate|].
    rewrite EA in P. cbn [final] in P. destruct P as [Hd _].
    pose proof (phaseB_each flt c (c_files c) wA) as Q. cbn zeta in Q. destruct Q as [_ Q].
    assert (Hin' : In (f_id f, New t) (disk (final (each (rewrite flt c) (c_files c) wA)))).
    { destruct HB as [[h [wB [EB E]]]|[wB [EB E]]]; rewrite E in Hin; rewrite EB; cbn [final report disk] in *; exact Hin. }
    destruct (Q (f_id f) (New t) Hin') as [H|H].
    + rewrite Hd in H. apply init_disk_old in H. discriminate.
    + destruct H as [f' [t' [w0 [w1 [_ [_ [Ht Hn]]]]]]]. injection Ht as <-.
      apply new_code_nofail in Hn; [|exact Hnf]. rewrite Hn. apply Hraw.
  - intros n Ht.
    assert (Hp : Jp (init c news olds) (write_phase flt c (init c news olds))).
    { unfold write_phase. apply Jp_bind; [apply Jp_each; apply Jp_prepare|].
      intros [] w1 _. apply Jp_bind; [apply Jp_each; apply Jp_rewrite|]. intros [] w2 _ Hj. exact (J_same w2 (report w2) eq_refl eq_refl Hj). }
    assert (Hj : J (final (write_phase flt c (init c news olds)))).
    { apply Hp. intros k _ Hk. cbn [init trace] in Hk. destruct k; discriminate. }
    pose proof (Hj n (or_intror Hm) Ht) as Hpb.
    destruct (run_cases flt c news olds) as [[h [wA [EA E]]]|[wA [EA [[h [wB [EB E]]]|[wB [EB E]]]]]]; rewrite E in *; cbn [halted final] in *; try discriminate.
    cbn [report reported problems] in *. apply Nat.ltb_lt. lia.
Qed.
End Fmt.

(* non-vacuity of bad_formatter_degrades: a format-command that prints something else than the formatted code on every call *)
Example bad_formatter_example :
  let c := {| c_enforce := true; c_fmt := FGarbage;
              c_files := [{| f_id := 0; f_clean := false; f_import := false; f_exts := [] |};
                          {| f_id := 1; f_clean := true; f_import := true; f_exts := [7] |}] |} in
  let r := write_phase None c (init c [7] []) in
  nth_error (trace (final r)) 1 = Some SFormat /\ halted r = None /\ reported (final r) = true /\
  disk (final r) = [(0, New Raw); (1, New Raw)] /\ store (final r) = [(7, false)].
Proof. vm_compute. repeat split. Qed.

(* non-vacuity: a concrete run with two files and an external in which the formatter fails once during phase B *)
Example format_failure_example :
  let c := {| c_enforce := false; c_fmt := FOk;
              c_files := [{| f_id := 0; f_clean := false; f_import := false; f_exts := [] |};
                          {| f_id := 1; f_clean := true; f_import := true; f_exts := [7] |}] |} in
  let r := write_phase (Some (17, Fail)) c (init c [7] []) in
  nth_error (trace (final r)) 17 = Some SFormat /\ halted r = None /\ reported (final r) = true /\
  disk (final r) = [(0, New Raw); (1, New Raw)] /\ store (final r) = [(7, false)].
Proof. vm_compute. repeat split. Qed.

(* ------------------------------------------------------------------------- temporary files *)
Section Tmp.
Variable flt : option (nat * fkind).
Variable c : config.

Definition Tp {A} (w : world) (r : res A) : Prop := tmp w = [] -> tmp (final r) = [].
Lemma Tp_bind : forall A B (m : res A) (k : A -> world -> res B) w,
  Tp w m -> (forall a w1, m = inl (a, w1) -> Tp w1 (k a w1)) -> Tp w (bind m k).
Proof. intros A B m k w Hm Hk H. destruct m as [[a w1]|[h w1]]; cbn [bind]; [exact (Hk a w1 eq_refl (Hm H))|exact (Hm H)]. Qed.
Lemma Tp_tick : forall s w, Tp w (tick flt s w).
Proof. intros s w H. destruct (tick_spec flt s w) as [[b [E _]]|E]; rewrite E; cbn [final]; exact H. Qed.
Lemma Tp_raising : forall s w, Tp w (raising flt s w).
Proof. intros s w. unfold raising. apply Tp_bind; [apply Tp_tick|]. intros b w1 _ H. destruct b; exact H. Qed.
Lemma Tp_format_call : forall m w, Tp w (format_call flt m w).
Proof. intros m w. unfold format_call. apply Tp_bind; [apply Tp_tick|]. intros b w1 _ H. destruct b; [exact H|destruct m; exact H]. Qed.
Lemma Tp_ret : forall A (a : A) w, Tp w (inl (a, w) : res A).
Proof. intros A a w H. exact H. Qed.
Lemma Tp_new_code : forall f w, Tp w (new_code flt c f w).
Proof.
  intros f w. unfold new_code. apply Tp_bind; [apply Tp_raising|]. intros [] w1 _. apply Tp_bind.
  - destruct (c_enforce c); [apply Tp_ret|]. apply Tp_bind; [apply Tp_format_call|]. intros r w2 _. apply Tp_ret.
  - intros whole w3 _. destruct whole; [|apply Tp_ret]. apply Tp_bind; [apply Tp_format_call|]. intros r w4 _. apply Tp_ret.
Qed.
Lemma Tp_persist_all : forall es w, Tp w (persist_all flt es w).
Proof. induction es as [|e r IH]; intros w; cbn [persist_all]; [apply Tp_ret|]. apply Tp_bind; [apply Tp_raising|]. intros [] w1 _ H. apply IH. exact H. Qed.
Lemma Tp_prepare : forall f w, Tp w (prepare flt c f w).
Proof.
  intros f w. unfold prepare. apply Tp_bind; [apply Tp_new_code|]. intros t w1 _. apply Tp_bind; [apply Tp_tick|]. intros b w2 _.
  destruct b; [intros H; exact H|]. destruct t; try (intros H; exact H);
    (apply Tp_bind; [destruct (f_import f); [apply Tp_raising|apply Tp_ret]|intros [] w3 _; apply Tp_persist_all]).
Qed.
Lemma Tp_each : forall (g : file -> world -> res unit), (forall f w, Tp w (g f w)) -> forall fs w, Tp w (each g fs w).
Proof. intros g Hg fs. induction fs as [|f r IH]; intros w; cbn [each]; [apply Tp_ret|]. apply Tp_bind; [apply Hg|]. intros [] w1 _. apply IH. Qed.

(* inside SourceFile.rewrite a temporary file can only be left behind by an interruption *)
Definition Tq {A} (w : world) (r : res A) : Prop :=
  tmp w = [] -> match r with inr (HCrash _, _) => True | _ => tmp (final r) = [] end.
Lemma Tq_of_Tp : forall A w (r : res A), Tp w r -> Tq w r.
Proof. intros A w r H H0. destruct r as [[a w1]|[[s|s] w1]]; [exact (H H0)|exact I|exact (H H0)]. Qed.
Lemma Tq_rewrite : forall f w, Tq w (rewrite flt c f w).
Proof.
  intros f w H0. unfold rewrite.
  pose proof (Tp_new_code f w H0) as H1. destruct (new_code flt c f w) as [[t w1]|[[s|s] w1]]; cbn [bind final] in *; [|exact I|exact H1].
  pose proof (Tp_raising (SOpenW (f_id f)) w1 H1) as H2.
  destruct (raising flt (SOpenW (f_id f)) w1) as [[[] w2]|[[s|s] w2]]; cbn [bind final] in *; [|exact I|exact H2].
  destruct (tick_spec flt (SWrite (f_id f)) (set_tmp [(f_id f, Trunc)] w2)) as [[b1 [E1 _]]|E1]; rewrite E1; cbn [bind]; [|exact I].
  destruct b1; [reflexivity|].
  match goal with |- context [tick flt (SMode (f_id f)) ?W] => destruct (tick_spec flt (SMode (f_id f)) W) as [[b2 [E2 _]]|E2]; rewrite E2; cbn [bind]; [|exact I] end.
  destruct b2; [reflexivity|].
  match goal with |- context [tick flt (SRename (f_id f)) ?W] => destruct (tick_spec flt (SRename (f_id f)) W) as [[b3 [E3 _]]|E3]; rewrite E3; cbn [bind]; [|exact I] end.
  destruct b3; reflexivity.
Qed.
Lemma Tq_each_rewrite : forall fs w, Tq w (each (rewrite flt c) fs w).
Proof.
  induction fs as [|f r IH]; intros w H0; cbn [each]; [exact H0|].
  pose proof (Tq_rewrite f w H0) as H1. destruct (rewrite flt c f w) as [[[] w1]|[[s|s] w1]]; cbn [bind final] in *; [exact (IH w1 H1)|exact I|exact H1].
Qed.

(* C15: unless the process was interrupted inside SourceFile.rewrite, no temporary file is left behind - failures clean up *)
Theorem tmp_only_after_interruption : forall news olds,
  match halted (write_phase flt c (init c news olds)) with
  | Some (HCrash _) => True
  | _ => tmp (final (write_phase flt c (init c news olds))) = []
  end.
Proof.
  intros news olds. unfold write_phase.
  pose proof (Tp_each (prepare flt c) Tp_prepare (c_files c) (init c news olds) eq_refl) as HA.
  destruct (each (prepare flt c) (c_files c) (init c news olds)) as [[[] wA]|[[s|s] wA]]; cbn [bind halted final] in *; [|exact I|exact HA].
  pose proof (Tq_each_rewrite (c_files c) wA HA) as HB.
  destruct (each (rewrite flt c) (c_files c) wA) as [[[] wB]|[[s|s] wB]]; cbn [bind halted final] in *; [exact HB|exact I|exact HB].
Qed.
End Tmp.
