(* Invariants of the external-storage model (Model/Storage.v), for every history.
   Stdlib only; no axioms.

   I1  content_addressed      history_content_addressed, session_content_addressed (+ step lemmas)
   I1b names_unique, no_both  history_names_unique, history_no_both; persist renames a -new file only
                              when it is the only file of its (data, suffix): persist_never_overwrites.
                              The state "both the -new and the persisted file" is NOT reachable
                              (session_no_both: not even after one session from an arbitrary store).
   I2  persisted_only_with_reference, history_persisted_was_referenced
   I3  new_files_die_at_session_start, new_files_fresh_content, prune_no_new,
       history_new_files_from_last_session
   I4  removed_only_by_trim, removed_by_trim_unreferenced, referenced_persisted_kept,
       history_removed_only_by_trim
   I5  lookup_unique_or_error, lookup_found_iff, lookup_error_iff, read_correct, read_found, read_spec
   I6  no_dangling_reference (premise refs_persisted s ts, ALL approvals), session_refs_persisted,
       history_no_dangling_reference, no_dangling_reference_changed;
       FALSE without the premise: no_dangling_reference_refuted, dangling_kept_without_fix_refuted
   I7  session_idempotent (a_trim a = true: literal equality, from ANY state),
       session_idempotent_entries / _has (all approvals, ANY state: same entries),
       session_idempotent_perm (names_unique s: Permutation);
       literal equality is FALSE without trim, also on reachable states: session_idempotent_no_trim_refuted *)
From Coq Require Import List Bool Arith Lia Permutation.
Import ListNotations.
From V Require Import Model.Storage.

(* ------------------------------------------------------------------ *)
(* 0. Generic list lemmas                                               *)
(* ------------------------------------------------------------------ *)

Lemma fold_left_inv {A B : Type} (P : A -> Prop) (f : A -> B -> A) (l : list B) :
  (forall a b, P a -> P (f a b)) -> forall a, P a -> P (fold_left f l a).
Proof.
  intros Hstep. induction l as [|b l IH]; intros a Ha; simpl; auto.
Qed.

Lemma filter_id {A : Type} (f : A -> bool) (l : list A) :
  (forall x, In x l -> f x = true) -> filter f l = l.
Proof.
  induction l as [|x l IH]; intros Hall; simpl; auto.
  rewrite (Hall x (or_introl eq_refl)). f_equal. apply IH. intros y Hy. apply Hall. now right.
Qed.

Lemma filter_filter_absorb {A : Type} (f g : A -> bool) (l : list A) :
  (forall x, In x l -> f x = true -> g x = true) -> filter f (filter g l) = filter f l.
Proof.
  induction l as [|x l IH]; intros Himp; simpl; auto.
  assert (IH' : filter f (filter g l) = filter f l).
  { apply IH. intros y Hy. apply Himp. now right. }
  destruct (g x) eqn:Eg; simpl.
  - now rewrite IH'.
  - destruct (f x) eqn:Ef.
    + rewrite (Himp x (or_introl eq_refl) Ef) in Eg. discriminate.
    + exact IH'.
Qed.

Lemma filter_singleton {A : Type} (f : A -> bool) (l : list A) (n : A) :
  NoDup l -> In n l -> f n = true -> (forall m, In m l -> f m = true -> m = n) ->
  filter f l = [n].
Proof.
  induction l as [|x l IH]; intros Hnd Hin Hfn Huniq; simpl.
  - contradiction.
  - inversion Hnd as [|x' l' Hnotin Hnd']; subst.
    destruct Hin as [Heq | Hin].
    + subst x. rewrite Hfn. f_equal.
      destruct (filter f l) as [|y r] eqn:Efl; auto.
      assert (Hy : In y (filter f l)) by (rewrite Efl; now left).
      apply filter_In in Hy. destruct Hy as [Hyl Hfy].
      assert (y = n) by (apply Huniq; [now right | assumption]). subst y. contradiction.
    + destruct (f x) eqn:Efx.
      * assert (x = n) by (apply Huniq; [now left | assumption]). subst x. contradiction.
      * apply IH; auto. intros m Hm Hfm. apply Huniq; auto. now right.
Qed.

Lemma NoDup_map_inj_on {A B : Type} (f : A -> B) (l : list A) :
  NoDup l -> (forall x y, In x l -> In y l -> f x = f y -> x = y) -> NoDup (map f l).
Proof.
  induction l as [|x l IH]; intros Hnd Hinj; simpl.
  - constructor.
  - inversion Hnd as [|x' l' Hnotin Hnd']; subst. constructor.
    + intros Hin. apply in_map_iff in Hin. destruct Hin as [y [Hfy Hy]].
      assert (y = x) by (apply Hinj; [now right | now left | assumption]). subst y. contradiction.
    + apply IH; auto. intros y z Hy Hz. apply Hinj; now right.
Qed.

Lemma NoDup_filter' {A : Type} (f : A -> bool) (l : list A) : NoDup l -> NoDup (filter f l).
Proof.
  induction l as [|x l IH]; intros Hnd; simpl.
  - constructor.
  - inversion Hnd as [|x' l' Hnotin Hnd']; subst.
    destruct (f x).
    + constructor; auto. intros Hin. apply filter_In in Hin. tauto.
    + auto.
Qed.

Lemma map_filter_fst {A B : Type} (g : A -> bool) (l : list (A * B)) :
  map fst (filter (fun e => g (fst e)) l) = filter g (map fst l).
Proof.
  induction l as [|x l IH]; simpl; auto.
  destruct (g (fst x)); simpl; now rewrite IH.
Qed.

(* ------------------------------------------------------------------ *)
(* 1. File names: reflection, has, names                                *)
(* ------------------------------------------------------------------ *)

Lemma fname_eqb_eq (a b : fname) : fname_eqb a b = true <-> a = b.
Proof.
  destruct a as [h1 n1 s1], b as [h2 n2 s2]. unfold fname_eqb; simpl.
  rewrite !andb_true_iff, !Nat.eqb_eq, eqb_true_iff. split.
  - intros [[H1 H2] H3]. now subst.
  - intros Heq. injection Heq as H1 H2 H3. auto.
Qed.

Lemma fname_eqb_refl (a : fname) : fname_eqb a a = true.
Proof. now apply fname_eqb_eq. Qed.

Lemma fname_eqb_neq (a b : fname) : fname_eqb a b = false <-> a <> b.
Proof.
  split.
  - intros Hf Heq. apply fname_eqb_eq in Heq. congruence.
  - intros Hne. destruct (fname_eqb a b) eqn:E; auto. apply fname_eqb_eq in E. contradiction.
Qed.

Lemma fname_eq_dec (a b : fname) : {a = b} + {a <> b}.
Proof.
  destruct (fname_eqb a b) eqn:E.
  - left. now apply fname_eqb_eq.
  - right. now apply fname_eqb_neq.
Qed.

Lemma ref_eqb_eq (a b : data * suffix) : ref_eqb a b = true <-> a = b.
Proof.
  destruct a as [a1 a2], b as [b1 b2]. unfold ref_eqb; simpl.
  rewrite andb_true_iff, !Nat.eqb_eq. split.
  - intros [H1 H2]. now subst.
  - intros Heq. injection Heq as H1 H2. auto.
Qed.

Lemma has_In (s : store) (n : fname) : has s n = true <-> In n (names s).
Proof.
  unfold has. rewrite existsb_exists. split.
  - intros [m [Hm Heq]]. apply fname_eqb_eq in Heq. now subst.
  - intros Hin. exists n. split; auto. apply fname_eqb_refl.
Qed.

Lemma has_false_In (s : store) (n : fname) : has s n = false <-> ~ In n (names s).
Proof.
  rewrite <- has_In. destruct (has s n); split; intros; congruence.
Qed.

Lemma names_In (s : store) (n : fname) : In n (names s) <-> exists c, In (n, c) s.
Proof.
  unfold names. rewrite in_map_iff. split.
  - intros [[m c] [Heq Hin]]. simpl in Heq. subst. now exists c.
  - intros [c Hin]. now exists (n, c).
Qed.

Lemma In_names (s : store) (n : fname) (c : data) : In (n, c) s -> In n (names s).
Proof. intros Hin. apply names_In. now exists c. Qed.

Lemma fname_new_shape (n : fname) : fn_new n = true -> n = new_name (fn_hash n) (fn_suf n).
Proof. destruct n as [h b x]; simpl. intros ->. reflexivity. Qed.

Lemma fname_persisted_shape (n : fname) : fn_new n = false -> n = persisted_name (fn_hash n) (fn_suf n).
Proof. destruct n as [h b x]; simpl. intros ->. reflexivity. Qed.

Lemma new_neq_persisted (d d' : data) (x x' : suffix) : new_name d x <> persisted_name d' x'.
Proof. unfold new_name, persisted_name. intros H. discriminate. Qed.

Lemma glob_In (s : store) (d : data) (suf : suffix) (n : fname) :
  In n (glob s d suf) <-> In n (names s) /\ fn_hash n = d /\ fn_suf n = suf.
Proof.
  unfold glob. rewrite filter_In, andb_true_iff, !Nat.eqb_eq. tauto.
Qed.

(* ------------------------------------------------------------------ *)
(* 2. Membership characterisations of the four operations               *)
(* ------------------------------------------------------------------ *)

Lemma prune_In (s : store) (n : fname) (c : data) :
  In (n, c) (prune s) <-> In (n, c) s /\ fn_new n = false.
Proof.
  unfold prune. rewrite filter_In. simpl. rewrite negb_true_iff. tauto.
Qed.

Lemma referenced_In (rs : list (data * suffix)) (n : fname) :
  referenced rs n = true <-> In (fn_hash n, fn_suf n) rs.
Proof.
  unfold referenced. rewrite existsb_exists. split.
  - intros [[d x] [Hin Heq]]. simpl in Heq. apply andb_true_iff in Heq.
    destruct Heq as [H1 H2]. apply Nat.eqb_eq in H1, H2. now subst.
  - intros Hin. exists (fn_hash n, fn_suf n). split; auto. simpl. now rewrite !Nat.eqb_refl.
Qed.

Lemma remove_unused_In (s : store) (rs : list (data * suffix)) (n : fname) (c : data) :
  In (n, c) (remove_unused s rs) <-> In (n, c) s /\ In (fn_hash n, fn_suf n) rs.
Proof.
  unfold remove_unused. rewrite filter_In. simpl. now rewrite referenced_In.
Qed.

Lemma outsource_In (s : store) (d : data) (suf : suffix) (n : fname) (c : data) :
  In (n, c) (outsource s d suf) <->
  (In (persisted_name d suf) (names s) /\ In (n, c) s) \/
  (~ In (persisted_name d suf) (names s) /\
   ((n = new_name d suf /\ c = d) \/ (In (n, c) s /\ n <> new_name d suf))).
Proof.
  unfold outsource. destruct (has s (persisted_name d suf)) eqn:Ehas.
  - apply has_In in Ehas. tauto.
  - apply has_false_In in Ehas. simpl. rewrite filter_In. simpl.
    rewrite negb_true_iff, fname_eqb_neq. split.
    + intros [Heq | [Hin Hne]].
      * injection Heq as H1 H2. subst. tauto.
      * tauto.
    + intros [[Hp _] | [_ [[H1 H2] | [Hin Hne]]]].
      * contradiction.
      * subst. now left.
      * tauto.
Qed.

(* the renaming performed by a successful persist *)
Definition rename (s : store) (d : data) (suf : suffix) : store :=
  map (fun e => if fname_eqb (fst e) (new_name d suf) then (persisted_name d suf, snd e) else e) s.

Lemma persist_cases (s : store) (d : data) (suf : suffix) :
  persist s d suf = s \/
  (glob s d suf = [new_name d suf] /\ persist s d suf = rename s d suf).
Proof.
  unfold persist. destruct (glob s d suf) as [|n [|m r]] eqn:Eg; auto.
  destruct (fn_new n) eqn:En; auto.
  right.
  assert (Hn : In n (glob s d suf)) by (rewrite Eg; now left).
  apply glob_In in Hn. destruct Hn as [_ [Hh Hs]].
  assert (n = new_name d suf) by (rewrite (fname_new_shape n En); now subst).
  subst n. split; reflexivity.
Qed.

Lemma rename_In (s : store) (d : data) (suf : suffix) (n : fname) (c : data) :
  In (n, c) (rename s d suf) <->
  (In (n, c) s /\ n <> new_name d suf) \/ (n = persisted_name d suf /\ In (new_name d suf, c) s).
Proof.
  unfold rename. rewrite in_map_iff. split.
  - intros [[m c'] [Heq Hin]]. simpl in Heq.
    destruct (fname_eqb m (new_name d suf)) eqn:E.
    + apply fname_eqb_eq in E. injection Heq as H1 H2. subst. now right.
    + apply fname_eqb_neq in E. injection Heq as H1 H2. subst. now left.
  - intros [[Hin Hne] | [Heq Hin]].
    + exists (n, c). simpl. apply fname_eqb_neq in Hne. now rewrite Hne.
    + exists (new_name d suf, c). simpl. rewrite fname_eqb_refl. subst. auto.
Qed.

(* consequences for persist, independent of which case applies *)
Lemma persist_In_inv (s : store) (d : data) (suf : suffix) (n : fname) (c : data) :
  In (n, c) (persist s d suf) ->
  In (n, c) s \/ (n = persisted_name d suf /\ In (new_name d suf, c) s).
Proof.
  destruct (persist_cases s d suf) as [-> | [_ ->]]; auto.
  rewrite rename_In. tauto.
Qed.

Lemma persist_keeps_persisted (s : store) (d : data) (suf : suffix) (n : fname) (c : data) :
  In (n, c) s -> fn_new n = false -> In (n, c) (persist s d suf).
Proof.
  intros Hin Hnew. destruct (persist_cases s d suf) as [-> | [_ ->]]; auto.
  apply rename_In. left. split; auto. intros ->. discriminate.
Qed.

Lemma persist_new_inv (s : store) (d : data) (suf : suffix) (n : fname) (c : data) :
  In (n, c) (persist s d suf) -> fn_new n = true -> In (n, c) s.
Proof.
  intros Hin Hnew. apply persist_In_inv in Hin. destruct Hin as [Hin | [-> _]]; auto. discriminate.
Qed.

(* ------------------------------------------------------------------ *)
(* 3. Sessions, unfolded                                                *)
(* ------------------------------------------------------------------ *)

Definition outsource_all (ts : list test) (s : store) : store :=
  fold_left (fun acc t => outsource acc (t_data t) (t_suf t)) ts s.
Definition persist_all (rs : list (data * suffix)) (s : store) : store :=
  fold_left (fun acc r => persist acc (fst r) (snd r)) rs s.

Definition s2_of (s : store) (ts : list test) : store := outsource_all ts (prune s).
Definition s3_of (a : approval) (s : store) (ts : list test) : store :=
  if existsb (test_changed a) ts then persist_all (refs (apply_tests a ts)) (s2_of s ts) else s2_of s ts.

Lemma session_eq (a : approval) (s : store) (ts : list test) :
  session a s ts =
  (if a_trim a then remove_unused (s3_of a s ts) (refs (apply_tests a ts)) else s3_of a s ts,
   apply_tests a ts).
Proof. reflexivity. Qed.

Lemma session_snd (a : approval) (s : store) (ts : list test) :
  snd (session a s ts) = apply_tests a ts.
Proof. reflexivity. Qed.

Lemma session_fst_In (a : approval) (s : store) (ts : list test) (e : fname * data) :
  In e (fst (session a s ts)) -> In e (s3_of a s ts).
Proof.
  rewrite session_eq. simpl. destruct (a_trim a); auto.
  destruct e as [n c]. rewrite remove_unused_In. tauto.
Qed.

Lemma history_ind (P : store * list test -> Prop) :
  P ([], []) -> (forall st x, P st -> P (hstep_run st x)) -> forall h, P (run_history h).
Proof.
  intros H0 Hstep h. unfold run_history. apply fold_left_inv; auto.
Qed.

Lemma run_history_snoc (h : list hstep) (x : hstep) :
  run_history (h ++ [x]) = hstep_run (run_history h) x.
Proof. unfold run_history. now rewrite fold_left_app. Qed.

(* ------------------------------------------------------------------ *)
(* I1. content_addressed                                                *)
(* ------------------------------------------------------------------ *)

Definition content_addressed (s : store) : Prop := forall n d, In (n, d) s -> fn_hash n = d.

Lemma outsource_content_addressed (s : store) (d : data) (suf : suffix) :
  content_addressed s -> content_addressed (outsource s d suf).
Proof.
  intros Hca n c Hin. apply outsource_In in Hin.
  destruct Hin as [[_ Hin] | [_ [[-> ->] | [Hin _]]]]; auto.
Qed.

Lemma prune_content_addressed (s : store) : content_addressed s -> content_addressed (prune s).
Proof. intros Hca n c Hin. apply prune_In in Hin. apply Hca. tauto. Qed.

Lemma persist_content_addressed (s : store) (d : data) (suf : suffix) :
  content_addressed s -> content_addressed (persist s d suf).
Proof.
  intros Hca n c Hin. apply persist_In_inv in Hin.
  destruct Hin as [Hin | [-> Hin]]; auto.
  apply Hca in Hin. exact Hin.
Qed.

Lemma remove_unused_content_addressed (s : store) (rs : list (data * suffix)) :
  content_addressed s -> content_addressed (remove_unused s rs).
Proof. intros Hca n c Hin. apply remove_unused_In in Hin. apply Hca. tauto. Qed.

Lemma outsource_all_content_addressed (ts : list test) (s : store) :
  content_addressed s -> content_addressed (outsource_all ts s).
Proof.
  unfold outsource_all. apply fold_left_inv. intros acc t. apply outsource_content_addressed.
Qed.

Lemma persist_all_content_addressed (rs : list (data * suffix)) (s : store) :
  content_addressed s -> content_addressed (persist_all rs s).
Proof.
  unfold persist_all. apply fold_left_inv. intros acc r. apply persist_content_addressed.
Qed.

Lemma s3_content_addressed (a : approval) (s : store) (ts : list test) :
  content_addressed s -> content_addressed (s3_of a s ts).
Proof.
  intros Hca. unfold s3_of, s2_of.
  assert (H2 : content_addressed (outsource_all ts (prune s))).
  { apply outsource_all_content_addressed, prune_content_addressed, Hca. }
  destruct (existsb (test_changed a) ts); auto.
  now apply persist_all_content_addressed.
Qed.

Theorem session_content_addressed (a : approval) (s : store) (ts : list test) :
  content_addressed s -> content_addressed (fst (session a s ts)).
Proof.
  intros Hca n c Hin. apply session_fst_In in Hin.
  exact (s3_content_addressed a s ts Hca n c Hin).
Qed.

Lemma hstep_store (st : store * list test) (x : hstep) :
  (exists a, x = HSession a /\ hstep_run st x = session a (fst st) (snd st)) \/
  ((forall a, x <> HSession a) /\ fst (hstep_run st x) = fst st).
Proof.
  destruct st as [s ts]. destruct x as [i d | d suf | i | a]; simpl.
  - right. split; [intros a H; discriminate | reflexivity].
  - right. split; [intros a H; discriminate | reflexivity].
  - right. split; [intros a H; discriminate | reflexivity].
  - left. exists a. auto.
Qed.

Theorem history_content_addressed (h : list hstep) : content_addressed (fst (run_history h)).
Proof.
  apply (history_ind (fun st => content_addressed (fst st))).
  - intros n d Hin. contradiction.
  - intros st x Hca. destruct (hstep_store st x) as [[a [_ ->]] | [_ ->]]; auto.
    now apply session_content_addressed.
Qed.

(* ------------------------------------------------------------------ *)
(* I3. new_files_die_at_session_start                                   *)
(* ------------------------------------------------------------------ *)

Theorem prune_no_new (s : store) (n : fname) (d : data) : In (n, d) (prune s) -> fn_new n = false.
Proof. intros Hin. apply prune_In in Hin. tauto. Qed.

Definition outsourced_by (ts : list test) (n : fname) : Prop :=
  exists t, In t ts /\ t_data t = fn_hash n /\ t_suf t = fn_suf n.

Lemma outsource_all_new_inv (ts : list test) :
  forall s n c, In (n, c) (outsource_all ts s) -> fn_new n = true ->
    In (n, c) s \/ (c = fn_hash n /\ outsourced_by ts n).
Proof.
  induction ts as [|t ts IH]; intros s n c Hin Hnew; simpl in Hin; auto.
  apply IH in Hin; auto. destruct Hin as [Hin | [Hc [t' [Ht' Hm]]]].
  - apply outsource_In in Hin.
    destruct Hin as [[_ Hin] | [_ [[-> ->] | [Hin _]]]]; auto.
    right. split; [reflexivity|]. exists t. simpl. auto.
  - right. split; auto. exists t'. split; auto. now right.
Qed.

Lemma persist_all_new_inv (rs : list (data * suffix)) (s : store) (n : fname) (c : data) :
  In (n, c) (persist_all rs s) -> fn_new n = true -> In (n, c) s.
Proof.
  intros Hin Hnew. revert Hin. unfold persist_all.
  apply (fold_left_inv (fun acc => In (n, c) acc -> In (n, c) s)); auto.
  intros acc r Hacc Hin. apply Hacc. eapply persist_new_inv; eauto.
Qed.

Lemma s3_new_inv (a : approval) (s : store) (ts : list test) (n : fname) (c : data) :
  In (n, c) (s3_of a s ts) -> fn_new n = true -> c = fn_hash n /\ outsourced_by ts n.
Proof.
  intros Hin Hnew.
  assert (H2 : In (n, c) (s2_of s ts)).
  { unfold s3_of in Hin. destruct (existsb (test_changed a) ts); auto.
    eapply persist_all_new_inv; eauto. }
  unfold s2_of in H2. apply outsource_all_new_inv in H2; auto.
  destruct H2 as [Hpr | H]; auto.
  apply prune_no_new in Hpr. congruence.
Qed.

Theorem new_files_die_at_session_start (a : approval) (s : store) (ts : list test) (n : fname) (d : data) :
  In (n, d) (fst (session a s ts)) -> fn_new n = true ->
  exists t, In t ts /\ t_data t = fn_hash n /\ t_suf t = fn_suf n.
Proof.
  intros Hin Hnew. apply session_fst_In in Hin. now apply (s3_new_inv a s ts n d).
Qed.

(* ... and its content is the freshly outsourced data, whatever s contained *)
Theorem new_files_fresh_content (a : approval) (s : store) (ts : list test) (n : fname) (d : data) :
  In (n, d) (fst (session a s ts)) -> fn_new n = true -> d = fn_hash n.
Proof.
  intros Hin Hnew. apply session_fst_In in Hin. now apply (s3_new_inv a s ts n d).
Qed.

(* ------------------------------------------------------------------ *)
(* I5. lookup_unique_or_error, read_correct                             *)
(* ------------------------------------------------------------------ *)

Definition matching (s : store) (pre : data -> bool) (suf : suffix) : list fname :=
  filter (fun n => pre (fn_hash n) && Nat.eqb (fn_suf n) suf) (names s).

Lemma matching_In (s : store) (pre : data -> bool) (suf : suffix) (n : fname) :
  In n (matching s pre suf) <-> In n (names s) /\ pre (fn_hash n) = true /\ fn_suf n = suf.
Proof. unfold matching. rewrite filter_In, andb_true_iff, Nat.eqb_eq. tauto. Qed.

Lemma lookup_matching (s : store) (pre : data -> bool) (suf : suffix) :
  lookup s pre suf = match matching s pre suf with [n] => Found n | _ => HashError end.
Proof. reflexivity. Qed.

Theorem lookup_unique_or_error (s : store) (pre : data -> bool) (suf : suffix) (n : fname) :
  lookup s pre suf = Found n ->
  In n (names s) /\ pre (fn_hash n) = true /\ fn_suf n = suf /\
  (forall m, In m (names s) -> pre (fn_hash m) = true -> fn_suf m = suf -> m = n).
Proof.
  rewrite lookup_matching. intros Hl.
  destruct (matching s pre suf) as [|n0 [|m r]] eqn:Em; try discriminate.
  injection Hl as ->.
  assert (Hn : In n (matching s pre suf)) by (rewrite Em; now left).
  apply matching_In in Hn. destruct Hn as [H1 [H2 H3]]. repeat split; auto.
  intros m Hm Hp Hs.
  assert (Hmm : In m (matching s pre suf)) by (apply matching_In; auto).
  rewrite Em in Hmm. destruct Hmm as [-> | []]. reflexivity.
Qed.

(* with unique names the converse holds: a unique matching name is found *)
Theorem lookup_found_iff (s : store) (pre : data -> bool) (suf : suffix) (n : fname) :
  NoDup (names s) ->
  (lookup s pre suf = Found n <->
   In n (names s) /\ pre (fn_hash n) = true /\ fn_suf n = suf /\
   (forall m, In m (names s) -> pre (fn_hash m) = true -> fn_suf m = suf -> m = n)).
Proof.
  intros Hnd. split.
  - apply lookup_unique_or_error.
  - intros [H1 [H2 [H3 H4]]]. rewrite lookup_matching. unfold matching.
    rewrite (filter_singleton _ (names s) n); auto.
    + rewrite H2. simpl. now apply Nat.eqb_eq.
    + intros m Hm Hf. apply andb_true_iff in Hf. destruct Hf as [Hp Hs].
      apply Nat.eqb_eq in Hs. auto.
Qed.

Theorem lookup_error_iff (s : store) (pre : data -> bool) (suf : suffix) :
  lookup s pre suf = HashError <-> length (matching s pre suf) <> 1.
Proof.
  rewrite lookup_matching. destruct (matching s pre suf) as [|n [|m r]]; simpl; split; intros H;
    try reflexivity; try discriminate; try lia.
Qed.

Lemma NoDup_names_functional (s : store) (n : fname) (c c' : data) :
  NoDup (names s) -> In (n, c) s -> In (n, c') s -> c = c'.
Proof.
  induction s as [|[m x] s IH]; intros Hnd H1 H2; simpl in *.
  - contradiction.
  - inversion Hnd as [|m' l' Hnotin Hnd']; subst.
    destruct H1 as [H1 | H1], H2 as [H2 | H2].
    + congruence.
    + injection H1 as -> ->. apply In_names in H2. contradiction.
    + injection H2 as -> ->. apply In_names in H1. contradiction.
    + auto.
Qed.

Lemma NoDup_names_NoDup (s : store) : NoDup (names s) -> NoDup s.
Proof. unfold names. apply NoDup_map_inv. Qed.

Lemma read_Some_In (s : store) (pre : data -> bool) (suf : suffix) (d : data) :
  read s pre suf = Some d -> exists n, lookup s pre suf = Found n /\ In (n, d) s.
Proof.
  unfold read. destruct (lookup s pre suf) as [n|] eqn:El; try discriminate.
  destruct (filter (fun e => fname_eqb (fst e) n) s) as [|[m c] r] eqn:Ef; try discriminate.
  intros Heq. injection Heq as ->.
  assert (Hin : In (m, d) (filter (fun e => fname_eqb (fst e) n) s)) by (rewrite Ef; now left).
  apply filter_In in Hin. destruct Hin as [Hin Heq]. simpl in Heq. apply fname_eqb_eq in Heq. subst m.
  exists n. auto.
Qed.

Theorem read_correct (s : store) (pre : data -> bool) (suf : suffix) (d : data) :
  content_addressed s -> read s pre suf = Some d -> pre d = true.
Proof.
  intros Hca Hr. apply read_Some_In in Hr. destruct Hr as [n [Hl Hin]].
  apply lookup_unique_or_error in Hl. destruct Hl as [_ [Hp _]].
  apply Hca in Hin. now subst d.
Qed.

(* a found name can always be read, and with unique names `read` returns THE content of that file *)
Theorem read_found (s : store) (pre : data -> bool) (suf : suffix) (n : fname) :
  lookup s pre suf = Found n -> exists d, read s pre suf = Some d /\ In (n, d) s.
Proof.
  intros Hl. pose proof (lookup_unique_or_error _ _ _ _ Hl) as [Hin _].
  apply names_In in Hin. destruct Hin as [c Hc].
  unfold read. rewrite Hl.
  destruct (filter (fun e => fname_eqb (fst e) n) s) as [|[m c'] r] eqn:Ef.
  - assert (Hx : In (n, c) (filter (fun e => fname_eqb (fst e) n) s)).
    { apply filter_In. split; auto. simpl. apply fname_eqb_refl. }
    rewrite Ef in Hx. contradiction.
  - exists c'. split; auto.
    assert (Hx : In (m, c') (filter (fun e => fname_eqb (fst e) n) s)) by (rewrite Ef; now left).
    apply filter_In in Hx. destruct Hx as [Hx Heq]. simpl in Heq. apply fname_eqb_eq in Heq. now subst.
Qed.

Theorem read_spec (s : store) (pre : data -> bool) (suf : suffix) (n : fname) (d : data) :
  NoDup (names s) -> lookup s pre suf = Found n -> (read s pre suf = Some d <-> In (n, d) s).
Proof.
  intros Hnd Hl. destruct (read_found _ _ _ _ Hl) as [d' [Hr Hin']]. rewrite Hr. split.
  - intros Heq. injection Heq as ->. exact Hin'.
  - intros Hin. f_equal. eapply NoDup_names_functional; eauto.
Qed.

(* ------------------------------------------------------------------ *)
(* I4. removed_only_by_trim                                             *)
(* ------------------------------------------------------------------ *)

Lemma outsource_keeps_persisted (s : store) (d : data) (suf : suffix) (n : fname) (c : data) :
  In (n, c) s -> fn_new n = false -> In (n, c) (outsource s d suf).
Proof.
  intros Hin Hnew. apply outsource_In.
  destruct (has s (persisted_name d suf)) eqn:Eh.
  - apply has_In in Eh. auto.
  - apply has_false_In in Eh. right. split; auto. right. split; auto. intros ->. discriminate.
Qed.

Lemma outsource_all_keeps_persisted (ts : list test) (s : store) (n : fname) (c : data) :
  In (n, c) s -> fn_new n = false -> In (n, c) (outsource_all ts s).
Proof.
  intros Hin Hnew. unfold outsource_all. apply (fold_left_inv (fun acc => In (n, c) acc)); auto.
  intros acc t Hacc. now apply outsource_keeps_persisted.
Qed.

Lemma persist_all_keeps_persisted (rs : list (data * suffix)) (s : store) (n : fname) (c : data) :
  In (n, c) s -> fn_new n = false -> In (n, c) (persist_all rs s).
Proof.
  intros Hin Hnew. unfold persist_all. apply (fold_left_inv (fun acc => In (n, c) acc)); auto.
  intros acc t Hacc. now apply persist_keeps_persisted.
Qed.

Lemma s3_keeps_persisted (a : approval) (s : store) (ts : list test) (n : fname) (c : data) :
  In (n, c) s -> fn_new n = false -> In (n, c) (s3_of a s ts).
Proof.
  intros Hin Hnew.
  assert (H2 : In (n, c) (s2_of s ts)).
  { unfold s2_of. apply outsource_all_keeps_persisted; auto. apply prune_In. auto. }
  unfold s3_of. destruct (existsb (test_changed a) ts); auto.
  now apply persist_all_keeps_persisted.
Qed.

Theorem removed_only_by_trim (a : approval) (s : store) (ts : list test) :
  a_trim a = false ->
  forall n d, In (n, d) s -> fn_new n = false -> In (n, d) (fst (session a s ts)).
Proof.
  intros Htrim n d Hin Hnew. rewrite session_eq. simpl. rewrite Htrim.
  now apply s3_keeps_persisted.
Qed.

(* whatever the approvals: a persisted file is kept if it is referenced after the session *)
Theorem referenced_persisted_kept (a : approval) (s : store) (ts : list test) (n : fname) (d : data) :
  In (n, d) s -> fn_new n = false ->
  In (fn_hash n, fn_suf n) (refs (snd (session a s ts))) ->
  In (n, d) (fst (session a s ts)).
Proof.
  intros Hin Hnew Href. rewrite session_eq in *. simpl in *.
  pose proof (s3_keeps_persisted a s ts n d Hin Hnew) as H3.
  destruct (a_trim a); auto. apply remove_unused_In. auto.
Qed.

Theorem removed_by_trim_unreferenced (a : approval) (s : store) (ts : list test) (n : fname) (d : data) :
  a_trim a = true ->
  In (n, d) s -> fn_new n = false -> ~ In (n, d) (fst (session a s ts)) ->
  ~ In (fn_hash n, fn_suf n) (refs (snd (session a s ts))).
Proof.
  intros _ Hin Hnew Hgone Href. apply Hgone. now apply referenced_persisted_kept.
Qed.

Corollary removed_by_trim_unreferenced_has (a : approval) (s : store) (ts : list test) (n : fname) :
  a_trim a = true ->
  has s n = true -> fn_new n = false -> has (fst (session a s ts)) n = false ->
  ~ In (fn_hash n, fn_suf n) (refs (snd (session a s ts))).
Proof.
  intros Htrim Hhas Hnew Hgone. apply has_In, names_In in Hhas. destruct Hhas as [c Hc].
  apply (removed_by_trim_unreferenced a s ts n c); auto.
  intros Hin. apply has_false_In in Hgone. apply Hgone. eapply In_names; eauto.
Qed.

(* ------------------------------------------------------------------ *)
(* I2. persisted_only_with_reference                                    *)
(* ------------------------------------------------------------------ *)

Lemma outsource_all_persisted_inv (ts : list test) (s : store) (n : fname) (c : data) :
  In (n, c) (outsource_all ts s) -> fn_new n = false -> In (n, c) s.
Proof.
  intros Hin Hnew. revert Hin. unfold outsource_all.
  apply (fold_left_inv (fun acc => In (n, c) acc -> In (n, c) s)); auto.
  intros acc t Hacc Hin. apply Hacc. apply outsource_In in Hin.
  destruct Hin as [[_ Hin] | [_ [[-> _] | [Hin _]]]]; auto. discriminate.
Qed.

Lemma persist_all_persisted_inv (rs : list (data * suffix)) :
  forall s n c, In (n, c) (persist_all rs s) -> fn_new n = false ->
    In (n, c) s \/ In (fn_hash n, fn_suf n) rs.
Proof.
  induction rs as [|r rs IH]; intros s n c Hin Hnew; simpl in Hin; auto.
  apply IH in Hin; auto. destruct Hin as [Hin | Hin].
  - apply persist_In_inv in Hin. destruct Hin as [Hin | [-> _]]; auto.
    right. left. simpl. now destruct r.
  - right. now right.
Qed.

Lemma session_persisted_inv (a : approval) (s : store) (ts : list test) (n : fname) (c : data) :
  In (n, c) (fst (session a s ts)) -> fn_new n = false ->
  In (n, c) s \/ In (fn_hash n, fn_suf n) (refs (snd (session a s ts))).
Proof.
  intros Hin Hnew. apply session_fst_In in Hin. rewrite session_snd.
  assert (H2 : In (n, c) (s2_of s ts) \/ In (fn_hash n, fn_suf n) (refs (apply_tests a ts))).
  { unfold s3_of in Hin. destruct (existsb (test_changed a) ts); auto.
    now apply persist_all_persisted_inv. }
  destruct H2 as [H2 | H2]; auto. left.
  unfold s2_of in H2. apply outsource_all_persisted_inv in H2; auto.
  apply prune_In in H2. tauto.
Qed.

Theorem persisted_only_with_reference (a : approval) (s : store) (ts : list test) (d : data) (suf : suffix) :
  has (fst (session a s ts)) (persisted_name d suf) = true ->
  has s (persisted_name d suf) = true \/ In (d, suf) (refs (snd (session a s ts))).
Proof.
  intros Hhas. apply has_In, names_In in Hhas. destruct Hhas as [c Hc].
  apply session_persisted_inv in Hc; auto. destruct Hc as [Hc | Hc]; auto.
  left. apply has_In. eapply In_names; eauto.
Qed.

(* histories: every persisted file of the final store became persisted in some session, at the
   end of which the test file referenced it, and it has been there ever since *)
Theorem history_persisted_was_referenced (h : list hstep) (d : data) (suf : suffix) :
  has (fst (run_history h)) (persisted_name d suf) = true ->
  exists h1 a h2,
    h = h1 ++ HSession a :: h2 /\
    has (fst (run_history h1)) (persisted_name d suf) = false /\
    In (d, suf) (refs (snd (run_history (h1 ++ [HSession a])))) /\
    (forall k, has (fst (run_history (h1 ++ HSession a :: firstn k h2))) (persisted_name d suf) = true).
Proof.
  induction h as [|x h IH] using rev_ind; intros Hhas.
  - discriminate.
  - destruct (has (fst (run_history h)) (persisted_name d suf)) eqn:Eprev.
    + destruct (IH eq_refl) as [h1 [a [h2 [Heq [Hbefore [Href Hsince]]]]]].
      exists h1, a, (h2 ++ [x]). repeat split; auto.
      * rewrite Heq, <- app_assoc. reflexivity.
      * intros k. destruct (Nat.le_gt_cases k (length h2)) as [Hle | Hgt].
        -- rewrite firstn_app. replace (k - length h2) with 0 by lia. simpl. rewrite app_nil_r. apply Hsince.
        -- rewrite firstn_all2 by (rewrite app_length; simpl; lia).
           replace (h1 ++ HSession a :: h2 ++ [x]) with (h ++ [x]); auto.
           rewrite Heq, <- app_assoc. reflexivity.
    + rewrite run_history_snoc in Hhas.
      destruct (hstep_store (run_history h) x) as [[a [-> Hrun]] | [_ Hsame]].
      * exists h, a, []. repeat split; auto.
        -- rewrite run_history_snoc, Hrun. rewrite Hrun in Hhas.
           apply persisted_only_with_reference in Hhas. destruct Hhas as [Hhas | Hhas]; auto. congruence.
        -- intros k. rewrite firstn_nil. now rewrite run_history_snoc.
      * rewrite Hsame in Hhas. congruence.
Qed.

(* ------------------------------------------------------------------ *)
(* I1b. names_unique, and never both the -new and the persisted file    *)
(* ------------------------------------------------------------------ *)

Definition names_unique (s : store) : Prop := NoDup (names s).
Definition no_both (s : store) : Prop :=
  forall d suf, In (new_name d suf) (names s) -> In (persisted_name d suf) (names s) -> False.

Lemma prune_names (s : store) : names (prune s) = filter (fun n => negb (fn_new n)) (names s).
Proof. unfold names, prune. apply (map_filter_fst (fun n => negb (fn_new n))). Qed.

Lemma remove_unused_names (s : store) (rs : list (data * suffix)) :
  names (remove_unused s rs) = filter (referenced rs) (names s).
Proof. unfold names, remove_unused. apply (map_filter_fst (referenced rs)). Qed.

Lemma prune_names_unique (s : store) : names_unique s -> names_unique (prune s).
Proof. unfold names_unique. rewrite prune_names. apply NoDup_filter'. Qed.

Lemma remove_unused_names_unique (s : store) (rs : list (data * suffix)) :
  names_unique s -> names_unique (remove_unused s rs).
Proof. unfold names_unique. rewrite remove_unused_names. apply NoDup_filter'. Qed.

Lemma outsource_names_unique (s : store) (d : data) (suf : suffix) :
  names_unique s -> names_unique (outsource s d suf).
Proof.
  unfold names_unique, outsource. intros Hnd. destruct (has s (persisted_name d suf)); auto.
  unfold names in *. simpl.
  rewrite (map_filter_fst (fun n => negb (fname_eqb n (new_name d suf)))).
  constructor.
  - intros Hin. apply filter_In in Hin. destruct Hin as [_ Hne].
    rewrite fname_eqb_refl in Hne. discriminate.
  - now apply NoDup_filter'.
Qed.

Lemma rename_names (s : store) (d : data) (suf : suffix) :
  names (rename s d suf) =
  map (fun n => if fname_eqb n (new_name d suf) then persisted_name d suf else n) (names s).
Proof.
  unfold names, rename. rewrite !map_map. apply map_ext. intros [n c]. simpl.
  now destruct (fname_eqb n (new_name d suf)).
Qed.

Lemma glob_new_only_no_persisted (s : store) (d : data) (suf : suffix) :
  glob s d suf = [new_name d suf] -> ~ In (persisted_name d suf) (names s).
Proof.
  intros Hg Hin.
  assert (Hp : In (persisted_name d suf) (glob s d suf)) by (apply glob_In; simpl; auto).
  rewrite Hg in Hp. destruct Hp as [Hp | []]. discriminate.
Qed.

Lemma persist_names_unique (s : store) (d : data) (suf : suffix) :
  names_unique s -> names_unique (persist s d suf).
Proof.
  unfold names_unique. intros Hnd.
  destruct (persist_cases s d suf) as [-> | [Hg ->]]; auto.
  apply glob_new_only_no_persisted in Hg.
  rewrite rename_names. apply NoDup_map_inj_on; auto.
  intros x y Hx Hy.
  destruct (fname_eqb x (new_name d suf)) eqn:Ex, (fname_eqb y (new_name d suf)) eqn:Ey; intros Heq.
  - apply fname_eqb_eq in Ex, Ey. congruence.
  - subst y. contradiction.
  - subst x. contradiction.
  - assumption.
Qed.

Lemma outsource_all_names_unique (ts : list test) (s : store) :
  names_unique s -> names_unique (outsource_all ts s).
Proof. unfold outsource_all. apply fold_left_inv. intros acc t. apply outsource_names_unique. Qed.

Lemma persist_all_names_unique (rs : list (data * suffix)) (s : store) :
  names_unique s -> names_unique (persist_all rs s).
Proof. unfold persist_all. apply fold_left_inv. intros acc r. apply persist_names_unique. Qed.

Lemma s2_names_unique (s : store) (ts : list test) : names_unique s -> names_unique (s2_of s ts).
Proof. intros H. unfold s2_of. now apply outsource_all_names_unique, prune_names_unique. Qed.

Lemma s3_names_unique (a : approval) (s : store) (ts : list test) :
  names_unique s -> names_unique (s3_of a s ts).
Proof.
  intros H. apply (s2_names_unique s ts) in H. unfold s3_of.
  destruct (existsb (test_changed a) ts); auto. now apply persist_all_names_unique.
Qed.

Theorem session_names_unique (a : approval) (s : store) (ts : list test) :
  names_unique s -> names_unique (fst (session a s ts)).
Proof.
  intros H. apply (s3_names_unique a s ts) in H. rewrite session_eq. simpl.
  destruct (a_trim a); auto. now apply remove_unused_names_unique.
Qed.

Theorem history_names_unique (h : list hstep) : names_unique (fst (run_history h)).
Proof.
  apply (history_ind (fun st => names_unique (fst st))).
  - constructor.
  - intros st x Hnd. destruct (hstep_store st x) as [[a [_ ->]] | [_ ->]]; auto.
    now apply session_names_unique.
Qed.

(* no_both: established by prune (from ANY store), preserved by the rest of the session *)
Lemma prune_no_both (s : store) : no_both (prune s).
Proof.
  intros d suf Hnew _. apply names_In in Hnew. destruct Hnew as [c Hc].
  apply prune_no_new in Hc. discriminate.
Qed.

Lemma outsource_names_In (s : store) (d : data) (suf : suffix) (n : fname) :
  In n (names (outsource s d suf)) <->
  (In (persisted_name d suf) (names s) /\ In n (names s)) \/
  (~ In (persisted_name d suf) (names s) /\ (n = new_name d suf \/ (In n (names s) /\ n <> new_name d suf))).
Proof.
  rewrite names_In. split.
  - intros [c Hc]. apply outsource_In in Hc.
    destruct Hc as [[Hp Hin] | [Hp [[-> _] | [Hin Hne]]]].
    + left. split; auto. eapply In_names; eauto.
    + right. auto.
    + right. split; auto. right. split; auto. eapply In_names; eauto.
  - intros [[Hp Hin] | [Hp [-> | [Hin Hne]]]].
    + apply names_In in Hin. destruct Hin as [c Hc]. exists c. apply outsource_In. auto.
    + exists d. apply outsource_In. right. auto.
    + apply names_In in Hin. destruct Hin as [c Hc]. exists c. apply outsource_In. right. auto.
Qed.

Lemma outsource_persisted_names (s : store) (d : data) (suf : suffix) (n : fname) :
  fn_new n = false -> (In n (names (outsource s d suf)) <-> In n (names s)).
Proof.
  intros Hnew. rewrite outsource_names_In.
  assert (Hne : n <> new_name d suf) by (intros ->; discriminate).
  destruct (has s (persisted_name d suf)) eqn:Eh.
  - apply has_In in Eh. tauto.
  - apply has_false_In in Eh. tauto.
Qed.

Lemma outsource_no_both (s : store) (d : data) (suf : suffix) :
  no_both s -> no_both (outsource s d suf).
Proof.
  intros Hnb d' suf' Hnew Hper.
  apply outsource_persisted_names in Hper; [|reflexivity].
  apply outsource_names_In in Hnew.
  destruct Hnew as [[_ Hnew] | [Hp [Heq | [Hnew _]]]].
  - eapply Hnb; eauto.
  - injection Heq as -> ->. contradiction.
  - eapply Hnb; eauto.
Qed.

Lemma persist_names_In_inv (s : store) (d : data) (suf : suffix) (n : fname) :
  In n (names (persist s d suf)) ->
  In n (names s) \/ (n = persisted_name d suf /\ In (new_name d suf) (names s)).
Proof.
  intros Hin. apply names_In in Hin. destruct Hin as [c Hc]. apply persist_In_inv in Hc.
  destruct Hc as [Hc | [-> Hc]]; [left | right; split; auto]; eapply In_names; eauto.
Qed.

Lemma rename_no_new (s : store) (d : data) (suf : suffix) : ~ In (new_name d suf) (names (rename s d suf)).
Proof.
  intros Hin. apply names_In in Hin. destruct Hin as [c Hc]. apply rename_In in Hc.
  destruct Hc as [[_ Hne] | [Heq _]].
  - now apply Hne.
  - discriminate.
Qed.

Lemma persist_no_both (s : store) (d : data) (suf : suffix) :
  no_both s -> no_both (persist s d suf).
Proof.
  intros Hnb d' suf' Hnew Hper.
  destruct (persist_cases s d suf) as [E | [Hg E]]; rewrite E in *.
  - eapply Hnb; eauto.
  - assert (Hnew' : In (new_name d' suf') (names s)).
    { rewrite <- E in Hnew. apply persist_names_In_inv in Hnew.
      destruct Hnew as [Hnew | [Heq _]]; auto. discriminate. }
    rewrite <- E in Hper. apply persist_names_In_inv in Hper.
    destruct Hper as [Hper | [Heq _]].
    + eapply Hnb; eauto.
    + injection Heq as -> ->. apply (rename_no_new s d suf). exact Hnew.
Qed.

Lemma remove_unused_no_both (s : store) (rs : list (data * suffix)) :
  no_both s -> no_both (remove_unused s rs).
Proof.
  intros Hnb d suf Hnew Hper. rewrite remove_unused_names in *.
  apply filter_In in Hnew, Hper. eapply Hnb; [apply Hnew | apply Hper].
Qed.

Lemma outsource_all_no_both (ts : list test) (s : store) : no_both s -> no_both (outsource_all ts s).
Proof. unfold outsource_all. apply fold_left_inv. intros acc t. apply outsource_no_both. Qed.

Lemma persist_all_no_both (rs : list (data * suffix)) (s : store) : no_both s -> no_both (persist_all rs s).
Proof. unfold persist_all. apply fold_left_inv. intros acc r. apply persist_no_both. Qed.

Lemma s2_no_both (s : store) (ts : list test) : no_both (s2_of s ts).
Proof. unfold s2_of. apply outsource_all_no_both, prune_no_both. Qed.

Lemma s3_no_both (a : approval) (s : store) (ts : list test) : no_both (s3_of a s ts).
Proof.
  pose proof (s2_no_both s ts) as H. unfold s3_of.
  destruct (existsb (test_changed a) ts); auto. now apply persist_all_no_both.
Qed.

(* after ANY session, from ANY store *)
Theorem session_no_both (a : approval) (s : store) (ts : list test) : no_both (fst (session a s ts)).
Proof.
  pose proof (s3_no_both a s ts) as H. rewrite session_eq. simpl.
  destruct (a_trim a); auto. now apply remove_unused_no_both.
Qed.

Theorem history_no_both (h : list hstep) : no_both (fst (run_history h)).
Proof.
  apply (history_ind (fun st => no_both (fst st))).
  - intros d suf Hin. contradiction.
  - intros st x Hnb. destruct (hstep_store st x) as [[a [_ ->]] | [_ ->]]; auto.
    apply session_no_both.
Qed.

(* persist itself can only create a duplicate name from a store that already has one:
   a -new file is renamed only when it is the ONLY file of its (data, suffix) *)
Theorem persist_never_overwrites (s : store) (d : data) (suf : suffix) :
  persist s d suf <> s -> ~ In (persisted_name d suf) (names s).
Proof.
  intros Hne. destruct (persist_cases s d suf) as [E | [Hg _]]; [contradiction|].
  now apply glob_new_only_no_persisted.
Qed.

(* ------------------------------------------------------------------ *)
(* I6. no_dangling_reference                                            *)
(* ------------------------------------------------------------------ *)

Definition refs_persisted (s : store) (ts : list test) : Prop :=
  forall r, In r (refs ts) -> has s (persisted_name (fst r) (snd r)) = true.

Lemma refs_In (ts : list test) (r : data * suffix) :
  In r (refs ts) <-> exists t, In t ts /\ t_ref t = Some r.
Proof.
  unfold refs. rewrite in_flat_map. split.
  - intros [t [Ht Hr]]. exists t. split; auto.
    destruct (t_ref t) as [r'|]; simpl in Hr; [|contradiction].
    destruct Hr as [-> | []]. reflexivity.
  - intros [t [Ht Hr]]. exists t. split; auto. rewrite Hr. now left.
Qed.

Lemma refs_apply_In (a : approval) (ts : list test) (r : data * suffix) :
  In r (refs (apply_tests a ts)) <-> exists t, In t ts /\ new_ref a t = Some r.
Proof.
  rewrite refs_In. unfold apply_tests. split.
  - intros [t' [Ht' Hr]]. apply in_map_iff in Ht'. destruct Ht' as [t [<- Ht]]. simpl in Hr. eauto.
  - intros [t [Ht Hr]].
    exists {| t_data := t_data t; t_suf := t_suf t; t_ref := new_ref a t |}. split; auto.
    apply in_map_iff. eauto.
Qed.

Lemma new_ref_cases (a : approval) (t : test) (r : data * suffix) :
  new_ref a t = Some r ->
  t_ref t = Some r \/ (r = (t_data t, t_suf t) /\ test_changed a t = true).
Proof.
  unfold test_changed, new_ref.
  destruct (t_ref t) as [r0|].
  - destruct (ref_eqb r0 (t_data t, t_suf t)) eqn:Eeq.
    + intros H. injection H as <-. now left.
    + destruct (a_fix a).
      * intros H. injection H as <-. right. split; auto. now rewrite Eeq.
      * intros H. injection H as <-. now left.
  - destruct (a_create a); [|discriminate].
    intros H. injection H as <-. right. split; reflexivity.
Qed.

Definition has_either (s : store) (d : data) (suf : suffix) : Prop :=
  In (new_name d suf) (names s) \/ In (persisted_name d suf) (names s).

Lemma outsource_has_either_self (s : store) (d : data) (suf : suffix) :
  has_either (outsource s d suf) d suf.
Proof.
  unfold has_either. rewrite (outsource_persisted_names s d suf (persisted_name d suf) eq_refl).
  rewrite outsource_names_In.
  destruct (has s (persisted_name d suf)) eqn:Eh.
  - apply has_In in Eh. now right.
  - apply has_false_In in Eh. left. right. split; auto.
Qed.

Lemma outsource_keeps_either (s : store) (d : data) (suf : suffix) (d' : data) (suf' : suffix) :
  has_either s d' suf' -> has_either (outsource s d suf) d' suf'.
Proof.
  unfold has_either. rewrite (outsource_persisted_names s d suf (persisted_name d' suf') eq_refl).
  intros [Hnew | Hper]; auto. left. apply outsource_names_In.
  destruct (has s (persisted_name d suf)) eqn:Eh.
  - apply has_In in Eh. auto.
  - apply has_false_In in Eh. right. split; auto.
    destruct (fname_eq_dec (new_name d' suf') (new_name d suf)); auto.
Qed.

Lemma outsource_all_keeps_either (ts : list test) (s : store) (d : data) (suf : suffix) :
  has_either s d suf -> has_either (outsource_all ts s) d suf.
Proof.
  unfold outsource_all. apply (fold_left_inv (fun acc => has_either acc d suf)).
  intros acc t. apply outsource_keeps_either.
Qed.

Lemma outsource_all_has_either (ts : list test) :
  forall s t, In t ts -> has_either (outsource_all ts s) (t_data t) (t_suf t).
Proof.
  induction ts as [|t0 ts IH]; intros s t Hin; simpl in *.
  - contradiction.
  - destruct Hin as [-> | Hin].
    + apply outsource_all_keeps_either, outsource_has_either_self.
    + now apply IH.
Qed.

Lemma persist_keeps_persisted_names (s : store) (d : data) (suf : suffix) (n : fname) :
  In n (names s) -> fn_new n = false -> In n (names (persist s d suf)).
Proof.
  intros Hin Hnew. apply names_In in Hin. destruct Hin as [c Hc].
  apply (In_names _ n c). now apply persist_keeps_persisted.
Qed.

Lemma persist_keeps_either (s : store) (d : data) (suf : suffix) (d' : data) (suf' : suffix) :
  has_either s d' suf' -> has_either (persist s d suf) d' suf'.
Proof.
  unfold has_either. intros [Hnew | Hper].
  - destruct (persist_cases s d suf) as [-> | [_ ->]]; auto.
    apply names_In in Hnew. destruct Hnew as [c Hc].
    destruct (fname_eq_dec (new_name d' suf') (new_name d suf)) as [Heq | Hne].
    + injection Heq as -> ->. right. apply (In_names _ _ c). apply rename_In. now right.
    + left. apply (In_names _ _ c). apply rename_In. now left.
  - right. now apply persist_keeps_persisted_names.
Qed.

Lemma unique_new_glob (s : store) (d : data) (suf : suffix) :
  names_unique s -> In (new_name d suf) (names s) -> ~ In (persisted_name d suf) (names s) ->
  glob s d suf = [new_name d suf].
Proof.
  intros Hnd Hnew Hper. unfold glob. apply filter_singleton; auto.
  - simpl. now rewrite !Nat.eqb_refl.
  - intros m Hm Hf. apply andb_true_iff in Hf. destruct Hf as [Hh Hs].
    apply Nat.eqb_eq in Hh, Hs. destruct (fn_new m) eqn:En.
    + rewrite (fname_new_shape m En). now subst.
    + exfalso. apply Hper. rewrite (fname_persisted_shape m En) in Hm. now subst.
Qed.

(* what persist needs: a -new file is the only file of its (data, suffix).  Established by prune
   from ANY store (also one with duplicate names), kept by outsource and persist. *)
Definition new_ok (s : store) : Prop :=
  forall d suf, In (new_name d suf) (names s) -> glob s d suf = [new_name d suf].

Lemma names_unique_no_both_new_ok (s : store) : names_unique s -> no_both s -> new_ok s.
Proof.
  intros Hnd Hnb d suf Hnew. apply unique_new_glob; auto. intros Hper. eapply Hnb; eauto.
Qed.

Lemma filter_nil_all {X : Type} (f : X -> bool) (l : list X) :
  (forall x, In x l -> f x = false) -> filter f l = [].
Proof.
  induction l as [|x l IH]; intros Hall; simpl; auto.
  rewrite (Hall x (or_introl eq_refl)). apply IH. intros y Hy. apply Hall. now right.
Qed.

Lemma filter_map_stable {X : Type} (f : X -> bool) (g : X -> X) (l : list X) :
  (forall x, In x l -> g x = x \/ (f x = false /\ f (g x) = false)) -> filter f (map g l) = filter f l.
Proof.
  induction l as [|x l IH]; intros Hall; simpl; auto.
  assert (IH' : filter f (map g l) = filter f l) by (apply IH; intros y Hy; apply Hall; now right).
  destruct (Hall x (or_introl eq_refl)) as [-> | [H1 H2]].
  - now rewrite IH'.
  - now rewrite H1, H2.
Qed.

Lemma prune_new_ok (s : store) : new_ok (prune s).
Proof.
  intros d suf Hnew. apply names_In in Hnew. destruct Hnew as [c Hc].
  apply prune_no_new in Hc. discriminate.
Qed.

Lemma outsource_names (s : store) (d : data) (suf : suffix) :
  has s (persisted_name d suf) = false ->
  names (outsource s d suf) =
  new_name d suf :: filter (fun n => negb (fname_eqb n (new_name d suf))) (names s).
Proof.
  intros Eh. unfold outsource. rewrite Eh. unfold names. simpl.
  now rewrite (map_filter_fst (fun n => negb (fname_eqb n (new_name d suf)))).
Qed.

Lemma outsource_new_ok (s : store) (d : data) (suf : suffix) : new_ok s -> new_ok (outsource s d suf).
Proof.
  intros Hok d' suf' Hin.
  destruct (has s (persisted_name d suf)) eqn:Eh.
  - unfold outsource in *. rewrite Eh in *. auto.
  - unfold glob. rewrite (outsource_names _ _ _ Eh) in *. apply has_false_In in Eh.
    destruct (fname_eq_dec (new_name d' suf') (new_name d suf)) as [Heq | Hne].
    + injection Heq as -> ->. simpl. rewrite !Nat.eqb_refl. simpl. f_equal.
      apply filter_nil_all. intros m Hm. apply filter_In in Hm. destruct Hm as [Hm Hmne].
      apply negb_true_iff, fname_eqb_neq in Hmne.
      destruct (Nat.eqb (fn_hash m) d && Nat.eqb (fn_suf m) suf) eqn:Ematch; auto. exfalso.
      apply andb_true_iff in Ematch. destruct Ematch as [Hh Hs]. apply Nat.eqb_eq in Hh, Hs.
      destruct (fn_new m) eqn:En.
      * apply Hmne. rewrite (fname_new_shape m En). now subst.
      * apply Eh. rewrite (fname_persisted_shape m En) in Hm. now subst.
    + destruct Hin as [Heq | Hin]; [congruence|]. apply filter_In in Hin. destruct Hin as [Hin _].
      assert (Hdiff : Nat.eqb d d' && Nat.eqb suf suf' = false).
      { destruct (Nat.eqb d d' && Nat.eqb suf suf') eqn:E; auto. exfalso.
        apply andb_true_iff in E. destruct E as [Hh Hs]. apply Nat.eqb_eq in Hh, Hs. subst. now apply Hne. }
      simpl. rewrite Hdiff. rewrite filter_filter_absorb.
      * now apply Hok.
      * intros x _ Hx. apply negb_true_iff, fname_eqb_neq. intros ->. simpl in Hx. congruence.
Qed.

Lemma persist_new_ok (s : store) (d : data) (suf : suffix) : new_ok s -> new_ok (persist s d suf).
Proof.
  intros Hok. destruct (persist_cases s d suf) as [-> | [_ ->]]; auto.
  intros d' suf' Hin.
  assert (Hne : new_name d' suf' <> new_name d suf).
  { intros Heq. rewrite Heq in Hin. now apply rename_no_new in Hin. }
  assert (Hin' : In (new_name d' suf') (names s)).
  { apply names_In in Hin. destruct Hin as [c Hc]. apply rename_In in Hc.
    destruct Hc as [[Hc _] | [Heq _]]; [eapply In_names; eauto | discriminate]. }
  unfold glob. rewrite rename_names, filter_map_stable; [now apply Hok|].
  intros x _. destruct (fname_eqb x (new_name d suf)) eqn:E; auto. right.
  apply fname_eqb_eq in E. subst x. simpl.
  assert (Hdiff : Nat.eqb d d' && Nat.eqb suf suf' = false).
  { destruct (Nat.eqb d d' && Nat.eqb suf suf') eqn:E; auto. exfalso.
    apply andb_true_iff in E. destruct E as [Hh Hs]. apply Nat.eqb_eq in Hh, Hs. subst. now apply Hne. }
  auto.
Qed.

Lemma outsource_all_new_ok (ts : list test) (s : store) : new_ok s -> new_ok (outsource_all ts s).
Proof. unfold outsource_all. apply fold_left_inv. intros acc t. apply outsource_new_ok. Qed.

Lemma s2_new_ok (s : store) (ts : list test) : new_ok (s2_of s ts).
Proof. unfold s2_of. apply outsource_all_new_ok, prune_new_ok. Qed.

Lemma persist_success (s : store) (d : data) (suf : suffix) :
  new_ok s -> has_either s d suf -> In (persisted_name d suf) (names (persist s d suf)).
Proof.
  intros Hok [Hnew | Hper].
  - pose proof (Hok d suf Hnew) as Hg.
    unfold persist. rewrite Hg. simpl. fold (rename s d suf).
    apply names_In in Hnew. destruct Hnew as [c Hc].
    apply (In_names _ _ c). apply rename_In. now right.
  - now apply persist_keeps_persisted_names.
Qed.

Lemma persist_all_keeps_persisted_names (rs : list (data * suffix)) (s : store) (n : fname) :
  In n (names s) -> fn_new n = false -> In n (names (persist_all rs s)).
Proof.
  intros Hin Hnew. unfold persist_all. apply (fold_left_inv (fun acc => In n (names acc))); auto.
  intros acc r Hacc. now apply persist_keeps_persisted_names.
Qed.

Lemma persist_all_success (rs : list (data * suffix)) :
  forall s r, new_ok s -> has_either s (fst r) (snd r) -> In r rs ->
    In (persisted_name (fst r) (snd r)) (names (persist_all rs s)).
Proof.
  induction rs as [|r0 rs IH]; intros s r Hok Heither Hin; simpl in *.
  - contradiction.
  - destruct Hin as [-> | Hin].
    + apply persist_all_keeps_persisted_names; [|reflexivity]. now apply persist_success.
    + apply IH; auto.
      * now apply persist_new_ok.
      * now apply persist_keeps_either.
Qed.

(* the heart of I6: a reference of the test file after the session has its persisted file in s3 *)
Lemma s3_refs_persisted (a : approval) (s : store) (ts : list test) (r : data * suffix) :
  refs_persisted s ts ->
  In r (refs (apply_tests a ts)) -> In (persisted_name (fst r) (snd r)) (names (s3_of a s ts)).
Proof.
  intros Hrp Hr. apply refs_apply_In in Hr. destruct Hr as [t [Ht Hnr]].
  destruct (new_ref_cases a t r Hnr) as [Hold | [-> Hch]].
  - assert (Hin : In r (refs ts)) by (apply refs_In; eauto).
    apply Hrp, has_In, names_In in Hin. destruct Hin as [c Hc].
    apply (In_names _ _ c). now apply s3_keeps_persisted.
  - assert (Hchanged : existsb (test_changed a) ts = true) by (apply existsb_exists; eauto).
    unfold s3_of. rewrite Hchanged. apply persist_all_success.
    + apply s2_new_ok.
    + unfold s2_of. simpl. now apply outsource_all_has_either.
    + apply refs_apply_In. eauto.
Qed.

Theorem session_refs_persisted (a : approval) (s : store) (ts : list test) :
  refs_persisted s ts ->
  refs_persisted (fst (session a s ts)) (snd (session a s ts)).
Proof.
  intros Hrp r Hr. rewrite session_snd in Hr.
  pose proof (s3_refs_persisted a s ts r Hrp Hr) as H3.
  apply has_In. rewrite session_eq. simpl. destruct (a_trim a); auto.
  rewrite remove_unused_names. apply filter_In. split; auto.
  apply referenced_In. simpl. now destruct r.
Qed.

(* I6, as asked (create and fix approved), with the premise it needs; in fact it holds for ALL approvals *)
Theorem no_dangling_reference (a : approval) (s : store) (ts : list test) :
  refs_persisted s ts ->
  forall r, In r (refs (snd (session a s ts))) ->
    has (fst (session a s ts)) (persisted_name (fst r) (snd r)) = true.
Proof. intros Hrp. exact (session_refs_persisted a s ts Hrp). Qed.

(* without the premise on the old references: true when create and fix are approved and the
   test file is changed by the session (then every reference is persisted at session finish) *)
Lemma new_ref_create_fix (a : approval) (t : test) :
  a_create a = true -> a_fix a = true -> new_ref a t = Some (t_data t, t_suf t).
Proof.
  intros Hc Hf. unfold new_ref. rewrite Hc, Hf. destruct (t_ref t) as [r|]; auto.
  destruct (ref_eqb r (t_data t, t_suf t)) eqn:E; auto. apply ref_eqb_eq in E. now subst.
Qed.

Theorem no_dangling_reference_changed (a : approval) (s : store) (ts : list test) :
  a_create a = true -> a_fix a = true ->
  existsb (test_changed a) ts = true ->
  forall r, In r (refs (snd (session a s ts))) ->
    has (fst (session a s ts)) (persisted_name (fst r) (snd r)) = true.
Proof.
  intros Hc Hf Hch r Hr. rewrite session_snd in Hr.
  assert (H3 : In (persisted_name (fst r) (snd r)) (names (s3_of a s ts))).
  { pose proof Hr as Hr'. apply refs_apply_In in Hr'. destruct Hr' as [t [Ht Hnr]].
    rewrite (new_ref_create_fix a t Hc Hf) in Hnr. injection Hnr as <-.
    unfold s3_of. rewrite Hch. apply persist_all_success; auto.
    - apply s2_new_ok.
    - unfold s2_of. simpl. now apply outsource_all_has_either. }
  apply has_In. rewrite session_eq. simpl. destruct (a_trim a); auto.
  rewrite remove_unused_names. apply filter_In. split; auto.
  apply referenced_In. simpl. now destruct r.
Qed.

(* refs_persisted is an invariant of every history: edits of the tests do not touch references *)
Lemma refs_set_nth (i : nat) (d : data) :
  forall ts, refs (set_nth i (fun t => {| t_data := d; t_suf := t_suf t; t_ref := t_ref t |}) ts) = refs ts.
Proof.
  induction i as [|i IH]; intros [|t ts]; simpl; auto.
  unfold refs in *. simpl. now rewrite IH.
Qed.

Lemma refs_remove_nth (i : nat) :
  forall ts r, In r (refs (remove_nth i ts)) -> In r (refs ts).
Proof.
  induction i as [|i IH]; intros [|t ts] r Hin; simpl in *; auto.
  - unfold refs in *. simpl. apply in_or_app. now right.
  - unfold refs in *. simpl in *. apply in_app_or in Hin. apply in_or_app.
    destruct Hin as [Hin | Hin]; auto.
Qed.

Lemma refs_add (ts : list test) (d : data) (suf : suffix) :
  refs (ts ++ [{| t_data := d; t_suf := suf; t_ref := None |}]) = refs ts.
Proof. unfold refs. rewrite flat_map_app. simpl. apply app_nil_r. Qed.

Lemma hstep_refs_persisted (st : store * list test) (x : hstep) :
  refs_persisted (fst st) (snd st) ->
  refs_persisted (fst (hstep_run st x)) (snd (hstep_run st x)).
Proof.
  destruct st as [s ts]. simpl. intros Hrp.
  destruct x as [i d | d suf | i | a]; simpl.
  - intros r Hr. rewrite refs_set_nth in Hr. auto.
  - intros r Hr. rewrite refs_add in Hr. auto.
  - intros r Hr. apply refs_remove_nth in Hr. auto.
  - now apply session_refs_persisted.
Qed.

Theorem history_no_dangling_reference (h : list hstep) :
  refs_persisted (fst (run_history h)) (snd (run_history h)).
Proof.
  apply (history_ind (fun st => refs_persisted (fst st) (snd st))).
  - intros r Hr. contradiction.
  - intros st x Hrp. now apply hstep_refs_persisted.
Qed.

(* the statement without a premise on the state is false: a reference that was written by hand
   (or whose storage was deleted) and that matches the outsourced data is "correct", nothing is
   changed, so nothing is persisted; the -new file is even kept by trim (it is referenced) and is
   deleted by prune at the start of the next session *)
Definition all_approved : approval := {| a_create := true; a_fix := true; a_trim := true |}.
Definition dangling_tests : list test := [{| t_data := 1; t_suf := 0; t_ref := Some (1, 0) |}].

Theorem no_dangling_reference_refuted :
  ~ (forall a s ts, a_create a = true -> a_fix a = true ->
       forall r, In r (refs (snd (session a s ts))) ->
         has (fst (session a s ts)) (persisted_name (fst r) (snd r)) = true).
Proof.
  intros H. specialize (H all_approved [] dangling_tests eq_refl eq_refl (1, 0)).
  vm_compute in H. specialize (H (or_introl eq_refl)). discriminate.
Qed.

Example dangling_state_after :
  session all_approved [] dangling_tests = ([(new_name 1 0, 1)], dangling_tests) /\
  fst (session all_approved [(new_name 1 0, 1)] dangling_tests) = [(new_name 1 0, 1)] /\
  prune [(new_name 1 0, 1)] = [].
Proof. vm_compute. auto. Qed.

(* and a dangling reference to OTHER data stays dangling as long as fix is not approved *)
Theorem dangling_kept_without_fix_refuted :
  ~ (forall a s ts, a_create a = true -> a_trim a = true ->
       forall r, In r (refs (snd (session a s ts))) ->
         has (fst (session a s ts)) (persisted_name (fst r) (snd r)) = true).
Proof.
  intros H.
  specialize (H {| a_create := true; a_fix := false; a_trim := true |} []
                [{| t_data := 1; t_suf := 0; t_ref := Some (2, 0) |}] eq_refl eq_refl (2, 0)).
  vm_compute in H. specialize (H (or_introl eq_refl)). discriminate.
Qed.

(* ------------------------------------------------------------------ *)
(* I7. session_idempotent                                               *)
(* ------------------------------------------------------------------ *)

Lemma ref_eqb_refl (r : data * suffix) : ref_eqb r r = true.
Proof. now apply ref_eqb_eq. Qed.

Definition applied (a : approval) (t : test) : test :=
  {| t_data := t_data t; t_suf := t_suf t; t_ref := new_ref a t |}.

Lemma new_ref_idem (a : approval) (t : test) : new_ref a (applied a t) = new_ref a t.
Proof.
  unfold applied, new_ref. simpl.
  destruct (t_ref t) as [r|].
  - destruct (ref_eqb r (t_data t, t_suf t)) eqn:E.
    + now rewrite E.
    + destruct (a_fix a).
      * now rewrite ref_eqb_refl.
      * now rewrite E.
  - destruct (a_create a); auto. now rewrite ref_eqb_refl.
Qed.

Lemma apply_tests_idem (a : approval) (ts : list test) :
  apply_tests a (apply_tests a ts) = apply_tests a ts.
Proof.
  unfold apply_tests. rewrite map_map. apply map_ext. intros t.
  fold (applied a t). change (applied a (applied a t) = applied a t).
  unfold applied at 1. rewrite new_ref_idem. reflexivity.
Qed.

Lemma test_changed_applied (a : approval) (t : test) : test_changed a (applied a t) = false.
Proof.
  unfold test_changed. rewrite new_ref_idem. simpl.
  destruct (new_ref a t) as [r|]; auto. now rewrite ref_eqb_refl.
Qed.

Lemma changed_after_session (a : approval) (ts : list test) :
  existsb (test_changed a) (apply_tests a ts) = false.
Proof.
  destruct (existsb (test_changed a) (apply_tests a ts)) eqn:E; auto.
  apply existsb_exists in E. destruct E as [t' [Ht' Hch]].
  unfold apply_tests in Ht'. apply in_map_iff in Ht'. destruct Ht' as [t [<- _]].
  fold (applied a t) in Hch. now rewrite test_changed_applied in Hch.
Qed.

Lemma s3_after_session (a : approval) (s : store) (ts : list test) :
  s3_of a s (apply_tests a ts) = s2_of s (apply_tests a ts).
Proof. unfold s3_of. now rewrite changed_after_session. Qed.

Lemma remove_unused_outsource (s : store) (rs : list (data * suffix)) (d : data) (suf : suffix) :
  (In (d, suf) rs -> In (persisted_name d suf) (names s)) ->
  remove_unused (outsource s d suf) rs = remove_unused s rs.
Proof.
  intros Himp. unfold outsource. destruct (has s (persisted_name d suf)) eqn:Eh; auto.
  apply has_false_In in Eh.
  assert (Hunref : referenced rs (new_name d suf) = false).
  { destruct (referenced rs (new_name d suf)) eqn:E; auto. apply referenced_In in E. simpl in E. tauto. }
  unfold remove_unused. simpl. rewrite Hunref.
  apply filter_filter_absorb. intros [n c] _ Href. simpl in *.
  apply negb_true_iff, fname_eqb_neq. intros ->. congruence.
Qed.

Lemma remove_unused_outsource_all (rs : list (data * suffix)) (ts : list test) :
  forall s, (forall t, In t ts -> In (t_data t, t_suf t) rs ->
               In (persisted_name (t_data t) (t_suf t)) (names s)) ->
    remove_unused (outsource_all ts s) rs = remove_unused s rs.
Proof.
  induction ts as [|t ts IH]; intros s Hall; simpl; auto.
  rewrite IH.
  - apply remove_unused_outsource. apply Hall. now left.
  - intros t' Ht' Hr. apply outsource_persisted_names; auto. apply Hall; auto. now right.
Qed.

Lemma remove_unused_idem (s : store) (rs : list (data * suffix)) :
  remove_unused (remove_unused s rs) rs = remove_unused s rs.
Proof. unfold remove_unused. apply filter_filter_absorb. auto. Qed.

(* after a trimming session from a good state there is no -new file left *)
Lemma trimmed_session_no_new (a : approval) (s : store) (ts : list test) (n : fname) (c : data) :
  refs_persisted s ts -> a_trim a = true ->
  In (n, c) (fst (session a s ts)) -> fn_new n = false.
Proof.
  intros Hrp Htrim Hin. destruct (fn_new n) eqn:Hnew; auto. exfalso.
  pose proof (session_refs_persisted a s ts Hrp) as Hrp'.
  pose proof (session_no_both a s ts) as Hnb.
  assert (Href : In (fn_hash n, fn_suf n) (refs (snd (session a s ts)))).
  { rewrite session_eq in Hin. simpl in Hin. rewrite Htrim in Hin.
    apply remove_unused_In in Hin. rewrite session_snd. tauto. }
  apply Hrp', has_In in Href. simpl in Href.
  apply (Hnb (fn_hash n) (fn_suf n)); auto.
  rewrite <- (fname_new_shape n Hnew). eapply In_names; eauto.
Qed.

(* outsource only looks at the referenced part of the store, as far as the referenced part of
   its result is concerned *)
Lemma remove_unused_outsource_congr (rs : list (data * suffix)) (s1 s2 : store) (d : data) (suf : suffix) :
  remove_unused s1 rs = remove_unused s2 rs ->
  remove_unused (outsource s1 d suf) rs = remove_unused (outsource s2 d suf) rs.
Proof.
  intros Heq.
  destruct (referenced rs (new_name d suf)) eqn:Eref.
  - assert (Hhas : has s1 (persisted_name d suf) = has s2 (persisted_name d suf)).
    { assert (Hn : forall s, In (persisted_name d suf) (names s) <->
                             In (persisted_name d suf) (names (remove_unused s rs))).
      { intros s. rewrite remove_unused_names, filter_In. unfold referenced in *. simpl in *. tauto. }
      apply eq_true_iff_eq. rewrite !has_In, (Hn s1), (Hn s2), Heq. tauto. }
    unfold outsource. rewrite <- Hhas. destruct (has s1 (persisted_name d suf)); auto.
    unfold remove_unused in *. simpl. rewrite Eref. f_equal.
    set (g := fun e : fname * data => negb (fname_eqb (fst e) (new_name d suf))).
    set (f := fun e : fname * data => referenced rs (fst e)) in *.
    assert (Hcomm : forall l : store, filter f (filter g l) = filter g (filter f l)).
    { induction l as [|x l IH]; simpl; auto.
      destruct (g x) eqn:Eg, (f x) eqn:Ef; simpl; rewrite ?Eg, ?Ef, IH; reflexivity. }
    now rewrite !Hcomm, Heq.
  - assert (Hno : ~ In (d, suf) rs).
    { intros Hin. apply (referenced_In rs (new_name d suf)) in Hin. congruence. }
    rewrite !remove_unused_outsource by (intros Hin; contradiction). exact Heq.
Qed.

Lemma remove_unused_outsource_all_congr (rs : list (data * suffix)) (ts : list test) :
  forall s1 s2, remove_unused s1 rs = remove_unused s2 rs ->
    remove_unused (outsource_all ts s1) rs = remove_unused (outsource_all ts s2) rs.
Proof.
  induction ts as [|t ts IH]; intros s1 s2 Heq; simpl; auto.
  apply IH. now apply remove_unused_outsource_congr.
Qed.

Lemma prune_remove_unused (s : store) (rs : list (data * suffix)) :
  prune (remove_unused s rs) = remove_unused (prune s) rs.
Proof.
  unfold prune, remove_unused. induction s as [|x s IH]; simpl; auto.
  destruct (referenced rs (fst x)) eqn:Er, (negb (fn_new (fst x))) eqn:En; simpl;
    rewrite ?Er, ?En, IH; reflexivity.
Qed.

Lemma prune_outsource (s : store) (d : data) (suf : suffix) : prune (outsource s d suf) = prune s.
Proof.
  unfold outsource. destruct (has s (persisted_name d suf)); auto.
  unfold prune. simpl. apply filter_filter_absorb.
  intros [n c] _ Hn. simpl in *. apply negb_true_iff in Hn.
  apply negb_true_iff, fname_eqb_neq. intros ->. discriminate.
Qed.

Lemma prune_outsource_all (ts : list test) (s : store) : prune (outsource_all ts s) = prune s.
Proof.
  unfold outsource_all. apply (fold_left_inv (fun acc => prune acc = prune s)); auto.
  intros acc t Hacc. now rewrite prune_outsource.
Qed.

Lemma prune_idem (s : store) : prune (prune s) = prune s.
Proof. unfold prune. apply filter_filter_absorb. auto. Qed.

Lemma outsource_all_apply (a : approval) (ts : list test) :
  forall s, outsource_all (apply_tests a ts) s = outsource_all ts s.
Proof. induction ts as [|t ts IH]; intros s; simpl; auto. Qed.

(* when the test file is changed, every reference whose data is outsourced gets its persisted file *)
Lemma s3_changed_persisted (a : approval) (s : store) (ts : list test) (t : test) :
  existsb (test_changed a) ts = true -> In t ts ->
  In (t_data t, t_suf t) (refs (apply_tests a ts)) ->
  In (persisted_name (t_data t) (t_suf t)) (names (s3_of a s ts)).
Proof.
  intros Hch Ht Hr. unfold s3_of. rewrite Hch.
  apply (persist_all_success _ _ (t_data t, t_suf t)); auto.
  - apply s2_new_ok.
  - unfold s2_of. simpl. now apply outsource_all_has_either.
Qed.

(* I7, with trim approved (whatever create and fix, from ANY state): the second session changes
   NOTHING, literally *)
Theorem session_idempotent (a : approval) (s : store) (ts : list test) :
  a_trim a = true ->
  session a (fst (session a s ts)) (snd (session a s ts)) = session a s ts.
Proof.
  intros Htrim. rewrite session_snd.
  rewrite (session_eq a (fst (session a s ts))), apply_tests_idem, Htrim, s3_after_session.
  rewrite (session_eq a s ts), Htrim. simpl fst. f_equal.
  set (R := refs (apply_tests a ts)).
  unfold s2_of. rewrite outsource_all_apply, prune_remove_unused.
  rewrite (remove_unused_outsource_all_congr R ts _ (prune (s3_of a s ts)))
    by apply remove_unused_idem.
  destruct (existsb (test_changed a) ts) eqn:Hch.
  - (* changed: no referenced -new file is left in s3, re-outsourcing adds only unreferenced files *)
    rewrite remove_unused_outsource_all.
    + unfold remove_unused, prune. apply filter_filter_absorb.
      intros [n c] Hin Href. simpl in *. apply negb_true_iff.
      destruct (fn_new n) eqn:Hnew; auto. exfalso.
      apply referenced_In in Href.
      destruct (s3_new_inv a s ts n c Hin Hnew) as [_ [t [Ht [Hd Hs]]]].
      rewrite <- Hd, <- Hs in Href.
      pose proof (s3_changed_persisted a s ts t Hch Ht Href) as Hper. rewrite Hd, Hs in Hper.
      apply (s3_no_both a s ts (fn_hash n) (fn_suf n)); auto.
      rewrite <- (fname_new_shape n Hnew). eapply In_names; eauto.
    + intros t Ht Hr.
      pose proof (s3_changed_persisted a s ts t Hch Ht Hr) as Hper.
      apply names_In in Hper. destruct Hper as [c Hc]. apply (In_names _ _ c). apply prune_In. auto.
  - (* not changed: s3 is the result of outsourcing, and outsourcing again rebuilds it *)
    unfold s3_of. rewrite Hch. unfold s2_of. now rewrite prune_outsource_all, prune_idem.
Qed.

Lemma hstep_session (st : store * list test) (a : approval) :
  hstep_run st (HSession a) = session a (fst st) (snd st).
Proof. now destruct st. Qed.

Corollary history_session_idempotent (h : list hstep) (a : approval) :
  a_trim a = true ->
  run_history (h ++ [HSession a; HSession a]) = run_history (h ++ [HSession a]).
Proof.
  intros Htrim.
  replace (h ++ [HSession a; HSession a]) with ((h ++ [HSession a]) ++ [HSession a])
    by (now rewrite <- app_assoc).
  rewrite (run_history_snoc (h ++ [HSession a])), run_history_snoc, !hstep_session.
  now apply session_idempotent.
Qed.

(* without trim the second session re-creates the surviving -new files in front of the store:
   the two stores are equal only up to the order of the entries *)
Definition A (c f t : bool) : approval := {| a_create := c; a_fix := f; a_trim := t |}.
Definition reorder_history : list hstep := [HAdd 1 0; HSession (A true false false); HEdit 0 2; HAdd 3 0].

Theorem session_idempotent_no_trim_refuted :
  ~ (forall a s ts, names_unique s -> refs_persisted s ts ->
       session a (fst (session a s ts)) (snd (session a s ts)) = session a s ts).
Proof.
  intros H.
  specialize (H (A true false false) (fst (run_history reorder_history)) (snd (run_history reorder_history))
                (history_names_unique _) (history_no_dangling_reference _)).
  vm_compute in H. discriminate.
Qed.

Example reorder_witness :
  run_history (reorder_history ++ [HSession (A true false false)]) =
    ([(persisted_name 3 0, 3); (new_name 2 0, 2); (persisted_name 1 0, 1)],
     [{| t_data := 2; t_suf := 0; t_ref := Some (1, 0) |}; {| t_data := 3; t_suf := 0; t_ref := Some (3, 0) |}]) /\
  run_history (reorder_history ++ [HSession (A true false false); HSession (A true false false)]) =
    ([(new_name 2 0, 2); (persisted_name 3 0, 3); (persisted_name 1 0, 1)],
     [{| t_data := 2; t_suf := 0; t_ref := Some (1, 0) |}; {| t_data := 3; t_suf := 0; t_ref := Some (3, 0) |}]).
Proof. vm_compute. auto. Qed.

Lemma outsourced_by_apply (a : approval) (ts : list test) (n : fname) :
  outsourced_by (apply_tests a ts) n <-> outsourced_by ts n.
Proof.
  unfold outsourced_by, apply_tests. split.
  - intros [t' [Ht' Hm]]. apply in_map_iff in Ht'. destruct Ht' as [t [<- Ht]]. simpl in Hm. eauto.
  - intros [t [Ht Hm]]. exists (applied a t). split; auto. apply in_map_iff. exists t. auto.
Qed.

Lemma outsource_keeps_fresh_new (s : store) (d : data) (suf : suffix) (d' : data) (suf' : suffix) :
  In (new_name d suf, d) s -> In (new_name d suf, d) (outsource s d' suf').
Proof.
  intros Hin. apply outsource_In.
  destruct (has s (persisted_name d' suf')) eqn:Eh.
  - apply has_In in Eh. auto.
  - apply has_false_In in Eh. right. split; auto.
    destruct (fname_eq_dec (new_name d suf) (new_name d' suf')) as [Heq | Hne]; auto.
    injection Heq as -> ->. auto.
Qed.

Lemma outsource_all_keeps_fresh_new (ts : list test) (s : store) (d : data) (suf : suffix) :
  In (new_name d suf, d) s -> In (new_name d suf, d) (outsource_all ts s).
Proof.
  unfold outsource_all. apply (fold_left_inv (fun acc => In (new_name d suf, d) acc)).
  intros acc t. apply outsource_keeps_fresh_new.
Qed.

Lemma outsource_all_persisted_names (ts : list test) (s : store) (n : fname) :
  fn_new n = false -> (In n (names (outsource_all ts s)) <-> In n (names s)).
Proof.
  intros Hnew. unfold outsource_all.
  apply (fold_left_inv (fun acc => In n (names acc) <-> In n (names s))); [|tauto].
  intros acc t Hacc. now rewrite outsource_persisted_names.
Qed.

Lemma outsource_all_creates (ts : list test) :
  forall s t, In t ts -> ~ In (persisted_name (t_data t) (t_suf t)) (names s) ->
    In (new_name (t_data t) (t_suf t), t_data t) (outsource_all ts s).
Proof.
  induction ts as [|t0 ts IH]; intros s t Hin Hnp; simpl in *.
  - contradiction.
  - destruct Hin as [-> | Hin].
    + apply outsource_all_keeps_fresh_new. apply outsource_In. right. auto.
    + apply IH; auto. now rewrite outsource_persisted_names.
Qed.

Lemma persist_all_keeps_either (rs : list (data * suffix)) (s : store) (d : data) (suf : suffix) :
  has_either s d suf -> has_either (persist_all rs s) d suf.
Proof.
  unfold persist_all. apply (fold_left_inv (fun acc => has_either acc d suf)).
  intros acc r. apply persist_keeps_either.
Qed.

Lemma s3_has_either (a : approval) (s : store) (ts : list test) (t : test) :
  In t ts -> has_either (s3_of a s ts) (t_data t) (t_suf t).
Proof.
  intros Ht. pose proof (outsource_all_has_either ts (prune s) t Ht) as H2. fold (s2_of s ts) in H2.
  unfold s3_of. destruct (existsb (test_changed a) ts); auto. now apply persist_all_keeps_either.
Qed.

(* rerunning outsource over the result of a session gives the same entries *)
Lemma reoutsource_same_entries (a : approval) (s : store) (ts : list test) (e : fname * data) :
  In e (outsource_all (apply_tests a ts) (prune (s3_of a s ts))) <-> In e (s3_of a s ts).
Proof.
  destruct e as [n c]. pose proof (s3_no_both a s ts) as Hnb. split; intros Hin.
  - destruct (fn_new n) eqn:Hnew.
    + pose proof Hin as Hin'. apply outsource_all_new_inv in Hin'; auto.
      destruct Hin' as [Hpr | [Hc Hby]]; [apply prune_no_new in Hpr; congruence|].
      apply (proj1 (outsourced_by_apply a ts n)) in Hby. destruct Hby as [t [Ht [Hd Hs]]].
      destruct (s3_has_either a s ts t Ht) as [Hn | Hp]; rewrite Hd, Hs in *.
      * rewrite <- (fname_new_shape n Hnew) in Hn. apply names_In in Hn. destruct Hn as [c' Hc'].
        destruct (s3_new_inv a s ts n c' Hc' Hnew) as [-> _]. now subst.
      * exfalso.
        assert (Hp2 : In (persisted_name (fn_hash n) (fn_suf n))
                        (names (outsource_all (apply_tests a ts) (prune (s3_of a s ts))))).
        { apply outsource_all_persisted_names; auto. apply names_In in Hp. destruct Hp as [c' Hc'].
          apply (In_names _ _ c'). apply prune_In. auto. }
        apply (outsource_all_no_both (apply_tests a ts) _ (prune_no_both (s3_of a s ts))
                 (fn_hash n) (fn_suf n)); auto.
        rewrite <- (fname_new_shape n Hnew). eapply In_names; eauto.
    + apply outsource_all_persisted_inv in Hin; auto. apply prune_In in Hin. tauto.
  - destruct (fn_new n) eqn:Hnew.
    + destruct (s3_new_inv a s ts n c Hin Hnew) as [-> Hby].
      apply (proj2 (outsourced_by_apply a ts n)) in Hby. destruct Hby as [t [Ht [Hd Hs]]].
      rewrite (fname_new_shape n Hnew), <- Hd, <- Hs.
      apply outsource_all_creates; auto. rewrite Hd, Hs.
      intros Hp. apply names_In in Hp. destruct Hp as [c' Hc']. apply prune_In in Hc'.
      apply (Hnb (fn_hash n) (fn_suf n)).
      * rewrite <- (fname_new_shape n Hnew). eapply In_names; eauto.
      * apply (In_names _ _ c'). tauto.
    + apply outsource_all_keeps_persisted; auto. apply prune_In. auto.
Qed.

Theorem session_idempotent_perm_no_trim (a : approval) (s : store) (ts : list test) :
  names_unique s -> a_trim a = false ->
  Permutation (fst (session a (fst (session a s ts)) (snd (session a s ts)))) (fst (session a s ts)) /\
  snd (session a (fst (session a s ts)) (snd (session a s ts))) = snd (session a s ts).
Proof.
  intros Hnd Htrim. split; [|rewrite !session_snd; apply apply_tests_idem].
  rewrite session_snd.
  assert (E1 : fst (session a s ts) = s3_of a s ts) by (rewrite session_eq; simpl; now rewrite Htrim).
  rewrite E1.
  assert (E2 : fst (session a (s3_of a s ts) (apply_tests a ts)) =
               outsource_all (apply_tests a ts) (prune (s3_of a s ts))).
  { rewrite session_eq. simpl. rewrite Htrim, s3_after_session. reflexivity. }
  rewrite E2. apply NoDup_Permutation.
  - apply NoDup_names_NoDup. apply outsource_all_names_unique, prune_names_unique.
    now apply s3_names_unique.
  - apply NoDup_names_NoDup. now apply s3_names_unique.
  - intros e. apply reoutsource_same_entries.
Qed.

(* I7 for all approvals, from ANY state: same tests, and the same entries in the store *)
Theorem session_idempotent_entries (a : approval) (s : store) (ts : list test) :
  (forall e, In e (fst (session a (fst (session a s ts)) (snd (session a s ts)))) <->
             In e (fst (session a s ts))) /\
  snd (session a (fst (session a s ts)) (snd (session a s ts))) = snd (session a s ts).
Proof.
  destruct (a_trim a) eqn:Htrim.
  - rewrite (session_idempotent a s ts Htrim). split; [tauto | reflexivity].
  - split; [|rewrite !session_snd; apply apply_tests_idem].
    intros e. rewrite session_snd.
    assert (E1 : fst (session a s ts) = s3_of a s ts) by (rewrite session_eq; simpl; now rewrite Htrim).
    rewrite E1.
    assert (E2 : fst (session a (s3_of a s ts) (apply_tests a ts)) =
                 outsource_all (apply_tests a ts) (prune (s3_of a s ts))).
    { rewrite session_eq. simpl. rewrite Htrim, s3_after_session. reflexivity. }
    rewrite E2. apply reoutsource_same_entries.
Qed.

Corollary session_idempotent_has (a : approval) (s : store) (ts : list test) (n : fname) :
  has (fst (session a (fst (session a s ts)) (snd (session a s ts)))) n = has (fst (session a s ts)) n.
Proof.
  destruct (session_idempotent_entries a s ts) as [Hent _].
  apply eq_true_iff_eq. rewrite !has_In, !names_In. split; intros [c Hc]; exists c; now apply Hent.
Qed.

(* ... and with unique names the two stores are permutations of each other *)
Theorem session_idempotent_perm (a : approval) (s : store) (ts : list test) :
  names_unique s ->
  Permutation (fst (session a (fst (session a s ts)) (snd (session a s ts)))) (fst (session a s ts)) /\
  snd (session a (fst (session a s ts)) (snd (session a s ts))) = snd (session a s ts).
Proof.
  intros Hnd. destruct (a_trim a) eqn:Htrim.
  - rewrite (session_idempotent a s ts Htrim). split; auto.
  - now apply session_idempotent_perm_no_trim.
Qed.

Corollary history_session_idempotent_perm (h : list hstep) (a : approval) :
  Permutation (fst (run_history (h ++ [HSession a; HSession a]))) (fst (run_history (h ++ [HSession a]))) /\
  snd (run_history (h ++ [HSession a; HSession a])) = snd (run_history (h ++ [HSession a])).
Proof.
  replace (h ++ [HSession a; HSession a]) with ((h ++ [HSession a]) ++ [HSession a])
    by (now rewrite <- app_assoc).
  rewrite (run_history_snoc (h ++ [HSession a])), run_history_snoc, !hstep_session.
  apply session_idempotent_perm. apply history_names_unique.
Qed.

(* ------------------------------------------------------------------ *)
(* I3 and I4 lifted to histories                                        *)
(* ------------------------------------------------------------------ *)

Lemma run_no_session_store (h : list hstep) :
  (forall a, ~ In (HSession a) h) -> forall st, fst (fold_left hstep_run h st) = fst st.
Proof.
  induction h as [|x h IH]; intros Hno st; simpl; auto.
  rewrite IH.
  - destruct (hstep_store st x) as [[a [-> _]] | [_ Hsame]]; auto.
    exfalso. apply (Hno a). now left.
  - intros a Hin. apply (Hno a). now right.
Qed.

(* every -new file of the store was outsourced by a test of the LAST session *)
Theorem history_new_files_from_last_session (h1 : list hstep) (a : approval) (h2 : list hstep) :
  (forall a', ~ In (HSession a') h2) ->
  forall n d, In (n, d) (fst (run_history (h1 ++ HSession a :: h2))) -> fn_new n = true ->
    d = fn_hash n /\
    exists t, In t (snd (run_history h1)) /\ t_data t = fn_hash n /\ t_suf t = fn_suf n.
Proof.
  intros Hno n d Hin Hnew. unfold run_history in Hin. rewrite fold_left_app in Hin. simpl in Hin.
  rewrite run_no_session_store in Hin by assumption.
  fold (run_history h1) in Hin. rewrite hstep_session in Hin. split.
  - eapply new_files_fresh_content; eauto.
  - eapply new_files_die_at_session_start; eauto.
Qed.

Corollary history_without_session_empty (h : list hstep) :
  (forall a, ~ In (HSession a) h) -> fst (run_history h) = [].
Proof. intros Hno. unfold run_history. now rewrite run_no_session_store. Qed.

(* a persisted file disappears only in a session with trim approved, at the end of which the
   test file does not reference it *)
Theorem history_removed_only_by_trim (h : list hstep) (x : hstep) (n : fname) (d : data) :
  In (n, d) (fst (run_history h)) -> fn_new n = false ->
  ~ In (n, d) (fst (run_history (h ++ [x]))) ->
  exists a, x = HSession a /\ a_trim a = true /\
            ~ In (fn_hash n, fn_suf n) (refs (snd (run_history (h ++ [x])))).
Proof.
  rewrite run_history_snoc. intros Hin Hnew Hgone.
  destruct (hstep_store (run_history h) x) as [[a [-> Hrun]] | [_ Hsame]].
  - rewrite Hrun in *. exists a. split; auto.
    destruct (a_trim a) eqn:Htrim.
    + split; auto. eapply removed_by_trim_unreferenced; eauto.
    + exfalso. apply Hgone. now apply removed_only_by_trim.
  - rewrite Hsame in Hgone. contradiction.
Qed.

(* ------------------------------------------------------------------ *)
(* Boolean forms of the premises (decidable, satisfiable)               *)
(* ------------------------------------------------------------------ *)

Fixpoint nodupb (l : list fname) : bool :=
  match l with
  | [] => true
  | x :: r => negb (existsb (fname_eqb x) r) && nodupb r
  end.
Definition names_unique_b (s : store) : bool := nodupb (names s).
Definition refs_persisted_b (s : store) (ts : list test) : bool :=
  forallb (fun r => has s (persisted_name (fst r) (snd r))) (refs ts).
Definition content_addressed_b (s : store) : bool :=
  forallb (fun e => Nat.eqb (fn_hash (fst e)) (snd e)) s.
Definition no_both_b (s : store) : bool :=
  forallb (fun n => negb (fn_new n && has s (persisted_name (fn_hash n) (fn_suf n)))) (names s).

Lemma nodupb_NoDup (l : list fname) : nodupb l = true <-> NoDup l.
Proof.
  induction l as [|x l IH]; simpl.
  - split; [constructor | reflexivity].
  - rewrite andb_true_iff, negb_true_iff, IH. split.
    + intros [Hx Hl]. constructor; auto. intros Hin.
      assert (E : existsb (fname_eqb x) l = true).
      { apply existsb_exists. exists x. split; auto. apply fname_eqb_refl. }
      congruence.
    + intros Hnd. inversion Hnd as [|x' l' Hnotin Hnd']; subst. split; auto.
      destruct (existsb (fname_eqb x) l) eqn:E; auto.
      apply existsb_exists in E. destruct E as [y [Hy Heq]]. apply fname_eqb_eq in Heq. now subst.
Qed.

Lemma names_unique_b_iff (s : store) : names_unique_b s = true <-> names_unique s.
Proof. apply nodupb_NoDup. Qed.

Lemma refs_persisted_b_iff (s : store) (ts : list test) :
  refs_persisted_b s ts = true <-> refs_persisted s ts.
Proof. unfold refs_persisted_b, refs_persisted. now rewrite forallb_forall. Qed.

Lemma content_addressed_b_iff (s : store) : content_addressed_b s = true <-> content_addressed s.
Proof.
  unfold content_addressed_b, content_addressed. rewrite forallb_forall. split.
  - intros H n d Hin. apply Nat.eqb_eq. exact (H (n, d) Hin).
  - intros H [n d] Hin. apply Nat.eqb_eq. simpl. now apply H.
Qed.

(* ------------------------------------------------------------------ *)
(* Examples on a concrete history                                       *)
(* ------------------------------------------------------------------ *)

(* two tests are added, a session with create; the first test is edited, a session with fix;
   the second test is removed, a session with trim *)
Definition hist : list hstep :=
  [HAdd 1 0; HAdd 2 1; HSession (A true false false);
   HEdit 0 3; HSession (A false true false);
   HRemove 1; HSession (A false false true)].

Definition prefixes (h : list hstep) : list (list hstep) := map (fun k => firstn k h) (seq 0 (S (length h))).
(* the states in which a session starts, with the approvals of that session *)
Fixpoint sessions_from (st : store * list test) (h : list hstep) : list (approval * (store * list test)) :=
  match h with
  | [] => []
  | x :: r => match x with HSession a => [(a, st)] | _ => [] end ++ sessions_from (hstep_run st x) r
  end.
Definition sessions_of (h : list hstep) := sessions_from ([], []) h.
Definition all_sessions (h : list hstep) (p : approval -> store -> list test -> bool) : bool :=
  forallb (fun x => p (fst x) (fst (snd x)) (snd (snd x))) (sessions_of h).
Definition entry_eqb (e1 e2 : fname * data) : bool := fname_eqb (fst e1) (fst e2) && Nat.eqb (snd e1) (snd e2).
Definition mem_entry (e : fname * data) (s : store) : bool := existsb (entry_eqb e) s.
Definition mem_ref (r : data * suffix) (rs : list (data * suffix)) : bool := existsb (ref_eqb r) rs.

Example hist_states :
  run_history (firstn 3 hist) =
    ([(persisted_name 2 1, 2); (persisted_name 1 0, 1)],
     [{| t_data := 1; t_suf := 0; t_ref := Some (1, 0) |}; {| t_data := 2; t_suf := 1; t_ref := Some (2, 1) |}]) /\
  run_history (firstn 5 hist) =
    ([(persisted_name 3 0, 3); (persisted_name 2 1, 2); (persisted_name 1 0, 1)],
     [{| t_data := 3; t_suf := 0; t_ref := Some (3, 0) |}; {| t_data := 2; t_suf := 1; t_ref := Some (2, 1) |}]) /\
  run_history hist =
    ([(persisted_name 3 0, 3)], [{| t_data := 3; t_suf := 0; t_ref := Some (3, 0) |}]).
Proof. vm_compute. auto. Qed.

Example hist_sessions : length (sessions_of hist) = 3 /\ length (prefixes hist) = 8.
Proof. vm_compute. auto. Qed.

Example ex_I1_content_addressed :
  forallb (fun h => content_addressed_b (fst (run_history h))) (prefixes hist) = true.
Proof. vm_compute. reflexivity. Qed.

Example ex_I1b_names_unique :
  forallb (fun h => names_unique_b (fst (run_history h)) && no_both_b (fst (run_history h))) (prefixes hist) = true.
Proof. vm_compute. reflexivity. Qed.

Example ex_I2_persisted_only_with_reference :
  all_sessions hist (fun a s ts =>
    let st' := session a s ts in
    forallb (fun n => fn_new n || has s n || mem_ref (fn_hash n, fn_suf n) (refs (snd st'))) (names (fst st'))) = true.
Proof. vm_compute. reflexivity. Qed.

Example ex_I2_history :
  (* (3,0) became persisted in the session at position 4 and was referenced at its end *)
  has (fst (run_history hist)) (persisted_name 3 0) = true /\
  has (fst (run_history (firstn 4 hist))) (persisted_name 3 0) = false /\
  In (3, 0) (refs (snd (run_history (firstn 5 hist)))).
Proof. vm_compute. auto. Qed.

Example ex_I3_new_files_die :
  (* a session without approvals leaves the -new file of the edited test; the next session starts without it *)
  let st := run_history (firstn 4 hist ++ [HSession (A false false false)]) in
  names (fst st) = [new_name 3 0; persisted_name 2 1; persisted_name 1 0] /\
  prune (fst st) = [(persisted_name 2 1, 2); (persisted_name 1 0, 1)] /\
  all_sessions (firstn 4 hist ++ [HSession (A false false false); HEdit 0 4; HSession (A false false false)])
    (fun a s ts => forallb (fun n => negb (fn_new n) ||
                      existsb (fun t => Nat.eqb (t_data t) (fn_hash n) && Nat.eqb (t_suf t) (fn_suf n)) ts)
                     (names (fst (session a s ts)))) = true.
Proof. vm_compute. auto. Qed.

Example ex_I4_removed_only_by_trim :
  all_sessions hist (fun a s ts =>
    let st' := session a s ts in
    forallb (fun e => fn_new (fst e) || mem_entry e (fst st') ||
                      (a_trim a && negb (mem_ref (fn_hash (fst e), fn_suf (fst e)) (refs (snd st'))))) s) = true /\
  (* the last session (trim) removes exactly the two unreferenced files *)
  names (fst (run_history (firstn 6 hist))) = [persisted_name 3 0; persisted_name 2 1; persisted_name 1 0] /\
  names (fst (run_history hist)) = [persisted_name 3 0].
Proof. vm_compute. auto. Qed.

Example ex_I5_lookup_read :
  let s := fst (run_history (firstn 5 hist)) in    (* 3.0, 2.1 and 1.0 are persisted *)
  lookup s (Nat.eqb 3) 0 = Found (persisted_name 3 0) /\ read s (Nat.eqb 3) 0 = Some 3 /\
  lookup s Nat.even 1 = Found (persisted_name 2 1) /\ read s Nat.even 1 = Some 2 /\
  lookup s Nat.odd 0 = HashError /\ read s Nat.odd 0 = None /\         (* ambiguous prefix: 1 and 3 *)
  lookup s (Nat.eqb 2) 0 = HashError /\ read s (Nat.eqb 2) 0 = None /\ (* no match: wrong suffix *)
  length (matching s Nat.odd 0) = 2 /\ length (matching s (Nat.eqb 2) 0) = 0.
Proof. vm_compute. repeat split; reflexivity. Qed.

Example ex_I6_no_dangling_reference :
  forallb (fun h => refs_persisted_b (fst (run_history h)) (snd (run_history h))) (prefixes hist) = true.
Proof. vm_compute. reflexivity. Qed.

Example ex_I7_session_idempotent :
  all_sessions hist (fun a s ts =>
    let st1 := session a s ts in
    let st2 := session a (fst st1) (snd st1) in
    (Nat.eqb (length (fst st1)) (length (fst st2))) &&
    forallb (fun e => mem_entry e (fst st2)) (fst st1) &&
    (negb (a_trim a) || forallb (fun p => entry_eqb (fst p) (snd p)) (combine (fst st1) (fst st2)))) = true /\
  run_history (hist ++ [HSession all_approved; HSession all_approved]) = run_history (hist ++ [HSession all_approved]).
Proof. vm_compute. auto. Qed.

(* ------------------------------------------------------------------ *)
Print Assumptions history_content_addressed.
Print Assumptions session_content_addressed.
Print Assumptions history_names_unique.
Print Assumptions history_no_both.
Print Assumptions persist_never_overwrites.
Print Assumptions persisted_only_with_reference.
Print Assumptions history_persisted_was_referenced.
Print Assumptions new_files_die_at_session_start.
Print Assumptions new_files_fresh_content.
Print Assumptions prune_no_new.
Print Assumptions history_new_files_from_last_session.
Print Assumptions history_removed_only_by_trim.
Print Assumptions removed_only_by_trim.
Print Assumptions removed_by_trim_unreferenced.
Print Assumptions removed_by_trim_unreferenced_has.
Print Assumptions referenced_persisted_kept.
Print Assumptions lookup_unique_or_error.
Print Assumptions lookup_found_iff.
Print Assumptions lookup_error_iff.
Print Assumptions read_correct.
Print Assumptions read_found.
Print Assumptions read_spec.
Print Assumptions no_dangling_reference.
Print Assumptions no_dangling_reference_changed.
Print Assumptions session_refs_persisted.
Print Assumptions history_no_dangling_reference.
Print Assumptions no_dangling_reference_refuted.
Print Assumptions dangling_kept_without_fix_refuted.
Print Assumptions session_idempotent.
Print Assumptions history_session_idempotent.
Print Assumptions session_idempotent_no_trim_refuted.
Print Assumptions session_idempotent_perm_no_trim.
Print Assumptions session_idempotent_entries.
Print Assumptions session_idempotent_perm.
Print Assumptions session_idempotent_has.
Print Assumptions history_session_idempotent_perm.
