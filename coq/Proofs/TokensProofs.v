(* Theorems about Model/Tokens.v: the code written for a value is a fixpoint of the `update` decision (C08),
   and "no update pending" means the same tokens up to quote style, implicit concatenation and trailing commas (C05). *)
From Coq Require Import List NArith Arith Bool Lia.
Import ListNotations.
From V Require Import Model.StrLit Model.Tokens Proofs.StrLitRepr Proofs.StrLitBytes Proofs.StrLitTriple.
Open Scope N_scope.

Lemma str_eqb_refl s : str_eqb s s = true.
Proof. induction s as [|c s IH]; [reflexivity|]. cbn [str_eqb]. rewrite N.eqb_refl. exact IH. Qed.

Lemma str_eqb_eq : forall a b, str_eqb a b = true -> a = b.
Proof. induction a as [|x a IH]; intros [|y b] H; try discriminate; [reflexivity|].
  cbn [str_eqb] in H. apply andb_true_iff in H. destruct H as [H1 H2]. apply N.eqb_eq in H1. subst. f_equal. apply IH; exact H2. Qed.

Lemma sval_eqb_refl v : sval_eqb v v = true.
Proof. destruct v as [b s]. cbn [sval_eqb]. rewrite eqb_reflx, str_eqb_refl. reflexivity. Qed.

Lemma sval_eqb_eq a b : sval_eqb a b = true -> a = b.
Proof. destruct a as [x s], b as [y t]. cbn [sval_eqb]. intros H. apply andb_true_iff in H. destruct H as [H1 H2].
  apply eqb_prop in H1. apply str_eqb_eq in H2. subst. reflexivity. Qed.

(* a token that starts with a quote or with b + quote has no f-string prefix *)
Lemma q1_no_fprefix s : starts_any q1 s = true -> has_fprefix s = false.
Proof. destruct s as [|c s]; [discriminate|]. unfold starts_any, q1, has_fprefix, fprefixes. cbn [existsb prefixb].
  intros H.
  destruct (N.eqb_spec 39 c) as [<-|N1]; [reflexivity|].
  destruct (N.eqb_spec 34 c) as [<-|N2]; [reflexivity|].
  destruct (N.eqb_spec 98 c) as [<-|N3]; [reflexivity|].
  cbn in H. discriminate. Qed.

Section P.
Variable printable : cp -> bool.

(* a simple string token that is the repr of its own value: what code_repr writes for a str / bytes value on one line *)
Definition self_repr (t : tok) : Prop :=
  is_simple_string t = true /\ exists v, lit_eval (tx t) = Some v /\ repr_sval printable v = tx t.
(* any other token of the written code: not merged by normalize_strings, equal to itself for simple_token.__eq__
   (names, numbers, operators; triple-quoted strings the lexer model reads) *)
Definition other_tok (t : tok) : Prop := is_simple_string t = false /\ tok_eqb t t = Some true.
Definition canon_tok (t : tok) : Prop := self_repr t \/ other_tok t.

Fixpoint no_adjacent (ts : list tok) : Prop :=
  match ts with
  | a :: r => match r with
              | b :: _ => (is_simple_string a = true -> is_simple_string b = false) /\ no_adjacent r
              | [] => True
              end
  | [] => True
  end.
Definition wf_canon (ts : list tok) : Prop := Forall canon_tok ts /\ no_adjacent ts.

(* no comma directly in front of a closing bracket *)
Fixpoint no_tc (ts : list tok) : Prop :=
  match ts with
  | a :: r => match r with
              | b :: _ => is_comma (tx a) && is_closer (tx b) = false /\ no_tc r
              | [] => True
              end
  | [] => True
  end.

Definition head_not_simple (ts : list tok) : Prop :=
  match ts with t :: _ => is_simple_string t = false | [] => True end.

Lemma simple_ty t : is_simple_string t = true -> ty t = 3.
Proof. unfold is_simple_string. intros H. apply andb_true_iff in H. destruct H as [H _]. apply andb_true_iff in H. destruct H as [H _].
  apply N.eqb_eq in H. exact H. Qed.

Lemma norm_strings_canon_gen : forall ts, wf_canon ts ->
  norm_strings printable None ts = Some ts
  /\ (forall v, head_not_simple ts -> norm_strings printable (Some v) ts = Some (Tok 3 (repr_sval printable v) :: ts)).
Proof. induction ts as [|t r IH]; intros [Hf Ha].
  - split; [reflexivity|]. intros v _. reflexivity.
  - inversion Hf as [|t' r' Ht Hr]; subst.
    assert (Hwr : wf_canon r). { split; [exact Hr|]. destruct r as [|b r0]; [exact I|]. destruct Ha as [_ Ha]. exact Ha. }
    destruct (IH Hwr) as [IH1 IH2].
    destruct (is_simple_string t) eqn:Es.
    + split.
      * destruct Ht as [[_ [v [Hv Hrep]]] | [Hns _]]; [|congruence].
        cbn [norm_strings]. rewrite Es, Hv.
        assert (Hh : head_not_simple r). { destruct r as [|b r0]; [exact I|]. destruct Ha as [Ha _]. cbn. apply Ha. exact Es. }
        rewrite (IH2 v Hh). rewrite Hrep. pose proof (simple_ty t Es) as Hty. destruct t as [k s]. cbn in *. subst k. reflexivity.
      * intros v Hh. cbn in Hh. congruence.
    + split.
      * cbn [norm_strings]. rewrite Es, IH1. reflexivity.
      * intros v _. cbn [norm_strings]. rewrite Es, IH1. reflexivity.
Qed.

Theorem norm_strings_canon ts : wf_canon ts -> norm_strings printable None ts = Some ts.
Proof. intros H. exact (proj1 (norm_strings_canon_gen ts H)). Qed.

Lemma skip_tc_id : forall ts, no_tc ts -> skip_tc ts = ts.
Proof. induction ts as [|a r IH]; intros H; [reflexivity|].
  destruct r as [|b r0]; [reflexivity|]. destruct H as [H1 H2].
  change (skip_tc (a :: b :: r0)) with (if is_comma (tx a) && is_closer (tx b) then skip_tc (b :: r0) else a :: skip_tc (b :: r0)).
  rewrite H1. rewrite (IH H2). reflexivity. Qed.

Lemma skip_tc_Forall (P : tok -> Prop) : forall ts, Forall P ts -> Forall P (skip_tc ts).
Proof. induction ts as [|a r IH]; intros H; [constructor|].
  inversion H as [|a' r' Ha Hr]; subst. destruct r as [|b r0]; [exact H|].
  change (skip_tc (a :: b :: r0)) with (if is_comma (tx a) && is_closer (tx b) then skip_tc (b :: r0) else a :: skip_tc (b :: r0)).
  destruct (is_comma (tx a) && is_closer (tx b)); [apply IH; exact Hr|]. constructor; [exact Ha | apply IH; exact Hr]. Qed.

Lemma tok_eqb_refl_canon t : canon_tok t -> tok_eqb t t = Some true.
Proof. intros [[Hs [v [Hv _]]] | [_ H]]; [|exact H].
  unfold tok_eqb. rewrite (simple_ty t Hs). cbn [N.eqb Pos.eqb andb].
  assert (Hq : starts_any q1 (tx t) = true).
  { unfold is_simple_string in Hs. apply andb_true_iff in Hs. destruct Hs as [_ Hs]. exact Hs. }
  rewrite (q1_no_fprefix _ Hq). cbn [orb]. rewrite Hv. rewrite sval_eqb_refl, str_eqb_refl. reflexivity. Qed.

Lemma toks_eqb_same_refl : forall ts, Forall (fun t => tok_eqb t t = Some true) ts -> toks_eqb_same ts ts = Some true.
Proof. induction ts as [|t r IH]; intros H; [reflexivity|]. inversion H as [|t' r' Ht Hr]; subst.
  cbn [toks_eqb_same]. rewrite Ht. apply IH; exact Hr. Qed.

Lemma toks_eqb_refl ts : Forall (fun t => tok_eqb t t = Some true) ts -> toks_eqb ts ts = Some true.
Proof. intros H. unfold toks_eqb. rewrite Nat.eqb_refl. apply toks_eqb_same_refl; exact H. Qed.

Lemma canon_refl ts : Forall canon_tok ts -> Forall (fun t => tok_eqb t t = Some true) ts.
Proof. intros H. eapply Forall_impl; [|exact H]. intros t Ht. apply tok_eqb_refl_canon; exact Ht. Qed.

(* C08: ValueAdapter / UndecidedValue - the written code is not reported again, provided it holds no `,)` *)
Theorem update_fixpoint_leaf c : wf_canon c -> no_tc c -> needs_update_leaf printable c c = Some false.
Proof. intros Hw Htc. unfold needs_update_leaf, normalize. rewrite (norm_strings_canon c Hw). cbn [option_map obind].
  rewrite (skip_tc_id c Htc). rewrite toks_eqb_refl; [reflexivity|]. apply canon_refl. exact (proj1 Hw). Qed.

(* C08: MinMaxValue / CollectionValue compare with normalize(value tokens): no side condition *)
Theorem update_fixpoint_norm c : wf_canon c -> needs_update_norm printable c c = Some false.
Proof. intros Hw. unfold needs_update_norm, normalize. rewrite (norm_strings_canon c Hw). cbn [option_map obind].
  rewrite toks_eqb_refl; [reflexivity|]. apply skip_tc_Forall. apply canon_refl. exact (proj1 Hw). Qed.

(* tokens the comparison accepts denote the same thing *)
Lemma tok_eqb_denot a b : tok_eqb a b = Some true -> denot a = denot b.
Proof. unfold tok_eqb, denot. destruct (ty a =? 3) eqn:Ea, (ty b =? 3) eqn:Eb; cbn [andb].
  - destruct (has_fprefix (tx a) || has_fprefix (tx b)); [discriminate|].
    destruct (lit_eval (tx a)) as [x|]; [|discriminate]. destruct (lit_eval (tx b)) as [y|]; [|discriminate].
    intros H. inversion H as [H1]. apply andb_true_iff in H1. destruct H1 as [H1 _]. apply sval_eqb_eq in H1. subst. reflexivity.
  - intros H. inversion H as [H1]. apply andb_true_iff in H1. destruct H1 as [H1 _]. apply N.eqb_eq in H1. rewrite H1 in Ea. congruence.
  - intros H. inversion H as [H1]. apply andb_true_iff in H1. destruct H1 as [H1 _]. apply N.eqb_eq in H1. rewrite H1 in Ea. congruence.
  - intros H. inversion H as [H1]. apply andb_true_iff in H1. destruct H1 as [H1 H2]. apply N.eqb_eq in H1. apply str_eqb_eq in H2.
    rewrite H1, H2. reflexivity. Qed.

Lemma toks_eqb_same_denot : forall a b, toks_eqb_same a b = Some true -> map denot a = map denot b.
Proof. induction a as [|x a IH]; intros [|y b] H; try discriminate; [reflexivity|].
  cbn [toks_eqb_same] in H. destruct (tok_eqb x y) as [[|]|] eqn:E; try discriminate.
  cbn [map]. rewrite (tok_eqb_denot x y E). f_equal. apply IH; exact H. Qed.

Theorem toks_eqb_sound a b : toks_eqb a b = Some true -> map denot a = map denot b.
Proof. unfold toks_eqb. destruct (Nat.eqb (length a) (length b)); [apply toks_eqb_same_denot | discriminate]. Qed.

(* C05: when no update is reported, the node and the canonical code are the same token sequence up to what normalize removes
   (implicit concatenation, trailing commas) and up to the quote style of strings *)
Theorem no_update_same_denotation node canon :
  needs_update_norm printable node canon = Some false ->
  exists n c, normalize printable node = Some n /\ normalize printable canon = Some c /\ map denot n = map denot c.
Proof. unfold needs_update_norm. destruct (normalize printable node) as [n|]; [|discriminate].
  destruct (normalize printable canon) as [c|]; [|discriminate]. cbn [obind].
  destruct (toks_eqb n c) as [[|]|] eqn:E; try discriminate. intros _.
  exists n, c. repeat split. apply toks_eqb_sound; exact E. Qed.

Theorem no_update_same_denotation_leaf node canon :
  needs_update_leaf printable node canon = Some false ->
  exists n, normalize printable node = Some n /\ map denot n = map denot canon.
Proof. unfold needs_update_leaf. destruct (normalize printable node) as [n|]; [|discriminate]. cbn [obind].
  destruct (toks_eqb n canon) as [[|]|] eqn:E; try discriminate. intros _.
  exists n. split; [reflexivity|]. apply toks_eqb_sound; exact E. Qed.

(* implicit concatenation: two simple strings side by side become the repr of the concatenated value *)
Theorem norm_strings_concat a b (f : bool) (va vb : str) :
  is_simple_string a = true -> is_simple_string b = true ->
  lit_eval (tx a) = Some (SV f va) -> lit_eval (tx b) = Some (SV f vb) ->
  norm_strings printable None [a; b] = Some [Tok 3 (repr_sval printable (SV f (va ++ vb)))].
Proof. intros Ha Hb Ea Eb. cbn [norm_strings]. rewrite Ha, Ea, Hb, Eb. cbn [concat_sval]. rewrite eqb_reflx. reflexivity. Qed.

(* the canonical string tokens meet the premise: repr(str), repr(bytes) *)
Lemma repr_char_hd q c : (q = 39 \/ q = 34) -> exists x t, repr_char printable q c = x :: t /\ x <> q.
Proof. intros Hq. unfold repr_char.
  destruct ((c =? q) || (c =? 92)) eqn:E1.
  { exists 92, [c]. split; [reflexivity|]. destruct Hq; subst; discriminate. }
  apply orb_false_elim in E1. destruct E1 as [Eq _]. apply N.eqb_neq in Eq.
  repeat match goal with |- context [if ?b then _ else _] => destruct b end;
  (eexists; eexists; split; [reflexivity|]; first [exact Eq | destruct Hq; subst; discriminate]).
Qed.

Lemma brepr_char_hd q c : (q = 39 \/ q = 34) -> exists x t, brepr_char q c = x :: t /\ x <> q.
Proof. intros Hq. unfold brepr_char.
  destruct ((c =? q) || (c =? 92)) eqn:E1.
  { exists 92, [c]. split; [reflexivity|]. destruct Hq; subst; discriminate. }
  apply orb_false_elim in E1. destruct E1 as [Eq _]. apply N.eqb_neq in Eq.
  repeat match goal with |- context [if ?b then _ else _] => destruct b end;
  (eexists; eexists; split; [reflexivity|]; first [exact Eq | destruct Hq; subst; discriminate]).
Qed.

(* body ++ [q] never starts with q q when the body's first character is not q *)
Lemma body_not_qq (f : cp -> str) q : (forall c, exists x t, f c = x :: t /\ x <> q) ->
  forall s, prefixb [q; q] (concat (map f s) ++ [q]) = false.
Proof. intros Hf [|c s]; [cbn; rewrite N.eqb_refl; reflexivity|].
  cbn [map concat]. destruct (Hf c) as [x [t [E Hx]]]. rewrite E. cbn [app prefixb].
  destruct (N.eqb_spec q x) as [->|_]; [congruence|reflexivity]. Qed.

Lemma py_repr_simple s : is_simple_string (Tok 3 (py_repr printable s)) = true.
Proof. unfold is_simple_string, py_repr. cbn [ty tx]. set (q := pick_q s). pose proof (pick_q_cases s) as Hq. fold q in Hq.
  pose proof (body_not_qq (repr_char printable q) q (fun c => repr_char_hd q c Hq) s) as Hb.
  cbn [app]. unfold starts_any, q3s, q1. cbn [existsb]. cbn [prefixb] in *.
  destruct Hq as [E | E]; rewrite E in *; cbn [N.eqb Pos.eqb andb orb negb] in *; rewrite ?Hb; reflexivity. Qed.

Lemma bytes_repr_simple s : is_simple_string (Tok 3 (bytes_repr s)) = true.
Proof. unfold is_simple_string, bytes_repr. cbn [ty tx]. set (q := pick_q s). pose proof (pick_q_cases s) as Hq. fold q in Hq.
  pose proof (body_not_qq (brepr_char q) q (fun c => brepr_char_hd q c Hq) s) as Hb.
  cbn [app]. unfold starts_any, q3s, q1. cbn [existsb]. cbn [prefixb] in *.
  destruct Hq as [E | E]; rewrite E in *; cbn [N.eqb Pos.eqb andb orb negb] in *; rewrite ?Hb; reflexivity. Qed.

Theorem py_repr_self_repr s : Forall (fun c => c <= 1114111) s -> self_repr (Tok 3 (py_repr printable s)).
Proof. intros Hs. split; [apply py_repr_simple|]. exists (SV false s). cbn [tx repr_sval]. split; [|reflexivity].
  unfold lit_eval. pose proof (py_repr_roundtrip printable s Hs) as R.
  unfold py_repr in *. set (q := pick_q s) in *. pose proof (pick_q_cases s) as Hq. fold q in Hq. cbn [app] in *.
  destruct Hq as [E | E]; rewrite E in *; rewrite R; reflexivity. Qed.

Theorem bytes_repr_self_repr s : Forall (fun c => c < 256) s -> self_repr (Tok 3 (bytes_repr s)).
Proof. intros Hs. split; [apply bytes_repr_simple|]. exists (SV true s). cbn [tx repr_sval]. split; [|reflexivity].
  unfold lit_eval. pose proof (bytes_repr_roundtrip s Hs) as R. unfold bytes_repr in *. cbn [app] in *. rewrite R. reflexivity. Qed.

(* a triple-quoted token the lexer model reads is a token of the second kind: not merged, equal to itself *)
Lemma quoted3_other t q rest v : (q = 39 \/ q = 34) -> t = q3 q ++ rest -> decode_literal t = Done v [] -> other_tok (Tok 3 t).
Proof. intros Hq -> Hd. unfold other_tok.
  destruct Hq as [-> | ->]; (split; [reflexivity|]);
  unfold tok_eqb; cbn [ty tx]; unfold lit_eval; cbn [q3 app] in *; rewrite Hd; cbn [done];
  rewrite sval_eqb_refl, str_eqb_refl; reflexivity. Qed.

Lemma triple_quote_starts s : exists q rest, (q = 39 \/ q = 34) /\ triple_quote printable true s = q3 q ++ rest.
Proof. rewrite triple_quote_eq_atoms. unfold triple_quote_a, triple_atoms.
  destruct (choose_q_spec printable (extra_of s) s (possible_exists printable s)) as [Hq _].
  eexists; eexists; split; [exact Hq | reflexivity]. Qed.

(* every token value_to_token writes for a str value - one line or triple quoted (map_string) - meets the premise of the fixpoint theorems *)
Theorem str_literal_canon s : Forall (fun c => c <= 1114111) s -> canon_tok (Tok 3 (str_literal printable true s)).
Proof. intros Hs. unfold str_literal. destruct (use_triple s).
  - right. destruct (triple_quote_starts s) as [q [rest [Hq E]]].
    apply (quoted3_other _ q rest s Hq E). apply triple_quote_fixed_roundtrip; exact Hs.
  - left. apply py_repr_self_repr; exact Hs. Qed.
End P.

(* C08 (refuted for the leaf comparison): a leaf whose canonical code holds `,)` - a set of 1-tuples - is compared with the
   un-normalized tokens and counts as `update` on every run (the replacement text is the text already there) *)
Definition t_op (s : str) : tok := Tok 55 s.
Definition set_of_one_tuple : list tok := [t_op [123]; t_op [40]; Tok 2 [49]; t_op [44]; t_op [41]; t_op [125]].
Theorem leaf_trailing_comma_refuted :
  exists c, wf_canon (fun _ => true) c /\ needs_update_leaf (fun _ => true) c c = Some true /\ needs_update_norm (fun _ => true) c c = Some false.
Proof. exists set_of_one_tuple. split; [|split; vm_compute; reflexivity].
  split; [|cbn; repeat split; intros; reflexivity].
  repeat (apply Forall_cons; [right; split; reflexivity|]). apply Forall_nil. Qed.

(* non-vacuity: a list of a str holding a double quote and of a bytes value holding NUL, as written by code_repr *)
Example wf_canon_example :
  let c := [t_op [91]; Tok 3 (py_repr (fun _ => true) [105; 116; 34; 115]); t_op [44]; Tok 3 (bytes_repr [0]); t_op [93]] in
  wf_canon (fun _ => true) c /\ no_tc c /\ needs_update_leaf (fun _ => true) c c = Some false.
Proof. cbv zeta. split; [|split; [cbn; repeat split; reflexivity | vm_compute; reflexivity]].
  split; [|cbn; repeat split; intros; try reflexivity; discriminate].
  apply Forall_cons; [right; split; reflexivity|].
  apply Forall_cons; [left; apply py_repr_self_repr; repeat (apply Forall_cons; [discriminate|]); apply Forall_nil|].
  apply Forall_cons; [right; split; reflexivity|].
  apply Forall_cons; [left; apply bytes_repr_self_repr; repeat (apply Forall_cons; [reflexivity|]); apply Forall_nil|].
  apply Forall_cons; [right; split; reflexivity|]. apply Forall_nil. Qed.

(* quote style and implicit concatenation are no update: two adjacent one-letter strings in both quote styles against the repr of the joined string; 0x1 against 1 is one *)
Example quotes_and_concat_no_update :
  needs_update_leaf (fun _ => true) [Tok 3 [34; 97; 34]; Tok 3 [39; 98; 39]] [Tok 3 [39; 97; 98; 39]] = Some false
  /\ needs_update_leaf (fun _ => true) [Tok 3 [34; 97; 34]] [Tok 3 [39; 97; 39]] = Some false
  /\ needs_update_leaf (fun _ => true) [Tok 2 [48; 120; 49]] [Tok 2 [49]] = Some true.
Proof. repeat split; vm_compute; reflexivity. Qed.

(* F-08 (known finding of C08) in the model: repr(1+2j) is parenthesised, asttokens locates the node without the parentheses, so the comparison
   of the node tokens `1 + 2j` with the value tokens `( 1 + 2j )` reports an update on every run, for both comparisons *)
Theorem parenthesised_repr_refuted :
  let node := [Tok 2 [49]; t_op [43]; Tok 2 [50; 106]] in
  let canon := t_op [40] :: node ++ [t_op [41]] in
  wf_canon (fun _ => true) canon /\ needs_update_leaf (fun _ => true) node canon = Some true /\ needs_update_norm (fun _ => true) node canon = Some true.
Proof. cbv zeta. split; [|split; vm_compute; reflexivity].
  split; [|cbn; repeat split; intros; reflexivity].
  repeat (apply Forall_cons; [right; split; reflexivity|]). apply Forall_nil. Qed.
