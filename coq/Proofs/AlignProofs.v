(* Proofs about Model/Align.v : align, add_x, and score-based facts about nw_align.
   Stdlib only; no axioms (see the Print Assumptions at the end of the file). *)
From Coq Require Import List Arith Bool Lia.
Import ListNotations.
From V Require Import Model.Align Proofs.AlignValid.
Open Scope nat_scope.

Definition dir_eq_dec : forall x y : dir, {x = y} + {x <> y}.
Proof. decide equality. Defined.

Lemma dir_eqb_eq c d : dir_eqb c d = true <-> c = d.
Proof. destruct c, d; simpl; split; intros H; congruence. Qed.

Lemma dir_eqb_refl c : dir_eqb c c = true.
Proof. destruct c; reflexivity. Qed.

(* ------------------------------------------------------------------ *)
(* Generic list helpers                                                *)
(* ------------------------------------------------------------------ *)
Lemma firstn_repeat_app {X} (x : X) n l : firstn n (repeat x n ++ l) = repeat x n.
Proof. induction n as [|n IH]; simpl; [reflexivity|]. f_equal. exact IH. Qed.

Lemma F2_length {X Y} (R : X -> Y -> Prop) l1 l2 : Forall2 R l1 l2 -> length l1 = length l2.
Proof. intros H. induction H as [|x y l1 l2 Hxy H IH]; simpl; auto. Qed.

Lemma F2_snoc {X Y} (R : X -> Y -> Prop) l1 l2 x y :
  Forall2 R l1 l2 -> R x y -> Forall2 R (l1 ++ [x]) (l2 ++ [y]).
Proof. intros H Hxy. induction H as [|x' y' l1 l2 Hxy' H IH]; simpl; constructor; auto. Qed.

Lemma F2_rev {X Y} (R : X -> Y -> Prop) l1 l2 : Forall2 R l1 l2 -> Forall2 R (rev l1) (rev l2).
Proof. intros H. induction H as [|x y l1 l2 Hxy H IH]; simpl; [constructor|]. apply F2_snoc; auto. Qed.

(* ------------------------------------------------------------------ *)
(* rle / add_x_groups : facts independent of the element types         *)
(* ------------------------------------------------------------------ *)
Definition expand (g : list (dir * nat)) : list dir :=
  concat (map (fun g => repeat (fst g) (snd g)) g).

Lemma expand_cons c n g : expand ((c, n) :: g) = repeat c n ++ expand g.
Proof. reflexivity. Qed.

Lemma rle_expand l : expand (rle l) = l.
Proof. induction l as [|c r IH]; simpl; [reflexivity|].
  destruct (rle r) as [|[c' n] g] eqn:E.
  - cbn in IH. subst r. reflexivity.
  - destruct (dir_eqb c c') eqn:Ec.
    + apply dir_eqb_eq in Ec. subst c'. rewrite expand_cons in *. simpl. rewrite IH. reflexivity.
    + rewrite expand_cons. simpl. rewrite IH. reflexivity.
Qed.

(* induction principle following the recursion of add_x_groups *)
Lemma add_x_groups_ind (P : list (dir * nat) -> Prop) :
  P [] -> (forall c n, P [(c, n)]) ->
  (forall n r2, P r2 -> P ((Dd, n) :: (Di, n) :: r2)) ->
  (forall c n c2 n2 r2, dir_eqb c Dd && dir_eqb c2 Di && (n =? n2) = false ->
     P ((c2, n2) :: r2) -> P ((c, n) :: (c2, n2) :: r2)) ->
  forall g, P g.
Proof. intros H0 H1 H2 H3.
  assert (H : forall k g, length g <= k -> P g).
  { induction k as [|k IH]; intros g Hk.
    - destruct g; [exact H0 | simpl in Hk; lia].
    - destruct g as [|[c n] [|[c2 n2] r2]]; [exact H0 | apply H1 |].
      destruct (dir_eqb c Dd && dir_eqb c2 Di && (n =? n2)) eqn:E.
      + apply andb_true_iff in E. destruct E as [E E3]. apply andb_true_iff in E. destruct E as [E1 E2].
        apply dir_eqb_eq in E1, E2. apply Nat.eqb_eq in E3. subst. apply H2. apply IH. simpl in Hk. lia.
      + apply H3; [exact E|]. apply IH. simpl in *. lia. }
  intros g. apply (H (length g)). lia. Qed.

Lemma axg_merge n r2 : add_x_groups ((Dd, n) :: (Di, n) :: r2) = repeat Dx n ++ add_x_groups r2.
Proof. simpl. rewrite Nat.eqb_refl. reflexivity. Qed.

Lemma axg_keep c n c2 n2 r2 : dir_eqb c Dd && dir_eqb c2 Di && (n =? n2) = false ->
  add_x_groups ((c, n) :: (c2, n2) :: r2) = repeat c n ++ add_x_groups ((c2, n2) :: r2).
Proof. intros E. change (add_x_groups ((c, n) :: (c2, n2) :: r2)) with
    (if dir_eqb c Dd && dir_eqb c2 Di && (n =? n2) then repeat Dx n ++ add_x_groups r2
     else repeat c n ++ add_x_groups ((c2, n2) :: r2)).
  rewrite E. reflexivity. Qed.

Lemma axg_m n g : add_x_groups ((Dm, n) :: g) = repeat Dm n ++ add_x_groups g.
Proof. destruct g as [|[c2 n2] g]; simpl; [rewrite app_nil_r|]; reflexivity. Qed.

Lemma rle_m_prefix : forall n s, exists k g, rle (repeat Dm (S n) ++ s) = (Dm, S n + k) :: g.
Proof. induction n as [|n IH]; intros s.
  - simpl. destruct (rle s) as [|[c' m] g].
    + exists 0, []. reflexivity.
    + destruct c'; simpl; try (eexists 0, _; reflexivity). exists m, g. reflexivity.
  - destruct (IH s) as [k [g E]]. change (repeat Dm (S (S n)) ++ s) with (Dm :: (repeat Dm (S n) ++ s)).
    cbn [rle]. rewrite E. simpl. exists k, g. reflexivity.
Qed.

Theorem add_x_keeps_m_prefix n s : firstn n (add_x (repeat Dm n ++ s)) = repeat Dm n.
Proof. destruct n as [|n]; [reflexivity|]. unfold add_x.
  destruct (rle_m_prefix n s) as [k [g E]]. rewrite E, axg_m, repeat_app, <- app_assoc.
  apply firstn_repeat_app. Qed.

Lemma cnt_repeat c n : count_occ dir_eq_dec (repeat c n) Dm = if dir_eqb c Dm then n else 0.
Proof. destruct c; simpl; induction n as [|n IH]; simpl; auto. Qed.

Lemma add_x_groups_count g :
  count_occ dir_eq_dec (add_x_groups g) Dm = count_occ dir_eq_dec (expand g) Dm.
Proof. pattern g. apply add_x_groups_ind; clear g.
  - reflexivity.
  - intros c n. rewrite expand_cons. change (expand []) with (@nil dir). rewrite app_nil_r. reflexivity.
  - intros n r2 IH. rewrite axg_merge, !expand_cons, !count_occ_app, !cnt_repeat, IH. reflexivity.
  - intros c n c2 n2 r2 E IH. rewrite axg_keep by exact E. rewrite (expand_cons c n), !count_occ_app, IH. reflexivity.
Qed.

Theorem add_x_count_m s : count_occ dir_eq_dec (add_x s) Dm = count_occ dir_eq_dec s Dm.
Proof. unfold add_x. rewrite add_x_groups_count, rle_expand. reflexivity. Qed.

(* ------------------------------------------------------------------ *)
(* the factor  i d  (Di immediately followed by Dd)                    *)
(* ------------------------------------------------------------------ *)
Definition starts_d (l : list dir) : bool := match l with Dd :: _ => true | _ => false end.
Fixpoint has_id (l : list dir) : bool :=
  match l with
  | [] => false
  | c :: r => (dir_eqb c Di && starts_d r) || has_id r
  end.

Lemma has_id_factor p q : has_id (p ++ Di :: Dd :: q) = true.
Proof. induction p as [|c p IH]; [reflexivity|]. simpl. rewrite IH. apply orb_true_r. Qed.

Lemma has_id_false l : has_id l = false -> forall p q, l <> p ++ Di :: Dd :: q.
Proof. intros H p q E. subst l. rewrite has_id_factor in H. discriminate. Qed.

Lemma has_id_m_cons l : has_id (Dm :: l) = has_id l.
Proof. reflexivity. Qed.

Lemma has_id_m_prefix n l : has_id (repeat Dm n ++ l) = has_id l.
Proof. induction n as [|n IH]; simpl; auto. Qed.

Lemma starts_d_app_m l n : starts_d (l ++ repeat Dm n) = starts_d l.
Proof. destruct l as [|c l]; [destruct n; reflexivity | reflexivity]. Qed.

Lemma has_id_m_suffix n l : has_id (l ++ repeat Dm n) = has_id l.
Proof. induction l as [|c l IH]; simpl.
  - induction n as [|n IHn]; simpl; auto.
  - rewrite starts_d_app_m, IH. reflexivity. Qed.

Section A.
Variables (A B : Type) (eqb : A -> B -> bool).
Notation valid := (valid A B eqb).
Notation nw_align := (nw_align A B eqb).
Notation align := (align A B eqb).
Notation cp := (common_prefix A B eqb).
Notation matrix := (matrix A B eqb).
Notation row := (row A B eqb). Notation next_row := (next_row A B eqb).
Notation rows := (rows A B eqb).
Notation first_row := (first_row B).
Notation EQ := (fun (a : A) (b : B) => eqb a b = true).

(* ------------------------------------------------------------------ *)
(* 1-3 : align                                                         *)
(* ------------------------------------------------------------------ *)
Lemma valid_app s1 a1 b1 : valid s1 a1 b1 ->
  forall s2 a2 b2, valid s2 a2 b2 -> valid (s1 ++ s2) (a1 ++ a2) (b1 ++ b2).
Proof. intros H1. induction H1 as [|s a b as_ bs He H1 IH|s a as_ bs H1 IH|s b as_ bs H1 IH|s a b as_ bs H1 IH];
  intros s2 a2 b2 H2; simpl.
  - exact H2.
  - apply v_m; auto.
  - apply v_d; auto.
  - apply v_i; auto.
  - apply v_x; auto.
Qed.

Lemma valid_split s1 s2 n m as_ bs :
  valid s1 (firstn n as_) (firstn m bs) -> valid s2 (skipn n as_) (skipn m bs) -> valid (s1 ++ s2) as_ bs.
Proof. intros H1 H2. rewrite <- (firstn_skipn n as_), <- (firstn_skipn m bs). apply valid_app; auto. Qed.

Lemma F2_valid a b : Forall2 EQ a b -> valid (repeat Dm (length a)) a b.
Proof. intros H. induction H as [|x y a b Hxy H IH]; simpl; [apply v_nil | apply v_m; auto]. Qed.

Lemma cp_le_l : forall as_ bs, cp as_ bs <= length as_.
Proof. induction as_ as [|a as_ IH]; intros [|b bs]; simpl; try lia.
  destruct (eqb a b); [specialize (IH bs)|]; lia. Qed.

Lemma cp_le_r : forall as_ bs, cp as_ bs <= length bs.
Proof. induction as_ as [|a as_ IH]; intros [|b bs]; simpl; try lia.
  destruct (eqb a b); [specialize (IH bs)|]; lia. Qed.

Lemma cp_F2 : forall as_ bs, Forall2 EQ (firstn (cp as_ bs) as_) (firstn (cp as_ bs) bs).
Proof. induction as_ as [|a as_ IH]; intros [|b bs]; simpl; try constructor.
  destruct (eqb a b) eqn:E; simpl; constructor; auto. Qed.

Lemma F2_cp : forall as_ bs, Forall2 EQ as_ bs -> cp as_ bs = length as_.
Proof. intros as_ bs H. induction H as [|x y a b Hxy H IH]; simpl; [reflexivity|]. rewrite Hxy, IH. reflexivity. Qed.

Lemma cp_valid xs ys : valid (repeat Dm (cp xs ys)) (firstn (cp xs ys) xs) (firstn (cp xs ys) ys).
Proof. pose proof (F2_valid _ _ (cp_F2 xs ys)) as H.
  rewrite firstn_length_le in H by apply cp_le_l. exact H. Qed.

Lemma cp_valid_rev xs ys : let e := cp (rev xs) (rev ys) in
  valid (repeat Dm e) (skipn (length xs - e) xs) (skipn (length ys - e) ys).
Proof. intros e.
  pose proof (F2_rev _ _ _ (cp_F2 (rev xs) (rev ys))) as H. fold e in H.
  rewrite !firstn_rev, !rev_involutive in H.
  apply F2_valid in H. rewrite skipn_length in H.
  assert (He : e <= length xs) by (unfold e; rewrite <- (rev_length xs); apply cp_le_l).
  replace (length xs - (length xs - e)) with e in H by lia. exact H. Qed.

(* The pieces computed by [align]. *)
Definition align_start (as_ : list A) (bs : list B) : nat := cp as_ bs.
Definition align_end (as_ : list A) (bs : list B) : nat :=
  let start := cp as_ bs in cp (rev (skipn start as_)) (rev (skipn start bs)).
Definition align_mid_a (as_ : list A) (bs : list B) : list A :=
  let ra := skipn (align_start as_ bs) as_ in firstn (length ra - align_end as_ bs) ra.
Definition align_mid_b (as_ : list A) (bs : list B) : list B :=
  let rb := skipn (align_start as_ bs) bs in firstn (length rb - align_end as_ bs) rb.

Lemma nw_align_nil : nw_align [] [] = [].
Proof. reflexivity. Qed.

(* [align] is ALWAYS of the shape  m^start ++ nw_align middle ++ m^end ;
   in the early-return case the remainders are empty, so end = 0 and nw_align [] [] = []. *)
Lemma align_unfold as_ bs :
  align as_ bs = repeat Dm (align_start as_ bs)
                 ++ nw_align (align_mid_a as_ bs) (align_mid_b as_ bs)
                 ++ repeat Dm (align_end as_ bs).
Proof. unfold align, align_mid_a, align_mid_b, align_end, align_start.
  destruct ((cp as_ bs =? length as_) && (cp as_ bs =? length bs)) eqn:E; [|reflexivity].
  apply andb_true_iff in E. destruct E as [Ea Eb]. apply Nat.eqb_eq in Ea, Eb.
  assert (Ha : skipn (cp as_ bs) as_ = []) by (apply skipn_all2; lia).
  assert (Hb : skipn (cp as_ bs) bs = []) by (apply skipn_all2; lia).
  rewrite Ha, Hb. simpl. rewrite app_nil_r. reflexivity. Qed.

Theorem align_valid as_ bs : valid (align as_ bs) as_ bs.
Proof. rewrite align_unfold. unfold align_mid_a, align_mid_b, align_end, align_start.
  set (start := cp as_ bs). set (ra := skipn start as_). set (rb := skipn start bs).
  set (e := cp (rev ra) (rev rb)).
  apply (valid_split _ _ start start); [apply cp_valid|]. fold ra rb.
  apply (valid_split _ _ (length ra - e) (length rb - e)); [apply nw_align_valid|].
  apply cp_valid_rev. Qed.

Theorem align_prefix_m as_ bs :
  firstn (cp as_ bs) (align as_ bs) = repeat Dm (cp as_ bs).
Proof. rewrite align_unfold. unfold align_start. apply firstn_repeat_app. Qed.

(* Suffix statement: with e := align_end as_ bs, i.e. the common-prefix length of the reversed
   remainders exactly as computed in [align] (in the early-return case the remainders are []
   and e = 0), the script ends with e copies of Dm. *)
Theorem align_suffix_m as_ bs :
  exists s, align as_ bs = s ++ repeat Dm (align_end as_ bs).
Proof. rewrite align_unfold. eexists. rewrite app_assoc. reflexivity. Qed.

Theorem align_refl_all_m as_ bs :
  Forall2 EQ as_ bs -> align as_ bs = repeat Dm (length as_).
Proof. intros H. unfold align. rewrite (F2_cp _ _ H). rewrite <- (F2_length _ _ _ H).
  rewrite Nat.eqb_refl. reflexivity. Qed.

(* ------------------------------------------------------------------ *)
(* 4 : add_x preserves validity                                        *)
(* ------------------------------------------------------------------ *)
Lemma valid_prefix_cong p : forall s s', (forall a b, valid s a b -> valid s' a b) ->
  forall a b, valid (p ++ s) a b -> valid (p ++ s') a b.
Proof. induction p as [|c p IH]; intros s s' Hs a b H; simpl in *; [auto|].
  inversion H as [|s0 a0 b0 as0 bs0 He H'|s0 a0 as0 bs0 H'|s0 b0 as0 bs0 H'|s0 a0 b0 as0 bs0 H']; subst.
  - apply v_m; [exact He|]. apply (IH s s' Hs _ _ H').
  - apply v_d. apply (IH s s' Hs _ _ H').
  - apply v_i. apply (IH s s' Hs _ _ H').
  - apply v_x. apply (IH s s' Hs _ _ H').
Qed.

Lemma valid_d_inv n : forall s a b, valid (repeat Dd n ++ s) a b -> n <= length a /\ valid s (skipn n a) b.
Proof. induction n as [|n IH]; intros s a b H; simpl in *; [split; [lia|exact H]|].
  inversion H as [| |s0 a0 as0 bs0 H'| |]; subst. apply IH in H'. simpl. split; [lia|tauto]. Qed.

Lemma valid_i_inv n : forall s a b, valid (repeat Di n ++ s) a b -> n <= length b /\ valid s a (skipn n b).
Proof. induction n as [|n IH]; intros s a b H; simpl in *; [split; [lia|exact H]|].
  inversion H as [| | |s0 b0 as0 bs0 H'|]; subst. apply IH in H'. simpl. split; [lia|tauto]. Qed.

Lemma valid_x_intro n : forall s a b, n <= length a -> n <= length b ->
  valid s (skipn n a) (skipn n b) -> valid (repeat Dx n ++ s) a b.
Proof. induction n as [|n IH]; intros s a b Ha Hb H; simpl in *; [exact H|].
  destruct a as [|x a]; [simpl in Ha; lia|]. destruct b as [|y b]; [simpl in Hb; lia|].
  simpl in *. apply v_x. apply IH; auto; lia. Qed.

Lemma valid_dnin_x n s a b :
  valid (repeat Dd n ++ repeat Di n ++ s) a b -> valid (repeat Dx n ++ s) a b.
Proof. intros H. apply valid_d_inv in H. destruct H as [Ha H].
  apply valid_i_inv in H. destruct H as [Hb H]. apply valid_x_intro; auto. Qed.

Lemma add_x_groups_valid : forall g a b, valid (expand g) a b -> valid (add_x_groups g) a b.
Proof. intros g. pattern g. apply add_x_groups_ind; clear g.
  - auto.
  - intros c n a b H. rewrite expand_cons in H. change (expand []) with (@nil dir) in H. rewrite app_nil_r in H. exact H.
  - intros n r2 IH a b H. rewrite axg_merge. rewrite !expand_cons in H.
    apply valid_dnin_x in H. revert a b H. apply valid_prefix_cong. exact IH.
  - intros c n c2 n2 r2 E IH a b H. rewrite axg_keep by exact E. rewrite (expand_cons c n) in H.
    revert a b H. apply valid_prefix_cong. exact IH.
Qed.

Theorem add_x_valid s as_ bs : valid s as_ bs -> valid (add_x s) as_ bs.
Proof. intros H. unfold add_x. apply add_x_groups_valid. rewrite rle_expand. exact H. Qed.

(* ------------------------------------------------------------------ *)
(* Score facts about the matrix (ported from the AlignS spike)         *)
(* ------------------------------------------------------------------ *)
Definition d0 : cell := (0, De).
Definition sc (m : list (list cell)) i j : nat := fst (nth j (nth i m []) d0).

(* relation between a computed cell [c], its three neighbours and e = (a == b) *)
Definition cell_rel (e : bool) (left up diag c : cell) : Prop :=
  fst left <= fst c /\ fst up <= fst c /\ (e = true -> S (fst diag) <= fst c) /\
  (snd c = Dd -> fst c = fst up /\ fst left < fst up) /\
  (snd c = Di -> fst c = fst left) /\
  (snd c = Dm -> e = true /\ fst c = S (fst diag)) /\
  (snd c = Dd \/ snd c = Di \/ snd c = Dm).

Lemma cell_rel_intro (e : bool) (lf up diag : cell) :
  let c0 := better (fst lf, Di) (fst up, Dd) in
  let c := if e then better c0 (S (fst diag), Dm) else c0 in
  cell_rel e lf up diag c.
Proof. destruct lf as [l ld], up as [u ud], diag as [d dd]. cbn [fst snd].
  unfold cell_rel. destruct e; unfold better; cbn [fst snd rank Nat.leb];
  destruct (Nat.ltb_spec u l); destruct (Nat.ltb_spec l u); cbn [fst snd rank Nat.leb];
  repeat match goal with
         | |- context [?x <? ?y] => destruct (Nat.ltb_spec x y); cbn [fst snd rank Nat.leb]
         end;
  repeat split; intros; cbn [fst snd rank Nat.leb] in *; try discriminate; try lia; auto.
Qed.

Lemma row_rel a : forall bs last left, length last = S (length bs) ->
  forall j b, nth_error bs j = Some b ->
  cell_rel (eqb a b) (nth j (left :: row a last bs left) d0) (nth (S j) last d0) (nth j last d0)
           (nth j (row a last bs left) d0).
Proof. induction bs as [|b0 bs IH]; intros last left Hl j b Hj; [destruct j; discriminate|].
  destruct last as [|lc [|lb last']]; simpl in Hl; try lia.
  cbn [Align.row]. destruct j as [|j].
  - cbn [nth]. simpl in Hj. inversion Hj; subst b0. apply cell_rel_intro.
  - cbn [nth]. simpl in Hj.
    exact (IH (lb :: last') _ ltac:(simpl; lia) j b Hj).
Qed.

Definition mat (r0 : list cell) (as_ : list A) (bs : list B) := r0 :: rows as_ bs r0.

Lemma mat_succ bs : forall as_ r0 i a, nth_error as_ i = Some a ->
  nth (S i) (mat r0 as_ bs) [] = next_row a (nth i (mat r0 as_ bs) []) bs.
Proof. induction as_ as [|a0 as_ IH]; intros r0 i a Hi; [destruct i; discriminate|].
  destruct i as [|i]; simpl in Hi.
  - inversion Hi; subst. reflexivity.
  - unfold mat in *. cbn [Align.rows]. cbn [nth]. apply (IH (next_row a0 r0 bs) i a Hi).
Qed.

Lemma mat_row_length bs : forall as_ r0 i, length r0 = S (length bs) -> i <= length as_ ->
  length (nth i (mat r0 as_ bs) []) = S (length bs).
Proof. induction as_ as [|a0 as_ IH]; intros r0 i Hr Hi.
  - simpl in Hi. assert (i = 0) by lia. subst. exact Hr.
  - destruct i as [|i]; [exact Hr|]. unfold mat in *. cbn [Align.rows nth]. apply IH; [|simpl in Hi; lia].
    apply next_row_length; auto.
Qed.

(* facts for interior cells of the matrix *)
Lemma interior as_ bs i j a b : nth_error as_ i = Some a -> nth_error bs j = Some b ->
  let m := matrix as_ bs in
  sc m (S i) j <= sc m (S i) (S j) /\ sc m i (S j) <= sc m (S i) (S j) /\
  (eqb a b = true -> S (sc m i j) <= sc m (S i) (S j)) /\
  (dirat m (S i) (S j) = Dd -> sc m (S i) (S j) = sc m i (S j) /\ sc m (S i) j < sc m i (S j)) /\
  (dirat m (S i) (S j) = Di -> sc m (S i) (S j) = sc m (S i) j) /\
  (dirat m (S i) (S j) = Dm -> eqb a b = true /\ sc m (S i) (S j) = S (sc m i j)) /\
  (dirat m (S i) (S j) = Dd \/ dirat m (S i) (S j) = Di \/ dirat m (S i) (S j) = Dm).
Proof. intros Ha Hb m. subst m. unfold sc, dirat.
  change (matrix as_ bs) with (mat (first_row bs) as_ bs).
  rewrite (mat_succ bs as_ _ i a Ha).
  set (prev := nth i (mat (first_row bs) as_ bs) []).
  assert (Hi : i < length as_) by (apply nth_error_Some; congruence).
  assert (Hp : length prev = S (length bs)) by (apply mat_row_length; [apply first_row_length | lia]).
  unfold Align.next_row. cbn [nth].
  exact (row_rel a bs prev (0, Dd) Hp j b Hb).
Qed.

Lemma col0 as_ bs i : i <= length as_ -> sc (matrix as_ bs) i 0 = 0.
Proof. intros Hi. unfold sc. change (matrix as_ bs) with (mat (first_row bs) as_ bs).
  destruct i as [|i]; [reflexivity|].
  destruct (nth_error as_ i) eqn:E; [|apply nth_error_None in E; lia].
  rewrite (mat_succ bs as_ _ i a E). reflexivity. Qed.

Lemma row0 as_ bs j : sc (matrix as_ bs) 0 j = 0.
Proof. unfold sc, Align.matrix. cbn [nth]. unfold Align.first_row. destruct j as [|j]; [reflexivity|]. cbn [nth].
  destruct (nth_error (map (fun _ : B => (0, Di)) bs) j) eqn:E.
  - rewrite (nth_of_nth_error _ _ _ _ E). apply nth_error_In in E. apply in_map_iff in E.
    destruct E as [? [E _]]. subst. reflexivity.
  - apply nth_error_None in E. rewrite nth_overflow by auto. reflexivity. Qed.

Lemma nth_error_lt {X} (l : list X) i : i < length l -> exists x, nth_error l i = Some x.
Proof. intros H. destruct (nth_error l i) eqn:E; [eauto|]. apply nth_error_None in E. lia. Qed.

(* the forbidden pattern: d at (S (S i), S j) directly followed (in backtracking order) by i at (S i, S j) *)
Lemma no_d_then_i as_ bs i j : S i < length as_ -> j < length bs ->
  dirat (matrix as_ bs) (S (S i)) (S j) = Dd -> dirat (matrix as_ bs) (S i) (S j) = Di -> False.
Proof. intros Hi Hj Hd Hdi.
  destruct (nth_error_lt as_ (S i) Hi) as [a1 Ha1].
  destruct (nth_error_lt as_ i ltac:(lia)) as [a0 Ha0].
  destruct (nth_error_lt bs j Hj) as [b Hb].
  pose proof (interior as_ bs (S i) j a1 b Ha1 Hb) as [_ [_ [_ [Hdd _]]]].
  pose proof (interior as_ bs i j a0 b Ha0 Hb) as [_ [_ [_ [_ [Hii _]]]]].
  specialize (Hdd Hd). specialize (Hii Hdi). destruct Hdd as [_ Hlt].
  destruct j as [|j].
  - rewrite col0 in Hlt by lia. rewrite col0 in Hii by lia. lia.
  - destruct (nth_error_lt bs j ltac:(lia)) as [b' Hb'].
    pose proof (interior as_ bs (S i) j a1 b' Ha1 Hb') as [_ [Hup _]]. lia.
Qed.

Lemma no_d_then_i_row1 as_ bs j : 0 < length as_ -> j < length bs ->
  dirat (matrix as_ bs) 1 (S j) = Dd -> False.
Proof. intros Hi Hj Hd.
  destruct (nth_error_lt as_ 0 Hi) as [a Ha]. destruct (nth_error_lt bs j Hj) as [b Hb].
  pose proof (interior as_ bs 0 j a b Ha Hb) as [_ [_ [_ [Hdd _]]]]. specialize (Hdd Hd).
  destruct Hdd as [_ Hlt]. rewrite row0 in Hlt. lia. Qed.

(* ------------------------------------------------------------------ *)
(* 6 : nw_align never emits  i  immediately followed by  d             *)
(* ------------------------------------------------------------------ *)
(* Invariant of [back]: the accumulator has no  i d  factor, and if it starts with  d
   then the current cell is not an  i  cell. *)
Lemma back_no_id as_ bs : forall fuel ai bi acc,
  ai <= length as_ -> bi <= length bs ->
  has_id acc = false ->
  (starts_d acc = true -> dirat (matrix as_ bs) ai bi <> Di) ->
  has_id (back fuel ai bi (matrix as_ bs) acc) = false.
Proof. induction fuel as [|f IH]; intros ai bi acc Ha Hb Hacc Hst; [exact Hacc|].
  cbn [back]. destruct (dirat (matrix as_ bs) ai bi) eqn:Ed; try exact Hacc.
  - (* Dd *) apply IH; try lia.
    + simpl. exact Hacc.
    + intros _. destruct ai as [|[|i]], bi as [|j]; cbn [Nat.sub].
      * rewrite dir_00. discriminate.
      * rewrite dir_0j in Ed by lia. discriminate.
      * rewrite dir_00. discriminate.
      * exfalso. apply (no_d_then_i_row1 as_ bs j); try lia. exact Ed.
      * rewrite dir_i0 by lia. discriminate.
      * intros Hi. apply (no_d_then_i as_ bs i j); try lia; assumption.
  - (* Di *) apply IH; try lia.
    + simpl. destruct (starts_d acc) eqn:Es; [exfalso; apply Hst; auto | exact Hacc].
    + simpl. discriminate.
  - (* Dm *) apply IH; try lia.
    + exact Hacc.
    + simpl. discriminate.
Qed.

Lemma nw_has_id as_ bs : has_id (nw_align as_ bs) = false.
Proof. unfold nw_align. apply back_no_id; try lia; [reflexivity | simpl; discriminate]. Qed.

Theorem nw_no_i_then_d as_ bs : forall p q, nw_align as_ bs <> p ++ Di :: Dd :: q.
Proof. apply has_id_false. apply nw_has_id. Qed.

Theorem align_no_i_then_d as_ bs : forall p q, align as_ bs <> p ++ Di :: Dd :: q.
Proof. apply has_id_false. rewrite align_unfold, has_id_m_prefix, has_id_m_suffix. apply nw_has_id. Qed.

(* bonus: nw_align only emits d / i / m *)
Lemma back_dim : forall fuel ai bi m acc,
  Forall (fun c => c = Dd \/ c = Di \/ c = Dm) acc ->
  Forall (fun c => c = Dd \/ c = Di \/ c = Dm) (back fuel ai bi m acc).
Proof. induction fuel as [|f IH]; intros ai bi m acc H; [exact H|]. cbn [back].
  destruct (dirat m ai bi); try exact H; apply IH; constructor; auto. Qed.

Lemma nw_align_dim as_ bs : Forall (fun c => c = Dd \/ c = Di \/ c = Dm) (nw_align as_ bs).
Proof. apply back_dim. constructor. Qed.

Lemma nw_align_no_x as_ bs : ~ In Dx (nw_align as_ bs).
Proof. intros H. pose proof (nw_align_dim as_ bs) as F. rewrite Forall_forall in F.
  destruct (F _ H) as [E|[E|E]]; discriminate. Qed.

(* ------------------------------------------------------------------ *)
(* 7 : optimality (nw_align reaches the LCS length)                    *)
(* ------------------------------------------------------------------ *)
Notation cnt l := (count_occ dir_eq_dec l Dm).

Lemma cnt_cons c l : cnt (c :: l) = (if dir_eqb c Dm then 1 else 0) + cnt l.
Proof. destruct c; reflexivity. Qed.

(* the number of m emitted by [back] from cell (ai,bi) is exactly the score of that cell *)
Lemma back_count as_ bs : forall fuel ai bi acc,
  ai <= length as_ -> bi <= length bs -> ai + bi < fuel ->
  cnt (back fuel ai bi (matrix as_ bs) acc) = sc (matrix as_ bs) ai bi + cnt acc.
Proof. induction fuel as [|f IH]; intros ai bi acc Ha Hb Hf; [lia|]. cbn [back].
  destruct ai as [|i], bi as [|j].
  - rewrite dir_00, row0. reflexivity.
  - rewrite dir_0j by lia. rewrite IH by lia. rewrite !row0, cnt_cons. reflexivity.
  - rewrite dir_i0 by lia. rewrite IH by lia. rewrite !col0 by lia. rewrite cnt_cons. reflexivity.
  - destruct (nth_error_lt as_ i ltac:(lia)) as [a Hna]. destruct (nth_error_lt bs j ltac:(lia)) as [b Hnb].
    pose proof (interior as_ bs i j a b Hna Hnb) as [_ [_ [_ [Hd [Hi [Hm Hdir]]]]]].
    cbn [Nat.sub]. rewrite !Nat.sub_0_r.
    destruct Hdir as [E|[E|E]]; rewrite E; rewrite IH by lia; rewrite cnt_cons; cbn [dir_eqb].
    + destruct (Hd E) as [Hs _]. lia.
    + rewrite (Hi E). lia.
    + destruct (Hm E) as [_ Hs]. lia.
Qed.

Lemma nw_align_count as_ bs :
  cnt (nw_align as_ bs) = sc (matrix as_ bs) (length as_) (length bs).
Proof. unfold nw_align. rewrite back_count by lia. simpl. lia. Qed.

Lemma valid_rev s a b : valid s a b -> valid (rev s) (rev a) (rev b).
Proof. intros H. induction H as [|s a b as_ bs He H IH|s a as_ bs H IH|s b as_ bs H IH|s a b as_ bs H IH]; simpl.
  - apply v_nil.
  - apply valid_app; [exact IH|]. apply v_m; [exact He | apply v_nil].
  - rewrite <- (app_nil_r (rev bs)). apply valid_app; [exact IH|]. apply v_d, v_nil.
  - rewrite <- (app_nil_r (rev as_)). apply valid_app; [exact IH|]. apply v_i, v_nil.
  - apply valid_app; [exact IH|]. apply v_x, v_nil.
Qed.

Lemma firstn_snoc_inv {X} (l : list X) x i (xs : list X) : i <= length xs -> l ++ [x] = firstn i xs ->
  exists i', i = S i' /\ l = firstn i' xs /\ nth_error xs i' = Some x.
Proof. intros Hi E.
  assert (Hl : i = S (length l)).
  { apply (f_equal (@length _)) in E. rewrite app_length, firstn_length_le in E by lia. simpl in E. lia. }
  exists (length l). split; [exact Hl|].
  assert (Hxs : xs = l ++ x :: skipn i xs).
  { rewrite <- (firstn_skipn i xs) at 1. rewrite <- E, <- app_assoc. reflexivity. }
  remember (skipn i xs) as t eqn:Ht. clear Ht E Hi. subst xs. split.
  - rewrite firstn_app, Nat.sub_diag, firstn_all. simpl. rewrite app_nil_r. reflexivity.
  - rewrite nth_error_app2 by lia. rewrite Nat.sub_diag. reflexivity.
Qed.

(* every x-free script for a pair of prefixes has at most score-many m's *)
Lemma score_upper as_ bs : forall s a' b', valid s a' b' -> ~ In Dx s ->
  forall i j, i <= length as_ -> j <= length bs ->
  rev a' = firstn i as_ -> rev b' = firstn j bs ->
  cnt s <= sc (matrix as_ bs) i j.
Proof. intros s a' b' H.
  induction H as [|s a b as' bs' He H IH|s a as' bs' H IH|s b as' bs' H IH|s a b as' bs' H IH];
    intros Hx i j Hi Hj Ea Eb.
  - simpl. lia.
  - simpl in Ea, Eb.
    apply firstn_snoc_inv in Ea; [|exact Hi]. destruct Ea as [i' [-> [Ea Hna]]].
    apply firstn_snoc_inv in Eb; [|exact Hj]. destruct Eb as [j' [-> [Eb Hnb]]].
    assert (Hx' : ~ In Dx s) by (intros F; apply Hx; right; exact F).
    specialize (IH Hx' i' j' ltac:(lia) ltac:(lia) Ea Eb).
    pose proof (interior as_ bs i' j' a b Hna Hnb) as [_ [_ [Hm _]]]. specialize (Hm He).
    rewrite cnt_cons. cbn [dir_eqb]. lia.
  - simpl in Ea.
    apply firstn_snoc_inv in Ea; [|exact Hi]. destruct Ea as [i' [-> [Ea Hna]]].
    assert (Hx' : ~ In Dx s) by (intros F; apply Hx; right; exact F).
    specialize (IH Hx' i' j ltac:(lia) Hj Ea Eb).
    rewrite cnt_cons. cbn [dir_eqb]. destruct j as [|j'].
    + rewrite col0 in * by lia. lia.
    + destruct (nth_error_lt bs j' ltac:(lia)) as [b Hnb].
      pose proof (interior as_ bs i' j' a b Hna Hnb) as [_ [Hup _]]. lia.
  - simpl in Eb.
    apply firstn_snoc_inv in Eb; [|exact Hj]. destruct Eb as [j' [-> [Eb Hnb]]].
    assert (Hx' : ~ In Dx s) by (intros F; apply Hx; right; exact F).
    specialize (IH Hx' i j' Hi ltac:(lia) Ea Eb).
    rewrite cnt_cons. cbn [dir_eqb]. destruct i as [|i'].
    + rewrite row0 in *. lia.
    + destruct (nth_error_lt as_ i' ltac:(lia)) as [a Hna].
      pose proof (interior as_ bs i' j' a b Hna Hnb) as [Hleft _]. lia.
  - exfalso. apply Hx. left. reflexivity.
Qed.

Theorem nw_optimal as_ bs s : valid s as_ bs -> ~ In Dx s ->
  count_occ dir_eq_dec s Dm <= count_occ dir_eq_dec (nw_align as_ bs) Dm.
Proof. intros Hv Hx. rewrite nw_align_count. rewrite <- (count_occ_rev dir_eq_dec s).
  apply valid_rev in Hv. apply (score_upper as_ bs _ _ _ Hv); try lia.
  - rewrite <- in_rev. exact Hx.
  - rewrite rev_involutive, firstn_all. reflexivity.
  - rewrite rev_involutive, firstn_all. reflexivity.
Qed.

End A.

(* ------------------------------------------------------------------ *)
(* Concrete instances                                                  *)
(* ------------------------------------------------------------------ *)
Module Examples.
Notation al := (align nat nat Nat.eqb).
Notation nw := (nw_align nat nat Nat.eqb).
Notation vl := (valid nat nat Nat.eqb).

(* 1 *)
Example ex_align : al [1;2;3;4] [1;3;5;4] = [Dm; Dd; Dm; Di; Dm].
Proof. vm_compute. reflexivity. Qed.
Example ex_align_valid : vl [Dm; Dd; Dm; Di; Dm] [1;2;3;4] [1;3;5;4].
Proof. exact (align_valid nat nat Nat.eqb [1;2;3;4] [1;3;5;4]). Qed.
(* prefix and suffix are stripped independently: the suffix is computed on the remainders *)
Example ex_align_overlap : al [5;1;1;6] [5;1;6] = [Dm; Dm; Dd; Dm].
Proof. vm_compute. reflexivity. Qed.

(* 2 *)
Example ex_align_prefix :
  common_prefix nat nat Nat.eqb [1;2;3;4;7;7] [1;3;5;6;4;7;7] = 1 /\
  firstn 1 (al [1;2;3;4;7;7] [1;3;5;6;4;7;7]) = [Dm].
Proof. vm_compute. split; reflexivity. Qed.
Example ex_align_suffix :
  align_end nat nat Nat.eqb [1;2;3;4;7;7] [1;3;5;6;4;7;7] = 3 /\
  al [1;2;3;4;7;7] [1;3;5;6;4;7;7] = [Dm; Dd; Dm; Di; Di] ++ repeat Dm 3.
Proof. vm_compute. split; reflexivity. Qed.

(* 3 *)
Example ex_align_refl : al [1;2;3] [1;2;3] = [Dm; Dm; Dm].
Proof. exact (align_refl_all_m nat nat Nat.eqb [1;2;3] [1;2;3]
                ltac:(repeat constructor)). Qed.

(* 4 *)
Example ex_add_x : add_x [Dm;Dm;Dd;Dd;Di;Di;Dm;Dd;Di;Di;Dm] = [Dm;Dm;Dx;Dx;Dm;Dd;Di;Di;Dm].
Proof. vm_compute. reflexivity. Qed.
Example ex_add_x_align : al [1;2;4] [1;3;4] = [Dm; Dd; Di; Dm] /\ add_x (al [1;2;4] [1;3;4]) = [Dm; Dx; Dm].
Proof. vm_compute. split; reflexivity. Qed.
Example ex_add_x_valid : vl [Dm; Dx; Dm] [1;2;4] [1;3;4].
Proof. exact (add_x_valid nat nat Nat.eqb _ _ _ (align_valid nat nat Nat.eqb [1;2;4] [1;3;4])). Qed.

(* 5 *)
Example ex_add_x_prefix : firstn 2 (add_x (repeat Dm 2 ++ [Dm; Dd; Di; Dd])) = [Dm; Dm].
Proof. vm_compute. reflexivity. Qed.
Example ex_add_x_count :
  count_occ dir_eq_dec (add_x [Dm;Dm;Dd;Dd;Di;Di;Dm;Dd;Di;Di;Dm]) Dm = 4 /\
  count_occ dir_eq_dec [Dm;Dm;Dd;Dd;Di;Di;Dm;Dd;Di;Di;Dm] Dm = 4.
Proof. vm_compute. split; reflexivity. Qed.

(* 6 *)
Example ex_nw : nw [1;2;1;3] [3;1;2;1] = [Di; Dm; Dm; Dm; Dd].
Proof. vm_compute. reflexivity. Qed.
Example ex_nw_no_id : has_id (nw [1;2;3] [4;5]) = false /\ nw [1;2;3] [4;5] = [Dd; Dd; Dd; Di; Di].
Proof. vm_compute. split; reflexivity. Qed.
Example ex_align_no_id : al [1;2;3;4] [1;3;5;4] <> [Dm; Dd; Dm] ++ Di :: Dd :: [].
Proof. apply align_no_i_then_d. Qed.

(* 7 : an alternative x-free script with a single m (3 ~ 3) is beaten by nw_align's three m's *)
Example ex_nw_optimal :
  vl [Dd; Dd; Dd; Dm; Di; Di; Di] [1;2;1;3] [3;1;2;1] /\
  count_occ dir_eq_dec [Dd; Dd; Dd; Dm; Di; Di; Di] Dm = 1 /\
  count_occ dir_eq_dec (nw [1;2;1;3] [3;1;2;1]) Dm = 3.
Proof. split; [repeat constructor | vm_compute; split; reflexivity]. Qed.
Example ex_nw_optimal_inst :
  count_occ dir_eq_dec [Dd; Dd; Dd; Dm; Di; Di; Di] Dm
  <= count_occ dir_eq_dec (nw [1;2;1;3] [3;1;2;1]) Dm.
Proof. apply nw_optimal; [repeat constructor | simpl; intuition discriminate]. Qed.
End Examples.

Print Assumptions align_valid.
Print Assumptions align_prefix_m.
Print Assumptions align_suffix_m.
Print Assumptions align_refl_all_m.
Print Assumptions add_x_valid.
Print Assumptions add_x_keeps_m_prefix.
Print Assumptions add_x_count_m.
Print Assumptions nw_no_i_then_d.
Print Assumptions align_no_i_then_d.
Print Assumptions nw_optimal.
