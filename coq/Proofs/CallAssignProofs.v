(* Proofs about Model/CallAssign.v: constructor calls (dataclass-like values) are repaired field by field. *)
From Coq Require Import List ZArith Bool Arith Lia Permutation.
Import ListNotations.
From V Require Import Model.Align Model.SnapOps Model.TreeAssign Model.CallAssign Proofs.UnmanagedProofs Proofs.TreeAssignProofs Proofs.DictAssignProofs.

Definition kw_names (l : list citem) : list Z := flat_map (fun i => match i with CKw k _ => [k] | CPos _ => [] end) l.
Definition item_tree (i : citem) : rtree := match i with CPos r | CKw _ r => r end.

(* the fields that come back as NEW keyword arguments *)
Definition is_new_field (kws : list (Z * tree)) (f : field) : bool :=
  negb (fd_default f) && match kw_index (fd_name f) kws with None => true | Some _ => false end.
Definition new_fields (kws : list (Z * tree)) (fs : list field) : list (Z * val) :=
  map (fun f => (fd_name f, fd_val f)) (filter (is_new_field kws) fs).

Lemma find_field_in : forall k fs f, find_field k fs = Some f -> In f fs /\ fd_name f = k.
Proof.
  intros k fs f. induction fs as [|g r IH]; cbn [find_field]; [discriminate|].
  destruct (Z.eqb k (fd_name g)) eqn:E.
  - intros H. injection H as ->. apply Z.eqb_eq in E. split; [left; reflexivity|symmetry; exact E].
  - intros H. destruct (IH H) as [H1 H2]. split; [right; exact H1|exact H2].
Qed.
Lemma find_field_nodup : forall fs f, NoDup (map fd_name fs) -> In f fs -> find_field (fd_name f) fs = Some f.
Proof.
  intros fs f. induction fs as [|g r IH]; intros Hnd Hin; [destruct Hin|]. cbn [map] in Hnd. inversion Hnd as [|? ? Hni Hnd']; subst.
  cbn [find_field]. destruct Hin as [->|Hin]; [rewrite Z.eqb_refl; reflexivity|].
  destruct (Z.eqb (fd_name f) (fd_name g)) eqn:E; [|exact (IH Hnd' Hin)].
  apply Z.eqb_eq in E. exfalso. apply Hni. rewrite <- E. apply in_map. exact Hin.
Qed.
Lemma kw_index_some : forall k kws i, kw_index k kws = Some i -> i < length kws /\ In k (map fst kws).
Proof.
  intros k kws. induction kws as [|[k' t] r IH]; intros i; cbn [kw_index]; [discriminate|].
  destruct (Z.eqb k k') eqn:E.
  - intros H. injection H as <-. apply Z.eqb_eq in E. cbn [length map fst]. split; [lia|left; symmetry; exact E].
  - destruct (kw_index k r) as [j|]; cbn [option_map]; [|discriminate]. intros H. injection H as <-.
    destruct (IH j eq_refl) as [H1 H2]. cbn [length map fst]. split; [lia|right; exact H2].
Qed.
Lemma kw_index_none : forall k kws, kw_index k kws = None <-> ~ In k (map fst kws).
Proof.
  intros k kws. induction kws as [|[k' t] r IH]; cbn [kw_index map fst In]; [tauto|].
  destruct (Z.eqb k k') eqn:E.
  - apply Z.eqb_eq in E. subst. split; [discriminate|intros H; exfalso; apply H; left; reflexivity].
  - apply Z.eqb_neq in E. destruct (kw_index k r) as [j|]; cbn [option_map].
    + split; [discriminate|]. intros H. exfalso. apply H. right. destruct IH as [_ IH2].
      destruct (in_dec Z.eq_dec k (map fst r)) as [Hin|Hni]; [exact Hin|]. discriminate (IH2 Hni).
    + destruct IH as [IH1 _]. split; [intros _ [H|H]; [congruence|exact (IH1 eq_refl H)]|reflexivity].
Qed.

(* ------------------------------------------------------------------------- what one old argument turns into *)
Lemma in_cplace_el : forall F ins fs e els i x, In e els -> In x (assign_el F fs e) -> In x (cplace F ins fs i els).
Proof.
  intros F ins fs e els. induction els as [|o r IH]; intros i x He Hx; [destruct He|].
  cbn [cplace]. apply in_or_app. right. apply in_or_app. destruct He as [->|He]; [left; exact Hx|right; apply IH; assumption].
Qed.

(* C11: a keyword argument whose value did not change keeps its source text - whether the field now holds its default or not *)
Theorem call_equal_kw_verbatim : forall F c fs k t f, f_update F = false -> In (k, t) (c_kws c) ->
  find_field k fs = Some f -> elt_eqb t (fd_val f) = true ->
  exists r, In (CKw k r) (call_result F c fs) /\ verbatim r = Some t.
Proof.
  intros F c fs k t f HU Hin Hf He.
  assert (G : exists r, In (CKw k r) (assign_el F fs (inr (k, t))) /\ verbatim r = Some t).
  { cbn [assign_el assign_kw]. rewrite Hf. destruct (fd_default f).
    - exists (RKeep t). split; [|reflexivity]. destruct (has_unm t); [left; reflexivity|].
      unfold elt_eqb in He. rewrite He, HU. left. reflexivity.
    - exists (assign_tree F t (fd_val f)). split; [left; reflexivity|]. apply tree_equal_keeps_text; assumption. }
  destruct G as [r [Hr Hv]]. exists r. split; [|exact Hv].
  unfold call_result. apply (in_cplace_el F _ fs (inr (k, t))); [|exact Hr].
  unfold elements. apply in_or_app. right. apply in_map. exact Hin.
Qed.

(* ------------------------------------------------------------------------- without fix / without any approval *)
Definition keep_el (e : tree + Z * tree) : citem := match e with inl t => CPos (RKeep t) | inr (k, t) => CKw k (RKeep t) end.

Theorem call_noflags_identity : forall F c fs, f_fix F = false -> f_update F = false ->
  map (fun i => match i with CPos r => (None, verbatim r) | CKw k r => (Some k, verbatim r) end) (call_result F c fs)
  = map (fun e => match e with inl t => (None, Some t) | inr (k, t) => (Some k, Some t) end) (elements c).
Proof.
  intros F c fs HF HU. unfold call_result. generalize (cinserts (length (c_pos c)) (c_kws c) fs [] (length (c_pos c))) as ins. generalize 0%nat as i.
  induction (elements c) as [|e r IH]; intros i ins; cbn [cplace map]; rewrite HF; [reflexivity|].
  cbn [app]. rewrite map_app. rewrite IH.
  match goal with |- ?a ++ ?b = ?x :: ?b => assert (E : a = [x]); [|rewrite E; reflexivity] end.
  destruct e as [t|[k t]]; cbn [assign_el assign_kw]; unfold assign_pos; [rewrite HF; reflexivity|].
  destruct (find_field k fs) as [f|]; [|rewrite HF; reflexivity].
  destruct (fd_default f).
  - destruct (has_unm t); [reflexivity|]. rewrite HF, HU. destruct (val_eqb (eval t) (fd_val f)); reflexivity.
  - cbn [map]. rewrite tree_noflags_identity by assumption. reflexivity.
Qed.

(* without fix the arguments stay where they are and keep their values; the only thing that can happen is that a keyword
   argument holding the field's default disappears (category update) *)
Theorem call_nofix_values : forall F c fs i, f_fix F = false -> In i (call_result F c fs) ->
  match i with
  | CPos r => exists t, In t (c_pos c) /\ eval_r r = eval t
  | CKw k r => exists t, In (k, t) (c_kws c) /\ eval_r r = eval t
  end.
Proof.
  intros F c fs i HF. unfold call_result. generalize (cinserts (length (c_pos c)) (c_kws c) fs [] (length (c_pos c))) as ins. generalize 0%nat as j.
  assert (G : forall e, In e (elements c) -> In i (assign_el F fs e) ->
    match i with
    | CPos r => exists t, In t (c_pos c) /\ eval_r r = eval t
    | CKw k r => exists t, In (k, t) (c_kws c) /\ eval_r r = eval t
    end).
  { intros e He Hi. unfold elements in He. apply in_app_or in He. destruct He as [He|He]; apply in_map_iff in He; destruct He as [x [<- Hx]].
    - cbn [assign_el] in Hi; unfold assign_pos in Hi. rewrite HF in Hi. destruct Hi as [<-|[]]. exists x. split; [exact Hx|reflexivity].
    - destruct x as [k t]. cbn [assign_el assign_kw] in Hi.
      assert (K : i = CKw k (RKeep t) -> exists t0, In (k, t0) (c_kws c) /\ eval_r (RKeep t) = eval t0) by (intros _; exists t; split; [exact Hx|reflexivity]).
      destruct (find_field k fs) as [f|]; [|rewrite HF in Hi; destruct Hi as [<-|[]]; exists t; split; [exact Hx|reflexivity]].
      destruct (fd_default f).
      + destruct (has_unm t); [destruct Hi as [<-|[]]; exists t; split; [exact Hx|reflexivity]|].
        rewrite HF in Hi. destruct (val_eqb (eval t) (fd_val f)); [destruct (f_update F); [destruct Hi|]|];
          destruct Hi as [<-|[]]; exists t; (split; [exact Hx|reflexivity]).
      + destruct Hi as [<-|[]]. exists t. split; [exact Hx|]. apply tree_nofix_value. exact HF. }
  induction (elements c) as [|e r IH]; intros j ins; cbn [cplace]; rewrite HF; [intros []|].
  cbn [app]. intros Hi. apply in_app_or in Hi. destruct Hi as [Hi|Hi].
  - apply (G e); [left; reflexivity|exact Hi].
  - apply (IH (fun e' He' => G e' (or_intror He')) (S j) ins Hi).
Qed.

(* ------------------------------------------------------------------------- with fix: the result is the new object *)
Lemma cinserts_concat : forall p kws fs pending pos,
  flat_map snd (cinserts p kws fs pending pos) = rev pending ++ new_fields kws fs.
Proof.
  intros p kws fs. unfold new_fields. induction fs as [|f r IH]; intros pending pos; cbn [cinserts filter map].
  - unfold flush. destruct pending as [|q qs]; cbn [flat_map snd]; rewrite ?app_nil_r; reflexivity.
  - unfold is_new_field at 1. destruct (fd_default f); cbn [negb andb]; [apply IH|].
    destruct (kw_index (fd_name f) kws) as [i|] eqn:E.
    + rewrite flat_map_app, IH. cbn [rev app]. unfold flush. destruct pending as [|q qs]; cbn [flat_map snd app]; rewrite ?app_nil_r; reflexivity.
    + cbn [map]. rewrite IH. cbn [rev]. rewrite <- app_assoc. reflexivity.
Qed.

Lemma cinserts_pos_bound : forall p kws fs pending pos n, pos <= n -> p + length kws <= n ->
  Forall (fun g : nat * list (Z * val) => fst g <= n) (cinserts p kws fs pending pos).
Proof.
  intros p kws fs. induction fs as [|f r IH]; intros pending pos n Hp Hl; cbn [cinserts].
  - unfold flush. destruct pending; constructor; [exact Hp|constructor].
  - destruct (fd_default f); [apply IH; assumption|].
    destruct (kw_index (fd_name f) kws) as [i|] eqn:E; [|apply IH; assumption].
    apply Forall_app. split; [unfold flush; destruct pending; constructor; [exact Hp|constructor]|].
    apply IH; [|exact Hl]. apply kw_index_some in E. lia.
Qed.

Lemma cinserted_at_perm : forall ins n, Forall (fun g : nat * list (Z * val) => fst g <= n) ins ->
  Permutation (flat_map (cinserted_at ins) (seq 0 (S n))) (cgens (flat_map snd ins)).
Proof.
  intros ins n. induction ins as [|[p g] r IH]; intros H.
  - unfold cinserted_at. cbn [flat_map]. induction (seq 0 (S n)) as [|x l IHl]; [constructor|exact IHl].
  - inversion H as [|? ? Hp Hr]; subst. cbn [fst] in Hp. cbn [flat_map snd]. unfold cgens. rewrite map_app. fold (cgens g). fold (cgens (flat_map snd r)).
    assert (E : forall i, cinserted_at ((p, g) :: r) i = (if Nat.eqb p i then cgens g else []) ++ cinserted_at r i) by (intros; reflexivity).
    assert (P : forall l, Permutation (flat_map (cinserted_at ((p, g) :: r)) l)
                                      (flat_map (fun i => if Nat.eqb p i then cgens g else []) l ++ flat_map (cinserted_at r) l)).
    { induction l as [|x l IHl]; [constructor|]. cbn [flat_map]. rewrite E. rewrite IHl. rewrite <- !app_assoc.
      apply Permutation_app_head. apply Permutation_app_swap_app. }
    rewrite P. apply Permutation_app; [|exact (IH Hr)].
    assert (G : forall a len, a <= p < a + len -> flat_map (fun i => if Nat.eqb p i then cgens g else []) (seq a len) = cgens g).
    { intros a len. revert a. induction len as [|len IHlen]; intros a Ha; [lia|]. cbn [seq flat_map].
      destruct (Nat.eqb p a) eqn:Epa.
      - apply Nat.eqb_eq in Epa. subst a. assert (Z0 : forall b len', p < b -> flat_map (fun i => if Nat.eqb p i then cgens g else []) (seq b len') = []).
        { intros b len'. revert b. induction len' as [|l' IHl']; intros b Hb; [reflexivity|]. cbn [seq flat_map].
          destruct (Nat.eqb p b) eqn:Eb; [apply Nat.eqb_eq in Eb; lia|]. apply IHl'. lia. }
        rewrite Z0 by lia. apply app_nil_r.
      - apply Nat.eqb_neq in Epa. cbn [app]. apply IHlen. lia. }
    rewrite G by lia. apply Permutation_refl.
Qed.

Lemma cplace_perm : forall F ins fs els i, f_fix F = true ->
  Permutation (cplace F ins fs i els) (flat_map (assign_el F fs) els ++ flat_map (cinserted_at ins) (seq i (S (length els)))).
Proof.
  intros F ins fs els. induction els as [|e r IH]; intros i HF; cbn [cplace length seq flat_map]; rewrite HF.
  - rewrite app_nil_r. apply Permutation_refl.
  - rewrite (IH (S i) HF). cbn [seq flat_map]. rewrite <- !app_assoc.
    rewrite Permutation_app_swap_app. apply Permutation_app_head. apply Permutation_app_swap_app.
Qed.

(* up to order, the result is: what becomes of every old argument, plus one generated keyword per new field *)
Theorem call_result_perm : forall F c fs, f_fix F = true ->
  Permutation (call_result F c fs) (flat_map (assign_el F fs) (elements c) ++ cgens (new_fields (c_kws c) fs)).
Proof.
  intros F c fs HF. unfold call_result. rewrite (cplace_perm F _ fs (elements c) 0 HF). apply Permutation_app_head.
  rewrite cinserted_at_perm.
  - rewrite cinserts_concat. reflexivity.
  - unfold elements. rewrite app_length, !map_length. apply cinserts_pos_bound; lia.
Qed.

Definition managed_call (c : call) : Prop :=
  (forall t, In t (c_pos c) -> managed t = true) /\ (forall k t, In (k, t) (c_kws c) -> managed t = true).
(* every keyword of the old call names a field (otherwise evaluating the old call raises TypeError), no keyword twice (SyntaxError) *)
Definition wf_call (c : call) (fs : list field) : Prop :=
  NoDup (map fst (c_kws c)) /\ NoDup (map fd_name fs) /\ (forall k t, In (k, t) (c_kws c) -> find_field k fs <> None).

(* C02 for constructor calls, part 1: after fix no positional argument is left and every keyword argument holds the value of
   its field in the new object *)
Theorem call_fix_values : forall F c fs i, f_fix F = true -> managed_call c -> wf_call c fs -> In i (call_result F c fs) ->
  match i with
  | CPos _ => False
  | CKw k r => exists f, In f fs /\ fd_name f = k /\ eval_r r = fd_val f
  end.
Proof.
  intros F c fs i HF [Hmp Hmk] [_ [_ Hwf]] Hi. apply (Permutation_in _ (call_result_perm F c fs HF)) in Hi.
  apply in_app_or in Hi. destruct Hi as [Hi|Hi].
  - apply in_flat_map in Hi. destruct Hi as [e [He Hi]]. unfold elements in He. apply in_app_or in He.
    destruct He as [He|He]; apply in_map_iff in He; destruct He as [x [<- Hx]].
    + cbn [assign_el] in Hi; unfold assign_pos in Hi. rewrite HF in Hi. destruct Hi.
    + destruct x as [k t]. cbn [assign_el assign_kw] in Hi. specialize (Hwf k t Hx). specialize (Hmk k t Hx).
      destruct (find_field k fs) as [f|] eqn:Ef; [|congruence]. destruct (find_field_in k fs f Ef) as [Hin Hn].
      destruct (fd_default f).
      * rewrite (managed_no_unm t Hmk) in Hi. rewrite HF in Hi. destruct (val_eqb (eval t) (fd_val f)) eqn:Ev; [|destruct Hi].
        destruct (f_update F); [destruct Hi|]. destruct Hi as [<-|[]]. exists f. split; [exact Hin|]. split; [exact Hn|].
        cbn [eval_r]. apply val_eqb_eq. exact Ev.
      * destruct Hi as [<-|[]]. exists f. split; [exact Hin|]. split; [exact Hn|]. apply tree_fix_value; assumption.
  - unfold cgens, new_fields in Hi. rewrite map_map in Hi. apply in_map_iff in Hi. destruct Hi as [f [<- Hf]]. apply filter_In in Hf.
    cbn [fst snd]. exists f. split; [tauto|]. split; reflexivity.
Qed.

(* part 2: every field that does not hold its default is given *)
Theorem call_fix_complete : forall F c fs f, f_fix F = true -> wf_call c fs -> In f fs -> fd_default f = false ->
  exists r, In (CKw (fd_name f) r) (call_result F c fs).
Proof.
  intros F c fs f HF [_ [Hnd _]] Hin Hd.
  destruct (kw_index (fd_name f) (c_kws c)) as [i|] eqn:Ei.
  - apply kw_index_some in Ei. destruct Ei as [_ Ei]. apply in_map_iff in Ei. destruct Ei as [[k t] [Ek Hkt]]. cbn [fst] in Ek. subst k.
    exists (assign_tree F t (fd_val f)). unfold call_result. apply (in_cplace_el F _ fs (inr (fd_name f, t))).
    + unfold elements. apply in_or_app. right. apply in_map. exact Hkt.
    + cbn [assign_el assign_kw]. rewrite (find_field_nodup fs f Hnd Hin), Hd. left. reflexivity.
  - exists (RGen (fd_val f)). apply (Permutation_in _ (Permutation_sym (call_result_perm F c fs HF))). apply in_or_app. right.
    unfold cgens, new_fields. rewrite map_map. apply in_map_iff. exists f. split; [reflexivity|]. apply filter_In. split; [exact Hin|].
    unfold is_new_field. rewrite Hd, Ei. reflexivity.
Qed.

Lemma assign_el_names : forall F fs e x, In x (kw_names (assign_el F fs e)) -> match e with inl _ => False | inr (k, _) => x = k end.
Proof.
  intros F fs [t|[k t]] x; cbn [assign_el assign_kw]; unfold assign_pos.
  - destruct (f_fix F); cbn; tauto.
  - destruct (find_field k fs) as [f|]; [destruct (fd_default f); [destruct (has_unm t); [|destruct (val_eqb (eval t) (fd_val f)); [destruct (f_update F)|destruct (f_fix F)]]|]|destruct (f_fix F)];
      cbn; intros H; try tauto; destruct H as [<-|[]]; reflexivity.
Qed.

Lemma kw_names_app : forall a b, kw_names (a ++ b) = kw_names a ++ kw_names b.
Proof. intros. unfold kw_names. apply flat_map_app. Qed.

(* part 3: no keyword is given twice (a SyntaxError otherwise) *)
Theorem call_fix_nodup : forall F c fs, f_fix F = true -> wf_call c fs -> NoDup (kw_names (call_result F c fs)).
Proof.
  intros F c fs HF [Hnk [Hnf _]].
  assert (P : Permutation (kw_names (call_result F c fs)) (kw_names (flat_map (assign_el F fs) (elements c)) ++ kw_names (cgens (new_fields (c_kws c) fs)))).
  { rewrite <- kw_names_app. unfold kw_names. apply Permutation_flat_map. apply call_result_perm. exact HF. }
  apply (Permutation_NoDup (Permutation_sym P)). clear P. apply NoDup_app_intro.
  - (* old arguments: a sub-list of the old keyword names *)
    unfold elements. rewrite flat_map_app, kw_names_app.
    assert (E : kw_names (flat_map (assign_el F fs) (map inl (c_pos c))) = []).
    { induction (c_pos c) as [|t r IH]; [reflexivity|]. cbn [map flat_map]. rewrite kw_names_app, IH. cbn [assign_el]. unfold assign_pos. rewrite HF. reflexivity. }
    rewrite E. cbn [app]. clear E. induction (c_kws c) as [|[k t] r IH]; [constructor|].
    cbn [map fst] in Hnk. inversion Hnk as [|? ? Hni Hnk']; subst. cbn [map flat_map]. rewrite kw_names_app.
    apply NoDup_app_intro; [| exact (IH Hnk') |].
    + cbn [assign_el assign_kw]. destruct (find_field k fs) as [f|]; [destruct (fd_default f); [destruct (has_unm t); [|destruct (val_eqb (eval t) (fd_val f)); [destruct (f_update F)|destruct (f_fix F)]]|]|destruct (f_fix F)];
        cbn; repeat constructor; intros [].
    + intros x Hx Hy. apply assign_el_names in Hx. subst x. apply Hni.
      unfold kw_names in Hy. apply in_flat_map in Hy. destruct Hy as [it [Hit Hk]]. apply in_flat_map in Hit. destruct Hit as [e [He Hit]].
      apply in_map_iff in He. destruct He as [[k' t'] [<- Hkt]].
      assert (Hn : In k (kw_names (assign_el F fs (inr (k', t'))))) by (unfold kw_names; apply in_flat_map; exists it; split; assumption).
      apply assign_el_names in Hn. subst k'. apply in_map_iff. exists (k, t'). split; [reflexivity|exact Hkt].
  - unfold cgens, new_fields. rewrite map_map. unfold kw_names. rewrite flat_map_concat_map, map_map. cbn [fst].
    rewrite <- flat_map_concat_map.
    clear Hnk. induction fs as [|f r IH]; [constructor|]. cbn [map] in Hnf. inversion Hnf as [|? ? Hni Hnf']; subst. cbn [filter].
    destruct (is_new_field (c_kws c) f); [|exact (IH Hnf')]. cbn [flat_map app]. constructor; [|exact (IH Hnf')].
    intros Hin. apply Hni. apply in_flat_map in Hin. destruct Hin as [g [Hg [<-|[]]]]. apply filter_In in Hg. apply in_map. tauto.
  - intros x Hx Hy.
    unfold kw_names in Hx. apply in_flat_map in Hx. destruct Hx as [it [Hit Hk]]. apply in_flat_map in Hit. destruct Hit as [e [He Hit]].
    assert (Hn : In x (kw_names (assign_el F fs e))) by (unfold kw_names; apply in_flat_map; exists it; split; assumption).
    apply assign_el_names in Hn. unfold elements in He. apply in_app_or in He. destruct He as [He|He]; apply in_map_iff in He; destruct He as [y [<- Hy']]; [destruct Hn|].
    destruct y as [k t]. subst x.
    unfold cgens, new_fields in Hy. rewrite map_map in Hy. unfold kw_names in Hy. apply in_flat_map in Hy. destruct Hy as [it' [Hit' Hk']].
    apply in_map_iff in Hit'. destruct Hit' as [f [<- Hf]]. cbn [fst] in Hk'. destruct Hk' as [Hk'|[]]. apply filter_In in Hf. destruct Hf as [_ Hf].
    unfold is_new_field in Hf. apply andb_true_iff in Hf. destruct Hf as [_ Hf].
    destruct (kw_index (fd_name f) (c_kws c)) eqn:Ei; [discriminate|]. apply kw_index_none in Ei. apply Ei. rewrite Hk'. apply in_map_iff. exists (k, t). split; [reflexivity|exact Hy'].
Qed.

(* ------------------------------------------------------------------------- C10: parts the user controls *)
Definition call_unms (c : call) : list nat := flat_map (fun e => match e with inl t => unms t | inr (_, t) => unms t end) (elements c).
Definition result_unms (l : list citem) : list nat := flat_map (fun i => unms_r (item_tree i)) l.

Lemma assign_el_unms : forall F fs e, subseq (result_unms (assign_el F fs e)) (match e with inl t => unms t | inr (_, t) => unms t end).
Proof.
  intros F fs [t|[k t]]; cbn [assign_el assign_kw]; unfold assign_pos.
  - destruct (f_fix F); cbn; [apply subseq_nil_l|rewrite app_nil_r; apply subseq_refl].
  - assert (K : subseq (result_unms [CKw k (RKeep t)]) (unms t)) by (cbn; rewrite app_nil_r; apply subseq_refl).
    destruct (find_field k fs) as [f|]; [destruct (fd_default f); [destruct (has_unm t); [|destruct (val_eqb (eval t) (fd_val f)); [destruct (f_update F)|destruct (f_fix F)]]|]|destruct (f_fix F)];
      try exact K; try (cbn; apply subseq_nil_l).
    unfold result_unms. cbn [flat_map item_tree]. rewrite app_nil_r. unfold assign_tree. apply assign_unmanaged_subsequence.
Qed.
Lemma cinserted_unms : forall ins i, result_unms (cinserted_at ins i) = [].
Proof.
  intros ins i. unfold cinserted_at, result_unms. induction ins as [|[p g] r IH]; [reflexivity|]. cbn [flat_map fst snd]. rewrite flat_map_app, IH, app_nil_r.
  destruct (Nat.eqb p i); [|reflexivity]. unfold cgens. induction g as [|x g IHg]; [reflexivity|exact IHg].
Qed.

(* whatever is approved and observed: no code is generated for a user-controlled part, none is duplicated or reordered *)
Theorem call_unmanaged_subsequence : forall F c fs, subseq (result_unms (call_result F c fs)) (call_unms c).
Proof.
  intros F c fs. unfold call_result, call_unms. generalize (cinserts (length (c_pos c)) (c_kws c) fs [] (length (c_pos c))) as ins. generalize 0%nat as i.
  induction (elements c) as [|e r IH]; intros i ins; cbn [cplace flat_map].
  - destruct (f_fix F); [rewrite cinserted_unms|]; apply ss_nil.
  - unfold result_unms. rewrite !flat_map_app. fold (result_unms (assign_el F fs e)). fold (result_unms (cplace F ins fs (S i) r)).
    assert (E : flat_map (fun i0 : citem => unms_r (item_tree i0)) (if f_fix F then cinserted_at ins i else []) = []).
    { destruct (f_fix F); [apply cinserted_unms|reflexivity]. }
    rewrite E. cbn [app]. apply subseq_app; [apply assign_el_unms|apply IH].
Qed.

(* an argument the user controls at its top is never touched, whatever the field now holds (also its default) *)
Theorem call_unmanaged_kw_kept : forall F c fs k t, In (k, t) (c_kws c) -> is_unm t = true -> find_field k fs <> None ->
  In (CKw k (RKeep t)) (call_result F c fs).
Proof.
  intros F c fs k t Hin Hu Hf. unfold call_result. apply (in_cplace_el F _ fs (inr (k, t))).
  - unfold elements. apply in_or_app. right. apply in_map. exact Hin.
  - cbn [assign_el assign_kw]. destruct (find_field k fs) as [f|]; [|congruence]. assert (Hh : has_unm t = true) by (destruct t; try discriminate; reflexivity). destruct (fd_default f); [rewrite Hh; left; reflexivity|].
    left. f_equal. unfold assign_tree. rewrite assign_S. destruct t as [z c0|i z|k0 l]; try discriminate. destruct (fd_val f); reflexivity.
Qed.

(* ... and an argument that HOLDS a user-controlled part anywhere is never deleted because its field now holds the default (update deletes keyword
   arguments that spell out a default: not these) *)
Theorem call_kw_holding_unmanaged_kept : forall F c fs k t f, In (k, t) (c_kws c) -> has_unm t = true -> find_field k fs = Some f -> fd_default f = true ->
  In (CKw k (RKeep t)) (call_result F c fs).
Proof.
  intros F c fs k t f Hin Hu Hf Hd. unfold call_result. apply (in_cplace_el F _ fs (inr (k, t))).
  - unfold elements. apply in_or_app. right. apply in_map. exact Hin.
  - cbn [assign_el assign_kw]. rewrite Hf, Hd, Hu. left. reflexivity.
Qed.

(* ------------------------------------------------------------------------- the deviation recorded as finding F-41 *)
(* a POSITIONAL argument of a dataclass-like call is deleted and re-created as a keyword argument with category fix although
   its value is unchanged: `A(0+1)` observed as A(f0=1) *)
Theorem positional_argument_rewritten_refuted :
  exists F c fs, f_fix F = true /\ f_update F = false /\
    c_pos c = [TLeaf 1 false] /\ fs = [{| fd_name := 0; fd_val := VAtom 1; fd_default := false |}] /\
    call_result F c fs = [CKw 0 (RGen (VAtom 1))].
Proof.
  exists {| f_create := false; f_fix := true; f_trim := false; f_update := false |}, {| c_pos := [TLeaf 1 false]; c_kws := [] |},
    [{| fd_name := 0%Z; fd_val := VAtom 1; fd_default := false |}].
  repeat split.
Qed.

(* non-vacuity: A(f2=[0+1, 2], f0=5, f3=7) with fields f0..f4 (f3, f4 have defaults) observed as A(f0=5, f1=9, f2=[1, 2, 3], f3=<default>, f4=4), fix only:
   f1 is pending when f2 is matched and is inserted at the position remembered from the last matched keyword f0 (behind it); f3 (now the
   default, value changed) is deleted; f4 is placed at 1 + the index of f2, i.e. in front of f0: A(f2=[0+1, 2, 3], f4 = 4, f0=5, f1 = 9) *)
Example call_example :
  let F := {| f_create := false; f_fix := true; f_trim := false; f_update := false |} in
  let c := {| c_pos := []; c_kws := [(2, TSeq KList [TLeaf 1 false; TLeaf 2 true]); (0, TLeaf 5 true); (3, TLeaf 7 true)]%Z |} in
  let fs := [ {| fd_name := 0; fd_val := VAtom 5; fd_default := false |}; {| fd_name := 1; fd_val := VAtom 9; fd_default := false |};
              {| fd_name := 2; fd_val := VSeq KList [VAtom 1; VAtom 2; VAtom 3]; fd_default := false |};
              {| fd_name := 3; fd_val := VAtom 0; fd_default := true |}; {| fd_name := 4; fd_val := VAtom 4; fd_default := false |} ]%Z in
  call_result F c fs =
    [CKw 2 (RSeq KList [RKeep (TLeaf 1 false); RKeep (TLeaf 2 true); RGen (VAtom 3)]); CKw 4 (RGen (VAtom 4)); CKw 0 (RKeep (TLeaf 5 true)); CKw 1 (RGen (VAtom 9))]%Z
  /\ managed_call c /\ wf_call c fs.
Proof.
  split; [vm_compute; reflexivity|]. split.
  - split; [intros t []|]. intros k t H. cbn in H. destruct H as [H|[H|[H|[]]]]; injection H as <- <-; reflexivity.
  - split; [|split].
    + cbn. repeat constructor; cbn; intuition discriminate.
    + cbn. repeat constructor; cbn; intuition discriminate.
    + intros k t H. cbn in H. destruct H as [H|[H|[H|[]]]]; injection H as <- <-; cbn; discriminate.
Qed.
