(* C09 for constructor calls: a run with F1 followed by a run with F2 on the call it wrote equals one run with F1 and F2 together.
   The proof goes through a position-free description of the result: every group of inserted keywords is ANCHORED at the last
   matched keyword before it (or at the front of the keywords), so keywords that are deleted in between do not matter.
   (This is the statement that failed before the repair of finding F-42, where the anchor position ignored the positional
   arguments of the call.) *)
From Coq Require Import List ZArith Bool Arith Lia.
Import ListNotations.
From V Require Import Model.Align Model.SnapOps Model.TreeAssign Model.CallAssign Proofs.UnmanagedProofs Proofs.TreeAssignProofs
  Proofs.TreeAssignConfluence Proofs.DictAssignProofs Proofs.CallAssignProofs.

(* ------------------------------------------------------------------------- groups of inserted keywords and their anchors *)
Definition group := (option Z * list (Z * val))%type.
Definition aflush (pending : list (Z * val)) (a : option Z) : list group :=
  match pending with [] => [] | _ => [(a, rev pending)] end.
Fixpoint cgroups (kws : list (Z * tree)) (fs : list field) (pending : list (Z * val)) (a : option Z) : list group :=
  match fs with
  | [] => aflush pending a
  | f :: r =>
      if fd_default f then cgroups kws r pending a
      else match kw_index (fd_name f) kws with
           | None => cgroups kws r ((fd_name f, fd_val f) :: pending) a
           | Some _ => aflush pending a ++ cgroups kws r [] (Some (fd_name f))
           end
  end.
Definition apos (p : nat) (kws : list (Z * tree)) (a : option Z) : nat :=
  match a with
  | None => p
  | Some k => match kw_index k kws with Some i => p + S i | None => p end
  end.
Definition posmap (p : nat) (kws : list (Z * tree)) (g : group) : nat * list (Z * val) := (apos p kws (fst g), snd g).

Lemma cinserts_groups : forall p kws fs pending a,
  cinserts p kws fs pending (apos p kws a) = map (posmap p kws) (cgroups kws fs pending a).
Proof.
  intros p kws fs. induction fs as [|f r IH]; intros pending a; cbn [cinserts cgroups].
  - unfold flush, aflush. destruct pending; reflexivity.
  - destruct (fd_default f); [apply IH|]. destruct (kw_index (fd_name f) kws) as [i|] eqn:E; [|apply IH].
    rewrite map_app. f_equal; [unfold flush, aflush; destruct pending; reflexivity|].
    specialize (IH [] (Some (fd_name f))). unfold apos at 1 in IH. rewrite E in IH. exact IH.
Qed.

Definition valid_anchor (kws : list (Z * tree)) (a : option Z) : Prop :=
  match a with None => True | Some k => kw_index k kws <> None end.
Lemma cgroups_anchors : forall kws fs pending a, valid_anchor kws a ->
  Forall (fun g : group => valid_anchor kws (fst g)) (cgroups kws fs pending a).
Proof.
  intros kws fs. induction fs as [|f r IH]; intros pending a Ha; cbn [cgroups].
  - unfold aflush. destruct pending; constructor; [exact Ha|constructor].
  - destruct (fd_default f); [apply IH; exact Ha|]. destruct (kw_index (fd_name f) kws) as [i|] eqn:E; [|apply IH; exact Ha].
    apply Forall_app. split; [unfold aflush; destruct pending; constructor; [exact Ha|constructor]|].
    apply IH. cbn [valid_anchor]. rewrite E. discriminate.
Qed.

Definition anchor_eqb (a b : option Z) : bool :=
  match a, b with None, None => true | Some x, Some y => Z.eqb x y | _, _ => false end.
Definition anchored (G : list group) (a : option Z) : list citem :=
  flat_map (fun g : group => if anchor_eqb (fst g) a then cgens (snd g) else []) G.

Lemma kw_index_inj : forall kws k1 k2 i, kw_index k1 kws = Some i -> kw_index k2 kws = Some i -> k1 = k2.
Proof.
  induction kws as [|[k t] r IH]; intros k1 k2 i; cbn [kw_index]; [discriminate|].
  destruct (Z.eqb k1 k) eqn:E1; destruct (Z.eqb k2 k) eqn:E2.
  - apply Z.eqb_eq in E1, E2. congruence.
  - intros H1 H2. injection H1 as <-. destruct (kw_index k2 r); cbn [option_map] in H2; discriminate.
  - intros H1 H2. injection H2 as <-. destruct (kw_index k1 r); cbn [option_map] in H1; discriminate.
  - destruct (kw_index k1 r) as [i1|] eqn:F1; destruct (kw_index k2 r) as [i2|] eqn:F2; cbn [option_map]; try discriminate.
    intros H1 H2. injection H1 as <-. injection H2 as H2. subst i2. exact (IH k1 k2 i1 F1 F2).
Qed.

Lemma apos_inj : forall p kws a b, valid_anchor kws a -> valid_anchor kws b ->
  Nat.eqb (apos p kws a) (apos p kws b) = anchor_eqb a b.
Proof.
  intros p kws [k1|] [k2|] Ha Hb; cbn [apos anchor_eqb valid_anchor] in *.
  - destruct (kw_index k1 kws) as [i|] eqn:E1; [|congruence]. destruct (kw_index k2 kws) as [j|] eqn:E2; [|congruence].
    destruct (Z.eqb k1 k2) eqn:E.
    + apply Z.eqb_eq in E. subst k2. rewrite E1 in E2. injection E2 as <-. apply Nat.eqb_refl.
    + apply Nat.eqb_neq. intros H. assert (i = j) by lia. subst j. apply Z.eqb_neq in E. apply E. exact (kw_index_inj kws k1 k2 i E1 E2).
  - destruct (kw_index k1 kws) as [i|]; [|congruence]. apply Nat.eqb_neq. lia.
  - destruct (kw_index k2 kws) as [i|]; [|congruence]. apply Nat.eqb_neq. lia.
  - apply Nat.eqb_refl.
Qed.

Lemma inserted_anchor : forall p kws G a, Forall (fun g : group => valid_anchor kws (fst g)) G -> valid_anchor kws a ->
  cinserted_at (map (posmap p kws) G) (apos p kws a) = anchored G a.
Proof.
  intros p kws G a HG Ha. unfold cinserted_at, anchored. induction HG as [|g r Hg Hr IH]; [reflexivity|].
  cbn [map flat_map]. rewrite IH. f_equal. unfold posmap. cbn [fst snd]. rewrite (apos_inj p kws (fst g) a Hg Ha). reflexivity.
Qed.
Lemma inserted_below : forall p kws G q, q < p -> cinserted_at (map (posmap p kws) G) q = [].
Proof.
  intros p kws G q Hq. unfold cinserted_at. induction G as [|g r IH]; [reflexivity|]. cbn [map flat_map]. rewrite IH, app_nil_r.
  unfold posmap. cbn [fst snd]. assert (H : Nat.eqb (apos p kws (fst g)) q = false).
  { apply Nat.eqb_neq. unfold apos. destruct (fst g) as [k|]; [destruct (kw_index k kws)|]; lia. }
  rewrite H. reflexivity.
Qed.

(* ------------------------------------------------------------------------- the result without positions *)
Fixpoint kwplace (F : flags) (ins : list (nat * list (Z * val))) (fs : list field) (i : nat) (Ks : list (Z * tree)) : list citem :=
  match Ks with
  | [] => []
  | kt :: r => assign_kw F fs kt ++ (if f_fix F then cinserted_at ins (S i) else []) ++ kwplace F ins fs (S i) r
  end.
Lemma cplace_kws : forall F ins fs Ks i,
  cplace F ins fs i (map inr Ks) = (if f_fix F then cinserted_at ins i else []) ++ kwplace F ins fs i Ks.
Proof.
  intros F ins fs Ks. induction Ks as [|kt r IH]; intros i; cbn [map cplace kwplace]; [rewrite app_nil_r; reflexivity|].
  rewrite IH. cbn [assign_el]. reflexivity.
Qed.
Lemma cplace_pos : forall F ins fs P rest i, (forall q, q < i + length P -> cinserted_at ins q = []) ->
  cplace F ins fs i (map inl P ++ rest) = flat_map (assign_pos F) P ++ cplace F ins fs (i + length P) rest.
Proof.
  intros F ins fs P rest. induction P as [|t r IH]; intros i H; cbn [map app length flat_map].
  - rewrite Nat.add_0_r. reflexivity.
  - cbn [length] in H. cbn [cplace assign_el]. rewrite (H i) by lia. rewrite IH by (intros q Hq; apply H; lia).
    replace (i + S (length r)) with (S i + length r) by lia.
    destruct (f_fix F); cbn [app]; rewrite <- app_assoc; reflexivity.
Qed.

Lemma kw_index_app : forall k t pre r, ~ In k (map fst pre) -> kw_index k (pre ++ (k, t) :: r) = Some (length pre).
Proof.
  intros k t pre r. induction pre as [|[k' t'] pre IH]; intros H; cbn [app kw_index length].
  - rewrite Z.eqb_refl. reflexivity.
  - cbn [map fst In] in H. destruct (Z.eqb k k') eqn:E; [apply Z.eqb_eq in E; subst; exfalso; apply H; left; reflexivity|].
    rewrite IH by tauto. reflexivity.
Qed.

Definition kw_part (F : flags) (fs : list field) (G : list group) (kt : Z * tree) : list citem :=
  assign_kw F fs kt ++ (if f_fix F then anchored G (Some (fst kt)) else []).

Lemma kwplace_anchored : forall F fs p K G Ks pre, K = pre ++ Ks -> NoDup (map fst K) ->
  Forall (fun g : group => valid_anchor K (fst g)) G ->
  kwplace F (map (posmap p K) G) fs (p + length pre) Ks = flat_map (kw_part F fs G) Ks.
Proof.
  intros F fs p K G Ks. induction Ks as [|[k t] r IH]; intros pre HK Hnd HG; [reflexivity|].
  cbn [kwplace flat_map]. unfold kw_part at 1. cbn [fst]. rewrite <- app_assoc. f_equal.
  assert (Hi : kw_index k K = Some (length pre)).
  { rewrite HK. apply kw_index_app. rewrite HK in Hnd. rewrite map_app in Hnd. cbn [map fst] in Hnd.
    apply NoDup_remove_2 in Hnd. intros Hin. apply Hnd. apply in_or_app. left. exact Hin. }
  assert (Hp : S (p + length pre) = apos p K (Some k)) by (unfold apos; rewrite Hi; lia).
  f_equal.
  - destruct (f_fix F); [|reflexivity]. rewrite Hp. apply inserted_anchor; [exact HG|]. cbn [valid_anchor]. rewrite Hi. discriminate.
  - specialize (IH (pre ++ [(k, t)])). rewrite app_length in IH. cbn [length] in IH.
    replace (p + (length pre + 1)) with (S (p + length pre)) in IH by lia. apply IH; [|exact Hnd|exact HG].
    rewrite <- app_assoc. exact HK.
Qed.

Definition groups_of (c : call) (fs : list field) : list group := cgroups (c_kws c) fs [] None.

(* the arguments after a run: what becomes of the positional arguments, the keywords inserted at the front, then every old
   keyword followed by the inserted keywords anchored at it *)
Theorem call_result_anchored : forall F c fs, NoDup (map fst (c_kws c)) ->
  call_result F c fs =
    flat_map (assign_pos F) (c_pos c) ++ (if f_fix F then anchored (groups_of c fs) None else [])
    ++ flat_map (kw_part F fs (groups_of c fs)) (c_kws c).
Proof.
  intros F c fs Hnd. unfold call_result, elements, groups_of. set (p := length (c_pos c)). set (K := c_kws c).
  assert (E : cinserts p K fs [] p = map (posmap p K) (cgroups K fs [] None)) by exact (cinserts_groups p K fs [] None).
  rewrite E. clear E.
  pose proof (cgroups_anchors K fs [] None I) as HG.
  rewrite cplace_pos by (intros q Hq; apply inserted_below; cbn [Nat.add] in Hq; exact Hq).
  cbn [Nat.add]. f_equal. rewrite cplace_kws. f_equal.
  - destruct (f_fix F); [|reflexivity]. exact (inserted_anchor p K _ None HG I).
  - pose proof (kwplace_anchored F fs p K _ K [] eq_refl Hnd HG) as E. cbn [length] in E. rewrite Nat.add_0_r in E. exact E.
Qed.

(* ------------------------------------------------------------------------- the call a run leaves in the source *)
Definition kws_of (l : list citem) : list (Z * tree) := flat_map (fun i => match i with CKw k r => [(k, to_tree r)] | CPos _ => [] end) l.
Definition pos_of (l : list citem) : list tree := flat_map (fun i => match i with CPos r => [to_tree r] | CKw _ _ => [] end) l.
Definition items_call (l : list citem) : call := {| c_pos := pos_of l; c_kws := kws_of l |}.

Lemma kws_of_app : forall a b, kws_of (a ++ b) = kws_of a ++ kws_of b.
Proof. intros. unfold kws_of. apply flat_map_app. Qed.
Lemma pos_of_app : forall a b, pos_of (a ++ b) = pos_of a ++ pos_of b.
Proof. intros. unfold pos_of. apply flat_map_app. Qed.
Lemma flat_map_flat_map : forall (X Y W : Type) (g : X -> list Y) (h : Y -> list W) (l : list X),
  flat_map h (flat_map g l) = flat_map (fun x => flat_map h (g x)) l.
Proof. intros X Y W g h l. induction l as [|x r IH]; [reflexivity|]. cbn [flat_map]. rewrite flat_map_app, IH. reflexivity. Qed.
Lemma kws_of_flat_map : forall (X : Type) (g : X -> list citem) (l : list X), kws_of (flat_map g l) = flat_map (fun x => kws_of (g x)) l.
Proof. intros. unfold kws_of. apply flat_map_flat_map. Qed.
Lemma pos_of_flat_map : forall (X : Type) (g : X -> list citem) (l : list X), pos_of (flat_map g l) = flat_map (fun x => pos_of (g x)) l.
Proof. intros. unfold pos_of. apply flat_map_flat_map. Qed.
Lemma kws_of_names : forall l, map fst (kws_of l) = kw_names l.
Proof.
  induction l as [|[r|k r] l IH]; [reflexivity| |]; cbn [kws_of kw_names flat_map app map fst] in *; [exact IH|]. f_equal. exact IH.
Qed.

Lemma pos_of_anchored : forall G a, pos_of (anchored G a) = [].
Proof.
  intros G a. unfold anchored. rewrite pos_of_flat_map. induction G as [|g r IH]; [reflexivity|]. cbn [flat_map]. rewrite IH, app_nil_r.
  destruct (anchor_eqb (fst g) a); [|reflexivity]. unfold cgens. induction (snd g) as [|x l IHl]; [reflexivity|exact IHl].
Qed.
Lemma pos_of_assign_kw : forall F fs kt, pos_of (assign_kw F fs kt) = [].
Proof.
  intros F fs [k t]. cbn [assign_kw].
  destruct (find_field k fs) as [f|]; [destruct (fd_default f); [destruct (has_unm t); [|destruct (val_eqb (eval t) (fd_val f)); [destruct (f_update F)|destruct (f_fix F)]]|]|destruct (f_fix F)]; reflexivity.
Qed.
Lemma pos_of_kw_part : forall F fs G l, pos_of (flat_map (kw_part F fs G) l) = [].
Proof.
  intros F fs G l. rewrite pos_of_flat_map. induction l as [|kt r IH]; [reflexivity|]. cbn [flat_map]. rewrite IH, app_nil_r.
  unfold kw_part. rewrite pos_of_app, pos_of_assign_kw. destruct (f_fix F); [apply pos_of_anchored|reflexivity].
Qed.
Lemma pos_of_assign_pos : forall F P, pos_of (flat_map (assign_pos F) P) = if f_fix F then [] else P.
Proof.
  intros F P. rewrite pos_of_flat_map. unfold assign_pos. destruct (f_fix F).
  - induction P as [|t r IH]; [reflexivity|exact IH].
  - induction P as [|t r IH]; [reflexivity|]. cbn [flat_map pos_of to_tree app]. f_equal. exact IH.
Qed.
Lemma kws_of_assign_pos : forall F P, kws_of (flat_map (assign_pos F) P) = [].
Proof.
  intros F P. rewrite kws_of_flat_map. unfold assign_pos. induction P as [|t r IH]; [reflexivity|]. cbn [flat_map]. rewrite IH, app_nil_r.
  destruct (f_fix F); reflexivity.
Qed.

(* ------------------------------------------------------------------------- one keyword argument over two runs *)
Lemma funion_fix : forall F1 F2, f_fix (funion F1 F2) = f_fix F1 || f_fix F2.
Proof. reflexivity. Qed.
Lemma funion_update : forall F1 F2, f_update (funion F1 F2) = f_update F1 || f_update F2.
Proof. reflexivity. Qed.

Lemma per_kw : forall F1 F2 fs k t, managed t = true ->
  kws_of (flat_map (assign_kw F2 fs) (kws_of (assign_kw F1 fs (k, t)))) = kws_of (assign_kw (funion F1 F2) fs (k, t)).
Proof.
  intros F1 F2 fs k t Hm. cbn [assign_kw]. destruct (find_field k fs) as [f|] eqn:Ef.
  - destruct (fd_default f) eqn:Ed.
    + rewrite (managed_no_unm t Hm). rewrite funion_update, funion_fix. destruct (val_eqb (eval t) (fd_val f)) eqn:Ev.
      * destruct (f_update F1); cbn [orb]; [reflexivity|]. cbn [kws_of flat_map to_tree app assign_kw]. rewrite Ef, Ed, (managed_no_unm t Hm), Ev.
        destruct (f_update F2); reflexivity.
      * destruct (f_fix F1); cbn [orb]; [reflexivity|]. cbn [kws_of flat_map to_tree app assign_kw]. rewrite Ef, Ed, (managed_no_unm t Hm), Ev.
        destruct (f_fix F2); reflexivity.
    + cbn [kws_of flat_map app assign_kw]. rewrite Ef, Ed. cbn [flat_map app]. rewrite tree_two_runs_compose by exact Hm. reflexivity.
  - rewrite funion_fix. destruct (f_fix F1); cbn [orb]; [reflexivity|]. cbn [kws_of flat_map to_tree app assign_kw]. rewrite Ef.
    destruct (f_fix F2); reflexivity.
Qed.

(* a keyword argument that a run WITHOUT fix removes belongs to a field holding its default *)
Lemma deleted_nofix_default : forall F fs k t, f_fix F = false -> kws_of (assign_kw F fs (k, t)) = [] ->
  exists f, find_field k fs = Some f /\ fd_default f = true.
Proof.
  intros F fs k t HF. cbn [assign_kw]. destruct (find_field k fs) as [f|]; [|rewrite HF; discriminate].
  destruct (fd_default f) eqn:Ed; [intros _; exists f; split; [reflexivity|exact Ed]|discriminate].
Qed.
Lemma kws_of_assign_kw_shape : forall F fs k t, kws_of (assign_kw F fs (k, t)) = [] \/ exists t', kws_of (assign_kw F fs (k, t)) = [(k, t')].
Proof.
  intros F fs k t. cbn [assign_kw].
  destruct (find_field k fs) as [f|]; [destruct (fd_default f); [destruct (has_unm t); [|destruct (val_eqb (eval t) (fd_val f)); [destruct (f_update F)|destruct (f_fix F)]]|]|destruct (f_fix F)];
    cbn; try (left; reflexivity); right; eexists; reflexivity.
Qed.

(* ------------------------------------------------------------------------- groups: members, anchors, invariance *)
Definition nondefault_field (fs : list field) (k : Z) (v : val) : Prop := exists f, In f fs /\ fd_default f = false /\ fd_name f = k /\ fd_val f = v.
Lemma cgroups_members : forall kws fs0 fs pending a, (forall f, In f fs -> In f fs0) ->
  (forall k v, In (k, v) pending -> nondefault_field fs0 k v) ->
  Forall (fun g : group => forall k v, In (k, v) (snd g) -> nondefault_field fs0 k v) (cgroups kws fs pending a).
Proof.
  intros kws fs0 fs. induction fs as [|f r IH]; intros pending a Hs Hp; cbn [cgroups].
  - unfold aflush. destruct pending as [|x l]; constructor; [|constructor]. cbn [snd]. intros k v Hin. apply in_rev in Hin. apply Hp. exact Hin.
  - assert (Hr : forall g, In g r -> In g fs0) by (intros g Hg; apply Hs; right; exact Hg).
    destruct (fd_default f) eqn:Ed; [apply IH; assumption|]. destruct (kw_index (fd_name f) kws).
    + apply Forall_app. split; [|apply IH; [exact Hr|intros k v []]].
      unfold aflush. destruct pending as [|x l]; constructor; [|constructor]. cbn [snd]. intros k v Hin. apply in_rev in Hin. apply Hp. exact Hin.
    + apply IH; [exact Hr|]. intros k v [H|H]; [|apply Hp; exact H]. injection H as <- <-. exists f. split; [apply Hs; left; reflexivity|]. repeat split; assumption.
Qed.
Lemma cgroups_anchor_fields : forall kws fs0 fs pending a, (forall f, In f fs -> In f fs0) ->
  (match a with None => True | Some k => exists f, In f fs0 /\ fd_default f = false /\ fd_name f = k end) ->
  Forall (fun g : group => match fst g with None => True | Some k => exists f, In f fs0 /\ fd_default f = false /\ fd_name f = k end) (cgroups kws fs pending a).
Proof.
  intros kws fs0 fs. induction fs as [|f r IH]; intros pending a Hs Ha; cbn [cgroups].
  - unfold aflush. destruct pending; constructor; [exact Ha|constructor].
  - assert (Hr : forall g, In g r -> In g fs0) by (intros g Hg; apply Hs; right; exact Hg).
    destruct (fd_default f) eqn:Ed; [apply IH; assumption|]. destruct (kw_index (fd_name f) kws); [|apply IH; assumption].
    apply Forall_app. split; [unfold aflush; destruct pending; constructor; [exact Ha|constructor]|].
    apply IH; [exact Hr|]. exists f. split; [apply Hs; left; reflexivity|]. split; [exact Ed|reflexivity].
Qed.

(* no group is anchored at the keyword of a field that holds its default *)
Lemma anchored_default_nil : forall c fs k f, NoDup (map fd_name fs) -> find_field k fs = Some f -> fd_default f = true ->
  anchored (groups_of c fs) (Some k) = [].
Proof.
  intros c fs k f Hnd Hf Hd. unfold groups_of.
  pose proof (cgroups_anchor_fields (c_kws c) fs fs [] None (fun g H => H) I) as HG.
  unfold anchored. induction HG as [|g r Hg Hr IH]; [reflexivity|]. cbn [flat_map]. rewrite IH, app_nil_r.
  destruct (fst g) as [k'|] eqn:Eg; cbn [anchor_eqb]; [|reflexivity].
  destruct (Z.eqb k' k) eqn:E; [|reflexivity]. apply Z.eqb_eq in E. subst k'. destruct Hg as [f' [Hin [Hd' Hn]]].
  rewrite <- Hn in Hf. rewrite (find_field_nodup fs f' Hnd Hin) in Hf. injection Hf as <-. congruence.
Qed.

(* the groups only depend on WHICH non-default fields have a keyword *)
Lemma cgroups_ext : forall K1 K2 fs pending a,
  (forall f, In f fs -> fd_default f = false -> (kw_index (fd_name f) K1 = None <-> kw_index (fd_name f) K2 = None)) ->
  cgroups K1 fs pending a = cgroups K2 fs pending a.
Proof.
  intros K1 K2 fs. induction fs as [|f r IH]; intros pending a H; cbn [cgroups]; [reflexivity|].
  assert (Hr : forall g, In g r -> fd_default g = false -> (kw_index (fd_name g) K1 = None <-> kw_index (fd_name g) K2 = None))
    by (intros g Hg; apply H; right; exact Hg).
  destruct (fd_default f) eqn:Ed; [apply IH; exact Hr|].
  specialize (H f (or_introl eq_refl) Ed).
  destruct (kw_index (fd_name f) K1) as [i|]; destruct (kw_index (fd_name f) K2) as [j|].
  - rewrite (IH [] (Some (fd_name f)) Hr). reflexivity.
  - destruct H as [_ H]. discriminate (H eq_refl).
  - destruct H as [H _]. discriminate (H eq_refl).
  - apply IH. exact Hr.
Qed.
(* when every non-default field has a keyword nothing is inserted *)
Lemma cgroups_nil : forall K fs a, (forall f, In f fs -> fd_default f = false -> kw_index (fd_name f) K <> None) ->
  cgroups K fs [] a = [].
Proof.
  intros K fs. induction fs as [|f r IH]; intros a H; cbn [cgroups]; [reflexivity|].
  assert (Hr : forall g, In g r -> fd_default g = false -> kw_index (fd_name g) K <> None) by (intros g Hg; apply H; right; exact Hg).
  destruct (fd_default f) eqn:Ed; [apply IH; exact Hr|].
  specialize (H f (or_introl eq_refl) Ed). destruct (kw_index (fd_name f) K); [|congruence]. cbn [aflush app]. apply IH. exact Hr.
Qed.

(* a generated keyword argument is left alone by any later run *)
Lemma canon_run : forall F v, to_tree (assign_tree F (canon_tree v) v) = canon_tree v.
Proof.
  intros F v. unfold assign_tree. rewrite assign_equal_run; [| lia | apply managed_canon_tree | unfold elt_eqb; rewrite eval_canon; apply val_eqb_refl].
  destruct (f_update F); [|reflexivity]. rewrite canonize_canon_tree by apply managed_canon_tree. rewrite eval_canon. reflexivity.
Qed.
Lemma gens_stable_group : forall F fs l, NoDup (map fd_name fs) -> (forall k v, In (k, v) l -> nondefault_field fs k v) ->
  kws_of (flat_map (assign_kw F fs) (kws_of (cgens l))) = kws_of (cgens l).
Proof.
  intros F fs l Hnd. induction l as [|[k v] l IH]; intros Hl; [reflexivity|].
  unfold cgens. cbn [map fst snd]. fold (cgens l).
  change (kws_of (CKw k (RGen v) :: cgens l)) with ((k, canon_tree v) :: kws_of (cgens l)).
  cbn [flat_map]. rewrite kws_of_app. rewrite IH by (intros k' v' H; apply Hl; right; exact H).
  destruct (Hl k v (or_introl eq_refl)) as [f [Hin [Hd [Hn Hv]]]]. cbn [assign_kw]. rewrite <- Hn, (find_field_nodup fs f Hnd Hin), Hd.
  cbn [kws_of flat_map app]. rewrite <- Hv, canon_run. reflexivity.
Qed.
Lemma gens_stable : forall F fs G a, NoDup (map fd_name fs) ->
  Forall (fun g : group => forall k v, In (k, v) (snd g) -> nondefault_field fs k v) G ->
  kws_of (flat_map (assign_kw F fs) (kws_of (anchored G a))) = kws_of (anchored G a).
Proof.
  intros F fs G a Hnd HG. unfold anchored. induction HG as [|g r Hg Hr IH]; [reflexivity|].
  cbn [flat_map]. rewrite kws_of_app, flat_map_app, kws_of_app, IH. f_equal.
  destruct (anchor_eqb (fst g) a); [|reflexivity]. apply gens_stable_group; assumption.
Qed.

Lemma old_kws_nodup : forall F fs K, NoDup (map fst K) -> NoDup (map fst (flat_map (fun kt => kws_of (assign_kw F fs kt)) K)).
Proof.
  intros F fs K. induction K as [|[k t] r IH]; intros Hnd; [constructor|]. cbn [map fst] in Hnd. inversion Hnd as [|? ? Hni Hnd']; subst.
  cbn [flat_map]. rewrite map_app. destruct (kws_of_assign_kw_shape F fs k t) as [E|[t' E]]; rewrite E; cbn [map fst app]; [exact (IH Hnd')|].
  constructor; [|exact (IH Hnd')]. intros Hin. apply Hni. apply in_map_iff in Hin. destruct Hin as [[k' t''] [Ek Hin]]. cbn [fst] in Ek. subst k'.
  apply in_flat_map in Hin. destruct Hin as [[k2 t2] [H2 Hin]]. destruct (kws_of_assign_kw_shape F fs k2 t2) as [E2|[t3 E2]]; rewrite E2 in Hin; [destruct Hin|].
  destruct Hin as [Hin|[]]. injection Hin as -> _. apply in_map_iff. exists (k, t2). split; [reflexivity|exact H2].
Qed.

(* ------------------------------------------------------------------------- the composition law *)
Definition akws (G : list group) (a : option Z) : list (Z * tree) := kws_of (anchored G a).

Lemma kws_of_result : forall F c fs, NoDup (map fst (c_kws c)) ->
  kws_of (call_result F c fs) =
    (if f_fix F then akws (groups_of c fs) None else []) ++
    flat_map (fun kt => kws_of (assign_kw F fs kt) ++ (if f_fix F then akws (groups_of c fs) (Some (fst kt)) else [])) (c_kws c).
Proof.
  intros F c fs Hnd. rewrite (call_result_anchored F c fs Hnd). rewrite !kws_of_app, kws_of_assign_pos. cbn [app]. f_equal.
  - destruct (f_fix F); reflexivity.
  - rewrite kws_of_flat_map. apply flat_map_ext. intros kt. unfold kw_part. rewrite kws_of_app. destruct (f_fix F); reflexivity.
Qed.
Lemma pos_of_result : forall F c fs, NoDup (map fst (c_kws c)) ->
  pos_of (call_result F c fs) = if f_fix F then [] else c_pos c.
Proof.
  intros F c fs Hnd. rewrite (call_result_anchored F c fs Hnd). rewrite !pos_of_app, pos_of_assign_pos, pos_of_kw_part, app_nil_r.
  destruct (f_fix F); [apply pos_of_anchored|apply app_nil_r].
Qed.

Theorem call_two_runs_compose : forall F1 F2 c fs, managed_call c -> wf_call c fs ->
  items_call (call_result F2 (items_call (call_result F1 c fs)) fs) = items_call (call_result (funion F1 F2) c fs).
Proof.
  intros F1 F2 c fs [_ Hmk] Hwf. pose proof Hwf as [HnK [Hnf _]].
  set (G := groups_of c fs).
  assert (HGm : Forall (fun g : group => forall k v, In (k, v) (snd g) -> nondefault_field fs k v) G).
  { apply cgroups_members; [intros f H; exact H|intros k v []]. }
  set (c1 := items_call (call_result F1 c fs)).
  pose proof (kws_of_result F1 c fs HnK) as K1. pose proof (pos_of_result F1 c fs HnK) as P1.
  pose proof (kws_of_result (funion F1 F2) c fs HnK) as KR. pose proof (pos_of_result (funion F1 F2) c fs HnK) as PR.
  fold G in K1, KR. rewrite funion_fix in KR, PR.
  destruct (f_fix F1) eqn:HF1; cbn [orb] in KR, PR.
  - (* the first run repairs: the second one has nothing to insert *)
    assert (Hc1 : NoDup (map fst (c_kws c1))).
    { unfold c1. cbn [items_call c_kws]. rewrite kws_of_names. apply call_fix_nodup; assumption. }
    assert (G2 : groups_of c1 fs = []).
    { unfold groups_of. apply cgroups_nil. intros f Hin Hd. destruct (call_fix_complete F1 c fs f HF1 Hwf Hin Hd) as [r Hr].
      intros Hnone. apply kw_index_none in Hnone. apply Hnone. unfold c1. cbn [items_call c_kws]. rewrite kws_of_names.
      unfold kw_names. apply in_flat_map. exists (CKw (fd_name f) r). split; [exact Hr|left; reflexivity]. }
    match goal with |- items_call ?a = items_call ?b => change ({| c_pos := pos_of a; c_kws := kws_of a |} = {| c_pos := pos_of b; c_kws := kws_of b |}) end. f_equal.
    + rewrite (pos_of_result F2 c1 fs Hc1), PR. unfold c1. cbn [items_call c_pos]. rewrite P1. destruct (f_fix F2); reflexivity.
    + rewrite (kws_of_result F2 c1 fs Hc1), G2, KR.
      assert (E0 : forall a, (if f_fix F2 then akws [] a else []) = []) by (intros a; destruct (f_fix F2); reflexivity).
      rewrite E0. cbn [app].
      rewrite (flat_map_ext _ (fun kt => kws_of (assign_kw F2 fs kt))) by (intros kt; rewrite E0; apply app_nil_r).
      rewrite <- kws_of_flat_map. unfold c1. cbn [items_call c_kws]. rewrite K1.
      rewrite flat_map_app, kws_of_app. f_equal; [apply gens_stable; assumption|].
      rewrite flat_map_flat_map, kws_of_flat_map. 
      assert (Hl : forall l, (forall k t, In (k, t) l -> managed t = true) ->
        flat_map (fun x => kws_of (flat_map (assign_kw F2 fs) (kws_of (assign_kw F1 fs x) ++ akws G (Some (fst x))))) l =
        flat_map (fun kt => kws_of (assign_kw (funion F1 F2) fs kt) ++ akws G (Some (fst kt))) l).
      { induction l as [|[k t] l IH]; intros Hm; [reflexivity|]. cbn [flat_map fst]. rewrite IH by (intros k' t' H; apply (Hm k' t'); right; exact H).
        f_equal. rewrite flat_map_app, kws_of_app. f_equal; [apply per_kw; apply (Hm k t); left; reflexivity|apply gens_stable; assumption]. }
      apply Hl. exact Hmk.
  - (* the first run does not repair: positional arguments stay, some keywords holding a default may go *)
    set (K := c_kws c) in *.
    assert (EK1 : kws_of (call_result F1 c fs) = flat_map (fun kt => kws_of (assign_kw F1 fs kt)) K).
    { rewrite K1. cbn [app]. apply flat_map_ext. intros kt. apply app_nil_r. }
    assert (Hc1 : NoDup (map fst (c_kws c1))).
    { unfold c1. cbn [items_call c_kws]. rewrite EK1. apply old_kws_nodup. exact HnK. }
    assert (G2 : groups_of c1 fs = G).
    { unfold groups_of, G, groups_of. apply cgroups_ext. intros f Hin Hd. rewrite !kw_index_none.
      unfold c1. cbn [items_call c_kws]. rewrite EK1. fold K.
      split; intros H Hc; apply H; clear H.
      - (* a keyword of a non-default field survives *)
        apply in_map_iff in Hc. destruct Hc as [[k t] [Ek Hkt]]. cbn [fst] in Ek. subst k.
        apply in_map_iff. exists (fd_name f, to_tree (assign_tree F1 t (fd_val f))). split; [reflexivity|].
        apply in_flat_map. exists (fd_name f, t). split; [exact Hkt|]. cbn [assign_kw]. rewrite (find_field_nodup fs f Hnf Hin), Hd. left. reflexivity.
      - apply in_map_iff in Hc. destruct Hc as [[k t'] [Ek Hkt]]. cbn [fst] in Ek. subst k. apply in_flat_map in Hkt.
        destruct Hkt as [[k2 t2] [H2 Hin2]]. destruct (kws_of_assign_kw_shape F1 fs k2 t2) as [E2|[t3 E2]]; rewrite E2 in Hin2; [destruct Hin2|].
        destruct Hin2 as [Hin2|[]]. injection Hin2 as -> _. apply in_map_iff. exists (fd_name f, t2). split; [reflexivity|exact H2]. }
    match goal with |- items_call ?a = items_call ?b => change ({| c_pos := pos_of a; c_kws := kws_of a |} = {| c_pos := pos_of b; c_kws := kws_of b |}) end. f_equal.
    + rewrite (pos_of_result F2 c1 fs Hc1), PR. unfold c1. cbn [items_call c_pos]. rewrite P1. reflexivity.
    + rewrite (kws_of_result F2 c1 fs Hc1), G2, KR. f_equal. unfold c1. cbn [items_call c_kws]. rewrite EK1. rewrite flat_map_flat_map.
      assert (Hl : forall l, (forall k t, In (k, t) l -> managed t = true) ->
        flat_map (fun x => flat_map (fun kt => kws_of (assign_kw F2 fs kt) ++ (if f_fix F2 then akws G (Some (fst kt)) else [])) (kws_of (assign_kw F1 fs x))) l =
        flat_map (fun kt => kws_of (assign_kw (funion F1 F2) fs kt) ++ (if f_fix F2 then akws G (Some (fst kt)) else [])) l).
      { induction l as [|[k t] l IH]; intros Hm; [reflexivity|]. cbn [flat_map fst]. rewrite IH by (intros k' t' H; apply (Hm k' t'); right; exact H).
        f_equal. pose proof (per_kw F1 F2 fs k t (Hm k t (or_introl eq_refl))) as Hp.
        destruct (kws_of_assign_kw_shape F1 fs k t) as [E|[t' E]]; rewrite E in Hp |- *.
        - cbn [flat_map] in Hp |- *. rewrite <- Hp. cbn [app].
          destruct (deleted_nofix_default F1 fs k t HF1 E) as [f [Hf Hd]].
          unfold akws, G. rewrite (anchored_default_nil c fs k f Hnf Hf Hd). destruct (f_fix F2); reflexivity.
        - cbn [flat_map fst] in Hp |- *. rewrite app_nil_r in Hp |- *. rewrite <- Hp. reflexivity. }
      apply Hl. exact Hmk.
Qed.

(* non-vacuity, and the input on which the unrepaired code broke this law (finding F-42): A(1, 2, k0=3, fa=0, fb=4, fc=5) with fields
   f0 f1 fb fn k0 fc fa (all with defaults; fa=0 is its default, fn is new): update then fix = fix and update together *)
Example compose_call_example :
  let Fu := {| f_create := false; f_fix := false; f_trim := false; f_update := true |} in
  let Ff := {| f_create := false; f_fix := true; f_trim := false; f_update := false |} in
  let c := {| c_pos := [TLeaf 1 true; TLeaf 2 true]; c_kws := [(4, TLeaf 3 true); (6, TLeaf 0 true); (2, TLeaf 4 true); (5, TLeaf 5 true)]%Z |} in
  let fd := fun n v d => {| fd_name := n; fd_val := VAtom v; fd_default := d |} in
  let fs := [fd 0 1 false; fd 1 2 false; fd 2 4 false; fd 3 7 false; fd 4 3 false; fd 5 5 false; fd 6 0 true]%Z in
  map fst (c_kws (items_call (call_result Ff (items_call (call_result Fu c fs)) fs))) = [0; 1; 4; 2; 3; 5]%Z /\
  map fst (c_kws (items_call (call_result (funion Fu Ff) c fs))) = [0; 1; 4; 2; 3; 5]%Z.
Proof. split; vm_compute; reflexivity. Qed.
