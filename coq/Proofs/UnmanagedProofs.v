(* Proofs about Model/Unmanaged.v : user-controlled (unmanaged) elements of a flat sequence
   are never rewritten; they can only disappear through an approved fix that deletes them.
   Stdlib only; no axioms (see the Print Assumptions at the end of the file). *)
From Coq Require Import List Arith ZArith Bool Lia.
Import ListNotations.
From V Require Import Model.Align Model.SnapOps Model.Unmanaged
  Proofs.AlignValid Proofs.AlignProofs Proofs.SeqAssignProofs.
Open Scope nat_scope.

(* ------------------------------------------------------------------ *)
(* subsequences                                                        *)
(* ------------------------------------------------------------------ *)
Inductive subseq {X} : list X -> list X -> Prop :=
| ss_nil : subseq [] []
| ss_take x l1 l2 : subseq l1 l2 -> subseq (x :: l1) (x :: l2)
| ss_drop x l1 l2 : subseq l1 l2 -> subseq l1 (x :: l2).

Lemma subseq_nil_l {X} (l : list X) : subseq [] l.
Proof. induction l as [|x l IH]; [apply ss_nil | apply ss_drop, IH]. Qed.

Lemma subseq_refl {X} (l : list X) : subseq l l.
Proof. induction l as [|x l IH]; [apply ss_nil | apply ss_take, IH]. Qed.

Lemma subseq_length {X} (l1 l2 : list X) : subseq l1 l2 -> length l1 <= length l2.
Proof. intros H. induction H as [|x l1 l2 H IH|x l1 l2 H IH]; simpl; lia. Qed.

Lemma subseq_In {X} (l1 l2 : list X) : subseq l1 l2 -> forall x, In x l1 -> In x l2.
Proof. intros H. induction H as [|y l1 l2 H IH|y l1 l2 H IH]; intros x Hx; simpl in *; auto.
  destruct Hx as [Hx|Hx]; auto. Qed.

(* ------------------------------------------------------------------ *)
(* generic: the script of align starts with m^(common prefix)          *)
(* ------------------------------------------------------------------ *)
Lemma add_x_align_m_prefix (A B : Type) (eqb : A -> B -> bool) (old : list A) (new : list B) :
  exists t, add_x (align A B eqb old new) = repeat Dm (common_prefix A B eqb old new) ++ t.
Proof. rewrite align_unfold. unfold align_start. set (n := common_prefix A B eqb old new).
  set (r := nw_align A B eqb (align_mid_a A B eqb old new) (align_mid_b A B eqb old new)
            ++ repeat Dm (align_end A B eqb old new)).
  exists (skipn n (add_x (repeat Dm n ++ r))).
  rewrite <- (add_x_keeps_m_prefix n r) at 2. rewrite firstn_skipn. reflexivity. Qed.

(* ------------------------------------------------------------------ *)
(* Unmanaged                                                           *)
(* ------------------------------------------------------------------ *)
Notation UV := (valid uleaf Z uleaf_eqb).
Notation ULEQ := (fun (o : uleaf) (n : Z) => uleaf_eqb o n = true).

Definition uitem_val (i : uitem) : Z := match i with UKeep o => u_val o | UGen v => v end.

(* item i sits at the position of the new value n: it is an unmanaged survivor or evaluates to n *)
Definition item_ok (i : uitem) (n : Z) : Prop :=
  match i with UKeep o => u_unmanaged o = true \/ u_val o = n | UGen v => v = n end.

(* old elements at the d positions / at the m,x positions of a script *)
Fixpoint deleted (s : list dir) (old : list uleaf) : list uleaf :=
  match s with
  | Dd :: s' => match old with o :: old' => o :: deleted s' old' | [] => [] end
  | (Dm | Dx) :: s' => match old with _ :: old' => deleted s' old' | [] => [] end
  | Di :: s' => deleted s' old
  | _ => []
  end.
Fixpoint undeleted (s : list dir) (old : list uleaf) : list uleaf :=
  match s with
  | Dd :: s' => match old with _ :: old' => undeleted s' old' | [] => [] end
  | (Dm | Dx) :: s' => match old with o :: old' => o :: undeleted s' old' | [] => [] end
  | Di :: s' => undeleted s' old
  | _ => []
  end.

Lemma uscript_valid old new : UV (uscript old new) old new.
Proof. unfold uscript. apply add_x_valid, align_valid. Qed.

Lemma uleaf_eqb_eq o n : uleaf_eqb o n = true <-> u_val o = n.
Proof. unfold uleaf_eqb. apply Z.eqb_eq. Qed.

Lemma ULEQ_map old new : Forall2 ULEQ old new <-> map u_val old = new.
Proof. split.
  - intros H. induction H as [|o n old new Hon H IH]; simpl; [reflexivity|].
    apply uleaf_eqb_eq in Hon. congruence.
  - intros H. subst new. induction old as [|o old IH]; simpl; constructor; auto.
    apply uleaf_eqb_eq. reflexivity.
Qed.

Lemma kept_unmanaged_app l1 l2 : kept_unmanaged (l1 ++ l2) = kept_unmanaged l1 ++ kept_unmanaged l2.
Proof. unfold kept_unmanaged. apply flat_map_app. Qed.

Lemma kept_unmanaged_cons i l :
  kept_unmanaged (i :: l) = match i with UKeep o => if u_unmanaged o then [o] else [] | UGen _ => [] end ++ kept_unmanaged l.
Proof. reflexivity. Qed.

(* ---- uassign_leaf ---- *)
Lemma uassign_leaf_unmanaged F o n : u_unmanaged o = true -> uassign_leaf F o n = UKeep o.
Proof. intros H. unfold uassign_leaf. rewrite H. reflexivity. Qed.

Lemma uassign_leaf_cases F o n : uassign_leaf F o n = UKeep o \/ (u_unmanaged o = false /\ uassign_leaf F o n = UGen n).
Proof. unfold uassign_leaf. destruct (u_unmanaged o); [left; reflexivity|].
  destruct (negb (u_val o =? n)%Z); [destruct (f_fix F); auto|].
  destruct (negb (u_canon o) && f_update F); auto. Qed.

(* what a single m/x position contributes to kept_unmanaged *)
Lemma kept_unmanaged_assign F o n l :
  kept_unmanaged (uassign_leaf F o n :: l) = (if u_unmanaged o then [o] else []) ++ kept_unmanaged l.
Proof. rewrite kept_unmanaged_cons. destruct (uassign_leaf_cases F o n) as [E|[Hu E]]; rewrite E.
  - reflexivity.
  - rewrite Hu. reflexivity. Qed.

Lemma uassign_leaf_keep_eq F o n : f_update F = false -> uleaf_eqb o n = true -> uassign_leaf F o n = UKeep o.
Proof. intros HU E. unfold uassign_leaf. unfold uleaf_eqb in E. rewrite E, HU, andb_false_r.
  destruct (u_unmanaged o); reflexivity. Qed.

Lemma uassign_leaf_ok F o n : f_fix F = true -> item_ok (uassign_leaf F o n) n.
Proof. intros HF. unfold uassign_leaf. destruct (u_unmanaged o) eqn:Hu; [left; exact Hu|]. rewrite HF.
  destruct (u_val o =? n)%Z eqn:E; simpl; [|reflexivity].
  destruct (negb (u_canon o) && f_update F); simpl; [reflexivity|]. right. apply Z.eqb_eq. exact E. Qed.

(* ---- M1 ---- *)
(* (i) an unmanaged element at an m / x position is kept, whatever the new value and the flags
       (uassign_leaf_unmanaged above);
   (ii) every kept item is an element of the old list (any script, valid or not). *)
Lemma uwalk_keep_in_old F s : forall old new o, In (UKeep o) (uwalk F s old new) -> In o old.
Proof. induction s as [|c s IH]; intros old new o H; [destruct H|].
  destruct c; cbn [uwalk] in H; try (destruct H).
  - destruct old as [|o' old]; [destruct H|]. apply in_app_or in H. destruct H as [H|H].
    + destruct (f_fix F); [destruct H|]. destruct H as [H|[]]. inversion H; subst. left. reflexivity.
    + right. apply (IH _ _ _ H).
  - destruct new as [|n new]; [destruct H|]. apply in_app_or in H. destruct H as [H|H].
    + destruct (f_fix F); [|destruct H]. destruct H as [H|[]]. discriminate.
    + apply (IH _ _ _ H).
  - destruct old as [|o' old]; [destruct H|]. destruct new as [|n new]; [destruct H|].
    destruct H as [H|H]; [|right; apply (IH _ _ _ H)].
    destruct (uassign_leaf_cases F o' n) as [E|[_ E]]; rewrite E in H; [|discriminate].
    inversion H; subst. left. reflexivity.
  - destruct old as [|o' old]; [destruct H|]. destruct new as [|n new]; [destruct H|].
    destruct H as [H|H]; [|right; apply (IH _ _ _ H)].
    destruct (uassign_leaf_cases F o' n) as [E|[_ E]]; rewrite E in H; [|discriminate].
    inversion H; subst. left. reflexivity.
Qed.

Theorem unmanaged_never_generated F old new :
  (forall o n, u_unmanaged o = true -> uassign_leaf F o n = UKeep o) /\
  (forall o, In (UKeep o) (useq_result F old new) -> In o old).
Proof. split; [intros o n; apply uassign_leaf_unmanaged | intros o; apply uwalk_keep_in_old]. Qed.

(* ---- M2 ---- *)
Lemma uwalk_kept_subseq F s : forall old new,
  subseq (kept_unmanaged (uwalk F s old new)) (unmanaged_of old).
Proof. induction s as [|c s IH]; intros old new; [apply subseq_nil_l|].
  destruct c; cbn [uwalk]; try apply subseq_nil_l.
  - destruct old as [|o old]; [apply subseq_nil_l|]. rewrite kept_unmanaged_app.
    unfold unmanaged_of. cbn [filter]. fold (unmanaged_of old).
    destruct (f_fix F); cbn [kept_unmanaged flat_map app].
    + destruct (u_unmanaged o); [apply ss_drop|]; apply IH.
    + destruct (u_unmanaged o); cbn [app]; [apply ss_take|]; apply IH.
  - destruct new as [|n new]; [apply subseq_nil_l|]. rewrite kept_unmanaged_app.
    destruct (f_fix F); cbn [kept_unmanaged flat_map app]; apply IH.
  - destruct old as [|o old]; [apply subseq_nil_l|]. destruct new as [|n new]; [apply subseq_nil_l|].
    rewrite kept_unmanaged_assign. unfold unmanaged_of. cbn [filter]. fold (unmanaged_of old).
    destruct (u_unmanaged o); cbn [app]; [apply ss_take|]; apply IH.
  - destruct old as [|o old]; [apply subseq_nil_l|]. destruct new as [|n new]; [apply subseq_nil_l|].
    rewrite kept_unmanaged_assign. unfold unmanaged_of. cbn [filter]. fold (unmanaged_of old).
    destruct (u_unmanaged o); cbn [app]; [apply ss_take|]; apply IH.
Qed.

Theorem kept_unmanaged_subsequence F old new :
  subseq (kept_unmanaged (useq_result F old new)) (unmanaged_of old).
Proof. apply uwalk_kept_subseq. Qed.

(* ---- M3 ---- *)
Lemma uwalk_nofix_kept F s old new : UV s old new -> f_fix F = false ->
  kept_unmanaged (uwalk F s old new) = unmanaged_of old.
Proof. intros H HF. induction H as [|s o n old new He H IH|s o old new H IH|s n old new H IH|s o n old new H IH];
    cbn [uwalk]; try rewrite HF.
  - reflexivity.
  - rewrite kept_unmanaged_assign, IH. unfold unmanaged_of. cbn [filter]. destruct (u_unmanaged o); reflexivity.
  - rewrite kept_unmanaged_app, IH. unfold unmanaged_of. cbn [kept_unmanaged flat_map filter].
    destruct (u_unmanaged o); reflexivity.
  - exact IH.
  - rewrite kept_unmanaged_assign, IH. unfold unmanaged_of. cbn [filter]. destruct (u_unmanaged o); reflexivity.
Qed.

Theorem unmanaged_survive_without_fix F old new : f_fix F = false ->
  kept_unmanaged (useq_result F old new) = unmanaged_of old.
Proof. apply uwalk_nofix_kept, uscript_valid. Qed.

(* with fix: the surviving unmanaged elements are exactly those not at a d position *)
Lemma uwalk_fix_kept F s old new : UV s old new -> f_fix F = true ->
  kept_unmanaged (uwalk F s old new) = unmanaged_of (undeleted s old).
Proof. intros H HF. induction H as [|s o n old new He H IH|s o old new H IH|s n old new H IH|s o n old new H IH];
    cbn [uwalk undeleted]; try rewrite HF.
  - reflexivity.
  - rewrite kept_unmanaged_assign, IH. unfold unmanaged_of. cbn [filter]. destruct (u_unmanaged o); reflexivity.
  - exact IH.
  - exact IH.
  - rewrite kept_unmanaged_assign, IH. unfold unmanaged_of. cbn [filter]. destruct (u_unmanaged o); reflexivity.
Qed.

Lemma deleted_undeleted_count s old new : UV s old new ->
  length (unmanaged_of (undeleted s old)) + length (unmanaged_of (deleted s old)) = length (unmanaged_of old).
Proof. intros H. induction H as [|s o n old new He H IH|s o old new H IH|s n old new H IH|s o n old new H IH];
    cbn [deleted undeleted]; unfold unmanaged_of in *; cbn [filter].
  - reflexivity.
  - destruct (u_unmanaged o); simpl; lia.
  - destruct (u_unmanaged o); simpl; lia.
  - exact IH.
  - destruct (u_unmanaged o); simpl; lia.
Qed.

Theorem unmanaged_only_removed_by_fix_delete F s old new : UV s old new -> f_fix F = true ->
  length (kept_unmanaged (uwalk F s old new)) + length (unmanaged_of (deleted s old))
  = length (unmanaged_of old).
Proof. intros H HF. rewrite (uwalk_fix_kept F s old new H HF). apply (deleted_undeleted_count s old new H). Qed.

(* ---- M4 ---- *)
Lemma uwalk_fix_ok F s old new : UV s old new -> f_fix F = true ->
  Forall2 item_ok (uwalk F s old new) new.
Proof. intros H HF. induction H as [|s o n old new He H IH|s o old new H IH|s n old new H IH|s o n old new H IH];
    cbn [uwalk]; try rewrite HF; cbn [app].
  - constructor.
  - constructor; [apply uassign_leaf_ok; exact HF | exact IH].
  - exact IH.
  - constructor; [reflexivity | exact IH].
  - constructor; [apply uassign_leaf_ok; exact HF | exact IH].
Qed.

Theorem managed_siblings_still_repaired F old new : f_fix F = true ->
  Forall2 item_ok (useq_result F old new) new.
Proof. apply uwalk_fix_ok, uscript_valid. Qed.

(* corollary: without unmanaged elements the repaired sequence evaluates to the new value *)
Corollary useq_fix_value_managed F old new : f_fix F = true ->
  (forall o, In o old -> u_unmanaged o = false) -> map uitem_val (useq_result F old new) = new.
Proof. intros HF Hm. pose proof (managed_siblings_still_repaired F old new HF) as H.
  assert (Hin : forall o, In (UKeep o) (useq_result F old new) -> u_unmanaged o = false).
  { intros o Ho. apply Hm. apply (uwalk_keep_in_old _ _ _ _ _ Ho). }
  induction H as [|i n l new' Hi H IH]; [reflexivity|]. simpl. f_equal.
  - destruct i as [o|v]; simpl in *; [|exact Hi]. destruct Hi as [Hi|Hi]; [|exact Hi].
    rewrite (Hin o (or_introl eq_refl)) in Hi. discriminate.
  - apply IH. intros o Ho. apply Hin. right. exact Ho.
Qed.

(* ---- M5 ---- *)
Lemma uwalk_m_prefix F : f_update F = false -> forall n t old new,
  n <= length old -> n <= length new -> Forall2 ULEQ (firstn n old) (firstn n new) ->
  uwalk F (repeat Dm n ++ t) old new = map UKeep (firstn n old) ++ uwalk F t (skipn n old) (skipn n new).
Proof. intros HU. induction n as [|n IH]; intros t old new Ho Hn HF; [reflexivity|].
  destruct old as [|o old]; [simpl in Ho; lia|]. destruct new as [|x new]; [simpl in Hn; lia|].
  simpl in Ho, Hn, HF. inversion HF as [|? ? ? ? Hox HF']; subst.
  cbn [repeat app uwalk firstn skipn map]. rewrite (uassign_leaf_keep_eq F o x HU Hox).
  rewrite IH by (try lia; assumption). reflexivity.
Qed.

Theorem unmanaged_matching_value_kept_by_prefix F old new : f_update F = false ->
  firstn (common_prefix uleaf Z uleaf_eqb old new) (useq_result F old new)
  = map UKeep (firstn (common_prefix uleaf Z uleaf_eqb old new) old).
Proof. intros HU. unfold useq_result, uscript.
  destruct (add_x_align_m_prefix uleaf Z uleaf_eqb old new) as [t Ht]. rewrite Ht.
  set (n := common_prefix uleaf Z uleaf_eqb old new).
  rewrite (uwalk_m_prefix F HU n t old new (cp_le_l _ _ _ old new) (cp_le_r _ _ _ old new) (cp_F2 _ _ _ old new)).
  rewrite firstn_app.
  assert (Hl : length (map UKeep (firstn n old)) = n).
  { rewrite map_length. apply firstn_length_le. apply cp_le_l. }
  rewrite Hl, Nat.sub_diag. cbn [firstn]. rewrite app_nil_r.
  rewrite <- Hl at 1. apply firstn_all. Qed.

(* ---- M6 ---- *)
Lemma uwalk_all_m_kept F old new : Forall2 ULEQ old new ->
  kept_unmanaged (uwalk F (repeat Dm (length old)) old new) = unmanaged_of old.
Proof. intros HF. induction HF as [|o n old new Hon HF IH]; [reflexivity|].
  cbn [length repeat uwalk]. rewrite kept_unmanaged_assign, IH. unfold unmanaged_of. cbn [filter].
  destruct (u_unmanaged o); reflexivity. Qed.

Theorem equal_all_keep_u F old new : map u_val old = new ->
  kept_unmanaged (useq_result F old new) = unmanaged_of old.
Proof. intros E. apply ULEQ_map in E. unfold useq_result, uscript.
  rewrite (align_refl_all_m uleaf Z uleaf_eqb old new E), add_x_all_m.
  apply uwalk_all_m_kept. exact E. Qed.

(* ------------------------------------------------------------------ *)
(* Concrete instances                                                  *)
(* ------------------------------------------------------------------ *)
Module UExamples.
Local Open Scope Z_scope.
Definition U v c um id := {| u_val := v; u_canon := c; u_unmanaged := um; u_id := id |}.
Definition Fl f u := {| f_create := false; f_fix := f; f_trim := false; f_update := u |}.
(* [Is(1), 1+1, Is(9), 4] *)
Definition is1 := U 1 true true 0%nat.
Definition two := U 2 false false 0%nat.
Definition is9 := U 9 true true 1%nat.
Definition four := U 4 true false 0%nat.
Definition old1 := [is1; two; is9; four].
Definition new1 := [1; 3; 4].
Definition new2 := [1; 3; 5; 4].

Example ex_uscript1 : uscript old1 new1 = [Dm; Dd; Dd; Di; Dm].
Proof. vm_compute. reflexivity. Qed.
Example ex_uscript2 : uscript old1 new2 = [Dm; Dx; Dx; Dm].
Proof. vm_compute. reflexivity. Qed.

(* M1 : Is(9) sits at an x position against the new value 5 and is kept although 9 <> 5 *)
Example ex_never_generated : useq_result (Fl true true) old1 new2 = [UKeep is1; UGen 3; UKeep is9; UKeep four].
Proof. vm_compute. reflexivity. Qed.
Example ex_keep_in_old : In is9 old1.
Proof. apply (proj2 (unmanaged_never_generated (Fl true true) old1 new2)). vm_compute. auto. Qed.
(* M2 : with fix, Is(9) is deleted (d position); what remains is a subsequence *)
Example ex_fix_deletes : useq_result (Fl true true) old1 new1 = [UKeep is1; UGen 3; UKeep four].
Proof. vm_compute. reflexivity. Qed.
Example ex_subseq : subseq [is1] [is1; is9].
Proof. exact (kept_unmanaged_subsequence (Fl true true) old1 new1). Qed.
(* M3 *)
Example ex_nofix : kept_unmanaged (useq_result (Fl false true) old1 new1) = [is1; is9].
Proof. exact (unmanaged_survive_without_fix (Fl false true) old1 new1 eq_refl). Qed.
Example ex_deleted : deleted (uscript old1 new1) old1 = [two; is9] /\ undeleted (uscript old1 new1) old1 = [is1; four].
Proof. vm_compute. split; reflexivity. Qed.
Example ex_count : (length (kept_unmanaged (useq_result (Fl true true) old1 new1))
                    + length (unmanaged_of (deleted (uscript old1 new1) old1)) = 2)%nat.
Proof. exact (unmanaged_only_removed_by_fix_delete (Fl true true) _ old1 new1 (uscript_valid old1 new1) eq_refl). Qed.
(* M4 *)
Example ex_repaired : Forall2 item_ok [UKeep is1; UGen 3; UKeep is9; UKeep four] new2.
Proof. exact (managed_siblings_still_repaired (Fl true true) old1 new2 eq_refl). Qed.
Example ex_value_managed : map uitem_val (useq_result (Fl true true) [two; four] [2; 5; 4]) = [2; 5; 4].
Proof. apply useq_fix_value_managed; [reflexivity|]. simpl. intros o [H|[H|[]]]; subst; reflexivity. Qed.
(* M5 : the prefix Is(1), 1+1 matches [1;2;...] and survives verbatim without update *)
Example ex_prefix : common_prefix uleaf Z uleaf_eqb old1 [1; 2; 7] = 2%nat /\
  firstn 2 (useq_result (Fl true false) old1 [1; 2; 7]) = [UKeep is1; UKeep two].
Proof. split; [vm_compute; reflexivity|].
  exact (unmanaged_matching_value_kept_by_prefix (Fl true false) old1 [1; 2; 7] eq_refl). Qed.
(* M6 : equal values, everything approved: 1+1 is regenerated, Is(1) and Is(9) are untouched *)
Example ex_equal_res : useq_result (Fl true true) old1 [1; 2; 9; 4] = [UKeep is1; UGen 2; UKeep is9; UKeep four].
Proof. vm_compute. reflexivity. Qed.
Example ex_equal : kept_unmanaged (useq_result (Fl true true) old1 [1; 2; 9; 4]) = [is1; is9].
Proof. exact (equal_all_keep_u (Fl true true) old1 [1; 2; 9; 4] eq_refl). Qed.
End UExamples.

Print Assumptions unmanaged_never_generated.
Print Assumptions kept_unmanaged_subsequence.
Print Assumptions unmanaged_survive_without_fix.
Print Assumptions unmanaged_only_removed_by_fix_delete.
Print Assumptions managed_siblings_still_repaired.
Print Assumptions useq_fix_value_managed.
Print Assumptions unmanaged_matching_value_kept_by_prefix.
Print Assumptions equal_all_keep_u.
