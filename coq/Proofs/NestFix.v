(* Proofs about Model/Nest.v, part 3: the theorem of C02 for arbitrarily nested values - with fix approved the repaired source
   text evaluates to a value that is == the observed one, whatever the previous content was.
   Stdlib only; no axioms. *)
From Coq Require Import List Arith ZArith Bool Lia Permutation.
Import ListNotations.
From V Require Import Model.Align Model.SnapOps Model.TreeAssign Model.Nest Proofs.AlignValid Proofs.AlignProofs Proofs.UnmanagedProofs Proofs.NestProofs Proofs.NestValue.
Open Scope nat_scope.

Fixpoint zlist_eqb (a b : list Z) : bool :=
  match a, b with
  | [], [] => true
  | x :: a', y :: b' => Z.eqb x y && zlist_eqb a' b'
  | _, _ => false
  end.
Lemma zlist_eqb_eq : forall a b, zlist_eqb a b = true <-> a = b.
Proof.
  induction a as [|x a IH]; intros [|y b]; cbn [zlist_eqb]; split; intros H; try discriminate; try reflexivity.
  - apply andb_true_iff in H. destruct H as [H1 H2]. apply Z.eqb_eq in H1. apply IH in H2. congruence.
  - injection H as -> ->. rewrite Z.eqb_refl. cbn [andb]. apply IH. reflexivity.
Qed.

Lemma NoDup_app_intro : forall (X : Type) (a b : list X), NoDup a -> NoDup b -> (forall x, In x a -> In x b -> False) -> NoDup (a ++ b).
Proof.
  intros X a b Ha Hb Hd. induction Ha as [|x l Hx Hl IH]; [exact Hb|]. cbn [app]. constructor.
  - intros Hin. apply in_app_or in Hin. destruct Hin as [Hin|Hin]; [exact (Hx Hin)|]. apply (Hd x); [left; reflexivity|exact Hin].
  - apply IH. intros y Hy. apply Hd. right. exact Hy.
Qed.

Section WithClasses.
Variable ct : ctab.
(* the class table names every field of a class once *)
Definition ct_ok : Prop := forall c, NoDup (map fst (ct c)).

(* source trees the theorem speaks about: no user-controlled part (those are exempt in C02), no call repeats a keyword
   (Python rejects such a call) *)
Fixpoint okt (t : ntree) : bool :=
  match t with
  | NLeaf _ _ => true
  | NUnm _ _ => false
  | NLst _ l => forallb okt l
  | NDct l => (fix go (l : list (Z * ntree)) : bool := match l with [] => true | (_, x) :: r => okt x && go r end) l
  | NCall _ pos kws =>
      forallb okt pos && nodupb (map fst kws) &&
      (fix go (l : list (Z * ntree)) : bool := match l with [] => true | (_, x) :: r => okt x && go r end) kws
  end.
(* observed values: no dict holds a key twice (CPython guarantees it), an object has exactly the fields of its class *)
Fixpoint okv (v : nval) : bool :=
  match v with
  | NAtom _ => true
  | NSeq _ l => forallb okv l
  | NDict l => nodupb (map fst l) &&
               (fix go (l : list (Z * nval)) : bool := match l with [] => true | (_, x) :: r => okv x && go r end) l
  | NObj c fs => zlist_eqb (map fst fs) (map fst (ct c)) &&
                 (fix go (l : list (Z * nval)) : bool := match l with [] => true | (_, x) :: r => okv x && go r end) fs
  end.
Definition okt_entries (l : list (Z * ntree)) : bool := forallb (fun kt => okt (snd kt)) l.
Definition okv_entries (l : list (Z * nval)) : bool := forallb (fun kv => okv (snd kv)) l.
Lemma okt_dct : forall l, okt (NDct l) = okt_entries l.
Proof. intros. cbn [okt]. induction l as [|[k x] r IH]; [reflexivity|]. cbn [okt_entries forallb snd]. rewrite IH. reflexivity. Qed.
Lemma okt_call : forall c pos kws, okt (NCall c pos kws) = forallb okt pos && nodupb (map fst kws) && okt_entries kws.
Proof. intros. cbn [okt]. f_equal. induction kws as [|[k x] r IH]; [reflexivity|]. cbn [okt_entries forallb snd]. rewrite IH. reflexivity. Qed.
Lemma okv_dict : forall l, okv (NDict l) = nodupb (map fst l) && okv_entries l.
Proof. intros. cbn [okv]. f_equal. induction l as [|[k x] r IH]; [reflexivity|]. cbn [okv_entries forallb snd]. rewrite IH. reflexivity. Qed.
Lemma okv_obj : forall c fs, okv (NObj c fs) = zlist_eqb (map fst fs) (map fst (ct c)) && okv_entries fs.
Proof. intros. cbn [okv]. f_equal. induction fs as [|[k x] r IH]; [reflexivity|]. cbn [okv_entries forallb snd]. rewrite IH. reflexivity. Qed.
Lemma okt_entries_in : forall l k t, okt_entries l = true -> In (k, t) l -> okt t = true.
Proof. intros l k t H Hin. unfold okt_entries in H. rewrite forallb_forall in H. exact (H (k, t) Hin). Qed.
Lemma okv_entries_in : forall l k v, okv_entries l = true -> In (k, v) l -> okv v = true.
Proof. intros l k v H Hin. unfold okv_entries in H. rewrite forallb_forall in H. exact (H (k, v) Hin). Qed.

Lemma okv_wfv : forall v, okv v = true -> wfv v = true.
Proof.
  induction v as [z|k l IH|l IH|c fs IH] using nval_induction; intros H.
  - reflexivity.
  - cbn [okv wfv] in *. rewrite forallb_forall in *. rewrite Forall_forall in IH. intros x Hx. apply IH; [exact Hx|apply H; exact Hx].
  - rewrite okv_dict in H. rewrite wfv_dict. apply andb_true_iff in H. destruct H as [H1 H2]. rewrite H1. cbn [andb].
    unfold wfv_entries, okv_entries in *. rewrite forallb_forall in *. rewrite Forall_forall in IH. intros x Hx. apply IH; [exact Hx|apply H2; exact Hx].
  - rewrite okv_obj in H. rewrite wfv_obj. apply andb_true_iff in H. destruct H as [_ H2].
    unfold wfv_entries, okv_entries in *. rewrite forallb_forall in *. rewrite Forall_forall in IH. intros x Hx. apply IH; [exact Hx|apply H2; exact Hx].
Qed.
Lemma okv_refl : forall v, okv v = true -> val_eqb v v = true.
Proof. intros v H. apply val_eqb_refl, okv_wfv, H. Qed.
Lemma okt_not_unm : forall o, okt o = true -> is_unm o = false.
Proof. intros [z c|i z|k l|l|c pos kws] H; try reflexivity. discriminate. Qed.
(* ... nor does it hold one anywhere *)
Fixpoint okt_no_unm (o : ntree) : okt o = true -> has_unm o = false.
Proof.
  destruct o as [z c|i z|k l|l|c pos kws]; intros H.
  - reflexivity.
  - discriminate.
  - cbn [okt has_unm] in *. induction l as [|x r IH]; [reflexivity|]. cbn [forallb existsb] in *. apply andb_true_iff in H. destruct H as [Hx Hr].
    rewrite (okt_no_unm x Hx). cbn [orb]. apply IH. exact Hr.
  - cbn [okt has_unm] in *. induction l as [|[k x] r IH]; [reflexivity|]. cbn [existsb]. apply andb_true_iff in H. destruct H as [Hx Hr].
    rewrite (okt_no_unm x Hx). cbn [orb]. apply IH. exact Hr.
  - cbn [okt has_unm] in *. apply andb_true_iff in H. destruct H as [H Hk]. apply andb_true_iff in H. destruct H as [Hp _]. apply orb_false_iff. split.
    + clear Hk. induction pos as [|x r IH]; [reflexivity|]. cbn [forallb existsb] in *. apply andb_true_iff in Hp. destruct Hp as [Hx Hr]. rewrite (okt_no_unm x Hx). cbn [orb]. apply IH. exact Hr.
    + clear Hp. induction kws as [|[k x] r IH]; [reflexivity|]. cbn [existsb]. apply andb_true_iff in Hk. destruct Hk as [Hx Hr]. rewrite (okt_no_unm x Hx). cbn [orb]. apply IH. exact Hr.
Qed.

(* ------------------------------------------------------------------------- a node as a whole *)
Lemma value_assign_fix : forall F o n, okt o = true -> okv n = true -> f_fix F = true -> val_eqb (eval_r ct (value_assign ct F o n)) n = true.
Proof.
  intros F o n Hm Hn HF. unfold value_assign. rewrite (okt_not_unm o Hm). rewrite HF. destruct (val_eqb (eval ct o) n) eqn:E; cbn [negb].
  - destruct (negb (canonical ct o) && f_update F); cbn [eval_r]; [apply okv_refl; exact Hn|exact E].
  - cbn [eval_r]. apply okv_refl. exact Hn.
Qed.

(* ------------------------------------------------------------------------- lists and tuples *)
Notation NV := (valid ntree nval (elt_eqb ct)).
Lemma walk_fix_value : forall asg F s os ns, NV s os ns -> f_fix F = true ->
  (forall o n, In o os -> In n ns -> val_eqb (eval_r ct (asg o n)) n = true) ->
  (forall n, In n ns -> val_eqb n n = true) ->
  vlist_eqb (map (eval_r ct) (walk asg F s os ns)) ns = true.
Proof.
  intros asg F s os ns H HF Ha Hr.
  induction H as [|s o n os ns He H IH|s o os ns H IH|s n os ns H IH|s o n os ns H IH]; cbn [walk]; try rewrite HF; cbn [app map vlist_eqb].
  - reflexivity.
  - rewrite Ha by (left; reflexivity). cbn [andb]. apply IH; [intros o' n' Ho Hn; apply Ha; right; assumption|intros n' Hn; apply Hr; right; exact Hn].
  - apply IH; [intros o' n' Ho Hn; apply Ha; [right; exact Ho|exact Hn]|exact Hr].
  - cbn [eval_r]. rewrite Hr by (left; reflexivity). cbn [andb]. apply IH; [intros o' n' Ho Hn; apply Ha; [exact Ho|right; exact Hn]|intros n' Hn; apply Hr; right; exact Hn].
  - rewrite Ha by (left; reflexivity). cbn [andb]. apply IH; [intros o' n' Ho Hn; apply Ha; right; assumption|intros n' Hn; apply Hr; right; exact Hn].
Qed.

(* ------------------------------------------------------------------------- dict displays *)
Definition ev_kr_gen (ev : nres -> nval) (kr : Z * nres) : Z * nval := match kr with (k, r') => (k, ev r') end.
Lemma ev_kr_gen_keys : forall ev l, map fst (map (ev_kr_gen ev) l) = map fst l.
Proof. intros ev l. rewrite map_map. apply map_ext. intros [k r]. reflexivity. Qed.
Definition ev_kr : Z * nres -> Z * nval := ev_kr_gen (eval_r ct).
Lemma ev_kr_keys : forall l, map fst (map ev_kr l) = map fst l.
Proof. intros l. apply ev_kr_gen_keys. Qed.

Lemma dassign_entry_keys : forall asg F e news x, In x (map fst (dassign_entry asg F e news)) -> x = fst e.
Proof.
  intros asg F e news x. unfold dassign_entry. destruct (alookup (fst e) news); [|destruct (f_fix F)]; cbn; intros H; try tauto; destruct H as [<-|[]]; reflexivity.
Qed.
Lemma old_entries_nodup : forall asg F news olds, NoDup (map fst olds) -> NoDup (map fst (flat_map (fun e => dassign_entry asg F e news) olds)).
Proof.
  intros asg F news olds. induction olds as [|e r IH]; intros Hno; [constructor|]. cbn [map] in Hno. inversion Hno as [|? ? Hni Hno']; subst. cbn [flat_map]. rewrite map_app.
  apply NoDup_app_intro; [| exact (IH Hno') |].
  - unfold dassign_entry. destruct (alookup (fst e) news); [|destruct (f_fix F)]; cbn; repeat constructor; intros [].
  - intros x Hx Hy. apply dassign_entry_keys in Hx. subst x. apply Hni.
    apply in_map_iff in Hy. destruct Hy as [it [Ek Hit]]. apply in_flat_map in Hit. destruct Hit as [e' [He' Hit]].
    apply in_map_iff. exists e'. split; [|exact He'].
    assert (Hk : In (fst it) (map fst (dassign_entry asg F e' news))) by (apply in_map; exact Hit). apply dassign_entry_keys in Hk. congruence.
Qed.

Lemma dict_result_nodup : forall asg F olds news, f_fix F = true -> NoDup (map fst olds) -> NoDup (map fst news) ->
  NoDup (map fst (dict_result asg F olds news)).
Proof.
  intros asg F olds news HF Hno Hnn.
  eapply Permutation_NoDup; [apply Permutation_map, Permutation_sym, dict_result_perm; assumption|].
  rewrite map_app. apply NoDup_app_intro.
  - apply old_entries_nodup. exact Hno.
  - rewrite map_map. cbn [fst]. apply filter_keys_nodup. exact Hnn.
  - intros x Hx Hy. apply in_map_iff in Hx. destruct Hx as [it [Ek Hit]]. apply in_flat_map in Hit. destruct Hit as [e [He Hit]].
    assert (Ex : x = fst e) by (apply (dassign_entry_keys asg F e news); rewrite <- Ek; apply in_map; exact Hit).
    rewrite map_map in Hy. apply in_map_iff in Hy. destruct Hy as [[k' v'] [E Hin]]. unfold new_entries in Hin. apply filter_In in Hin. destruct Hin as [_ Hin]. cbn [fst] in E, Hin. subst k'. rewrite Ex in Hin.
    destruct (alookup (fst e) olds) eqn:El; [discriminate|]. apply alookup_none in El. apply El. apply in_map. exact He.
Qed.

(* `ev` is how the result of a child is read: eval_r (the value of the repaired text), or the value of the source tree it denotes *)
Lemma dict_fix_eq_gen : forall (ev : nres -> nval) asg F olds news, f_fix F = true -> NoDup (map fst olds) -> NoDup (map fst news) ->
  (forall k o v, In (k, o) olds -> In (k, v) news -> val_eqb (ev (asg o v)) v = true) ->
  (forall k v, In (k, v) news -> val_eqb (ev (QGen v)) v = true) ->
  val_eqb (NDict (mkdict (map (ev_kr_gen ev) (dict_result asg F olds news)))) (NDict news) = true.
Proof.
  intros ev asg F olds news HF Hno Hnn Ha Hr.
  set (res := dict_result asg F olds news).
  pose proof (dict_result_perm asg F olds news HF Hno Hnn) as P. fold res in P.
  pose proof (dict_result_nodup asg F olds news HF Hno Hnn) as K1. fold res in K1.
  assert (K2 : forall k r, In (k, r) res -> exists v, In (k, v) news /\ val_eqb (ev r) v = true).
  { intros k r Hin. apply (Permutation_in _ P) in Hin. apply in_app_or in Hin. destruct Hin as [Hin|Hin].
    - apply in_flat_map in Hin. destruct Hin as [[k0 o] [He Hin]]. unfold dassign_entry in Hin. cbn [fst snd] in Hin.
      destruct (alookup k0 news) as [v|] eqn:El; [|rewrite HF in Hin; destruct Hin].
      destruct Hin as [E|[]]. injection E as <- <-. apply alookup_in in El. exists v. split; [exact El|]. exact (Ha k0 o v He El).
    - apply in_map_iff in Hin. destruct Hin as [[k0 v] [E Hin]]. cbn [fst snd] in E. injection E as <- <-.
      unfold new_entries in Hin. apply filter_In in Hin. destruct Hin as [Hin _]. exists v. split; [exact Hin|]. exact (Hr k0 v Hin). }
  assert (K3 : forall k v, In (k, v) news -> In k (map fst res)).
  { intros k v Hin. eapply Permutation_in; [apply Permutation_map, Permutation_sym, P|]. rewrite map_app. apply in_or_app.
    destruct (alookup k olds) as [o|] eqn:El.
    - left. apply alookup_in in El. apply in_map_iff. exists (k, asg o v). split; [reflexivity|].
      apply in_flat_map. exists (k, o). split; [exact El|]. unfold dassign_entry. cbn [fst snd]. rewrite (alookup_nodup _ k v news Hnn Hin). left. reflexivity.
    - right. rewrite map_map. cbn [fst]. apply in_map_iff. exists (k, v). split; [reflexivity|]. unfold new_entries. apply filter_In. split; [exact Hin|]. cbn [fst]. rewrite El. reflexivity. }
  rewrite mkdict_nodup by (rewrite ev_kr_gen_keys; exact K1).
  rewrite val_eqb_dict. apply andb_true_iff. split.
  - apply Nat.eqb_eq. rewrite map_length. rewrite <- (map_length fst res), <- (map_length fst news). apply Nat.le_antisymm.
    + apply NoDup_incl_length; [exact K1|]. intros k Hk. apply in_map_iff in Hk. destruct Hk as [[k0 r] [E Hin]]. cbn [fst] in E. subst k0.
      destruct (K2 k r Hin) as [v [Hv _]]. apply in_map_iff. exists (k, v). split; [reflexivity|exact Hv].
    + apply NoDup_incl_length; [exact Hnn|]. intros k Hk. apply in_map_iff in Hk. destruct Hk as [[k0 v] [E Hin]]. cbn [fst] in E. subst k0. exact (K3 k v Hin).
  - apply dsub_intro. intros k w Hin. apply in_map_iff in Hin. destruct Hin as [[k0 r] [E Hin]]. cbn [ev_kr_gen] in E. injection E as <- <-.
    destruct (K2 k0 r Hin) as [v [Hv He]]. exists v. split; [apply alookup_nodup; assumption|exact He].
Qed.
Lemma dict_fix_eq : forall asg F olds news, f_fix F = true -> NoDup (map fst olds) -> NoDup (map fst news) ->
  (forall k o v, In (k, o) olds -> In (k, v) news -> val_eqb (eval_r ct (asg o v)) v = true) ->
  (forall k v, In (k, v) news -> val_eqb v v = true) ->
  val_eqb (eval_r ct (QDict (dict_result asg F olds news))) (NDict news) = true.
Proof.
  intros asg F olds news HF Hno Hnn Ha Hr. cbn [eval_r].
  apply (dict_fix_eq_gen (eval_r ct) asg F olds news HF Hno Hnn Ha). intros k v Hin. cbn [eval_r]. exact (Hr k v Hin).
Qed.

(* ------------------------------------------------------------------------- constructor calls *)
Definition posvals_gen (ev : nres -> nval) (l : list (option Z * nres)) : list nval :=
  flat_map (fun ar => match ar with (None, r') => [ev r'] | (Some _, _) => [] end) l.
Definition kwvals_gen (ev : nres -> nval) (l : list (option Z * nres)) : list (Z * nval) :=
  flat_map (fun ar => match ar with (Some k, r') => [(k, ev r')] | (None, _) => [] end) l.
Section Ev.
Variable ev : nres -> nval.
Notation posvals := (posvals_gen ev).
Notation kwvals := (kwvals_gen ev).

Lemma cassign_el_fix_kw : forall asg F c fs e x, f_fix F = true -> In x (cassign_el ct asg F c fs e) ->
  exists k t r, e = inr (k, t) /\ x = (Some k, r).
Proof.
  intros asg F c fs [t|[k t]] x HF Hin; cbn [cassign_el] in Hin.
  - unfold cassign_pos in Hin. rewrite HF in Hin. destruct Hin.
  - unfold cassign_kw in Hin. destruct (alookup k fs) as [v|]; [|rewrite HF in Hin; destruct Hin].
    destruct (is_default ct c k v).
    + destruct (has_unm t); [destruct Hin as [<-|[]]; exists k, t, (QKeep t); split; reflexivity|].
      destruct (val_eqb (eval ct t) v); [destruct (f_update F)|rewrite HF in Hin]; try destruct Hin as [<-|[]]; try destruct Hin; exists k, t, (QKeep t); split; reflexivity.
    + destruct Hin as [<-|[]]. exists k, t, (asg t v). split; reflexivity.
Qed.

Lemma posvals_nil : forall l, (forall x, In x l -> fst x <> None) -> posvals l = [].
Proof.
  induction l as [|[[k|] r] l IH]; intros H; [reflexivity| |exfalso; apply (H (None, r)); [left; reflexivity|reflexivity]].
  unfold posvals_gen. cbn [flat_map app]. apply IH. intros x Hx. apply H. right. exact Hx.
Qed.
Lemma kwvals_app : forall a b, kwvals (a ++ b) = kwvals a ++ kwvals b.
Proof. intros. unfold kwvals_gen. apply flat_map_app. Qed.
Lemma kwvals_perm : forall a b, Permutation a b -> Permutation (kwvals a) (kwvals b).
Proof.
  intros a b P. unfold kwvals_gen. induction P as [|x l l' P IH|x y l|l l' l'' P1 IH1 P2 IH2]; cbn [flat_map].
  - constructor.
  - apply Permutation_app_head. exact IH.
  - rewrite !app_assoc. apply Permutation_app_tail. apply Permutation_app_comm.
  - eapply Permutation_trans; eassumption.
Qed.
Lemma in_kwvals : forall l k w, In (k, w) (kwvals l) <-> exists r, In (Some k, r) l /\ w = ev r.
Proof.
  intros l k w. unfold kwvals_gen. rewrite in_flat_map. split.
  - intros [[[k0|] r] [Hin Hx]]; [|destruct Hx]. destruct Hx as [E|[]]. injection E as <- <-. exists r. split; [exact Hin|reflexivity].
  - intros [r [Hin ->]]. exists (Some k, r). split; [exact Hin|left; reflexivity].
Qed.

Lemma kwvals_gens_keys : forall l : list (Z * nval), map fst (kwvals (map (fun kv : Z * nval => (Some (fst kv), QGen (snd kv))) l)) = map fst l.
Proof. induction l as [|[k v] r IH]; [reflexivity|]. cbn [map]. unfold kwvals_gen. cbn [flat_map app map fst]. f_equal. exact IH. Qed.

Lemma fill_fields_eqb : forall fields fs i kws, NoDup (map fst fields) -> map fst fs = map fst fields ->
  (forall name d v, In (name, d) fields -> In (name, v) fs ->
     val_eqb (match alookup name kws with Some w => w | None => match d with Some w => w | None => NAtom 0 end end) v = true) ->
  fields_eqb (fill i fields [] kws) fs = true.
Proof.
  induction fields as [|[name d] r IH]; intros fs i kws Hnd Hn H; destruct fs as [|[name' v] fs']; cbn [map fst] in Hn; try discriminate; [reflexivity|].
  injection Hn as -> Hn. cbn [fill fields_eqb]. rewrite Z.eqb_refl. cbn [andb].
  assert (E : nth_error (@nil nval) i = None) by (destruct i; reflexivity). rewrite E.
  rewrite (H name d v) by (left; reflexivity). cbn [andb].
  cbn [map fst] in Hnd. inversion Hnd as [|? ? Hni Hnd']; subst.
  apply IH; [exact Hnd'|exact Hn|]. intros name0 d0 v0 H1 H2. apply H; right; assumption.
Qed.

Lemma call_fix_eq_gen : forall asg F c pos kws fs, ct_ok -> f_fix F = true -> NoDup (map fst kws) -> map fst fs = map fst (ct c) ->
  (forall k t, In (k, t) kws -> has_unm t = false) ->
  (forall k t v, In (k, t) kws -> In (k, v) fs -> val_eqb (ev (asg t v)) v = true) ->
  (forall k t, In (k, t) kws -> ev (QKeep t) = eval ct t) ->
  (forall k v, In (k, v) fs -> val_eqb (ev (QGen v)) v = true) ->
  val_eqb (NObj c (fill 0 (ct c) (posvals (call_result ct asg F c pos kws fs)) (kwvals (call_result ct asg F c pos kws fs)))) (NObj c fs) = true.
Proof.
  intros asg F c pos kws fs Hct HF Hnk Hconf Hunm Ha Hkeep Hr.
  assert (Hnf : NoDup (map fst fs)) by (rewrite Hconf; apply Hct).
  set (res := call_result ct asg F c pos kws fs).
  pose proof (call_result_perm ct asg F c pos kws fs HF) as P. fold res in P.
  set (A := flat_map (cassign_el ct asg F c fs) (elements pos kws)) in P.
  set (B := map (fun kv : Z * nval => (Some (fst kv), QGen (snd kv))) (new_fields ct c kws fs)) in P.
  (* what an old argument contributes *)
  assert (HA : forall k r, In (Some k, r) A -> exists t v, In (k, t) kws /\ In (k, v) fs /\ val_eqb (ev r) v = true).
  { intros k r Hin. unfold A in Hin. apply in_flat_map in Hin. destruct Hin as [e [He Hin]].
    destruct e as [t|[k0 t]]; cbn [cassign_el] in Hin; [unfold cassign_pos in Hin; rewrite HF in Hin; destruct Hin|].
    assert (Hkt : In (k0, t) kws) by (apply (in_elements_kw pos kws); exact He).
    unfold cassign_kw in Hin. destruct (alookup k0 fs) as [v|] eqn:El; [|rewrite HF in Hin; destruct Hin]. apply alookup_in in El.
    destruct (is_default ct c k0 v).
    - rewrite (Hunm k0 t Hkt) in Hin. destruct (val_eqb (eval ct t) v) eqn:Ev; [destruct (f_update F)|rewrite HF in Hin]; try destruct Hin as [E|[]]; try destruct Hin.
      injection E as <- <-. exists t, v. split; [exact Hkt|split; [exact El|rewrite (Hkeep k0 t Hkt); exact Ev]].
    - destruct Hin as [E|[]]. injection E as <- <-. exists t, v. split; [exact Hkt|split; [exact El|exact (Ha k0 t v Hkt El)]]. }
  assert (HB : forall k r, In (Some k, r) B -> exists v, r = QGen v /\ In (k, v) fs /\ kw_index k kws = None /\ is_default ct c k v = false).
  { intros k r Hin. unfold B in Hin. apply in_map_iff in Hin. destruct Hin as [[k0 v] [E Hin]]. cbn [fst snd] in E. injection E as <- <-.
    unfold new_fields in Hin. apply filter_In in Hin. destruct Hin as [Hin Hc]. cbn [fst snd] in Hc. apply andb_true_iff in Hc. destruct Hc as [Hc1 Hc2].
    exists v. split; [reflexivity|split; [exact Hin|]]. split; [destruct (kw_index k0 kws); [discriminate|reflexivity]|apply negb_true_iff; exact Hc1]. }
  assert (K0 : posvals res = []).
  { apply posvals_nil. intros x Hx. apply (Permutation_in _ P) in Hx. apply in_app_or in Hx. destruct Hx as [Hx|Hx].
    - unfold A in Hx. apply in_flat_map in Hx. destruct Hx as [e [_ Hx]]. destruct (cassign_el_fix_kw asg F c fs e x HF Hx) as [k [t [r [_ ->]]]]. discriminate.
    - unfold B in Hx. apply in_map_iff in Hx. destruct Hx as [kv [<- _]]. discriminate. }
  assert (PK : Permutation (kwvals res) (kwvals A ++ kwvals B)) by (rewrite <- kwvals_app; apply kwvals_perm; exact P).
  (* every old keyword contributes at most one keyword, with its own name *)
  assert (NA : NoDup (map fst (kwvals A))).
  { unfold A, elements. rewrite flat_map_app. rewrite kwvals_app.
    assert (E1 : kwvals (flat_map (cassign_el ct asg F c fs) (map inl pos)) = []).
    { clear. induction pos as [|t r IH]; [reflexivity|]. cbn [map flat_map]. rewrite kwvals_app, IH, app_nil_r. cbn [cassign_el]. unfold cassign_pos. destruct (f_fix F); reflexivity. }
    rewrite E1. cbn [app]. clear -Hnk. induction kws as [|[k t] r IH]; [constructor|]. cbn [map fst] in Hnk. inversion Hnk as [|? ? Hni Hnk']; subst.
    cbn [map flat_map]. rewrite kwvals_app, map_app. apply NoDup_app_intro; [|exact (IH Hnk')|].
    - cbn [cassign_el]. unfold cassign_kw. destruct (alookup k fs) as [v|]; [destruct (is_default ct c k v); [destruct (has_unm t); [|destruct (val_eqb (eval ct t) v); [destruct (f_update F)|destruct (f_fix F)]]|]|destruct (f_fix F)];
        cbn; repeat constructor; intros [].
    - intros x Hx Hy. assert (x = k).
      { cbn [cassign_el] in Hx. unfold cassign_kw in Hx. destruct (alookup k fs) as [v|]; [destruct (is_default ct c k v); [destruct (has_unm t); [|destruct (val_eqb (eval ct t) v); [destruct (f_update F)|destruct (f_fix F)]]|]|destruct (f_fix F)];
          cbn in Hx; try tauto; destruct Hx as [<-|[]]; reflexivity. }
      subst x. apply Hni. apply in_map_iff in Hy. destruct Hy as [[k' w] [E Hy]]. cbn [fst] in E. subst k'. apply in_kwvals in Hy. destruct Hy as [r0 [Hy _]].
      apply in_flat_map in Hy. destruct Hy as [e [He Hy]]. apply in_map_iff in He. destruct He as [[k' t'] [<- He]].
      cbn [cassign_el] in Hy. unfold cassign_kw in Hy.
      assert (k' = k).
      { destruct (alookup k' fs) as [v|]; [destruct (is_default ct c k' v); [destruct (has_unm t'); [|destruct (val_eqb (eval ct t') v); [destruct (f_update F)|destruct (f_fix F)]]|]|destruct (f_fix F)];
          cbn in Hy; try tauto; destruct Hy as [E|[]]; injection E as ->; reflexivity. }
      subst k'. apply in_map_iff. exists (k, t'). split; [reflexivity|exact He]. }
  assert (NB : NoDup (map fst (kwvals B))).
  { unfold B. rewrite kwvals_gens_keys. unfold new_fields. apply filter_keys_nodup. exact Hnf. }
  assert (K1 : NoDup (map fst (kwvals res))).
  { eapply Permutation_NoDup; [apply Permutation_map, Permutation_sym, PK|]. rewrite map_app. apply NoDup_app_intro; [exact NA|exact NB|].
    intros x Hx Hy. apply in_map_iff in Hx. destruct Hx as [[k w] [E Hx]]. cbn [fst] in E. subst k. apply in_kwvals in Hx. destruct Hx as [r [Hx _]].
    apply in_map_iff in Hy. destruct Hy as [[k w'] [E Hy]]. cbn [fst] in E. subst k. apply in_kwvals in Hy. destruct Hy as [r' [Hy _]].
    destruct (HA x r Hx) as [t [v [Hkt _]]]. destruct (HB x r' Hy) as [v' [_ [_ [Hki _]]]].
    apply kw_index_none in Hki. apply Hki. apply in_map_iff. exists (x, t). split; [reflexivity|exact Hkt]. }
  assert (K2 : forall k w, In (k, w) (kwvals res) -> exists v, In (k, v) fs /\ val_eqb w v = true).
  { intros k w Hin. apply (Permutation_in _ PK) in Hin. apply in_app_or in Hin. destruct Hin as [Hin|Hin]; apply in_kwvals in Hin; destruct Hin as [r [Hin ->]].
    - destruct (HA k r Hin) as [t [v [_ [Hv He]]]]. exists v. split; assumption.
    - destruct (HB k r Hin) as [v [-> [Hv _]]]. exists v. split; [exact Hv|]. exact (Hr k v Hv). }
  assert (K3 : forall name v, In (name, v) fs -> is_default ct c name v = false -> In name (map fst (kwvals res))).
  { intros name v Hin Hd. eapply Permutation_in; [apply Permutation_map, Permutation_sym, PK|]. rewrite map_app. apply in_or_app.
    destruct (kw_index name kws) as [i|] eqn:Ei.
    - left. apply kw_index_some in Ei. destruct Ei as [_ Ei]. apply in_map_iff in Ei. destruct Ei as [[k t] [E Hkt]]. cbn [fst] in E. subst k.
      apply in_map_iff. exists (name, ev (asg t v)). split; [reflexivity|]. apply in_kwvals. exists (asg t v). split; [|reflexivity].
      unfold A. apply in_flat_map. exists (inr (name, t)). split; [unfold elements; apply in_or_app; right; apply in_map; exact Hkt|].
      cbn [cassign_el]. unfold cassign_kw. rewrite (alookup_nodup _ name v fs Hnf Hin), Hd. left. reflexivity.
    - right. apply in_map_iff. exists (name, ev (QGen v)). split; [reflexivity|]. apply in_kwvals. exists (QGen v). split; [|reflexivity].
      unfold B. apply in_map_iff. exists (name, v). split; [reflexivity|]. unfold new_fields. apply filter_In. split; [exact Hin|]. cbn [fst snd]. rewrite Hd, Ei. reflexivity. }
  fold res. rewrite K0. rewrite val_eqb_obj, Z.eqb_refl. cbn [andb].
  apply fill_fields_eqb; [apply Hct|exact Hconf|]. intros name d v Hf Hv.
  destruct (alookup name (kwvals res)) as [w|] eqn:El.
  - apply alookup_in in El. destruct (K2 name w El) as [v' [Hv' He]].
    assert (v' = v).
    { pose proof (alookup_nodup _ name v fs Hnf Hv) as E1. pose proof (alookup_nodup _ name v' fs Hnf Hv') as E2. congruence. }
    subst v'. exact He.
  - apply alookup_none in El. destruct (is_default ct c name v) eqn:Hd; [|exfalso; apply El; exact (K3 name v Hv Hd)].
    unfold is_default in Hd. rewrite (alookup_nodup _ name d (ct c) (Hct c) Hf) in Hd. destruct d as [d|]; [exact Hd|discriminate].
Qed.
End Ev.

Definition posvals : list (option Z * nres) -> list nval := posvals_gen (eval_r ct).
Definition kwvals : list (option Z * nres) -> list (Z * nval) := kwvals_gen (eval_r ct).
Lemma call_fix_eq : forall asg F c pos kws fs, ct_ok -> f_fix F = true -> NoDup (map fst kws) -> map fst fs = map fst (ct c) ->
  (forall k t, In (k, t) kws -> has_unm t = false) ->
  (forall k t v, In (k, t) kws -> In (k, v) fs -> val_eqb (eval_r ct (asg t v)) v = true) ->
  (forall k v, In (k, v) fs -> val_eqb v v = true) ->
  val_eqb (eval_r ct (QCall c (call_result ct asg F c pos kws fs))) (NObj c fs) = true.
Proof.
  intros asg F c pos kws fs Hct HF Hnk Hconf Hunm Ha Hr. cbn [eval_r].
  apply (call_fix_eq_gen (eval_r ct) asg F c pos kws fs Hct HF Hnk Hconf Hunm Ha); [intros; reflexivity|intros k v Hin; cbn [eval_r]; exact (Hr k v Hin)].
Qed.
Lemma in_kwvals' : forall l k w, In (k, w) (kwvals l) <-> exists r, In (Some k, r) l /\ w = eval_r ct r.
Proof. intros. apply in_kwvals. Qed.

(* ------------------------------------------------------------------------- the theorem *)
Lemma forallb_in : forall X (p : X -> bool) l x, forallb p l = true -> In x l -> p x = true.
Proof. intros X p l x H Hin. rewrite forallb_forall in H. exact (H x Hin). Qed.

(* C02 for nested values: with fix approved, whatever the hand-written expression was (other type, longer, shorter, reordered,
   other keys, other arguments, positional arguments, any nesting of lists / tuples / dict displays / constructor calls) and
   whatever else is approved, the repaired text evaluates to a value == the observed one *)
Theorem nest_fix_value : forall f F o n, ct_ok -> depth o < f -> okt o = true -> okv n = true -> f_fix F = true ->
  val_eqb (eval_r ct (assign ct f F o n)) n = true.
Proof.
  induction f as [|f IH]; intros F o n Hct Hd Ho Hn HF; [lia|]. rewrite assign_S.
  destruct o as [z c|i z|k olds|olds|c pos kws]; destruct n as [m|k' news|news|c' fs]; try (apply value_assign_fix; assumption).
  - destruct (skind_eqb k k') eqn:Ek; [|apply value_assign_fix; assumption].
    cbn [eval_r]. rewrite val_eqb_seq. assert (Ek' : skind_eqb k k' = true) by exact Ek. destruct k, k'; try discriminate; cbn [skind_eqb andb].
    all: apply walk_fix_value; [apply script_valid|exact HF| |intros n Hin; apply okv_refl; cbn [okv] in Hn; exact (forallb_in _ _ _ _ Hn Hin)].
    all: intros o n Hin Hinn; apply IH; [exact Hct|eapply depth_lst; [exact Hd|exact Hin]|cbn [okt] in Ho; exact (forallb_in _ _ _ _ Ho Hin)|cbn [okv] in Hn; exact (forallb_in _ _ _ _ Hn Hinn)|exact HF].
  - destruct (nodupb (map fst olds)) eqn:End; [|apply value_assign_fix; assumption].
    apply nodupb_NoDup in End. rewrite okt_dct in Ho. rewrite okv_dict in Hn. apply andb_true_iff in Hn. destruct Hn as [Hn1 Hn2]. apply nodupb_NoDup in Hn1.
    apply dict_fix_eq; [exact HF|exact End|exact Hn1| |].
    + intros k o v Hko Hkv. apply IH; [exact Hct|eapply depth_dct; [exact Hd|exact Hko]|exact (okt_entries_in _ _ _ Ho Hko)|exact (okv_entries_in _ _ _ Hn2 Hkv)|exact HF].
    + intros k v Hkv. apply okv_refl. exact (okv_entries_in _ _ _ Hn2 Hkv).
  - destruct (Z.eqb c c') eqn:Ec; [|apply value_assign_fix; assumption].
    apply Z.eqb_eq in Ec. subst c'. rewrite okt_call in Ho. apply andb_true_iff in Ho. destruct Ho as [Ho Ho3]. apply andb_true_iff in Ho. destruct Ho as [Ho1 Ho2].
    apply nodupb_NoDup in Ho2. rewrite okv_obj in Hn. apply andb_true_iff in Hn. destruct Hn as [Hn1 Hn2]. apply zlist_eqb_eq in Hn1.
    apply call_fix_eq; [exact Hct|exact HF|exact Ho2|exact Hn1| | |].
    + intros k t Hkt. apply okt_no_unm. exact (okt_entries_in _ _ _ Ho3 Hkt).
    + intros k t v Hkt Hkv. apply IH; [exact Hct|eapply depth_call_kw; [exact Hd|exact Hkt]|exact (okt_entries_in _ _ _ Ho3 Hkt)|exact (okv_entries_in _ _ _ Hn2 Hkv)|exact HF].
    + intros k v Hkv. apply okv_refl. exact (okv_entries_in _ _ _ Hn2 Hkv).
Qed.

Theorem nest_fix_value_top : forall F o n, ct_ok -> okt o = true -> okv n = true -> f_fix F = true ->
  val_eqb (eval_r ct (assign_nest ct F o n)) n = true.
Proof. intros F o n Hct Ho Hn HF. unfold assign_nest. apply nest_fix_value; [exact Hct|lia|exact Ho|exact Hn|exact HF]. Qed.

End WithClasses.
