(* From the guarantee of without_obsolete_changes to the premise `inv` of the theorems about Model/Edits.v.
   A change is tagged (its position in the list apply_all gets), touches one node of the tree (the node of a Replace / Delete, the container of an
   insertion) and may remove it (Replace, Delete).  C18_no_change_inside_removed_node says about the surviving changes: a node that one of them removes is on
   no OTHER one's chain of ancestors.  In terms of the tree (a chain is the list of a node's ancestors): no other surviving change touches a node in the
   SUBTREE of a removed node (`filtered`).  From this - and nothing else about the filter - follows `inv`, the premise under which the ranges never overlap. *)
From Coq Require Import List Arith Bool Lia.
Import ListNotations.
From V Require Import Model.Edits Proofs.EditsProofs.

Inductive ekind := KRep | KDel | KIns (index count : nat).
Record ech := { e_tag : nat; e_node : nat; e_kind : ekind }.
Definition e_removes (c : ech) : bool := match e_kind c with KIns _ _ => false | _ => true end.

Definition is_rep (id : nat) (c : ech) : bool := Nat.eqb (e_node c) id && match e_kind c with KRep => true | _ => false end.
Definition is_del (id : nat) (c : ech) : bool := Nat.eqb (e_node c) id && match e_kind c with KDel => true | _ => false end.
Definition ins_count (p i : nat) (c : ech) : nat :=
  match e_kind c with KIns i' n => if Nat.eqb (e_node c) p && Nat.eqb i' i then n else 0 | _ => 0 end.
Definition cset_of (K : list ech) : cset :=
  {| rep := fun id => existsb (is_rep id) K; del := fun id => existsb (is_del id) K; ins := fun p i => fold_right (fun c acc => ins_count p i c + acc) 0 K |}.

Fixpoint ids (n : node) : list nat := match n with Node id _ _ _ _ _ _ kids => id :: flat_map ids kids end.
(* sub is n or lies below n *)
Inductive Sub : node -> node -> Prop :=
| Sub_refl : forall n, Sub n n
| Sub_kid : forall sub k n, In k (n_kids n) -> Sub sub k -> Sub sub n.

(* what the filter guarantees, read on the tree *)
Definition filtered (root : node) (K : list ech) : Prop :=
  forall c d sub, In c K -> In d K -> e_tag c <> e_tag d -> e_removes d = true -> Sub sub root -> nid sub = e_node d -> ~ In (e_node c) (ids sub).
Lemma ids_self : forall n, In (nid n) (ids n).
Proof. intros [id es s b ce e ee kids]. left. reflexivity. Qed.
Lemma ids_kid : forall n k x, In k (n_kids n) -> In x (ids k) -> In x (ids n).
Proof. intros [id es s b ce e ee kids] k x Hk Hx. cbn [n_kids] in Hk. right. apply in_flat_map. exists k. split; assumption. Qed.
Lemma ids_sub : forall sub n x, Sub sub n -> In x (ids sub) -> In x (ids n).
Proof. intros sub n x H. induction H as [n|sub k n Hk H IH]; intros Hx; [exact Hx|]. apply (ids_kid n k x Hk). apply IH. exact Hx. Qed.
Lemma Sub_trans : forall a b c, Sub a b -> Sub b c -> Sub a c.
Proof. intros a b c Hab Hbc. induction Hbc as [n|sub k n Hk H IH]; [exact Hab|]. apply (Sub_kid a k n Hk). apply IH. exact Hab. Qed.

Lemma nodup_app_l : forall (a b : list nat), NoDup (a ++ b) -> NoDup a.
Proof. induction a as [|x a IH]; intros b H; [constructor|]. cbn [app] in H. inversion H as [|? ? Hni Hnd]; subst. constructor; [intros Hin; apply Hni; apply in_or_app; left; exact Hin|apply (IH b Hnd)]. Qed.
Lemma nodup_app_r : forall (a b : list nat), NoDup (a ++ b) -> NoDup b.
Proof. induction a as [|x a IH]; intros b H; [exact H|]. cbn [app] in H. inversion H; subst. apply IH. assumption. Qed.
Lemma NoDup_flat_map_in : forall (l : list node) k, NoDup (flat_map ids l) -> In k l -> NoDup (ids k).
Proof.
  induction l as [|x r IH]; intros k H Hk; [destruct Hk|]. cbn [flat_map] in H. destruct Hk as [<-|Hk]; [apply (nodup_app_l _ _ H)|apply IH; [apply (nodup_app_r _ _ H)|exact Hk]].
Qed.
Lemma nodup_kid : forall n k, NoDup (ids n) -> In k (n_kids n) -> NoDup (ids k) /\ ~ In (nid n) (ids k).
Proof.
  intros [id es s b ce e ee kids] k H Hk. cbn [ids n_kids nid] in *. inversion H as [|? ? Hni Hnd]; subst. split; [apply (NoDup_flat_map_in kids k Hnd Hk)|].
  intros Hin. apply Hni. apply in_flat_map. exists k. split; assumption.
Qed.
Lemma nodup_sub : forall sub n, Sub sub n -> NoDup (ids n) -> NoDup (ids sub).
Proof. intros sub n H. induction H as [n|sub k n Hk H IH]; intros Hn; [exact Hn|]. apply IH. apply (nodup_kid n k Hn Hk). Qed.

Section Bridge.
Variable K : list ech.
Hypothesis tags : NoDup (map e_tag K).

Lemma same_tag : forall c d, In c K -> In d K -> e_tag c = e_tag d -> c = d.
Proof.
  intros c d Hc Hd E. clear -tags Hc Hd E. induction K as [|x r IH]; [destruct Hc|]. cbn [map] in tags. inversion tags as [|? ? Hni Hnd]; subst.
  destruct Hc as [<-|Hc], Hd as [<-|Hd]; [reflexivity| | |apply IH; assumption].
  - exfalso. apply Hni. rewrite E. apply in_map. exact Hd.
  - exfalso. apply Hni. rewrite <- E. apply in_map. exact Hc.
Qed.

Lemma rep_in : forall id, rep (cset_of K) id = true -> exists c, In c K /\ e_node c = id /\ e_kind c = KRep.
Proof.
  intros id H. cbn [cset_of rep] in H. apply existsb_exists in H. destruct H as [c [Hc H]]. unfold is_rep in H. apply andb_true_iff in H. destruct H as [H1 H2].
  apply Nat.eqb_eq in H1. exists c. repeat split; [exact Hc|exact H1|]. destruct (e_kind c); try discriminate. reflexivity.
Qed.
Lemma del_in : forall id, del (cset_of K) id = true -> exists c, In c K /\ e_node c = id /\ e_kind c = KDel.
Proof.
  intros id H. cbn [cset_of del] in H. apply existsb_exists in H. destruct H as [c [Hc H]]. unfold is_del in H. apply andb_true_iff in H. destruct H as [H1 H2].
  apply Nat.eqb_eq in H1. exists c. repeat split; [exact Hc|exact H1|]. destruct (e_kind c); try discriminate. reflexivity.
Qed.
Lemma ins_in : forall p i, ins (cset_of K) p i <> 0 -> exists c n, In c K /\ e_node c = p /\ e_kind c = KIns i n.
Proof.
  intros p i. cbn [cset_of ins]. induction K as [|x r IH]; cbn [fold_right]; [intros H; exfalso; apply H; reflexivity|]. intros H.
  destruct (ins_count p i x) eqn:E.
  - destruct IH as [c [n [Hc Hn]]]; [inversion tags; assumption|cbn in H; exact H|]. exists c, n. split; [right; exact Hc|exact Hn].
  - unfold ins_count in E. destruct (e_kind x) as [| |i' n'] eqn:Ek; try discriminate. destruct (Nat.eqb (e_node x) p && Nat.eqb i' i) eqn:Eb; [|discriminate].
    apply andb_true_iff in Eb. destruct Eb as [E1 E2]. apply Nat.eqb_eq in E1, E2. subst i'. exists x, n'. split; [left; reflexivity|split; [exact E1|exact Ek]].
Qed.
Lemma any_ins_in : forall insp n, any_ins insp n = true -> exists i, insp i <> 0.
Proof.
  intros insp n. induction n as [|m IH]; cbn [any_ins]; intros H.
  - exists 0. apply negb_true_iff in H. apply Nat.eqb_neq in H. exact H.
  - apply orb_true_iff in H. destruct H as [H|H]; [exists (S m); apply negb_true_iff in H; apply Nat.eqb_neq in H; exact H|apply IH; exact H].
Qed.

(* nothing of K touches the subtree - except possibly the deletion of its root from the parent *)
Definition quiet (sub : node) : Prop := forall c, In c K -> In (e_node c) (ids sub) -> e_node c = nid sub /\ e_kind c = KDel.

Lemma quiet_silent : forall sub, NoDup (ids sub) -> quiet sub -> silent (cset_of K) sub.
Proof.
  induction sub as [id es s b ce e ee kids IH] using node_ind2. intros Hnd Hq. unfold silent. cbn [ranges].
  assert (Hr : rep (cset_of K) id = false).
  { destruct (rep (cset_of K) id) eqn:E; [|reflexivity]. apply rep_in in E. destruct E as [c [Hc [Hn Hk]]].
    destruct (Hq c Hc) as [_ Hk']; [rewrite Hn; left; reflexivity|]. congruence. }
  assert (Ht : touched (cset_of K) id kids = false).
  { destruct (touched (cset_of K) id kids) eqn:E; [|reflexivity]. unfold touched in E. apply orb_true_iff in E. destruct E as [E|E].
    - apply existsb_exists in E. destruct E as [k [Hk Hd]]. apply del_in in Hd. destruct Hd as [c [Hc [Hn _]]].
      destruct (Hq c Hc) as [Hid _]; [rewrite Hn; right; apply in_flat_map; exists k; split; [exact Hk|apply ids_self]|].
      destruct (nodup_kid (Node id es s b ce e ee kids) k Hnd Hk) as [_ Hni]. exfalso. apply Hni. cbn [nid] in *. rewrite <- Hid, Hn. apply ids_self.
    - apply any_ins_in in E. destruct E as [i Hi]. apply ins_in in Hi. destruct Hi as [c [n [Hc [Hn Hk]]]].
      destruct (Hq c Hc) as [_ Hk']; [rewrite Hn; left; reflexivity|]. congruence. }
  rewrite Hr, Ht. cbn [app]. apply silent_flat. apply Forall_forall. intros k Hk. rewrite Forall_forall in IH. apply (IH k Hk).
  - apply (nodup_kid (Node id es s b ce e ee kids) k Hnd Hk).
  - intros c Hc Hin. exfalso. destruct (Hq c Hc) as [Hid _]; [right; apply in_flat_map; exists k; split; assumption|].
    destruct (nodup_kid (Node id es s b ce e ee kids) k Hnd Hk) as [_ Hni]. apply Hni. cbn [nid] in *. rewrite <- Hid. exact Hin.
Qed.

Variable root : node.
Hypothesis nodup : NoDup (ids root).
Hypothesis Hf : filtered root K.
Hypothesis Hb : forall sub, Sub sub root -> touched (cset_of K) (nid sub) (n_kids sub) = true -> n_b sub <= n_ce sub.

Lemma removed_quiet_kids : forall n c, Sub n root -> In c K -> e_node c = nid n -> e_removes c = true ->
  forall k, In k (n_kids n) -> quiet k.
Proof.
  intros n c Hs Hc Hn Hr k Hk d Hd Hin. exfalso.
  destruct (Nat.eq_dec (e_tag d) (e_tag c)) as [E|E].
  - pose proof (same_tag d c Hd Hc E) as ->. destruct (nodup_kid n k (nodup_sub n root Hs nodup) Hk) as [_ Hni]. apply Hni. rewrite <- Hn. exact Hin.
  - apply (Hf d c n Hd Hc E Hr Hs (eq_sym Hn)). apply (ids_kid n k _ Hk Hin).
Qed.

Theorem inv_of_filtered_sub : forall n, Sub n root -> inv (cset_of K) n.
Proof.
  induction n as [id es s b ce e ee kids IH] using node_ind2. intros Hs. apply (proj2 (inv_unfold (cset_of K) id es s b ce e ee kids)). split; [|split].
  - intros Er. apply rep_in in Er. destruct Er as [c [Hc [Hn Hk]]].
    assert (Hrm : e_removes c = true) by (unfold e_removes; rewrite Hk; reflexivity).
    pose proof (removed_quiet_kids (Node id es s b ce e ee kids) c Hs Hc Hn Hrm) as Hq. cbn [n_kids] in Hq. split.
    + destruct (touched (cset_of K) id kids) eqn:Et; [|reflexivity]. exfalso. unfold touched in Et. apply orb_true_iff in Et. destruct Et as [Et|Et].
      * apply existsb_exists in Et. destruct Et as [k [Hk' Hd]]. apply del_in in Hd. destruct Hd as [d [Hd [Hdn Hdk]]].
        destruct (Hq k Hk' d Hd) as [_ _]; [rewrite Hdn; apply ids_self|].
        (* the deletion of kid k touches node k, which lies in the subtree of the replaced node *)
        destruct (Nat.eq_dec (e_tag d) (e_tag c)) as [E|E]; [pose proof (same_tag d c Hd Hc E) as ->; congruence|].
        apply (Hf d c (Node id es s b ce e ee kids) Hd Hc E Hrm Hs (eq_sym Hn)). rewrite Hdn. right. apply in_flat_map. exists k. split; [exact Hk'|apply ids_self].
      * apply any_ins_in in Et. destruct Et as [i Hi]. apply ins_in in Hi. destruct Hi as [d [m [Hd [Hdn Hdk]]]].
        destruct (Nat.eq_dec (e_tag d) (e_tag c)) as [E|E]; [pose proof (same_tag d c Hd Hc E) as ->; congruence|].
        apply (Hf d c (Node id es s b ce e ee kids) Hd Hc E Hrm Hs (eq_sym Hn)). rewrite Hdn. left. reflexivity.
    + apply Forall_forall. intros k Hk'. apply quiet_silent; [apply (nodup_kid (Node id es s b ce e ee kids) k (nodup_sub _ root Hs nodup) Hk')|apply Hq; exact Hk'].
  - intros Et. apply (Hb (Node id es s b ce e ee kids) Hs Et).
  - unfold all_inv. assert (G : forall l, (forall k, In k l -> In k kids) -> allP (fun k => (del (cset_of K) (nid k) = true -> silent (cset_of K) k) /\ inv (cset_of K) k) l).
    { induction l as [|k r IHl]; intros Hl; [exact I|]. cbn [allP]. split; [split|apply IHl; intros k' Hk'; apply Hl; right; exact Hk'].
      - intros Ed. apply del_in in Ed. destruct Ed as [c [Hc [Hn Hk]]]. assert (Hkk : In k kids) by (apply Hl; left; reflexivity).
        assert (Hsk : Sub k root) by (apply (Sub_trans k (Node id es s b ce e ee kids) root); [apply (Sub_kid k k (Node id es s b ce e ee kids) Hkk (Sub_refl k))|exact Hs]).
        apply quiet_silent; [apply (nodup_sub k root Hsk nodup)|].
        intros d Hd Hin. destruct (Nat.eq_dec (e_tag d) (e_tag c)) as [E|E]; [pose proof (same_tag d c Hd Hc E) as ->; split; [exact Hn|exact Hk]|].
        exfalso. assert (Hrm : e_removes c = true) by (unfold e_removes; rewrite Hk; reflexivity).
        apply (Hf d c k Hd Hc E Hrm Hsk (eq_sym Hn) Hin).
      - rewrite Forall_forall in IH. apply IH; [apply Hl; left; reflexivity|]. apply (Sub_trans k (Node id es s b ce e ee kids) root); [|exact Hs].
        apply (Sub_kid k k (Node id es s b ce e ee kids) (Hl k (or_introl eq_refl)) (Sub_refl k)). }
    apply G. intros k Hk. exact Hk.
Qed.

(* C18: the changes that survive the filter satisfy the premise of edits_never_overlap *)
Theorem inv_of_filtered : inv (cset_of K) root.
Proof. apply inv_of_filtered_sub. apply Sub_refl. Qed.
Corollary filtered_never_overlap : wf root -> Forall wfr (ranges (cset_of K) root) /\ Disj (ranges (cset_of K) root).
Proof. intros Hw. apply edits_never_overlap; [exact Hw|apply inv_of_filtered]. Qed.
End Bridge.

(* non-vacuity: `[a, b]` where a is replaced and b deleted: the premises hold *)
Definition ex_root : node := Node 0 0 0 1 8 9 9 [Node 1 1 1 2 2 2 2 []; Node 2 4 4 5 5 5 5 []].
Definition ex_K : list ech := [ {| e_tag := 0; e_node := 1; e_kind := KRep |}; {| e_tag := 1; e_node := 2; e_kind := KDel |} ].
Lemma sub_ex_root : forall sub, Sub sub ex_root -> sub = ex_root \/ sub = Node 1 1 1 2 2 2 2 [] \/ sub = Node 2 4 4 5 5 5 5 [].
Proof.
  intros sub H. remember ex_root as r eqn:Er. induction H as [n|sub k n Hk H IH]; [left; reflexivity|]. subst n. cbn [ex_root n_kids] in Hk.
  destruct Hk as [ <- | [ <- | [] ] ]; inversion H as [|? ? ? Hk' _]; subst; try (right; tauto); destruct Hk'.
Qed.
Example filtered_example : NoDup (map e_tag ex_K) /\ NoDup (ids ex_root) /\ filtered ex_root ex_K /\ wf ex_root.
Proof.
  split; [repeat constructor; cbn; intuition discriminate|]. split; [repeat constructor; cbn; intuition discriminate|]. split.
  - intros c d sub Hc Hd Ht Hr Hs Hn Hin. apply sub_ex_root in Hs.
    destruct Hc as [ <- | [ <- | [] ] ], Hd as [ <- | [ <- | [] ] ]; cbn in Ht, Hn, Hin; try (exfalso; apply Ht; reflexivity);
      destruct Hs as [ -> | [ -> | -> ] ]; cbn in Hn, Hin; try discriminate; intuition discriminate.
  - apply wfb_ok. vm_compute. reflexivity.
Qed.
