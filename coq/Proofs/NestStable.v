(* Proofs about Model/Nest.v, part 6 (C08): an expression in which update finds nothing to do (every hand-written leaf is written the way
   inline-snapshot writes it, no keyword argument spells out the default of its field, no dict display repeats a key) and whose value is == the
   observed one is left verbatim by a run with ANY approved set - fix, update, all four.  Part 7 will show that a run with fix and update
   leaves such an expression.
   Stdlib only; no axioms. *)
From Coq Require Import List Arith ZArith Bool Lia Permutation.
Import ListNotations.
From V Require Import Model.Align Model.SnapOps Model.TreeAssign Model.Nest Proofs.AlignValid Proofs.AlignProofs Proofs.SeqAssignProofs Proofs.UnmanagedProofs
  Proofs.NestProofs Proofs.NestValue Proofs.NestFix Proofs.NestEqual Proofs.NestUpdate.
Open Scope nat_scope.

Section WithClasses.
Variable ct : ctab.

(* nothing for update to do *)
Fixpoint ustable (t : ntree) : bool :=
  match t with
  | NLeaf _ c => c
  | NUnm _ _ => true
  | NLst _ l => forallb ustable l
  | NDct l => nodupb (map fst l) &&
              (fix go (l : list (Z * ntree)) : bool := match l with [] => true | (_, x) :: r => ustable x && go r end) l
  | NCall c pos kws =>
      forallb ustable pos &&
      forallb (fun kt => negb (is_default ct c (fst kt) (eval ct (snd kt)))) kws &&
      (fix go (l : list (Z * ntree)) : bool := match l with [] => true | (_, x) :: r => ustable x && go r end) kws
  end.
Definition ustable_entries (l : list (Z * ntree)) : bool := forallb (fun kt => ustable (snd kt)) l.
Lemma ustable_dct : forall l, ustable (NDct l) = nodupb (map fst l) && ustable_entries l.
Proof. intros. cbn [ustable]. f_equal. induction l as [|[k x] r IH]; [reflexivity|]. cbn [ustable_entries forallb snd]. rewrite IH. reflexivity. Qed.
Lemma ustable_call : forall c pos kws, ustable (NCall c pos kws) =
  forallb ustable pos && forallb (fun kt => negb (is_default ct c (fst kt) (eval ct (snd kt)))) kws && ustable_entries kws.
Proof. intros. cbn [ustable]. f_equal. induction kws as [|[k x] r IH]; [reflexivity|]. cbn [ustable_entries forallb snd]. rewrite IH. reflexivity. Qed.
Lemma ustable_entries_in : forall l k t, ustable_entries l = true -> In (k, t) l -> ustable t = true.
Proof. intros l k t H Hin. unfold ustable_entries in H. rewrite forallb_forall in H. exact (H (k, t) Hin). Qed.

Lemma value_assign_keep_canon : forall F o n, elt_eqb ct o n = true -> canonical ct o = true -> value_assign ct F o n = QKeep o.
Proof. intros F o n E Hc. unfold value_assign. destruct (is_unm o); [reflexivity|]. unfold elt_eqb in E. rewrite E, Hc. reflexivity. Qed.

(* every keyword is assigned in place when none of them holds the default of its field *)
Lemma kws_all_assigned : forall asg F c fs kws,
  (forall k t, In (k, t) kws -> exists v, alookup k fs = Some v /\ is_default ct c k v = false /\ verbatim (asg t v) = Some t) ->
  verbatim_args (flat_map (cassign_el ct asg F c fs) (map inr kws)) = Some ([], kws).
Proof.
  intros asg F c fs kws. induction kws as [|[k t] r IH]; intros H; [reflexivity|]. cbn [map flat_map cassign_el].
  destruct (H k t (or_introl eq_refl)) as [v [E1 [E2 E3]]]. unfold cassign_kw at 1. rewrite E1, E2.
  cbn [app verbatim_args]. rewrite E3. rewrite IH; [reflexivity|]. intros k' t' Hin. apply H. right. exact Hin.
Qed.

(* C08, one half: nothing left to do.  An expression in which update finds nothing to do and whose value is == the observed one is kept
   verbatim at every depth - whatever is approved, update included *)
Theorem nest_equal_stable : forall f F o n, ct_ok ct -> ct_wf ct -> depth o < f -> okc ct o = true -> okv ct n = true ->
  ustable o = true -> elt_eqb ct o n = true -> verbatim (assign ct f F o n) = Some o.
Proof.
  induction f as [|f IH]; intros F o n Hct Hwf Hd Ho Hn Hs He; [lia|]. rewrite assign_S.
  destruct o as [z c|i z|k olds|olds|c pos kws]; destruct n as [m|k' news|news|c' fs];
    try (unfold elt_eqb in He; cbn [eval val_eqb] in He; discriminate);
    try (unfold value_assign; cbn [is_unm]; reflexivity).
  - (* a leaf written canonically *)
    cbn [ustable] in Hs. subst c. rewrite value_assign_keep_canon; [reflexivity|exact He|]. unfold canonical. cbn [eval canon_tree ntree_eqb]. rewrite Z.eqb_refl. reflexivity.
  - (* list / tuple *)
    destruct (skind_eqb k k') eqn:Ek; [|unfold elt_eqb in He; cbn [eval] in He; rewrite val_eqb_seq, Ek in He; discriminate].
    unfold elt_eqb in He. cbn [eval] in He. rewrite val_eqb_seq, Ek in He. cbn [andb] in He. apply vlist_eqb_F2 in He.
    assert (HF2 : Forall2 (fun o n => elt_eqb ct o n = true) olds news).
    { clear -He. remember (map (eval ct) olds) as evs eqn:Eev. revert olds Eev. induction He as [|x y l m Hxy He IHe]; intros [|o olds] Eev; cbn [map] in Eev; try discriminate; constructor.
      - injection Eev as -> _. exact Hxy.
      - injection Eev as _ Eev. apply IHe. exact Eev. }
    rewrite verbatim_seq. unfold script.
    rewrite (align_refl_all_m ntree nval (elt_eqb ct) olds news HF2). rewrite add_x_all_m.
    rewrite (walk_all_m ct (assign ct f F) F olds news HF2); [reflexivity|].
    intros o n Hin Hinn Hon. apply IH; [exact Hct|exact Hwf|eapply depth_lst; [exact Hd|exact Hin]|cbn [okc] in Ho; exact (forallb_in _ _ _ _ Ho Hin)|cbn [okv] in Hn; exact (forallb_in _ _ _ _ Hn Hinn)|cbn [ustable] in Hs; exact (forallb_in _ _ _ _ Hs Hin)|exact Hon].
  - (* dict display *)
    rewrite ustable_dct in Hs. apply andb_true_iff in Hs. destruct Hs as [End Hs]. rewrite End.
    apply nodupb_NoDup in End. rewrite okc_dct in Ho. rewrite okv_dict in Hn. apply andb_true_iff in Hn. destruct Hn as [Hn1 Hn2]. apply nodupb_NoDup in Hn1.
    unfold elt_eqb in He. cbn [eval] in He. fold (ev_kt ct) in He. rewrite mkdict_nodup in He by (rewrite ev_kt_keys; exact End).
    rewrite val_eqb_dict in He. apply andb_true_iff in He. destruct He as [Hlen Hsub]. apply Nat.eqb_eq in Hlen. rewrite map_length in Hlen.
    assert (Hold : forall k o, In (k, o) olds -> exists v, alookup k news = Some v /\ val_eqb (eval ct o) v = true).
    { intros k o Hin. apply (dsub_elim _ _ k (eval ct o) Hsub). apply in_map_iff. exists (k, o). split; [reflexivity|exact Hin]. }
    assert (Hnew : forall k v, In (k, v) news -> alookup k olds <> None).
    { intros k v Hin E. apply alookup_none in E. apply E.
      assert (Hincl : incl (map fst olds) (map fst news)).
      { intros k0 Hk0. apply in_map_iff in Hk0. destruct Hk0 as [[k1 o1] [E1 Hin1]]. cbn [fst] in E1. subst k1.
        destruct (Hold k0 o1 Hin1) as [v1 [Hv1 _]]. apply alookup_in in Hv1. apply in_map_iff. exists (k0, v1). split; [reflexivity|exact Hv1]. }
      apply (NoDup_length_incl (l := map fst olds) (l' := map fst news) End); [rewrite !map_length; lia|exact Hincl|]. apply in_map_iff. exists (k, v). split; [reflexivity|exact Hin]. }
    rewrite verbatim_dict. unfold dict_result. rewrite (dinserts_none olds news 0 Hnew), dplace_noins.
    rewrite entries_all_kept; [reflexivity|]. intros k o Hin. destruct (Hold k o Hin) as [v [Hv Hev]]. exists v. split; [exact Hv|].
    apply IH; [exact Hct|exact Hwf|eapply depth_dct; [exact Hd|exact Hin]|exact (okc_entries_in ct _ _ _ Ho Hin)|apply alookup_in in Hv; exact (okv_entries_in ct _ _ _ Hn2 Hv)|exact (ustable_entries_in _ _ _ Hs Hin)|exact Hev].
  - (* constructor call *)
    unfold elt_eqb in He. cbn [eval] in He. fold (ev_kt ct) in He. rewrite val_eqb_obj in He. apply andb_true_iff in He. destruct He as [Ec He].
    rewrite Ec. apply Z.eqb_eq in Ec. subst c'.
    rewrite okc_call in Ho. apply andb_true_iff in Ho. destruct Ho as [Hc Ho]. unfold call_ok in Hc.
    apply andb_true_iff in Hc. destruct Hc as [Hc Hc4]. apply andb_true_iff in Hc. destruct Hc as [Hc Hc3]. apply andb_true_iff in Hc. destruct Hc as [Hc1 Hc2].
    destruct pos as [|p0 pos]; [|discriminate]. apply nodupb_NoDup in Hc2.
    rewrite ustable_call in Hs. apply andb_true_iff in Hs. destruct Hs as [Hs Hs3]. apply andb_true_iff in Hs. destruct Hs as [_ Hs2].
    rewrite okv_obj in Hn. apply andb_true_iff in Hn. destruct Hn as [Hn1 Hn2]. apply zlist_eqb_eq in Hn1.
    assert (Hnf : NoDup (map fst fs)) by (rewrite Hn1; apply Hct).
    cbn [map] in He. destruct (fill_fields_inv _ _ _ _ He) as [_ Hfill].
    assert (Hkw : forall k t, In (k, t) kws -> exists v, alookup k fs = Some v /\ val_eqb (eval ct t) v = true).
    { intros k t Hin. rewrite forallb_forall in Hc3. specialize (Hc3 (k, t) Hin). cbn [fst] in Hc3. apply zmemb_In in Hc3.
      apply in_map_iff in Hc3. destruct Hc3 as [[k0 d] [E0 Hf]]. cbn [fst] in E0. subst k0.
      destruct (Hfill k d Hf) as [v [Hv Hev]]. rewrite (alookup_ev_kt ct kws k t Hc2 Hin) in Hev.
      exists v. split; [apply alookup_nodup; assumption|exact Hev]. }
    assert (Hnone : forall name v, In (name, v) fs -> is_default ct c name v = false -> kw_index name kws <> None).
    { intros name v Hv Hdf E. apply kw_index_none in E.
      assert (Hname : In name (map fst (ct c))) by (rewrite <- Hn1; apply in_map_iff; exists (name, v); split; [reflexivity|exact Hv]).
      apply in_map_iff in Hname. destruct Hname as [[name0 d] [E0 Hf]]. cbn [fst] in E0. subst name0.
      destruct (Hfill name d Hf) as [v' [Hv' Hev]].
      assert (v' = v) by (pose proof (alookup_nodup _ name v fs Hnf Hv) as E1; pose proof (alookup_nodup _ name v' fs Hnf Hv') as E2; congruence). subst v'.
      assert (El : alookup name (map (ev_kt ct) kws) = None) by (apply alookup_none; rewrite ev_kt_keys; exact E). rewrite El in Hev.
      destruct d as [d|].
      - unfold is_default in Hdf. rewrite (alookup_nodup _ name (Some d) (ct c) (Hct c) Hf) in Hdf. congruence.
      - rewrite forallb_forall in Hc4. specialize (Hc4 (name, None) Hf). cbn [fst snd] in Hc4. apply zmemb_In in Hc4. contradiction. }
    rewrite verbatim_call. unfold call_result. cbn [length]. rewrite (cinserts_none ct c 0 kws fs 0 Hnone), cplace_noins.
    unfold elements. cbn [map app]. rewrite (kws_all_assigned (assign ct f F) F c fs kws); [reflexivity|].
    intros k t Hin. destruct (Hkw k t Hin) as [v [Hv Hev]]. exists v. split; [exact Hv|]. split.
    + (* the keyword does not spell out the default: its value is == v, and == is an equivalence *)
      rewrite forallb_forall in Hs2. specialize (Hs2 (k, t) Hin). cbn [fst snd] in Hs2. apply negb_true_iff in Hs2.
      destruct (is_default ct c k v) eqn:Ed; [|reflexivity]. exfalso.
      unfold is_default in *. destruct (alookup k (ct c)) as [[d|]|]; try discriminate.
      assert (Hvw : wfv v = true) by (apply okv_wfv with (ct := ct); apply alookup_in in Hv; exact (okv_entries_in ct _ _ _ Hn2 Hv)).
      assert (Hdt : val_eqb d (eval ct t) = true).
      { apply (val_eqb_trans d v (eval ct t) Ed). apply val_eqb_sym; [apply eval_wfv; exact Hwf|exact Hvw|exact Hev]. }
      congruence.
    + apply IH; [exact Hct|exact Hwf|eapply depth_call_kw; [exact Hd|exact Hin]|exact (okc_entries_in ct _ _ _ Ho Hin)|apply alookup_in in Hv; exact (okv_entries_in ct _ _ _ Hn2 Hv)|exact (ustable_entries_in _ _ _ Hs3 Hin)|exact Hev].
Qed.

End WithClasses.
