(* Proofs about Model/Format.v.  The formatter is a section variable with explicit hypotheses
   (trusted base TB-5): idempotence is what "formatter-clean" needs. *)
From Coq Require Import Bool.
From V Require Import Model.Format.

Section P.
Variable text : Type.
Variable eqb : text -> text -> bool.
Hypothesis eqb_spec : forall a b, eqb a b = true <-> a = b.
Variable fmt : text -> text.
Variable fmt_ok : text -> bool.
Hypothesis fmt_idem : forall x, fmt (fmt x) = fmt x.          (* H-fmt-idem *)

Definition clean (x : text) : Prop := fmt_ok x = true /\ fmt x = x.

(* a formatter-clean file stays formatter-clean (black in process, no format-command) *)
Theorem clean_stays_clean : forall src edited,
  clean src -> fmt_ok edited = true -> fmt_ok (fmt edited) = true ->
  clean (fst (new_code text eqb fmt fmt_ok false src edited)).
Proof.
  intros src edited [Hok Hfix] He He2. unfold new_code, whole_file, format_code.
  rewrite Hok. cbn [fst]. rewrite Hfix.
  assert (E : eqb src src = true) by (apply eqb_spec; reflexivity). rewrite E. cbn [orb].
  rewrite He. cbn [fst]. split; [exact He2 | apply fmt_idem].
Qed.

(* with a format-command the result is always the formatter's output for the edited text *)
Theorem enforced_is_formatted : forall src edited,
  fmt_ok edited = true -> new_code text eqb fmt fmt_ok true src edited = (fmt edited, false).
Proof. intros src edited He. unfold new_code, whole_file, format_code. cbn [orb]. rewrite He. reflexivity. Qed.

(* a file that is not clean is not re-formatted as a whole when no format-command is configured:
   the result is exactly the edited text (C03 then gives byte preservation outside the arguments) *)
Theorem unclean_not_reformatted : forall src edited,
  fmt_ok src = true -> fmt src <> src ->
  new_code text eqb fmt fmt_ok false src edited = (edited, false).
Proof.
  intros src edited Hok Hne. unfold new_code, whole_file, format_code. rewrite Hok. cbn [fst orb].
  destruct (eqb src (fmt src)) eqn:E; [|reflexivity].
  apply eqb_spec in E. exfalso. apply Hne. symmetry. exact E.
Qed.

(* a formatter failure degrades to the unformatted (still correct) edit plus a reported problem *)
Theorem format_fault_degrades : forall enforce src edited,
  fmt_ok edited = false ->
  fst (new_code text eqb fmt fmt_ok enforce src edited) = edited.
Proof.
  intros enforce src edited He. unfold new_code, format_code.
  destruct (whole_file text eqb fmt fmt_ok enforce src); [rewrite He|]; reflexivity.
Qed.
Theorem format_fault_reported : forall src edited,
  fmt_ok edited = false -> snd (new_code text eqb fmt fmt_ok true src edited) = true.
Proof. intros src edited He. unfold new_code, whole_file, format_code. cbn [orb]. rewrite He. reflexivity. Qed.

(* the result is always either the edit or the formatted edit: nothing else can be written *)
Theorem new_code_cases : forall enforce src edited,
  fst (new_code text eqb fmt fmt_ok enforce src edited) = edited \/
  fst (new_code text eqb fmt fmt_ok enforce src edited) = fmt edited.
Proof.
  intros enforce src edited. unfold new_code, format_code.
  destruct (whole_file text eqb fmt fmt_ok enforce src); [destruct (fmt_ok edited)|]; cbn [fst]; auto.
Qed.
End P.

(* non-vacuity: a toy idempotent formatter on nat *)
Example clean_example :
  let fmt := fun n : nat => Nat.div n 2 * 2 in
  clean nat fmt (fun _ => true) 4 /\ fst (new_code nat Nat.eqb fmt (fun _ => true) false 4 7) = 6.
Proof. split; [split; reflexivity | reflexivity]. Qed.
