From Coq Require Import List Bool.
Import ListNotations.
From V Require Import Model.Xfail.

Lemma first_true_spec : forall cs, first_true cs = negb (forallb negb cs).
Proof. induction cs as [|c r IH]; [reflexivity|]. cbn [first_true forallb]. destruct c; cbn [negb andb]; [reflexivity|exact IH]. Qed.

(* C04 / C06: inline-snapshot is inert exactly in the tests pytest treats as xfail - for every stack of marks *)
Theorem is_xfail_agrees : forall marks, is_xfail marks = pytest_xfail marks.
Proof.
  induction marks as [|m r IH]; [reflexivity|]. cbn [is_xfail existsb pytest_xfail]. fold (is_xfail r). unfold mark_counts.
  destruct (conditions m) as [|c cs] eqn:E; [reflexivity|]. rewrite <- first_true_spec. destruct (first_true (c :: cs)); [reflexivity|exact IH].
Qed.
(* the order of the marks and marks that do not apply are irrelevant *)
Theorem is_xfail_app : forall a b, is_xfail (a ++ b) = is_xfail a || is_xfail b.
Proof. intros a b. unfold is_xfail. apply existsb_app. Qed.
Theorem is_xfail_none_applies : forall marks, (forall m, In m marks -> exists c cs, conditions m = c :: cs /\ forallb negb (c :: cs) = true) -> is_xfail marks = false.
Proof.
  intros marks H. unfold is_xfail. destruct (existsb mark_counts marks) eqn:E; [|reflexivity]. apply existsb_exists in E. destruct E as [m [Hin Hm]].
  destruct (H m Hin) as [c [cs [Ec Hf]]]. unfold mark_counts in Hm. rewrite Ec, Hf in Hm. discriminate.
Qed.
Example xfail_example :
  is_xfail [{| m_args := [false]; m_condition := None |}; {| m_args := []; m_condition := None |}] = true /\
  is_xfail [{| m_args := [true]; m_condition := Some false |}; {| m_args := [false; false]; m_condition := None |}] = false /\
  is_xfail [{| m_args := [false; true]; m_condition := None |}] = true.
Proof. repeat split. Qed.
