(* Proofs about the flag-resolution / session-finish model in Model/Flags.v.
   Stdlib only; no axioms. *)
From Coq Require Import List Bool Arith Btauto.
Import ListNotations.
From V Require Import Model.Tree Model.Flags.

(* ------------------------------------------------------------------ *)
(* Basic facts about flags, mem, nonempty_without_disable              *)
(* ------------------------------------------------------------------ *)

Lemma flag_eqb_eq (a b : flag) : flag_eqb a b = true <-> a = b.
Proof.
  split.
  - destruct a, b; simpl; intro H; try discriminate H; try reflexivity.
    apply Nat.eqb_eq in H. subst. reflexivity.
  - intros <-. destruct a; simpl; try reflexivity. apply Nat.eqb_refl.
Qed.

Lemma mem_In (f : flag) (l : list flag) : mem f l = true <-> In f l.
Proof.
  unfold mem. rewrite existsb_exists. split.
  - intros [x [Hin Heq]]. apply flag_eqb_eq in Heq. subst. exact Hin.
  - intros Hin. exists f. split; [exact Hin|]. apply flag_eqb_eq. reflexivity.
Qed.

Lemma nwd_false_all_disable (l : list flag) :
  nonempty_without_disable l = false -> forall f, In f l -> f = FDisable.
Proof.
  unfold nonempty_without_disable.
  induction l as [|x l IH]; simpl; intros H f Hin.
  - contradiction.
  - apply orb_false_iff in H. destruct H as [Hx Hl]. destruct Hin as [<-|Hin].
    + apply negb_false_iff in Hx. apply flag_eqb_eq. exact Hx.
    + apply IH; assumption.
Qed.

Lemma nwd_true_iff (l : list flag) :
  nonempty_without_disable l = true <-> exists f, In f l /\ f <> FDisable.
Proof.
  unfold nonempty_without_disable. rewrite existsb_exists. split.
  - intros [f [Hin Hf]]. exists f. split; [exact Hin|].
    intros ->. simpl in Hf. discriminate Hf.
  - intros [f [Hin Hf]]. exists f. split; [exact Hin|].
    apply negb_true_iff. destruct (flag_eqb f FDisable) eqn:E; [|reflexivity].
    apply flag_eqb_eq in E. contradiction.
Qed.

Lemma only_disable_mem_false (l : list flag) (f : flag) :
  nonempty_without_disable l = false -> f <> FDisable -> mem f l = false.
Proof.
  intros Hn Hf. destruct (mem f l) eqn:E; [|reflexivity].
  apply mem_In in E. apply (nwd_false_all_disable l Hn) in E. contradiction.
Qed.

Lemma not_all_known_iff (l : list flag) :
  forallb is_known l = false <-> exists n, In (FUnknown n) l.
Proof.
  induction l as [|x l IH]; simpl.
  - split; [discriminate|intros [n []]].
  - rewrite andb_false_iff, IH. split.
    + intros [Hx|[n Hn]].
      * destruct x; simpl in Hx; try discriminate Hx. exists n. left. reflexivity.
      * exists n. right. exact Hn.
    + intros [n [Hx|Hn]].
      * left. subst x. reflexivity.
      * right. exists n. exact Hn.
Qed.

Lemma all_cat_mem (l : list flag) (f : flag) :
  forallb is_cat l = true -> is_cat f = false -> mem f l = false.
Proof.
  intros Hall Hf. destruct (mem f l) eqn:E; [|reflexivity].
  apply mem_In in E. rewrite forallb_forall in Hall. apply Hall in E.
  rewrite E in Hf. discriminate Hf.
Qed.

Lemma all_cat_all_known (l : list flag) : forallb is_cat l = true -> forallb is_known l = true.
Proof.
  rewrite !forallb_forall. intros H x Hx. apply H in Hx. destruct x; simpl in *; congruence.
Qed.

(* ------------------------------------------------------------------ *)
(* A readable restatement of [resolve]                                 *)
(* ------------------------------------------------------------------ *)

(* the flags taken from the environment variable or from the config file *)
Definition default_flags (e : env) : list flag :=
  match env_var e with
  | Some l => l
  | None => if tty e then cfg_default_tui e else cfg_default e
  end.

(* the flags in effect: command line > environment variable > config file *)
Definition effective (e : env) : list flag :=
  match cli e with Some l => l | None => default_flags e end.

(* the command line gives something other than disable under xdist *)
Definition cli_xdist_error (e : env) : bool :=
  match cli e with Some l => xdist e && nonempty_without_disable l | None => false end.

(* the plugin is switched off by the environment *)
Definition inactive_env (e : env) : bool := xdist e || negb (cpython e) || ci e.

(* the three usage errors, in the order in which [resolve] tests them *)
Definition usage_error_b (e : env) : bool :=
  cli_xdist_error e
  || negb (forallb is_known (effective e))
  || (mem FDisable (effective e) && nonempty_without_disable (effective e)).

Lemma resolve_spec (e : env) :
  resolve e =
  if cli_xdist_error e then UsageError
  else if negb (forallb is_known (effective e)) then UsageError
  else if mem FDisable (effective e) && nonempty_without_disable (effective e) then UsageError
  else if inactive_env e then Resolved (effective e) false none4
  else if mem FReview (effective e) then Resolved (effective e) true all4
  else Resolved (effective e) (negb (mem FDisable (effective e)))
                (of_flags (filter is_cat (effective e))).
Proof. reflexivity. Qed.

Lemma resolve_Resolved_inv (e : env) (flags : list flag) (a : bool) (u : cats4) :
  resolve e = Resolved flags a u ->
  flags = effective e
  /\ cli_xdist_error e = false
  /\ forallb is_known flags = true
  /\ mem FDisable flags && nonempty_without_disable flags = false
  /\ ((inactive_env e = true /\ a = false /\ u = none4)
      \/ (inactive_env e = false /\ mem FReview flags = true /\ a = true /\ u = all4)
      \/ (inactive_env e = false /\ mem FReview flags = false
          /\ a = negb (mem FDisable flags) /\ u = of_flags (filter is_cat flags))).
Proof.
  rewrite resolve_spec. intros H.
  destruct (cli_xdist_error e) eqn:E1; [discriminate H|].
  destruct (forallb is_known (effective e)) eqn:E2; simpl in H; [|discriminate H].
  destruct (mem FDisable (effective e) && nonempty_without_disable (effective e)) eqn:E3;
    [discriminate H|].
  destruct (inactive_env e) eqn:E4.
  - inversion H; subst. repeat (split; [assumption || reflexivity|]).
    left. repeat split.
  - destruct (mem FReview (effective e)) eqn:E5; inversion H; subst;
      repeat (split; [assumption || reflexivity|]).
    + right. left. repeat split. exact E5.
    + right. right. repeat split. exact E5.
Qed.

Lemma resolve_flags_effective (e : env) (flags : list flag) (a : bool) (u : cats4) :
  resolve e = Resolved flags a u -> flags = effective e.
Proof. intros H. apply resolve_Resolved_inv in H. tauto. Qed.

Lemma inactive_env_not_active (e : env) (flags : list flag) (a : bool) (u : cats4) :
  inactive_env e = true -> resolve e = Resolved flags a u -> a = false /\ u = none4.
Proof.
  intros Hi H. apply resolve_Resolved_inv in H.
  destruct H as (_ & _ & _ & _ & [(_ & Ha & Hu)|[(Hi' & _)|(Hi' & _)]]).
  - split; assumption.
  - rewrite Hi in Hi'. discriminate Hi'.
  - rewrite Hi in Hi'. discriminate Hi'.
Qed.

Lemma disable_not_active (e : env) (flags : list flag) (a : bool) (u : cats4) :
  resolve e = Resolved flags a u -> mem FDisable flags = true -> a = false.
Proof.
  intros H Hd. apply resolve_Resolved_inv in H.
  destruct H as (_ & _ & _ & Hcomb & [(_ & Ha & _)|[(_ & Hrev & _)|(_ & _ & Ha & _)]]).
  - exact Ha.
  - rewrite Hd in Hcomb. simpl in Hcomb.
    rewrite (only_disable_mem_false flags FReview Hcomb) in Hrev; [discriminate Hrev|discriminate].
  - rewrite Hd in Ha. exact Ha.
Qed.

Lemma applied_not_active (e : env) (s : session) (c : cat) (flags : list flag) (u : cats4) :
  resolve e = Resolved flags false u -> applied e s c = false.
Proof. intros H. unfold applied. rewrite H. reflexivity. Qed.

(* ------------------------------------------------------------------ *)
(* G1: only approved categories are written                            *)
(* ------------------------------------------------------------------ *)

Theorem applied_subset_approved (e : env) (s : session) (c : cat) :
  applied e s c = true -> approved e s c = true.
Proof.
  unfold applied, approved. destruct (resolve e) as [|flags active u]; [discriminate|].
  intros H. apply andb_true_iff in H. destruct H as [_ H]. exact H.
Qed.

(* ------------------------------------------------------------------ *)
(* G2: no approval, no write                                           *)
(* ------------------------------------------------------------------ *)

Theorem no_write_unapproved (e : env) (s : session) :
  (forall c, approved e s c = false) -> forall c, applied e s c = false.
Proof.
  intros Hna c. destruct (applied e s c) eqn:E; [|reflexivity].
  apply applied_subset_approved in E. rewrite Hna in E. discriminate E.
Qed.

Theorem no_write_usage_error (e : env) (s : session) :
  resolve e = UsageError -> forall c, applied e s c = false.
Proof. intros H c. unfold applied. rewrite H. reflexivity. Qed.

Lemma no_write_inactive_env (e : env) (s : session) :
  inactive_env e = true -> forall c, applied e s c = false.
Proof.
  intros Hi c. destruct (resolve e) as [|flags a u] eqn:R.
  - apply no_write_usage_error. exact R.
  - destruct (inactive_env_not_active e flags a u Hi R) as [-> _].
    apply (applied_not_active e s c flags u R).
Qed.

Theorem no_write_xdist (e : env) (s : session) :
  xdist e = true -> forall c, applied e s c = false.
Proof.
  intros Hx. apply no_write_inactive_env. unfold inactive_env. rewrite Hx. reflexivity.
Qed.

Theorem no_write_ci (e : env) (s : session) :
  ci e = true -> forall c, applied e s c = false.
Proof.
  intros Hc. apply no_write_inactive_env. unfold inactive_env. rewrite Hc. apply orb_true_r.
Qed.

Theorem no_write_not_cpython (e : env) (s : session) :
  cpython e = false -> forall c, applied e s c = false.
Proof.
  intros Hc. apply no_write_inactive_env. unfold inactive_env. rewrite Hc. simpl.
  rewrite orb_true_r. reflexivity.
Qed.

(* short-report wins over every category flag, review and report *)
Theorem no_write_short_report (e : env) (s : session) :
  (forall flags a u, resolve e = Resolved flags a u -> mem FShortReport flags = true) ->
  forall c, applied e s c = false.
Proof.
  intros Hsr c. unfold applied. destruct (resolve e) as [|flags a u] eqn:R; [reflexivity|].
  rewrite (Hsr flags a u eq_refl). simpl. rewrite andb_false_r. reflexivity.
Qed.

Theorem no_write_disable (e : env) (s : session) :
  (forall flags a u, resolve e = Resolved flags a u -> mem FDisable flags = true) ->
  forall c, applied e s c = false.
Proof.
  intros Hd c. destruct (resolve e) as [|flags a u] eqn:R.
  - apply no_write_usage_error. exact R.
  - pose proof (disable_not_active e flags a u R (Hd flags a u eq_refl)) as Ha. subst a.
    apply (applied_not_active e s c flags u R).
Qed.

(* all seven in one statement *)
Theorem no_approval_no_write (e : env) (s : session) :
  (forall c, approved e s c = false)
  \/ resolve e = UsageError
  \/ xdist e = true
  \/ ci e = true
  \/ cpython e = false
  \/ (forall flags a u, resolve e = Resolved flags a u -> mem FShortReport flags = true)
  \/ (forall flags a u, resolve e = Resolved flags a u -> mem FDisable flags = true) ->
  forall c, applied e s c = false.
Proof.
  intros [H|[H|[H|[H|[H|[H|H]]]]]].
  - apply no_write_unapproved; exact H.
  - apply no_write_usage_error; exact H.
  - apply no_write_xdist; exact H.
  - apply no_write_ci; exact H.
  - apply no_write_not_cpython; exact H.
  - apply no_write_short_report; exact H.
  - apply no_write_disable; exact H.
Qed.

(* ------------------------------------------------------------------ *)
(* G3: exactly what is applied in an active session                    *)
(* ------------------------------------------------------------------ *)

Theorem applied_exact (e : env) (s : session) (c : cat) (flags : list flag) (u : cats4) :
  resolve e = Resolved flags true u ->
  mem FShortReport flags = false ->
  applied e s c =
    pending s c && diff_nonempty s c && approved e s c
    && negb (match c with Update => skip_updates s && negb (mem FUpdate flags) | _ => false end).
Proof.
  intros R Hsr. unfold applied, approved. rewrite R, Hsr.
  destruct c; simpl; btauto.
Qed.

Corollary applied_exact_flags (e : env) (s : session) (c : cat) (flags : list flag) (u : cats4) :
  resolve e = Resolved flags true u ->
  mem FShortReport flags = false ->
  mem FReview flags = false ->
  applied e s c = pending s c && diff_nonempty s c && mem (cat_flag c) flags.
Proof.
  intros R Hsr Hrev. rewrite (applied_exact e s c flags u R Hsr).
  unfold approved. rewrite R, Hrev.
  destruct c; simpl; btauto.
Qed.

(* ------------------------------------------------------------------ *)
(* G4: command line > environment variable > config file               *)
(* ------------------------------------------------------------------ *)

Theorem resolve_precedence_cli (e1 e2 : env) (l : list flag) :
  cli e1 = Some l -> cli e2 = Some l ->
  xdist e1 = xdist e2 -> ci e1 = ci e2 -> cpython e1 = cpython e2 ->
  resolve e1 = resolve e2.
Proof.
  intros Hc1 Hc2 Hx Hci Hcp. unfold resolve. rewrite Hc1, Hc2, Hx, Hci, Hcp. reflexivity.
Qed.

Theorem resolve_precedence_env (e1 e2 : env) (l : list flag) :
  cli e1 = None -> cli e2 = None ->
  env_var e1 = Some l -> env_var e2 = Some l ->
  xdist e1 = xdist e2 -> ci e1 = ci e2 -> cpython e1 = cpython e2 ->
  resolve e1 = resolve e2.
Proof.
  intros Hc1 Hc2 Hv1 Hv2 Hx Hci Hcp. unfold resolve.
  rewrite Hc1, Hc2, Hv1, Hv2, Hx, Hci, Hcp. reflexivity.
Qed.

Theorem resolve_precedence_cfg (e1 e2 : env) :
  cli e1 = None -> cli e2 = None ->
  env_var e1 = None -> env_var e2 = None ->
  (if tty e1 then cfg_default_tui e1 else cfg_default e1)
  = (if tty e2 then cfg_default_tui e2 else cfg_default e2) ->
  xdist e1 = xdist e2 -> ci e1 = ci e2 -> cpython e1 = cpython e2 ->
  resolve e1 = resolve e2.
Proof.
  intros Hc1 Hc2 Hv1 Hv2 Hcfg Hx Hci Hcp. unfold resolve.
  rewrite Hc1, Hc2, Hv1, Hv2, Hx, Hci, Hcp. cbv beta iota zeta.
  rewrite Hcfg. reflexivity.
Qed.

Theorem resolve_precedence (e1 e2 : env) :
  xdist e1 = xdist e2 -> ci e1 = ci e2 -> cpython e1 = cpython e2 ->
  (forall l, cli e1 = Some l -> cli e2 = Some l -> resolve e1 = resolve e2)
  /\ (forall l, cli e1 = None -> cli e2 = None ->
                env_var e1 = Some l -> env_var e2 = Some l -> resolve e1 = resolve e2)
  /\ (cli e1 = None -> cli e2 = None -> env_var e1 = None -> env_var e2 = None ->
      (if tty e1 then cfg_default_tui e1 else cfg_default e1)
      = (if tty e2 then cfg_default_tui e2 else cfg_default e2) ->
      resolve e1 = resolve e2).
Proof.
  intros Hx Hci Hcp. repeat split.
  - intros l H1 H2. apply (resolve_precedence_cli e1 e2 l); assumption.
  - intros l H1 H2 H3 H4. apply (resolve_precedence_env e1 e2 l); assumption.
  - intros H1 H2 H3 H4 H5. apply resolve_precedence_cfg; assumption.
Qed.

(* the effective flags themselves *)
Lemma effective_cli (e : env) (l : list flag) : cli e = Some l -> effective e = l.
Proof. intros H. unfold effective. rewrite H. reflexivity. Qed.

Lemma effective_env (e : env) (l : list flag) :
  cli e = None -> env_var e = Some l -> effective e = l.
Proof. intros H1 H2. unfold effective, default_flags. rewrite H1, H2. reflexivity. Qed.

Lemma effective_cfg (e : env) :
  cli e = None -> env_var e = None ->
  effective e = if tty e then cfg_default_tui e else cfg_default e.
Proof. intros H1 H2. unfold effective, default_flags. rewrite H1, H2. reflexivity. Qed.

(* ------------------------------------------------------------------ *)
(* G5: usage errors                                                    *)
(* ------------------------------------------------------------------ *)

Theorem resolve_errors (e : env) :
  resolve e = UsageError <->
  (match cli e with Some l => xdist e && nonempty_without_disable l | None => false end)
  || negb (forallb is_known (effective e))
  || (mem FDisable (effective e) && nonempty_without_disable (effective e)) = true.
Proof.
  rewrite resolve_spec. fold (cli_xdist_error e).
  destruct (cli_xdist_error e); simpl; [tauto|].
  destruct (forallb is_known (effective e)); simpl; [|tauto].
  destruct (mem FDisable (effective e) && nonempty_without_disable (effective e)); [tauto|].
  destruct (inactive_env e); [split; discriminate|].
  destruct (mem FReview (effective e)); split; discriminate.
Qed.

(* the same with propositions *)
Theorem resolve_errors_prop (e : env) :
  resolve e = UsageError <->
  (exists l, cli e = Some l /\ xdist e = true /\ exists f, In f l /\ f <> FDisable)
  \/ (exists n, In (FUnknown n) (effective e))
  \/ (In FDisable (effective e) /\ exists f, In f (effective e) /\ f <> FDisable).
Proof.
  rewrite resolve_errors, !orb_true_iff, negb_true_iff, not_all_known_iff,
    andb_true_iff, mem_In, nwd_true_iff.
  assert (Hcli :
    (match cli e with Some l => xdist e && nonempty_without_disable l | None => false end) = true
    <-> exists l, cli e = Some l /\ xdist e = true /\ exists f, In f l /\ f <> FDisable).
  { destruct (cli e) as [l|].
    - rewrite andb_true_iff, nwd_true_iff. split.
      + intros [Hx Hf]. exists l. auto.
      + intros [l' [Hl [Hx Hf]]]. inversion Hl; subst. auto.
    - split; [discriminate|]. intros [l [Hl _]]. discriminate Hl. }
  rewrite Hcli. tauto.
Qed.

(* ------------------------------------------------------------------ *)
(* G6: inactive environments; review mode                              *)
(* ------------------------------------------------------------------ *)

Theorem resolve_inactive (e : env) :
  xdist e = true \/ ci e = true \/ cpython e = false ->
  resolve e = UsageError \/ exists flags, resolve e = Resolved flags false none4.
Proof.
  intros H.
  assert (Hi : inactive_env e = true).
  { unfold inactive_env. destruct H as [Hx|[Hx|Hx]]; rewrite Hx; simpl;
      rewrite ?orb_true_r; reflexivity. }
  destruct (resolve e) as [|flags a u] eqn:R; [left; reflexivity|].
  right. exists flags.
  destruct (inactive_env_not_active e flags a u Hi R) as [-> ->]. reflexivity.
Qed.

Theorem resolve_review_all (e : env) (flags : list flag) (a : bool) (u : cats4) :
  xdist e = false -> ci e = false -> cpython e = true ->
  resolve e = Resolved flags a u ->
  mem FReview flags = true ->
  a = true /\ u = all4.
Proof.
  intros Hx Hci Hcp R Hrev. apply resolve_Resolved_inv in R.
  destruct R as (_ & _ & _ & _ & [(Hi & _)|[(_ & _ & Ha & Hu)|(_ & Hrev' & _)]]).
  - unfold inactive_env in Hi. rewrite Hx, Hci, Hcp in Hi. discriminate Hi.
  - split; assumption.
  - rewrite Hrev in Hrev'. discriminate Hrev'.
Qed.

(* ------------------------------------------------------------------ *)
(* G7: removal of unused externals                                     *)
(* ------------------------------------------------------------------ *)

Theorem removes_only_with_trim (e : env) :
  removes_unused_externals_gen true e = true ->
  exists flags a u, resolve e = Resolved flags a u /\ mem FTrim flags = true.
Proof.
  unfold removes_unused_externals_gen.
  destruct (resolve e) as [|flags a u]; [discriminate|].
  intros H. apply andb_true_iff in H. destruct H as [_ H].
  exists flags, a, u. split; [reflexivity|exact H].
Qed.

Definition e_review_only : env :=
  {| cli := Some [FReview]; env_var := None; cfg_default := []; cfg_default_tui := [];
     tty := false; xdist := false; ci := false; cpython := true |}.

(* the pinned tree deletes unused externals in review mode although trim was never approved (F-04) *)
Theorem removes_pinned_refuted :
  exists e, removes_unused_externals_gen false e = true
            /\ (forall flags a u, resolve e = Resolved flags a u -> mem FTrim flags = false).
Proof.
  exists e_review_only. split.
  - vm_compute. reflexivity.
  - intros flags a u H. vm_compute in H. inversion H; subst. reflexivity.
Qed.

(* ------------------------------------------------------------------ *)
(* G8: the testing helper agrees with the plugin on its scope          *)
(* ------------------------------------------------------------------ *)

Lemma resolve_only_cats (e : env) (given : list flag) :
  cli e = Some given -> forallb is_cat given = true ->
  xdist e = false -> ci e = false -> cpython e = true ->
  resolve e = Resolved given true (of_flags (filter is_cat given)).
Proof.
  intros Hcli Hcat Hx Hci Hcp.
  rewrite resolve_spec. unfold cli_xdist_error, inactive_env.
  rewrite (effective_cli e given Hcli), Hcli, Hx, Hci, Hcp.
  rewrite (all_cat_all_known given Hcat).
  rewrite (all_cat_mem given FDisable Hcat eq_refl).
  rewrite (all_cat_mem given FReview Hcat eq_refl).
  reflexivity.
Qed.

(* without the assumption on the diffs: the helper ignores whether the change is visible in a file *)
Theorem inline_eq_plugin_gen (e : env) (s : session) (given : list flag) :
  cli e = Some given -> forallb is_cat given = true ->
  xdist e = false -> ci e = false -> cpython e = true ->
  forall c, applied e s c = inline_applied given s c && diff_nonempty s c.
Proof.
  intros Hcli Hcat Hx Hci Hcp c.
  pose proof (resolve_only_cats e given Hcli Hcat Hx Hci Hcp) as R.
  rewrite (applied_exact_flags e s c given _ R
             (all_cat_mem given FShortReport Hcat eq_refl)
             (all_cat_mem given FReview Hcat eq_refl)).
  unfold inline_applied. btauto.
Qed.

Theorem inline_eq_plugin (e : env) (s : session) (given : list flag) :
  cli e = Some given -> forallb is_cat given = true ->
  xdist e = false -> ci e = false -> cpython e = true ->
  (forall c, diff_nonempty s c = true) ->
  forall c, applied e s c = inline_applied given s c.
Proof.
  intros Hcli Hcat Hx Hci Hcp Hdiff c.
  rewrite (inline_eq_plugin_gen e s given Hcli Hcat Hx Hci Hcp c), Hdiff.
  apply andb_true_r.
Qed.

Definition s_all : session :=
  {| pending := fun _ => true; diff_nonempty := fun _ => true;
     answer := fun _ => false; skip_updates := false |}.

Definition e_create_short : env :=
  {| cli := Some [FCreate; FShortReport]; env_var := None; cfg_default := [FReport];
     cfg_default_tui := [FCreate; FReview]; tty := false;
     xdist := false; ci := false; cpython := true |}.

(* outside its scope (a flag that is not a category) the helper is not faithful *)
Theorem inline_differs_outside_scope_refuted :
  exists e given s c,
    cli e = Some given /\ forallb is_cat given = false
    /\ xdist e = false /\ ci e = false /\ cpython e = true
    /\ (forall c, diff_nonempty s c = true)
    /\ applied e s c = false /\ inline_applied given s c = true.
Proof.
  exists e_create_short, [FCreate; FShortReport], s_all, Create.
  repeat split; vm_compute; reflexivity.
Qed.

(* ------------------------------------------------------------------ *)
(* G9: more 'y' answers never un-apply                                 *)
(* ------------------------------------------------------------------ *)

Theorem applied_monotone_in_answers (e : env) (s s' : session) (c : cat) :
  (forall c, answer s c = true -> answer s' c = true) ->
  (forall c, pending s' c = pending s c) ->
  (forall c, diff_nonempty s' c = diff_nonempty s c) ->
  skip_updates s' = skip_updates s ->
  applied e s c = true -> applied e s' c = true.
Proof.
  intros Hans Hp Hd Hsk. unfold applied.
  destruct (resolve e) as [|flags active u]; [discriminate|].
  rewrite Hp, Hd, Hsk. intros H.
  apply andb_true_iff in H. destruct H as [H1 H2].
  apply andb_true_iff. split; [exact H1|].
  apply orb_true_iff in H2. destruct H2 as [H2|H2].
  - rewrite H2. reflexivity.
  - apply andb_true_iff in H2. destruct H2 as [Hrev Ha].
    rewrite Hrev, (Hans c Ha). apply orb_true_r.
Qed.

(* ------------------------------------------------------------------ *)
(* Examples                                                            *)
(* ------------------------------------------------------------------ *)

(* command line: fix,report ; environment variable: create ; built-in config ; a terminal *)
Definition e_ex : env :=
  {| cli := Some [FFix; FReport]; env_var := Some [FCreate]; cfg_default := [FReport];
     cfg_default_tui := [FCreate; FReview]; tty := true;
     xdist := false; ci := false; cpython := true |}.

Definition with_cli (l : option (list flag)) (e : env) : env :=
  {| cli := l; env_var := env_var e; cfg_default := cfg_default e;
     cfg_default_tui := cfg_default_tui e; tty := tty e;
     xdist := xdist e; ci := ci e; cpython := cpython e |}.
Definition with_xdist (b : bool) (e : env) : env :=
  {| cli := cli e; env_var := env_var e; cfg_default := cfg_default e;
     cfg_default_tui := cfg_default_tui e; tty := tty e;
     xdist := b; ci := ci e; cpython := cpython e |}.
Definition with_ci (b : bool) (e : env) : env :=
  {| cli := cli e; env_var := env_var e; cfg_default := cfg_default e;
     cfg_default_tui := cfg_default_tui e; tty := tty e;
     xdist := xdist e; ci := b; cpython := cpython e |}.
Definition with_cpython (b : bool) (e : env) : env :=
  {| cli := cli e; env_var := env_var e; cfg_default := cfg_default e;
     cfg_default_tui := cfg_default_tui e; tty := tty e;
     xdist := xdist e; ci := ci e; cpython := b |}.
Definition with_env_var (l : option (list flag)) (e : env) : env :=
  {| cli := cli e; env_var := l; cfg_default := cfg_default e;
     cfg_default_tui := cfg_default_tui e; tty := tty e;
     xdist := xdist e; ci := ci e; cpython := cpython e |}.
Definition with_tty (b : bool) (e : env) : env :=
  {| cli := cli e; env_var := env_var e; cfg_default := cfg_default e;
     cfg_default_tui := cfg_default_tui e; tty := b;
     xdist := xdist e; ci := ci e; cpython := cpython e |}.

Definition applied_list (e : env) (s : session) : list bool := map (applied e s) all_cats.
Definition approved_list (e : env) (s : session) : list bool := map (approved e s) all_cats.

(* everything pending, the user answers 'y' for fix and trim only, updates are skipped *)
Definition s_yes_fix_trim : session :=
  {| pending := fun _ => true; diff_nonempty := fun _ => true;
     answer := fun c => match c with Fix | Trim => true | _ => false end;
     skip_updates := true |}.
Definition s_yes_all : session :=
  {| pending := fun _ => true; diff_nonempty := fun _ => true;
     answer := fun _ => true; skip_updates := true |}.

(* the base example: only fix is applied (the command line wins over the variable's create) *)
Example ex_base_resolve :
  resolve e_ex = Resolved [FFix; FReport] true
                   {| c_create := false; c_fix := true; c_trim := false; c_update := false |}.
Proof. vm_compute. reflexivity. Qed.
Example ex_base_applied : applied_list e_ex s_all = [false; true; false; false].
Proof. vm_compute. reflexivity. Qed.

(* G1 *)
Example ex_applied_subset_approved : approved e_ex s_all Fix = true.
Proof. apply applied_subset_approved. vm_compute. reflexivity. Qed.
Example ex_applied_subset_approved_review :
  applied_list (with_cli (Some [FReview]) e_ex) s_yes_fix_trim = [false; true; true; false]
  /\ approved_list (with_cli (Some [FReview]) e_ex) s_yes_fix_trim = [false; true; true; false].
Proof. split; vm_compute; reflexivity. Qed.

(* G2 *)
Example ex_no_write_unapproved : applied_list (with_cli (Some [FReport]) e_ex) s_all = [false; false; false; false].
Proof.
  unfold applied_list, all_cats. simpl map.
  rewrite !(no_write_unapproved (with_cli (Some [FReport]) e_ex) s_all); [reflexivity|..];
    intros c; destruct c; vm_compute; reflexivity.
Qed.
Example ex_no_write_usage_error :
  resolve (with_cli (Some [FFix; FUnknown 7]) e_ex) = UsageError
  /\ forall c, applied (with_cli (Some [FFix; FUnknown 7]) e_ex) s_all c = false.
Proof. split; [|apply no_write_usage_error]; vm_compute; reflexivity. Qed.
Example ex_no_write_xdist :
  (* the flags come from the variable; with flags on the command line it is a usage error *)
  resolve (with_xdist true (with_cli None e_ex)) = Resolved [FCreate] false none4
  /\ resolve (with_xdist true e_ex) = UsageError
  /\ (forall c, applied (with_xdist true (with_cli None e_ex)) s_all c = false)
  /\ (forall c, applied (with_xdist true e_ex) s_all c = false).
Proof.
  split; [vm_compute; reflexivity|]. split; [vm_compute; reflexivity|].
  split; apply no_write_xdist; reflexivity.
Qed.
Example ex_no_write_ci :
  resolve (with_ci true e_ex) = Resolved [FFix; FReport] false none4
  /\ forall c, applied (with_ci true e_ex) s_all c = false.
Proof. split; [vm_compute; reflexivity|apply no_write_ci; reflexivity]. Qed.
Example ex_no_write_not_cpython :
  resolve (with_cpython false e_ex) = Resolved [FFix; FReport] false none4
  /\ forall c, applied (with_cpython false e_ex) s_all c = false.
Proof. split; [vm_compute; reflexivity|apply no_write_not_cpython; reflexivity]. Qed.
Example ex_no_write_short_report :
  (* category flags and review together with short-report: still active, nothing is written *)
  resolve (with_cli (Some [FFix; FCreate; FReview; FShortReport]) e_ex)
  = Resolved [FFix; FCreate; FReview; FShortReport] true all4
  /\ forall c, applied (with_cli (Some [FFix; FCreate; FReview; FShortReport]) e_ex) s_yes_all c = false.
Proof.
  split; [vm_compute; reflexivity|]. apply no_write_short_report.
  intros flags a u H. vm_compute in H. inversion H; subst. reflexivity.
Qed.
Example ex_no_write_disable :
  resolve (with_cli (Some [FDisable; FDisable]) e_ex) = Resolved [FDisable; FDisable] false none4
  /\ forall c, applied (with_cli (Some [FDisable; FDisable]) e_ex) s_all c = false.
Proof.
  split; [vm_compute; reflexivity|]. apply no_write_disable.
  intros flags a u H. vm_compute in H. inversion H; subst. reflexivity.
Qed.

(* G3 *)
Example ex_applied_exact :
  (* review,update with skip-snapshot-updates-for-now: fix and trim by answer, update by flag *)
  applied_list (with_cli (Some [FReview; FUpdate]) e_ex) s_yes_fix_trim = [false; true; true; true]
  /\ applied_list (with_cli (Some [FReview]) e_ex) s_yes_all = [true; true; true; false].
Proof. split; vm_compute; reflexivity. Qed.
Example ex_applied_exact_inst (c : cat) :
  applied (with_cli (Some [FReview]) e_ex) s_yes_all c
  = pending s_yes_all c && diff_nonempty s_yes_all c
    && approved (with_cli (Some [FReview]) e_ex) s_yes_all c
    && negb (match c with Update => skip_updates s_yes_all && negb (mem FUpdate [FReview]) | _ => false end).
Proof. apply (applied_exact _ _ c [FReview] all4); vm_compute; reflexivity. Qed.
Example ex_applied_exact_flags (c : cat) :
  applied e_ex s_all c = pending s_all c && diff_nonempty s_all c && mem (cat_flag c) [FFix; FReport].
Proof. apply (applied_exact_flags e_ex s_all c _ _ ex_base_resolve); vm_compute; reflexivity. Qed.
Example ex_applied_exact_flags_set :
  applied_list (with_cli (Some [FTrim; FCreate; FTrim]) e_ex) s_all = [true; false; true; false]
  /\ applied_list (with_cli (Some [FTrim; FReport; FCreate]) e_ex) s_all = [true; false; true; false].
Proof. split; vm_compute; reflexivity. Qed.

(* G4 *)
Example ex_resolve_precedence_cli :
  resolve (with_tty false (with_env_var (Some [FTrim; FUnknown 3]) e_ex)) = resolve e_ex.
Proof. apply (resolve_precedence_cli _ _ [FFix; FReport]); reflexivity. Qed.
Example ex_resolve_precedence_env :
  resolve (with_tty false (with_cli None e_ex)) = resolve (with_cli None e_ex)
  /\ applied_list (with_cli None e_ex) s_all = [true; false; false; false].
Proof.
  split; [apply (resolve_precedence_env _ _ [FCreate]); reflexivity|vm_compute; reflexivity].
Qed.
Example ex_resolve_precedence_cfg :
  resolve (with_env_var None (with_cli None e_ex)) = Resolved [FCreate; FReview] true all4
  /\ resolve (with_tty false (with_env_var None (with_cli None e_ex)))
     = Resolved [FReport] true none4
  /\ applied_list (with_env_var None (with_cli None e_ex)) s_yes_fix_trim = [true; true; true; false]
  /\ applied_list (with_tty false (with_env_var None (with_cli None e_ex))) s_yes_fix_trim
     = [false; false; false; false].
Proof. repeat split; vm_compute; reflexivity. Qed.
Example ex_resolve_precedence_cfg_inst :
  (* a non-terminal whose default-flags equal the other's default-flags-tui *)
  resolve {| cli := None; env_var := None; cfg_default := [FCreate; FReview]; cfg_default_tui := [];
             tty := false; xdist := false; ci := false; cpython := true |}
  = resolve (with_env_var None (with_cli None e_ex)).
Proof. apply resolve_precedence_cfg; reflexivity. Qed.

(* G5 *)
Example ex_resolve_errors :
  resolve (with_xdist true e_ex) = UsageError                                  (* flags with -n *)
  /\ resolve (with_xdist true (with_cli (Some [FDisable]) e_ex)) = Resolved [FDisable] false none4
  /\ resolve (with_cli None (with_env_var (Some [FUnknown 0]) e_ex)) = UsageError  (* unknown flag *)
  /\ resolve (with_cli (Some [FDisable; FFix]) e_ex) = UsageError              (* disable + other *)
  /\ resolve (with_cli (Some []) e_ex) = Resolved [] true none4.
Proof. repeat split; vm_compute; reflexivity. Qed.
Example ex_resolve_errors_inst : resolve (with_cli (Some [FDisable; FFix]) e_ex) = UsageError.
Proof. apply resolve_errors. vm_compute. reflexivity. Qed.
Example ex_resolve_errors_prop_inst : resolve (with_cli (Some [FFix; FUnknown 7]) e_ex) = UsageError.
Proof. apply resolve_errors_prop. right. left. exists 7. simpl. auto. Qed.

(* G6 *)
Example ex_resolve_inactive :
  resolve (with_ci true e_ex) = UsageError
  \/ exists flags, resolve (with_ci true e_ex) = Resolved flags false none4.
Proof. apply resolve_inactive. right. left. reflexivity. Qed.
Example ex_resolve_review_all :
  resolve (with_cli (Some [FReview; FFix]) e_ex) = Resolved [FReview; FFix] true all4.
Proof.
  destruct (resolve (with_cli (Some [FReview; FFix]) e_ex)) as [|flags a u] eqn:R;
    [vm_compute in R; discriminate R|].
  pose proof (resolve_flags_effective _ _ _ _ R) as Hf. vm_compute in Hf. subst flags.
  destruct (resolve_review_all (with_cli (Some [FReview; FFix]) e_ex) _ _ _
              eq_refl eq_refl eq_refl R eq_refl) as [Ha Hu].
  subst a u.
  reflexivity.
Qed.

(* G7 *)
Example ex_removes_only_with_trim :
  removes_unused_externals_gen true (with_cli (Some [FTrim; FReport]) e_ex) = true
  /\ removes_unused_externals_gen true (with_cli (Some [FReview]) e_ex) = false
  /\ removes_unused_externals_gen false (with_cli (Some [FReview]) e_ex) = true.
Proof. repeat split; vm_compute; reflexivity. Qed.
Example ex_removes_only_with_trim_inst :
  exists flags a u, resolve (with_cli (Some [FTrim; FReport]) e_ex) = Resolved flags a u
                    /\ mem FTrim flags = true.
Proof. apply removes_only_with_trim. vm_compute. reflexivity. Qed.

(* G8 *)
Example ex_inline_eq_plugin (c : cat) :
  applied (with_cli (Some [FFix; FCreate]) e_ex) s_all c = inline_applied [FFix; FCreate] s_all c.
Proof. apply inline_eq_plugin; reflexivity. Qed.
Example ex_inline_eq_plugin_values :
  applied_list (with_cli (Some [FFix; FCreate]) e_ex) s_all = [true; true; false; false]
  /\ map (inline_applied [FFix; FCreate] s_all) all_cats = [true; true; false; false]
  /\ applied_list e_create_short s_all = [false; false; false; false]
  /\ map (inline_applied [FCreate; FShortReport] s_all) all_cats = [true; false; false; false].
Proof. repeat split; vm_compute; reflexivity. Qed.

(* G9 *)
Example ex_applied_monotone_in_answers (c : cat) :
  applied (with_cli (Some [FReview]) e_ex) s_yes_fix_trim c = true ->
  applied (with_cli (Some [FReview]) e_ex) s_yes_all c = true.
Proof.
  apply applied_monotone_in_answers; try reflexivity.
Qed.
Example ex_applied_monotone_values :
  applied_list (with_cli (Some [FReview]) e_ex) s_yes_fix_trim = [false; true; true; false]
  /\ applied_list (with_cli (Some [FReview]) e_ex) s_yes_all = [true; true; true; false].
Proof. split; vm_compute; reflexivity. Qed.

(* ------------------------------------------------------------------ *)
Print Assumptions applied_subset_approved.
Print Assumptions no_write_unapproved.
Print Assumptions no_write_usage_error.
Print Assumptions no_write_xdist.
Print Assumptions no_write_ci.
Print Assumptions no_write_not_cpython.
Print Assumptions no_write_short_report.
Print Assumptions no_write_disable.
Print Assumptions no_approval_no_write.
Print Assumptions applied_exact.
Print Assumptions applied_exact_flags.
Print Assumptions resolve_precedence_cli.
Print Assumptions resolve_precedence_env.
Print Assumptions resolve_precedence_cfg.
Print Assumptions resolve_precedence.
Print Assumptions resolve_errors.
Print Assumptions resolve_errors_prop.
Print Assumptions resolve_inactive.
Print Assumptions resolve_review_all.
Print Assumptions removes_only_with_trim.
Print Assumptions removes_pinned_refuted.
Print Assumptions inline_eq_plugin_gen.
Print Assumptions inline_eq_plugin.
Print Assumptions inline_differs_outside_scope_refuted.
Print Assumptions applied_monotone_in_answers.
