(* Proofs about Model/Session.v: which changes a session applies, over any number of test files. *)
From Coq Require Import List Bool Arith Lia.
Import ListNotations.
From V Require Import Model.SnapOps Model.Session.

Lemma cat_eqb_eq : forall a b, cat_eqb a b = true <-> a = b.
Proof. intros a b. destruct a, b; cbn; split; intros H; try discriminate; reflexivity. Qed.
Lemma in_of_cat : forall c l ch, In ch (of_cat c l) <-> In ch l /\ ch_cat ch = c.
Proof. intros c l ch. unfold of_cat. rewrite filter_In, cat_eqb_eq. tauto. Qed.

(* a category goes through iff it is shown, approved, and its preview shows a panel for SOME file *)
Definition passes (cf : sconf) (pending : list change) (c : cat) : bool :=
  shown cf c && approve cf c && existsb ch_visible (of_cat c pending).

Lemma panels_nil : forall c pending, panels c pending = [] <-> existsb ch_visible (of_cat c pending) = false.
Proof.
  intros c pending. unfold panels. induction (of_cat c pending) as [|ch r IH]; cbn [filter map existsb]; [tauto|].
  destruct (ch_visible ch); cbn [map orb]; [split; intros H; discriminate|exact IH].
Qed.

Lemma loop_spec : forall cf pending cats used reported ch,
  NoDup cats ->
  (In ch (fst (loop cf pending cats used reported)) <->
   In ch used \/ (In ch pending /\ In (ch_cat ch) cats /\ passes cf pending (ch_cat ch) = true)).
Proof.
  intros cf pending cats. induction cats as [|c r IH]; intros used reported ch Hnd; cbn [loop fst].
  - split; [intros H; left; exact H|intros [H|[_ [[] _]]]; exact H].
  - inversion Hnd as [|? ? Hni Hnd']; subst.
    assert (Hstep : forall used' reported', (In ch used' <-> In ch used \/ (In ch pending /\ ch_cat ch = c /\ passes cf pending c = true)) ->
              (In ch (fst (loop cf pending r used' reported')) <->
               In ch used \/ (In ch pending /\ In (ch_cat ch) (c :: r) /\ passes cf pending (ch_cat ch) = true))).
    { intros used' reported' Hu. rewrite (IH used' reported' ch Hnd'), Hu. cbn [In]. split.
      - intros [[H|[H1 [H2 H3]]]|[H1 [H2 H3]]]; [left; exact H|right; split; [exact H1|split; [left; symmetry; exact H2|rewrite H2; exact H3]]|right; split; [exact H1|split; [right; exact H2|exact H3]]].
      - intros [H|[H1 [[H2|H2] H3]]]; [left; left; exact H|left; right; split; [exact H1|split; [symmetry; exact H2|rewrite H2; exact H3]]|right; split; [exact H1|split; [exact H2|exact H3]]]. }
    assert (Hskip : passes cf pending c = false -> forall reported', (In ch (fst (loop cf pending r used reported')) <->
               In ch used \/ (In ch pending /\ In (ch_cat ch) (c :: r) /\ passes cf pending (ch_cat ch) = true))).
    { intros Hp reported'. apply Hstep. split; [intros H; left; exact H|intros [H|[_ [_ H]]]; [exact H|congruence]]. }
    unfold passes in *. destruct (of_cat c pending) as [|x xs] eqn:Eo.
    + apply Hskip. cbn [existsb]. rewrite andb_false_r. reflexivity.
    + destruct (shown cf c) eqn:Es; cbn [negb]; [|apply Hskip; reflexivity].
      destruct (panels c pending) as [|p ps] eqn:Ep.
      * apply Hskip. apply panels_nil in Ep. rewrite Eo in Ep. rewrite Ep, andb_false_r. reflexivity.
      * assert (Hv : existsb ch_visible (x :: xs) = true).
        { destruct (existsb ch_visible (x :: xs)) eqn:E; [reflexivity|]. rewrite <- Eo in E. apply panels_nil in E. congruence. }
        destruct (approve cf c) eqn:Ea; [|apply Hskip; cbn [andb]; reflexivity].
        apply Hstep. rewrite in_app_iff. rewrite <- Eo, in_of_cat. cbn [andb]. rewrite Eo, Hv. tauto.
Qed.

Lemma all_cats_nodup : NoDup all_cats.
Proof. unfold all_cats. repeat constructor; cbn [In]; intuition discriminate. Qed.
Lemma in_all_cats : forall c, In c all_cats.
Proof. intros []; cbn; tauto. Qed.

(* C04 / C09 / C19 over several files: a pending change is applied iff its category is shown and approved and the preview of that category shows a diff
   for SOME file of the session - whichever file that is, and whatever the other categories did *)
Theorem session_applied_iff : forall cf pending ch,
  In ch (fst (session cf pending)) <-> In ch pending /\ passes cf pending (ch_cat ch) = true.
Proof.
  intros cf pending ch. unfold session. rewrite (loop_spec cf pending all_cats [] [] ch all_cats_nodup). cbn [In].
  split; [intros [[]|[H1 [_ H3]]]; tauto|intros [H1 H3]; right; split; [exact H1|split; [apply in_all_cats|exact H3]]].
Qed.

(* nothing is applied without approval *)
Theorem session_applied_approved : forall cf pending ch, In ch (fst (session cf pending)) -> approve cf (ch_cat ch) = true.
Proof. intros cf pending ch H. apply session_applied_iff in H. destruct H as [_ H]. unfold passes in H. apply andb_true_iff in H. destruct H as [H _]. apply andb_true_iff in H. tauto. Qed.

(* a category is applied to all files or to none: if a visible change of an approved, shown category is pending in one file, every pending change of that
   category in every other file is applied too (what the seeded `any_changes of the last file only` changes break) *)
Theorem session_category_all_files : forall cf pending ch ch',
  In ch pending -> In ch' pending -> ch_cat ch' = ch_cat ch -> ch_visible ch = true -> shown cf (ch_cat ch) = true -> approve cf (ch_cat ch) = true ->
  In ch' (fst (session cf pending)).
Proof.
  intros cf pending ch ch' H1 H2 Ec Hv Hs Ha. apply session_applied_iff. split; [exact H2|]. rewrite Ec. unfold passes. rewrite Hs, Ha. cbn [andb].
  apply existsb_exists. exists ch. split; [apply in_of_cat; split; [exact H1|reflexivity]|exact Hv].
Qed.

(* the outcome does not depend on the order in which the pending changes are listed (files, tests, snapshots) *)
Theorem session_order_irrelevant : forall cf p1 p2 ch, (forall x, In x p1 <-> In x p2) ->
  (In ch (fst (session cf p1)) <-> In ch (fst (session cf p2))).
Proof.
  intros cf p1 p2 ch H. rewrite !session_applied_iff, H.
  assert (E : forall c, existsb ch_visible (of_cat c p1) = existsb ch_visible (of_cat c p2)).
  { intros c. apply eq_true_iff_eq. rewrite !existsb_exists. split; intros [x [Hx Hv]]; exists x; (split; [|exact Hv]); apply in_of_cat; apply in_of_cat in Hx; destruct Hx as [Hx Hc]; (split; [apply H; exact Hx|exact Hc]). }
  unfold passes. rewrite E. tauto.
Qed.

(* which previews are printed: the categories that are shown and whose changes alter the text of some file - approved or not *)
Lemma loop_reported : forall cf pending cats used reported c,
  NoDup cats ->
  (In c (snd (loop cf pending cats used reported)) <->
   In c reported \/ (In c cats /\ shown cf c = true /\ existsb ch_visible (of_cat c pending) = true)).
Proof.
  intros cf pending cats. induction cats as [|c0 r IH]; intros used reported c Hnd; cbn [loop snd].
  - split; [intros H; left; exact H|intros [H|[[] _]]; exact H].
  - inversion Hnd as [|? ? Hni Hnd']; subst.
    assert (Hskip : (shown cf c0 = true /\ existsb ch_visible (of_cat c0 pending) = true -> False) -> forall used',
              (In c (snd (loop cf pending r used' reported)) <-> In c reported \/ (In c (c0 :: r) /\ shown cf c = true /\ existsb ch_visible (of_cat c pending) = true))).
    { intros Hn used'. rewrite (IH used' reported c Hnd'). cbn [In]. split; [intros [H|[H1 H2]]; [left; exact H|right; split; [right; exact H1|exact H2]]|].
      intros [H|[[H1|H1] H2]]; [left; exact H|subst c0; exfalso; exact (Hn H2)|right; split; [exact H1|exact H2]]. }
    assert (Hadd : shown cf c0 = true -> existsb ch_visible (of_cat c0 pending) = true -> forall used',
              (In c (snd (loop cf pending r used' (reported ++ [c0]))) <-> In c reported \/ (In c (c0 :: r) /\ shown cf c = true /\ existsb ch_visible (of_cat c pending) = true))).
    { intros Hs Hv used'. rewrite (IH used' (reported ++ [c0]) c Hnd'). rewrite in_app_iff. cbn [In]. split.
      - intros [[H|[H|[]]]|[H1 H2]]; [left; exact H|subst c0; right; split; [left; reflexivity|split; assumption]|right; split; [right; exact H1|exact H2]].
      - intros [H|[[H1|H1] H2]]; [left; left; exact H|left; right; left; exact H1|right; split; [exact H1|exact H2]]. }
    destruct (of_cat c0 pending) as [|x xs] eqn:Eo.
    + apply Hskip. cbn [existsb]. intros [_ H]. discriminate.
    + destruct (shown cf c0) eqn:Es; cbn [negb]; [|apply Hskip; intros [H _]; discriminate].
      destruct (panels c0 pending) as [|p ps] eqn:Ep.
      * apply Hskip. apply panels_nil in Ep. rewrite Eo in Ep. intros [_ H]. congruence.
      * assert (Hv : existsb ch_visible (of_cat c0 pending) = true).
        { destruct (existsb ch_visible (of_cat c0 pending)) eqn:E; [reflexivity|]. apply panels_nil in E. congruence. }
        rewrite Eo in Hv. destruct (approve cf c0); apply Hadd; try reflexivity; rewrite ?Eo; exact Hv.
Qed.
Theorem session_reported_iff : forall cf pending c,
  In c (snd (session cf pending)) <-> shown cf c = true /\ existsb ch_visible (of_cat c pending) = true.
Proof.
  intros cf pending c. unfold session. rewrite (loop_reported cf pending all_cats [] [] c all_cats_nodup). cbn [In].
  split; [intros [[]|[_ H]]; exact H|intros H; right; split; [apply in_all_cats|exact H]].
Qed.
