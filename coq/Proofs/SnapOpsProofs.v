(* Proofs about Model/SnapOps.v: entry point.
     Proofs/SnapOpsFlat.v    T1, T3-T9, T12-T15   (flat scripts: one kind per site)
     Proofs/SnapOpsNested.v  T2, T10, T11, T16    (dict nesting, well-shaped sites)
   Every theorem below is closed under the global context (no axioms). *)
From V Require Export Model.SnapOps Proofs.SnapOpsFlat Proofs.SnapOpsNested.

(* C06 transparency *)
Print Assumptions noflags_transparent_flat.            (* T1 *)
Print Assumptions noflags_transparent_flat_explicit.
Print Assumptions noflags_transparent.                 (* T2 *)
Print Assumptions noflags_transparent_mixed_refuted.
Print Assumptions mixed_ops_typeerror.                 (* T3 *)
(* C05 categories / C14 aggregation *)
Print Assumptions mm_new_is_extreme.                   (* T4 *)
Print Assumptions mm_new_is_extreme_any_old_refuted.
Print Assumptions list_min_spec.
Print Assumptions list_max_spec.
Print Assumptions mm_fix_iff_failed.                   (* T5 *)
Print Assumptions mm_fix_makes_all_hold.               (* T6 *)
Print Assumptions mm_trim_tightest.                    (* T7 *)
Print Assumptions mm_trim_tightest_min.
Print Assumptions mm_trim_tightest_max.
Print Assumptions coll_new_is_dedup.                   (* T8 *)
Print Assumptions coll_new_is_dedup_any_old_refuted.
Print Assumptions dedup_In.
Print Assumptions dedup_NoDup.
Print Assumptions coll_categories.                     (* T9 *)
Print Assumptions coll_categories_fix_any_script.
Print Assumptions coll_categories_empty_script_refuted.
Print Assumptions wshape_fresh.                        (* T10 *)
Print Assumptions step_wshape.
Print Assumptions run_wshape.
Print Assumptions update_value_preserving.
Print Assumptions update_value_preserving_run.
Print Assumptions update_value_preserving_dupkeys_refuted.
Print Assumptions create_only_missing.                 (* T11 *)
Print Assumptions create_only_missing_depth1.
Print Assumptions create_only_missing_nested_refuted.
Print Assumptions create_never_alters_existing.
Print Assumptions create_never_alters_existing_leaf.
Print Assumptions create_never_alters_existing_dict.
Print Assumptions create_never_alters_existing_literal_refuted.
Print Assumptions create_only_missing_run.
Print Assumptions create_never_alters_existing_run.
(* C07 counters *)
Print Assumptions good_snapshots_never_counted.        (* T12 *)
Print Assumptions bad_snapshot_counted.                (* T13 *)
Print Assumptions bad_snapshot_counted_exact.
Print Assumptions bad_snapshot_not_counted_pinned_refuted.     (* T14 *)
Print Assumptions bad_snapshot_not_counted_pinned_refuted_in.
Print Assumptions pinned_never_counts_under_fix_or_update.
Print Assumptions counters_monotone.                   (* T15 *)
Print Assumptions step_cle.
Print Assumptions run_cle.
(* C14 aggregation *)
Print Assumptions dict_keys_first_seen.                (* T16 *)
Print Assumptions dict_keys_first_seen_gen.
Print Assumptions dict_keys_first_seen_any_old_refuted.
