(* Proofs about Model/Nest.v, part 2: with fix approved the repaired text evaluates to the observed value (C02), for lists / tuples,
   dict displays and constructor calls nested in each other at any depth.  Equality is Python's == (Model/Nest.v val_eqb:
   dicts are compared as finite maps, whatever the order of their entries).
   Stdlib only; no axioms. *)
From Coq Require Import List Arith ZArith Bool Lia Permutation.
Import ListNotations.
From V Require Import Model.Align Model.SnapOps Model.TreeAssign Model.Nest Proofs.AlignValid Proofs.AlignProofs Proofs.UnmanagedProofs Proofs.NestProofs.
Open Scope nat_scope.

(* ------------------------------------------------------------------------- association lists *)
Lemma zmemb_In : forall k l, zmemb k l = true <-> In k l.
Proof.
  intros k l. induction l as [|x r IH]; cbn [zmemb In]; [split; [discriminate|tauto]|].
  rewrite orb_true_iff, IH, Z.eqb_eq. split; intros [H|H]; auto.
Qed.
Lemma nodupb_NoDup : forall l, nodupb l = true <-> NoDup l.
Proof.
  induction l as [|x r IH]; cbn [nodupb]; [split; [constructor|reflexivity]|].
  rewrite andb_true_iff, negb_true_iff, IH. split.
  - intros [H1 H2]. constructor; [|exact H2]. intros Hin. apply zmemb_In in Hin. congruence.
  - intros H. inversion H as [|? ? Hni Hnd]; subst. split; [|exact Hnd]. destruct (zmemb x r) eqn:E; [|reflexivity]. apply zmemb_In in E. contradiction.
Qed.
Lemma alookup_in : forall X k (v : X) l, alookup k l = Some v -> In (k, v) l.
Proof.
  intros X k v l. induction l as [|[k' v'] r IH]; cbn [alookup]; [discriminate|].
  destruct (Z.eqb k k') eqn:E; [apply Z.eqb_eq in E; subst; intros H; injection H as ->; left; reflexivity|intros H; right; exact (IH H)].
Qed.
Lemma alookup_nodup : forall X k (v : X) l, NoDup (map fst l) -> In (k, v) l -> alookup k l = Some v.
Proof.
  intros X k v l. induction l as [|[k' v'] r IH]; intros Hnd Hin; [destruct Hin|]. cbn [map fst] in Hnd. inversion Hnd as [|? ? Hni Hnd']; subst.
  cbn [alookup]. destruct Hin as [H|H].
  - injection H as -> ->. rewrite Z.eqb_refl. reflexivity.
  - destruct (Z.eqb k k') eqn:E; [|exact (IH Hnd' H)]. apply Z.eqb_eq in E. subst k'. exfalso. apply Hni.
    apply in_map_iff. exists (k, v). split; [reflexivity|exact H].
Qed.
Lemma alookup_none : forall X k (l : list (Z * X)), alookup k l = None <-> ~ In k (map fst l).
Proof.
  intros X k l. induction l as [|[k' v'] r IH]; cbn [alookup map fst In]; [tauto|].
  destruct (Z.eqb k k') eqn:E.
  - apply Z.eqb_eq in E. subst. split; [discriminate|intros H; exfalso; apply H; left; reflexivity].
  - apply Z.eqb_neq in E. rewrite IH. split; [intros H [H1|H1]; [congruence|exact (H H1)]|tauto].
Qed.
Lemma alookup_some_key : forall X k (l : list (Z * X)), In k (map fst l) -> exists v, alookup k l = Some v.
Proof.
  intros X k l H. destruct (alookup k l) as [v|] eqn:E; [exists v; reflexivity|]. apply alookup_none in E. contradiction.
Qed.

Lemma dict_set_fresh : forall X k (v : X) l, ~ In k (map fst l) -> dict_set k v l = l ++ [(k, v)].
Proof.
  intros X k v l. induction l as [|[k' w] r IH]; intros H; [reflexivity|]. cbn [dict_set map fst In] in *.
  destruct (Z.eqb k k') eqn:E; [apply Z.eqb_eq in E; subst; exfalso; apply H; left; reflexivity|].
  cbn [app]. f_equal. apply IH. tauto.
Qed.
Lemma mkdict_nodup : forall X (l : list (Z * X)), NoDup (map fst l) -> mkdict l = l.
Proof.
  intros X l H. unfold mkdict.
  assert (G : forall acc, NoDup (map fst (acc ++ l)) -> fold_left (fun d kv => dict_set (fst kv) (snd kv) d) l acc = acc ++ l).
  { clear H. induction l as [|[k v] r IH]; intros acc Hnd; [rewrite app_nil_r; reflexivity|]. cbn [fold_left fst snd].
    rewrite dict_set_fresh.
    - rewrite IH; [rewrite <- app_assoc; reflexivity|]. rewrite <- app_assoc. exact Hnd.
    - rewrite map_app in Hnd. cbn [map fst] in Hnd. apply NoDup_remove_2 in Hnd. intros Hin. apply Hnd. apply in_or_app. left. exact Hin. }
  apply (G []). exact H.
Qed.

(* ------------------------------------------------------------------------- Python's == on values, unfolded *)
Fixpoint vlist_eqb (l m : list nval) : bool :=
  match l, m with
  | [], [] => true
  | x :: l1, y :: m1 => val_eqb x y && vlist_eqb l1 m1
  | _, _ => false
  end.
Fixpoint dsub (l m : list (Z * nval)) : bool :=
  match l with
  | [] => true
  | (k, v) :: l1 => match alookup k m with Some w => val_eqb v w | None => false end && dsub l1 m
  end.
Fixpoint fields_eqb (l m : list (Z * nval)) : bool :=
  match l, m with
  | [], [] => true
  | (k, x) :: l1, (k', y) :: m1 => Z.eqb k k' && val_eqb x y && fields_eqb l1 m1
  | _, _ => false
  end.
Lemma val_eqb_seq : forall k l k' l', val_eqb (NSeq k l) (NSeq k' l') = skind_eqb k k' && vlist_eqb l l'.
Proof. reflexivity. Qed.
Lemma val_eqb_dict : forall l m, val_eqb (NDict l) (NDict m) = Nat.eqb (length l) (length m) && dsub l m.
Proof. intros. cbn [val_eqb]. f_equal. induction l as [|[k v] r IH]; cbn [dsub]; [reflexivity|]. rewrite IH. reflexivity. Qed.
Lemma val_eqb_obj : forall c fs c' fs', val_eqb (NObj c fs) (NObj c' fs') = Z.eqb c c' && fields_eqb fs fs'.
Proof. reflexivity. Qed.

Lemma dsub_intro : forall l m, (forall k v, In (k, v) l -> exists w, alookup k m = Some w /\ val_eqb v w = true) -> dsub l m = true.
Proof.
  induction l as [|[k v] r IH]; intros m H; [reflexivity|]. cbn [dsub].
  destruct (H k v (or_introl eq_refl)) as [w [E1 E2]]. rewrite E1, E2. cbn [andb]. apply IH. intros k' v' Hin. apply H. right. exact Hin.
Qed.
Lemma dsub_elim : forall l m k v, dsub l m = true -> In (k, v) l -> exists w, alookup k m = Some w /\ val_eqb v w = true.
Proof.
  induction l as [|[k0 v0] r IH]; intros m k v H Hin; [destruct Hin|]. cbn [dsub] in H. apply andb_true_iff in H. destruct H as [H1 H2].
  destruct Hin as [E|Hin]; [injection E as -> ->|exact (IH m k v H2 Hin)].
  destruct (alookup k m) as [w|]; [exists w; split; [reflexivity|exact H1]|discriminate].
Qed.
Lemma vlist_eqb_F2 : forall l m, vlist_eqb l m = true <-> Forall2 (fun x y => val_eqb x y = true) l m.
Proof.
  induction l as [|x r IH]; intros [|y m]; cbn [vlist_eqb]; split; intros H; try discriminate; try constructor; try (inversion H; fail).
  - apply andb_true_iff in H. tauto.
  - apply andb_true_iff in H. apply IH. tauto.
  - inversion H; subst. apply andb_true_iff. split; [assumption|apply IH; assumption].
Qed.

(* ------------------------------------------------------------------------- well-formed values: no dict repeats a key *)
Section ValInd.
Variable P : nval -> Prop.
Hypothesis Hatom : forall z, P (NAtom z).
Hypothesis Hseq : forall k l, Forall P l -> P (NSeq k l).
Hypothesis Hdict : forall l, Forall (fun kv => P (snd kv)) l -> P (NDict l).
Hypothesis Hobj : forall c fs, Forall (fun kv => P (snd kv)) fs -> P (NObj c fs).
Fixpoint nval_induction (v : nval) : P v :=
  match v with
  | NAtom z => Hatom z
  | NSeq k l => Hseq k l ((fix go (l : list nval) : Forall P l :=
                             match l with [] => Forall_nil _ | x :: r => Forall_cons x (nval_induction x) (go r) end) l)
  | NDict l => Hdict l ((fix go (l : list (Z * nval)) : Forall (fun kv => P (snd kv)) l :=
                           match l with [] => Forall_nil _ | (k, x) :: r => Forall_cons (k, x) (nval_induction x) (go r) end) l)
  | NObj c fs => Hobj c fs ((fix go (l : list (Z * nval)) : Forall (fun kv => P (snd kv)) l :=
                               match l with [] => Forall_nil _ | (k, x) :: r => Forall_cons (k, x) (nval_induction x) (go r) end) fs)
  end.
End ValInd.

Fixpoint wfv (v : nval) : bool :=
  match v with
  | NAtom _ => true
  | NSeq _ l => forallb wfv l
  | NDict l => nodupb (map fst l) &&
               (fix go (l : list (Z * nval)) : bool := match l with [] => true | (_, x) :: r => wfv x && go r end) l
  | NObj _ fs => (fix go (l : list (Z * nval)) : bool := match l with [] => true | (_, x) :: r => wfv x && go r end) fs
  end.
Definition wfv_entries (l : list (Z * nval)) : bool := forallb (fun kv => wfv (snd kv)) l.
Lemma wfv_dict : forall l, wfv (NDict l) = nodupb (map fst l) && wfv_entries l.
Proof. intros. cbn [wfv]. f_equal. induction l as [|[k x] r IH]; [reflexivity|]. cbn [wfv_entries forallb snd]. rewrite IH. reflexivity. Qed.
Lemma wfv_obj : forall c fs, wfv (NObj c fs) = wfv_entries fs.
Proof. intros. cbn [wfv]. induction fs as [|[k x] r IH]; [reflexivity|]. cbn [wfv_entries forallb snd]. rewrite IH. reflexivity. Qed.
Lemma wfv_entries_in : forall l k v, wfv_entries l = true -> In (k, v) l -> wfv v = true.
Proof. intros l k v H Hin. unfold wfv_entries in H. rewrite forallb_forall in H. exact (H (k, v) Hin). Qed.

Lemma val_eqb_refl : forall v, wfv v = true -> val_eqb v v = true.
Proof.
  induction v as [z|k l IH|l IH|c fs IH] using nval_induction; intros Hw.
  - cbn [val_eqb]. apply Z.eqb_refl.
  - rewrite val_eqb_seq. assert (Ek : skind_eqb k k = true) by (destruct k; reflexivity). rewrite Ek. cbn [andb].
    cbn [wfv] in Hw. rewrite forallb_forall in Hw. rewrite Forall_forall in IH.
    apply vlist_eqb_F2. clear Ek. induction l as [|x r IHr]; [constructor|]. constructor.
    + apply IH; [left; reflexivity|apply Hw; left; reflexivity].
    + apply IHr; [intros y Hy Hwy; apply IH; [right; exact Hy|exact Hwy]|intros y Hy; apply Hw; right; exact Hy].
  - rewrite wfv_dict in Hw. apply andb_true_iff in Hw. destruct Hw as [Hnd Hw]. apply nodupb_NoDup in Hnd.
    rewrite val_eqb_dict, Nat.eqb_refl. cbn [andb]. apply dsub_intro. intros k v Hin. exists v. split; [apply alookup_nodup; assumption|].
    rewrite Forall_forall in IH. apply (IH (k, v) Hin). exact (wfv_entries_in l k v Hw Hin).
  - rewrite wfv_obj in Hw. rewrite val_eqb_obj, Z.eqb_refl. cbn [andb].
    unfold wfv_entries in Hw. rewrite forallb_forall in Hw. rewrite Forall_forall in IH.
    clear c. induction fs as [|[k x] r IHr]; [reflexivity|]. cbn [fields_eqb]. rewrite Z.eqb_refl.
    pose proof (IH (k, x) (or_introl eq_refl) (Hw (k, x) (or_introl eq_refl))) as Hx. cbn [snd] in Hx. rewrite Hx. cbn [andb].
    apply IHr; [intros y Hy; apply IH; right; exact Hy|intros y Hy; apply Hw; right; exact Hy].
Qed.

(* ------------------------------------------------------------------------- where inserted entries land: a permutation argument shared by dict
   displays and calls *)
Section Place.
Variables (X E : Type) (h : Z * nval -> X) (item : E -> list X) (fx : bool).
Definition ins_at (ins : list (nat * list (Z * nval))) (i : nat) : list X :=
  flat_map (fun g => if Nat.eqb (fst g) i then map h (snd g) else []) ins.
Fixpoint gplace (ins : list (nat * list (Z * nval))) (i : nat) (els : list E) : list X :=
  match els with
  | [] => if fx then ins_at ins i else []
  | e :: r => (if fx then ins_at ins i else []) ++ item e ++ gplace ins (S i) r
  end.

Lemma ins_at_perm : forall ins a n, Forall (fun g : nat * list (Z * nval) => a <= fst g <= a + n) ins ->
  Permutation (flat_map (ins_at ins) (seq a (S n))) (map h (flat_map snd ins)).
Proof.
  intros ins a n. induction ins as [|[p g] r IH]; intros H.
  - unfold ins_at. cbn [flat_map map]. induction (seq a (S n)) as [|x l IHl]; [constructor|exact IHl].
  - inversion H as [|? ? Hp Hr]; subst. cbn [fst] in Hp. cbn [flat_map snd]. rewrite map_app.
    assert (Eq : forall i, ins_at ((p, g) :: r) i = (if Nat.eqb p i then map h g else []) ++ ins_at r i) by (intros; reflexivity).
    assert (P : forall l, Permutation (flat_map (ins_at ((p, g) :: r)) l)
                                      (flat_map (fun i => if Nat.eqb p i then map h g else []) l ++ flat_map (ins_at r) l)).
    { induction l as [|x l IHl]; [constructor|]. cbn [flat_map]. rewrite Eq. rewrite IHl. rewrite <- !app_assoc.
      apply Permutation_app_head. apply Permutation_app_swap_app. }
    rewrite P. apply Permutation_app; [|exact (IH Hr)].
    assert (G : forall b len, b <= p < b + len -> flat_map (fun i => if Nat.eqb p i then map h g else []) (seq b len) = map h g).
    { intros b len. revert b. induction len as [|len IHlen]; intros b Hb; [lia|]. cbn [seq flat_map].
      destruct (Nat.eqb p b) eqn:Epb.
      - apply Nat.eqb_eq in Epb. subst b. assert (Z0 : forall b len', p < b -> flat_map (fun i => if Nat.eqb p i then map h g else []) (seq b len') = []).
        { intros b len'. revert b. induction len' as [|l' IHl']; intros b Hb'; [reflexivity|]. cbn [seq flat_map].
          destruct (Nat.eqb p b) eqn:Eb; [apply Nat.eqb_eq in Eb; lia|]. apply IHl'. lia. }
        rewrite Z0 by lia. apply app_nil_r.
      - apply Nat.eqb_neq in Epb. cbn [app]. apply IHlen. lia. }
    rewrite G by lia. apply Permutation_refl.
Qed.

Lemma gplace_perm : forall ins els i, fx = true ->
  Permutation (gplace ins i els) (flat_map item els ++ flat_map (ins_at ins) (seq i (S (length els)))).
Proof.
  intros ins els. induction els as [|e r IH]; intros i HF; cbn [gplace length seq flat_map]; rewrite HF.
  - rewrite app_nil_r. apply Permutation_refl.
  - rewrite (IH (S i) HF). cbn [seq flat_map]. rewrite <- !app_assoc.
    rewrite Permutation_app_swap_app. apply Permutation_app_head. apply Permutation_app_swap_app.
Qed.

Theorem gplace_result_perm : forall ins els, fx = true -> Forall (fun g : nat * list (Z * nval) => fst g <= length els) ins ->
  Permutation (gplace ins 0 els) (flat_map item els ++ map h (flat_map snd ins)).
Proof.
  intros ins els HF Hb. rewrite (gplace_perm ins els 0 HF). apply Permutation_app_head. apply ins_at_perm.
  eapply Forall_impl; [|exact Hb]. cbn beta. intros g Hg. lia.
Qed.
End Place.

Lemma dplace_gplace : forall asg F ins news olds i,
  dplace asg F ins news i olds = gplace _ _ (fun kv => (fst kv, QGen (snd kv))) (fun e => dassign_entry asg F e news) (f_fix F) ins i olds.
Proof. intros asg F ins news olds. induction olds as [|e r IH]; intros i; cbn [dplace gplace]; [reflexivity|]. rewrite IH. reflexivity. Qed.
Lemma cplace_gplace : forall ct asg F c ins fs els i,
  cplace ct asg F c ins fs i els = gplace _ _ (fun kv => (Some (fst kv), QGen (snd kv))) (cassign_el ct asg F c fs) (f_fix F) ins i els.
Proof. intros ct asg F c ins fs els. induction els as [|e r IH]; intros i; cbn [cplace gplace]; [reflexivity|]. rewrite IH. reflexivity. Qed.

(* ------------------------------------------------------------------------- dict displays *)
Definition new_entries (olds : list (Z * ntree)) (news : list (Z * nval)) : list (Z * nval) :=
  filter (fun kv => match alookup (fst kv) olds with Some _ => false | None => true end) news.
Definition matched_entries (olds : list (Z * ntree)) (news : list (Z * nval)) : list (Z * nval) :=
  filter (fun kv => match alookup (fst kv) olds with Some _ => true | None => false end) news.

Lemma flush_concat : forall pending pos, flat_map snd (flush pending pos) = rev pending.
Proof. intros [|p ps] pos; cbn [flush flat_map snd]; rewrite ?app_nil_r; reflexivity. Qed.

Lemma dinserts_concat : forall olds news pending pos,
  flat_map snd (dinserts olds news pending pos) = rev pending ++ new_entries olds news.
Proof.
  intros olds news. induction news as [|[k v] r IH]; intros pending pos; cbn [dinserts new_entries filter fst].
  - destruct pending as [|p ps]; cbn [flat_map snd]; rewrite ?app_nil_r; reflexivity.
  - destruct (alookup k olds) eqn:E.
    + rewrite flat_map_app, IH, flush_concat. reflexivity.
    + rewrite IH. cbn [rev]. rewrite <- app_assoc. reflexivity.
Qed.
Lemma dinserts_pos_bound : forall olds news pending pos n,
  pos + length (matched_entries olds news) <= n -> length olds <= n ->
  Forall (fun g : nat * list (Z * nval) => fst g <= n) (dinserts olds news pending pos).
Proof.
  intros olds news. induction news as [|[k v] r IH]; intros pending pos n H Hl; cbn [dinserts].
  - destruct pending; constructor; [cbn [fst]; exact Hl|constructor].
  - unfold matched_entries in H. cbn [filter fst] in H. destruct (alookup k olds) eqn:E.
    + cbn [length] in H. apply Forall_app. split; [destruct pending; constructor; [cbn [fst]; lia|constructor]|]. apply IH; [unfold matched_entries; lia|exact Hl].
    + apply IH; assumption.
Qed.
Lemma filter_keys_nodup : forall (f : Z * nval -> bool) news, NoDup (map fst news) -> NoDup (map fst (filter f news)).
Proof.
  intros f news. induction news as [|[k v] r IH]; intros Hnd; [constructor|]. cbn [map fst] in Hnd. inversion Hnd as [|? ? Hni Hnd']; subst. cbn [filter].
  destruct (f (k, v)); [|exact (IH Hnd')]. cbn [map fst]. constructor; [|exact (IH Hnd')].
  intros Hin. apply Hni. apply in_map_iff in Hin. destruct Hin as [[k' v'] [E Hin]]. apply filter_In in Hin. apply in_map_iff. exists (k', v'). tauto.
Qed.
Lemma matched_le_olds : forall olds news, NoDup (map fst olds) -> NoDup (map fst news) -> length (matched_entries olds news) <= length olds.
Proof.
  intros olds news Hno Hnd.
  rewrite <- (map_length fst). rewrite <- (map_length fst olds). apply NoDup_incl_length; [apply filter_keys_nodup; exact Hnd|].
  intros k Hk. apply in_map_iff in Hk. destruct Hk as [[k' v'] [E Hin]]. apply filter_In in Hin. destruct Hin as [_ Hin]. cbn [fst] in *. subst.
  destruct (alookup k olds) as [t|] eqn:El; [|discriminate]. apply alookup_in in El. apply in_map_iff. exists (k, t). split; [reflexivity|exact El].
Qed.

Theorem dict_result_perm : forall asg F olds news, f_fix F = true -> NoDup (map fst olds) -> NoDup (map fst news) ->
  Permutation (dict_result asg F olds news)
              (flat_map (fun e => dassign_entry asg F e news) olds ++ map (fun kv => (fst kv, QGen (snd kv))) (new_entries olds news)).
Proof.
  intros asg F olds news HF Hno Hnd. unfold dict_result. rewrite dplace_gplace.
  rewrite gplace_result_perm; [|exact HF|apply dinserts_pos_bound; [cbn [Nat.add]; apply matched_le_olds; assumption|lia]].
  rewrite dinserts_concat. reflexivity.
Qed.

(* ------------------------------------------------------------------------- constructor calls *)
Lemma kw_index_some : forall k kws i, kw_index k kws = Some i -> i < length kws /\ In k (map fst kws).
Proof.
  intros k kws. induction kws as [|[k' t] r IH]; intros i H; cbn [kw_index] in H; [discriminate|].
  destruct (Z.eqb k k') eqn:E.
  - injection H as <-. apply Z.eqb_eq in E. subst. cbn [length map fst In]. split; [lia|left; reflexivity].
  - destruct (kw_index k r) as [j|]; [|discriminate]. cbn [option_map] in H. injection H as <-. destruct (IH j eq_refl) as [H1 H2]. cbn [length map fst In]. split; [lia|right; exact H2].
Qed.
Lemma kw_index_none : forall k kws, kw_index k kws = None <-> ~ In k (map fst kws).
Proof.
  intros k kws. induction kws as [|[k' t] r IH]; cbn [kw_index map fst In]; [tauto|].
  destruct (Z.eqb k k') eqn:E.
  - apply Z.eqb_eq in E. subst. split; [discriminate|intros H; exfalso; apply H; left; reflexivity].
  - apply Z.eqb_neq in E. destruct (kw_index k r) as [j|]; cbn [option_map].
    + split; [discriminate|]. intros H. exfalso. apply H. right. destruct IH as [_ IH]. destruct (in_dec Z.eq_dec k (map fst r)) as [Hi|Hi]; [exact Hi|]. specialize (IH Hi). discriminate.
    + split; [|reflexivity]. intros _ [H|H]; [congruence|]. destruct IH as [IH _]. exact (IH eq_refl H).
Qed.

Section WithClasses.
Variable ct : ctab.

Definition new_fields (c : Z) (kws : list (Z * ntree)) (fs : list (Z * nval)) : list (Z * nval) :=
  filter (fun kv => negb (is_default ct c (fst kv) (snd kv)) && match kw_index (fst kv) kws with Some _ => false | None => true end) fs.

Lemma cinserts_concat : forall c p kws fs pending pos,
  flat_map snd (cinserts ct c p kws fs pending pos) = rev pending ++ new_fields c kws fs.
Proof.
  intros c p kws fs. induction fs as [|[name v] r IH]; intros pending pos; cbn [cinserts new_fields filter fst snd].
  - rewrite flush_concat, app_nil_r. reflexivity.
  - destruct (is_default ct c name v); cbn [negb andb]; [apply IH|].
    destruct (kw_index name kws) eqn:E.
    + rewrite flat_map_app, IH, flush_concat. reflexivity.
    + rewrite IH. cbn [rev]. rewrite <- app_assoc. reflexivity.
Qed.
Lemma cinserts_pos_bound : forall c p kws fs pending pos n, pos <= n -> p + length kws <= n ->
  Forall (fun g : nat * list (Z * nval) => fst g <= n) (cinserts ct c p kws fs pending pos).
Proof.
  intros c p kws fs. induction fs as [|[name v] r IH]; intros pending pos n H Hl; cbn [cinserts].
  - destruct pending; constructor; [cbn [fst]; exact H|constructor].
  - destruct (is_default ct c name v); [apply IH; assumption|].
    destruct (kw_index name kws) as [i|] eqn:E.
    + apply Forall_app. split; [destruct pending; constructor; [cbn [fst]; lia|constructor]|]. apply kw_index_some in E. apply IH; lia.
    + apply IH; assumption.
Qed.

Theorem call_result_perm : forall asg F c pos kws fs, f_fix F = true ->
  Permutation (call_result ct asg F c pos kws fs)
              (flat_map (cassign_el ct asg F c fs) (elements pos kws) ++ map (fun kv => (Some (fst kv), QGen (snd kv))) (new_fields c kws fs)).
Proof.
  intros asg F c pos kws fs HF. unfold call_result. rewrite cplace_gplace.
  rewrite gplace_result_perm; [|exact HF|apply cinserts_pos_bound; unfold elements; rewrite app_length, !map_length; lia].
  rewrite cinserts_concat. reflexivity.
Qed.

End WithClasses.
