(* Proofs about Model/Sites.v: the table of call sites.
   N1 counters do not influence sites / results;  N2 frame property of interleaved traces;
   N3 counters are additive over sites;  N4 a key collision makes two sites interfere;
   N5 re-evaluation of the argument.  Stdlib only, no axioms. *)
From Coq Require Import List ZArith Bool Lia.
From V Require Import Model.SnapOps Model.Sites Proofs.SnapOpsFlat Proofs.SnapOpsNested.
Import ListNotations.
Open Scope Z_scope.

(* ------------------------------------------------------------------ counters as a monoid *)

Definition cplus (a b : counters) : counters :=
  {| missing := missing a + missing b; incorrect := incorrect a + incorrect b |}.
Definition csum (l : list counters) : counters := fold_right cplus zero l.

Lemma counters_eq a b : missing a = missing b -> incorrect a = incorrect b -> a = b.
Proof. destruct a, b; cbn; intros; subst; reflexivity. Qed.

Lemma cplus_zero_r a : cplus a zero = a.
Proof. apply counters_eq; cbn; lia. Qed.
Lemma cplus_zero_l a : cplus zero a = a.
Proof. apply counters_eq; cbn; lia. Qed.
Lemma cplus_assoc a b c : cplus a (cplus b c) = cplus (cplus a b) c.
Proof. apply counters_eq; cbn; lia. Qed.
Lemma cplus_comm a b : cplus a b = cplus b a.
Proof. apply counters_eq; cbn; lia. Qed.
Lemma cplus_inc_missing a b : cplus a (inc_missing b) = inc_missing (cplus a b).
Proof. apply counters_eq; cbn; lia. Qed.
Lemma cplus_inc_incorrect a b : cplus a (inc_incorrect b) = inc_incorrect (cplus a b).
Proof. apply counters_eq; cbn; lia. Qed.

(* projections of a table run *)
Definition t_table (x : table * list result * counters) : table := fst (fst x).
Definition t_results (x : table * list result * counters) : list result := snd (fst x).
Definition t_counters (x : table * list result * counters) : counters := snd x.

(* ------------------------------------------------------------------ N1 / step-level N3 *)

(* a step from counters c = the step from zero, with c added to the counters *)
Lemma step_frame fixed F : forall o s c,
  step fixed F s o c =
  (fst (fst (step fixed F s o zero)), snd (fst (step fixed F s o zero)), cplus c (snd (step fixed F s o zero))).
Proof.
  induction o as [x|x|x|x|key o' IH]; intros [k old nv coll ch] c.
  5: { rewrite !step_OGet.
       destruct (negb (kind_eqb k KUndecided) && negb (kind_eqb k KDict)); [cbn; rewrite cplus_zero_r; reflexivity|].
       destruct (dictish old); [|cbn; rewrite cplus_zero_r; reflexivity].
       destruct (assoc key ch) as [child|].
       - rewrite (IH child c). destruct (step fixed F child o' zero) as [[a b] d]. reflexivity.
       - set (s0 := fresh (child_old old key)).
         rewrite (IH s0 (match old with Some _ => c | None => inc_missing c end)).
         rewrite (IH s0 (match old with Some _ => zero | None => inc_missing zero end)).
         destruct (step fixed F s0 o' zero) as [[a b] d]. cbn [fst snd]. f_equal.
         destruct old; apply counters_eq; cbn; lia. }
  all: cbn; unfold ret;
    repeat match goal with
    | |- context [match ?x with Some _ => _ | None => _ end] => is_var x; destruct x
    | |- context [match ?x with SAtom _ _ => _ | SList _ => _ | SDict _ => _ end] => is_var x; destruct x
    | |- context [if ?b then _ else _] => destruct b
    end; cbn [fst snd]; f_equal; apply counters_eq; cbn; lia.
Qed.

Theorem step_counters_irrelevant : forall fixed F o s c c',
  fst (fst (step fixed F s o c)) = fst (fst (step fixed F s o c')) /\
  snd (fst (step fixed F s o c)) = snd (fst (step fixed F s o c')).
Proof.
  intros fixed F o s c c'. rewrite (step_frame fixed F o s c), (step_frame fixed F o s c').
  split; reflexivity.
Qed.

(* the increment of the counters depends only on the site and the operation *)
Theorem step_counter_delta : forall fixed F o s c,
  snd (step fixed F s o c) = cplus c (snd (step fixed F s o zero)).
Proof. intros fixed F o s c. rewrite (step_frame fixed F o s c). reflexivity. Qed.

Corollary step_counter_delta_ex_form : forall fixed F o s,
  exists dm di, forall c,
    snd (step fixed F s o c) = {| missing := missing c + dm; incorrect := incorrect c + di |}.
Proof.
  intros fixed F o s.
  exists (missing (snd (step fixed F s o zero))), (incorrect (snd (step fixed F s o zero))).
  intros c. rewrite step_counter_delta. reflexivity.
Qed.

Lemma run_frame fixed F : forall ops s c,
  run fixed F s ops c =
  (r_site (run fixed F s ops zero), r_results (run fixed F s ops zero), cplus c (r_counters (run fixed F s ops zero))).
Proof.
  induction ops as [|o r IH]; intros s c.
  - cbn. rewrite cplus_zero_r. reflexivity.
  - rewrite !run_cons.
    destruct (step_counters_irrelevant fixed F o s c zero) as [Hs Hr].
    rewrite Hs, Hr. set (s1 := fst (fst (step fixed F s o zero))).
    rewrite (IH s1 (snd (step fixed F s o c))), (IH s1 (snd (step fixed F s o zero))).
    unfold r_site, r_results, r_counters. cbn [fst snd].
    rewrite (step_counter_delta fixed F o s c), cplus_assoc. reflexivity.
Qed.

Theorem run_counters_irrelevant : forall fixed F ops s c c',
  r_site (run fixed F s ops c) = r_site (run fixed F s ops c') /\
  r_results (run fixed F s ops c) = r_results (run fixed F s ops c').
Proof.
  intros fixed F ops s c c'. rewrite (run_frame fixed F ops s c), (run_frame fixed F ops s c').
  split; reflexivity.
Qed.

Theorem run_counter_delta : forall fixed F ops s c,
  r_counters (run fixed F s ops c) = cplus c (r_counters (run fixed F s ops zero)).
Proof. intros fixed F ops s c. rewrite (run_frame fixed F ops s c). reflexivity. Qed.

Example step_counters_irrelevant_ex :
  let s := Site KMax (Some (SAtom 5 true)) (Some 6) [] [] in
  step true fix_only s (OMax 9) zero = (Site KMax (Some (SAtom 5 true)) (Some 9) [] [], RBool true, {| missing := 0; incorrect := 1 |}) /\
  step true fix_only s (OMax 9) {| missing := 4; incorrect := 2 |}
  = (Site KMax (Some (SAtom 5 true)) (Some 9) [] [], RBool true, {| missing := 4; incorrect := 3 |}).
Proof. vm_compute. split; reflexivity. Qed.

(* ------------------------------------------------------------------ N2: frame property *)

Lemma trun_cons fixed F olds t k o tr c :
  trun fixed F olds t ((k, o) :: tr) c =
  let st := step fixed F (get_site olds t k) o c in
  let rest := trun fixed F olds (assoc_set k (fst (fst st)) t) tr (snd st) in
  (t_table rest, snd (fst st) :: t_results rest, t_counters rest).
Proof.
  cbn [trun tstep]. destruct (step fixed F (get_site olds t k) o c) as [[s' r] c1]. cbn [fst snd].
  destruct (trun fixed F olds (assoc_set k s' t) tr c1) as [[t2 xs] c2]. reflexivity.
Qed.

Lemma get_site_set_same olds t k s : get_site olds (assoc_set k s t) k = s.
Proof. unfold get_site. rewrite assoc_set_same. reflexivity. Qed.

Lemma get_site_set_other olds t k k' s : k <> k' -> get_site olds (assoc_set k' s t) k = get_site olds t k.
Proof. intros H. unfold get_site. rewrite assoc_set_other by exact H. reflexivity. Qed.

Lemma proj_cons_same k o tr : proj k ((k, o) :: tr) = o :: proj k tr.
Proof. unfold proj. cbn [filter fst]. rewrite Z.eqb_refl. reflexivity. Qed.

Lemma proj_cons_other k k1 o tr : k1 <> k -> proj k ((k1, o) :: tr) = proj k tr.
Proof. intros H. unfold proj. cbn [filter fst]. destruct (Z.eqb_spec k1 k); [contradiction|reflexivity]. Qed.

Lemma t_table_mk (a : table) (b : list result) (c : counters) : t_table (a, b, c) = a.
Proof. reflexivity. Qed.
Lemma t_results_mk (a : table) (b : list result) (c : counters) : t_results (a, b, c) = b.
Proof. reflexivity. Qed.
Lemma r_site_mk (a : site) (b : list result) (c : counters) : r_site (a, b, c) = a.
Proof. reflexivity. Qed.
Lemma r_results_mk (a : site) (b : list result) (c : counters) : r_results (a, b, c) = b.
Proof. reflexivity. Qed.
Lemma r_counters_mk (a : site) (b : list result) (c : counters) : r_counters (a, b, c) = c.
Proof. reflexivity. Qed.
Lemma t_counters_mk (a : table) (b : list result) (c : counters) : t_counters (a, b, c) = c.
Proof. reflexivity. Qed.

(* from any table: what an interleaved trace computes for site k is what k's own operations compute *)
Theorem sites_noninterference_gen : forall fixed F olds tr t0 k c c',
  get_site olds (t_table (trun fixed F olds t0 tr c)) k
  = r_site (run fixed F (get_site olds t0 k) (proj k tr) c') /\
  proj_results k tr (t_results (trun fixed F olds t0 tr c))
  = r_results (run fixed F (get_site olds t0 k) (proj k tr) c').
Proof.
  intros fixed F olds tr; induction tr as [|[k1 o] tr IH]; intros t0 k c c'.
  - split; reflexivity.
  - rewrite trun_cons. cbv zeta. rewrite t_table_mk, t_results_mk. cbn [proj_results fst].
    destruct (Z.eqb_spec k1 k) as [E|E].
    + subst k1. rewrite proj_cons_same, run_cons, r_site_mk, r_results_mk.
      destruct (step_counters_irrelevant fixed F o (get_site olds t0 k) c c') as [Hs Hr].
      set (s1 := fst (fst (step fixed F (get_site olds t0 k) o c))) in *.
      destruct (IH (assoc_set k s1 t0) k (snd (step fixed F (get_site olds t0 k) o c))
                   (snd (step fixed F (get_site olds t0 k) o c'))) as [IH1 IH2].
      rewrite get_site_set_same in IH1, IH2. rewrite <- Hs, <- Hr.
      split; [exact IH1|f_equal; exact IH2].
    + rewrite proj_cons_other by exact E.
      set (s1 := fst (fst (step fixed F (get_site olds t0 k1) o c))).
      destruct (IH (assoc_set k1 s1 t0) k (snd (step fixed F (get_site olds t0 k1) o c)) c') as [IH1 IH2].
      rewrite get_site_set_other in IH1, IH2 by congruence.
      split; assumption.
Qed.

Theorem sites_noninterference : forall fixed F olds tr k c c',
  let '(t, rs, _) := trun fixed F olds [] tr c in
  get_site olds t k = r_site (run fixed F (fresh (olds k)) (proj k tr) c') /\
  proj_results k tr rs = r_results (run fixed F (fresh (olds k)) (proj k tr) c').
Proof.
  intros fixed F olds tr k c c'.
  pose proof (sites_noninterference_gen fixed F olds tr [] k c c') as H.
  destruct (trun fixed F olds [] tr c) as [[t rs] c2]. exact H.
Qed.

Example sites_noninterference_ex :
  let olds := fun k => if k =? 0 then Some (SAtom 5 true) else if k =? 1 then Some (SList [(1, true)]) else None in
  let tr := [(0, OMin 7); (1, OIn 4); (2, OGet 3 (OEq 1)); (0, OMin 3); (1, OIn 1); (2, OGet 3 (OEq 2)); (0, OEq 3)] in
  proj 0 tr = [OMin 7; OMin 3; OEq 3] /\
  t_results (trun true fix_only olds [] tr zero)
  = [RBool true; RBool true; RBool true; RBool true; RBool true; RBool false; RTypeError] /\
  proj_results 0 tr (t_results (trun true fix_only olds [] tr zero)) = [RBool true; RBool true; RTypeError] /\
  r_results (run true fix_only (fresh (olds 0)) (proj 0 tr) zero) = [RBool true; RBool true; RTypeError].
Proof. vm_compute. repeat split; reflexivity. Qed.

(* ------------------------------------------------------------------ N3: counters are additive *)

Lemma csum_zeros {A} (f : A -> counters) l : (forall x, In x l -> f x = zero) -> csum (map f l) = zero.
Proof.
  induction l as [|a l IH]; intros H; [reflexivity|]. cbn [map csum fold_right].
  fold (csum (map f l)). rewrite IH by (intros x Hx; apply H; right; exact Hx).
  rewrite (H a) by (left; reflexivity). reflexivity.
Qed.

Lemma csum_update (f g : Z -> counters) d k1 : forall ks,
  NoDup ks -> In k1 ks -> f k1 = cplus d (g k1) -> (forall k, k <> k1 -> f k = g k) ->
  csum (map f ks) = cplus d (csum (map g ks)).
Proof.
  induction ks as [|a ks IH]; intros Hnd Hin Hk1 Hoth; [destruct Hin|].
  inversion Hnd as [|a' ks' Ha Hnd']; subst a' ks'.
  cbn [map csum fold_right]. fold (csum (map f ks)). fold (csum (map g ks)).
  destruct (Z.eq_dec a k1) as [E|E].
  - subst a. rewrite Hk1. rewrite <- cplus_assoc. do 2 f_equal. f_equal.
    apply map_ext_in. intros k Hk. apply Hoth. intros E. subst k. contradiction.
  - destruct Hin as [Hin|Hin]; [contradiction|].
    rewrite (Hoth a E), (IH Hnd' Hin Hk1 Hoth).
    rewrite !cplus_assoc. f_equal. apply cplus_comm.
Qed.

Theorem sites_counters_additive_gen : forall fixed F olds tr t0 c ks,
  NoDup ks -> (forall ko, In ko tr -> In (fst ko) ks) ->
  t_counters (trun fixed F olds t0 tr c)
  = cplus c (csum (map (fun k => r_counters (run fixed F (get_site olds t0 k) (proj k tr) zero)) ks)).
Proof.
  intros fixed F olds tr; induction tr as [|[k1 o] tr IH]; intros t0 c ks Hnd Hks.
  - cbn [trun]. rewrite t_counters_mk, csum_zeros, cplus_zero_r; [reflexivity|]. intros k _. reflexivity.
  - rewrite trun_cons. cbv zeta. rewrite t_counters_mk.
    rewrite (IH _ _ ks Hnd) by (intros ko Hko; apply Hks; right; exact Hko).
    set (s0 := get_site olds t0 k1).
    rewrite (step_counter_delta fixed F o s0 c), <- cplus_assoc. f_equal. symmetry.
    destruct (step_counters_irrelevant fixed F o s0 c zero) as [Hs _].
    apply (csum_update _ _ (snd (step fixed F s0 o zero)) k1).
    + exact Hnd.
    + apply (Hks (k1, o)). left; reflexivity.
    + rewrite proj_cons_same, run_cons, r_counters_mk, get_site_set_same. fold s0.
      rewrite run_counter_delta, Hs. reflexivity.
    + intros k Hk. rewrite proj_cons_other by congruence. rewrite get_site_set_other by exact Hk. reflexivity.
Qed.

(* the counters of an interleaved session = the sum over the sites of the counters of each site run alone *)
Theorem sites_counters_additive : forall fixed F olds tr ks,
  NoDup ks -> (forall ko, In ko tr -> In (fst ko) ks) ->
  t_counters (trun fixed F olds [] tr zero)
  = csum (map (fun k => r_counters (run fixed F (fresh (olds k)) (proj k tr) zero)) ks).
Proof.
  intros fixed F olds tr ks Hnd Hks.
  rewrite (sites_counters_additive_gen fixed F olds tr [] zero ks Hnd Hks), cplus_zero_l. reflexivity.
Qed.

Corollary sites_counters_additive_keys : forall fixed F olds tr,
  t_counters (trun fixed F olds [] tr zero)
  = csum (map (fun k => r_counters (run fixed F (fresh (olds k)) (proj k tr) zero)) (dedup (map fst tr))).
Proof.
  intros fixed F olds tr. apply sites_counters_additive; [apply dedup_NoDup|].
  intros ko Hko. apply dedup_In. apply in_map. exact Hko.
Qed.

Example sites_counters_additive_ex :
  let olds := fun k => if k =? 0 then Some (SAtom 5 true) else if k =? 1 then Some (SList [(1, true)]) else None in
  let tr := [(0, OMin 7); (1, OIn 4); (2, OGet 3 (OEq 1)); (0, OMin 3); (1, OIn 1); (2, OGet 3 (OEq 2)); (0, OEq 3)] in
  dedup (map fst tr) = [0; 1; 2] /\
  t_counters (trun true fix_only olds [] tr zero) = {| missing := 3; incorrect := 4 |} /\
  map (fun k => r_counters (run true fix_only (fresh (olds k)) (proj k tr) zero)) [0; 1; 2]
  = [{| missing := 0; incorrect := 1 |}; {| missing := 0; incorrect := 1 |}; {| missing := 3; incorrect := 2 |}].
Proof. vm_compute. repeat split; reflexivity. Qed.

(* ------------------------------------------------------------------ N4: key collision *)

(* two textual sites snapshot(5) and snapshot(7) mapped to ONE key: the second finds the entry of the
   first.  Injectivity of the key (id(code), f_lasti) is therefore a hypothesis of the trusted base. *)
Theorem key_collision_refuted :
  exists fixed F (oldA oldB : src) (opA opB : op),
    r_results (run fixed F (fresh (Some oldB)) [opB] zero) = [RBool true] /\
    t_results (trun fixed F (fun _ => Some oldA) [] [(0, opA); (0, opB)] zero) = [RBool true; RBool false] /\
    t_results (trun fixed F (fun k => if k =? 0 then Some oldA else Some oldB) [] [(0, opA); (1, opB)] zero)
    = [RBool true; RBool true].
Proof.
  exists true, noflags, (SAtom 5 true), (SAtom 7 true), (OEq 5), (OEq 7).
  vm_compute. repeat split; reflexivity.
Qed.

(* same with kinds: the second site meets a site decided for another kind *)
Example key_collision_typeerror_ex :
  t_results (trun true noflags (fun _ => Some (SAtom 5 true)) [] [(0, OEq 5); (0, OMin 9)] zero)
  = [RBool true; RTypeError].
Proof. vm_compute. reflexivity. Qed.

(* ------------------------------------------------------------------ N5: re-evaluation *)

Theorem pv_eqb_refl : forall v, pv_eqb v v = true.
Proof.
  induction v as [z|l|kvs IH] using pv_nested_ind; cbn [pv_eqb].
  - apply Z.eqb_refl.
  - induction l as [|a l IHl]; [reflexivity|]. rewrite Z.eqb_refl. exact IHl.
  - induction IH as [|[k v] r Hv Hr IHr]; [reflexivity|].
    cbn [snd] in Hv. rewrite Z.eqb_refl, Hv. exact IHr.
Qed.

Theorem reeval_changed_value_raises : forall t k first o kd nv coll ch v,
  assoc k t = Some (Site kd (Some o) nv coll ch) ->
  pv_eqb (src_val o) v = false ->
  eval_site t k first (Some v) = UsageError.
Proof. intros t k first o kd nv coll ch v Ht Hv. unfold eval_site. rewrite Ht, Hv. reflexivity. Qed.

Theorem reeval_same_value_ok : forall t k first o kd nv coll ch v,
  assoc k t = Some (Site kd (Some o) nv coll ch) ->
  pv_eqb (src_val o) v = true ->
  eval_site t k first (Some v) = EvalOk t.
Proof. intros t k first o kd nv coll ch v Ht Hv. unfold eval_site. rewrite Ht, Hv. reflexivity. Qed.

Corollary reeval_unchanged_ok : forall t k first o kd nv coll ch,
  assoc k t = Some (Site kd (Some o) nv coll ch) ->
  eval_site t k first (Some (src_val o)) = EvalOk t.
Proof. intros. eapply reeval_same_value_ok; [eassumption|apply pv_eqb_refl]. Qed.

Theorem eval_first_inserts : forall t k first now,
  assoc k t = None -> eval_site t k first now = EvalOk (assoc_set k (fresh first) t).
Proof. intros t k first now Ht. unfold eval_site. rewrite Ht. reflexivity. Qed.

(* an argument appearing or disappearing between evaluations raises as well *)
Theorem reeval_presence_changed_raises : forall t k first kd old nv coll ch now,
  assoc k t = Some (Site kd old nv coll ch) ->
  (match old, now with Some _, None | None, Some _ => True | _, _ => False end) ->
  eval_site t k first now = UsageError.
Proof.
  intros t k first kd old nv coll ch now Ht H. unfold eval_site. rewrite Ht.
  destruct old, now; try contradiction; reflexivity.
Qed.

Example reeval_ex :
  let o := SDict [(1, SAtom 5 false); (2, SList [(3, true)])] in
  let t := [(4, Site KDict (Some o) None [] [(1, Site KEq (Some (SAtom 5 false)) (Some 5) [] [])])] in
  pv_eqb (src_val o) (PDict [(1, PAtom 5); (2, PList [3])]) = true /\
  eval_site t 4 (Some o) (Some (PDict [(1, PAtom 5); (2, PList [3])])) = EvalOk t /\
  pv_eqb (src_val o) (PDict [(1, PAtom 5); (2, PList [3; 3])]) = false /\
  eval_site t 4 (Some o) (Some (PDict [(1, PAtom 5); (2, PList [3; 3])])) = UsageError /\
  assoc 9 t = None /\
  eval_site t 9 None None = EvalOk (t ++ [(9, fresh None)]).
Proof. vm_compute. repeat split; reflexivity. Qed.

(* ------------------------------------------------------------------ *)
Print Assumptions step_counters_irrelevant.
Print Assumptions run_counters_irrelevant.
Print Assumptions step_counter_delta.
Print Assumptions step_counter_delta_ex_form.
Print Assumptions run_counter_delta.
Print Assumptions sites_noninterference_gen.
Print Assumptions sites_noninterference.
Print Assumptions sites_counters_additive_gen.
Print Assumptions sites_counters_additive.
Print Assumptions sites_counters_additive_keys.
Print Assumptions key_collision_refuted.
Print Assumptions pv_eqb_refl.
Print Assumptions reeval_changed_value_raises.
Print Assumptions reeval_same_value_ok.
Print Assumptions reeval_unchanged_ok.
Print Assumptions eval_first_inserts.
Print Assumptions reeval_presence_changed_raises.
