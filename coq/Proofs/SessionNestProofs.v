(* Proofs about Model/SessionNest.v: the approval loop with changes inside nodes that other changes remove. *)
From Coq Require Import List Bool Arith Lia.
Import ListNotations.
From V Require Import Model.SnapOps Model.Session Model.SessionNest Proofs.SessionProofs.

Lemma in_of_catN : forall c l ch, In ch (of_catN c l) <-> In ch l /\ n_cat ch = c.
Proof. intros c l ch. unfold of_catN. rewrite filter_In, cat_eqb_eq. tauto. Qed.

Lemma effective_sub : forall S ch, In ch (effective S) -> In ch S.
Proof. intros S ch H. unfold effective in H. apply filter_In in H. tauto. Qed.

(* what the loop uses was pending, shown and approved *)
Lemma loopN_used : forall cf pending cats used reported ch,
  In ch (fst (loopN cf pending cats used reported)) ->
  In ch used \/ (In ch pending /\ In (n_cat ch) cats /\ shown cf (n_cat ch) = true /\ approve cf (n_cat ch) = true).
Proof.
  intros cf pending cats. induction cats as [|c r IH]; intros used reported ch H; cbn [loopN] in H; [left; exact H|].
  assert (Hskip : forall reported', In ch (fst (loopN cf pending r used reported')) ->
            In ch used \/ (In ch pending /\ In (n_cat ch) (c :: r) /\ shown cf (n_cat ch) = true /\ approve cf (n_cat ch) = true)).
  { intros reported' H'. destruct (IH _ _ _ H') as [Hu|[H1 [H2 H3]]]; [left; exact Hu|right; split; [exact H1|split; [right; exact H2|exact H3]]]. }
  destruct (of_catN c pending) as [|x xs] eqn:Eo; [apply (Hskip _ H)|].
  destruct (shown cf c) eqn:Es; cbn [negb] in H; [|apply (Hskip _ H)].
  destruct (any_changes used (x :: xs)) eqn:Ea; cbn [negb] in H; [|apply (Hskip _ H)].
  destruct (approve cf c) eqn:Ep; [|apply (Hskip _ H)].
  destruct (IH _ _ _ H) as [Hu|[H1 [H2 H3]]].
  - apply in_app_iff in Hu. destruct Hu as [Hu|Hu]; [left; exact Hu|]. rewrite <- Eo in Hu. apply in_of_catN in Hu. destruct Hu as [Hp Hc].
    right. split; [exact Hp|]. rewrite Hc. split; [left; reflexivity|split; [exact Es|exact Ep]].
  - right. split; [exact H1|split; [right; exact H2|exact H3]].
Qed.

(* C04: nothing is written without approval - also when changes are nested in each other *)
Theorem nest_written_approved : forall cf pending ch,
  In ch (writtenN cf pending) -> In ch pending /\ shown cf (n_cat ch) = true /\ approve cf (n_cat ch) = true.
Proof.
  intros cf pending ch H. unfold writtenN in H. apply effective_sub in H. unfold sessionN in H. apply loopN_used in H.
  destruct H as [[]|[H1 [_ H3]]]. split; [exact H1|exact H3].
Qed.

(* C04: the pending changes of categories that are not approved have no influence at all on what is used - in particular a change that a rejected
   category would remove together with its surroundings is handled as if the rejected change did not exist *)
Lemma of_catN_filter : forall (cf : sconf) c pending,
  of_catN c (filter (fun ch => approve cf (n_cat ch)) pending) = if approve cf c then of_catN c pending else [].
Proof.
  intros cf c pending. induction pending as [|ch r IH]; [destruct (approve cf c); reflexivity|].
  cbn [filter of_catN]. fold (of_catN c r). destruct (cat_eqb (n_cat ch) c) eqn:Ec.
  - apply cat_eqb_eq in Ec. rewrite Ec. destruct (approve cf c) eqn:Ea.
    + cbn [filter of_catN]. fold (of_catN c (filter (fun ch0 => approve cf (n_cat ch0)) r)). rewrite Ec.
      replace (cat_eqb c c) with true by (symmetry; apply cat_eqb_eq; reflexivity). rewrite IH. reflexivity.
    + exact IH.
  - destruct (approve cf (n_cat ch)); [|exact IH]. cbn [filter of_catN]. fold (of_catN c (filter (fun ch0 => approve cf (n_cat ch0)) r)). rewrite Ec. exact IH.
Qed.
Lemma loopN_rejected_irrelevant : forall cf pending cats used rep rep',
  fst (loopN cf pending cats used rep) = fst (loopN cf (filter (fun ch => approve cf (n_cat ch)) pending) cats used rep').
Proof.
  intros cf pending cats. induction cats as [|c r IH]; intros used rep rep'; [reflexivity|].
  cbn [loopN]. rewrite of_catN_filter. destruct (approve cf c) eqn:Ea.
  - destruct (of_catN c pending) as [|x xs]; [apply IH|]. destruct (shown cf c); cbn [negb]; [|apply IH].
    destruct (any_changes used (x :: xs)); cbn [negb]; apply IH.
  - destruct (of_catN c pending) as [|x xs]; [apply IH|]. destruct (shown cf c); cbn [negb]; [|apply IH].
    destruct (any_changes used (x :: xs)); cbn [negb]; apply IH.
Qed.
Theorem nest_rejected_irrelevant : forall cf pending,
  writtenN cf pending = writtenN cf (filter (fun ch => approve cf (n_cat ch)) pending).
Proof. intros cf pending. unfold writtenN, sessionN. rewrite (loopN_rejected_irrelevant cf pending all_cats [] [] []). reflexivity. Qed.

(* a used change survives the final filter when every change around it belongs to a category that is not approved *)
Lemma removed_in_false : forall S id, (forall r, In r S -> n_id r = id -> n_removes r = false) -> removed_in S id = false.
Proof.
  intros S id H. unfold removed_in. destruct (existsb _ S) eqn:E; [|reflexivity]. apply existsb_exists in E. destruct E as [r [Hr Hb]].
  apply andb_true_iff in Hb. destruct Hb as [Hi Hm]. apply Nat.eqb_eq in Hi. rewrite (H r Hr Hi) in Hm. discriminate.
Qed.
Theorem nest_survives_rejected_parent : forall cf pending ch,
  In ch (fst (sessionN cf pending)) ->
  (forall id r, In id (n_encl ch) -> In r pending -> n_id r = id -> approve cf (n_cat r) = false) ->
  In ch (writtenN cf pending).
Proof.
  intros cf pending ch Hu Henc. unfold writtenN, effective. apply filter_In. split; [exact Hu|]. apply negb_true_iff.
  unfold obsolete. destruct (existsb _ (n_encl ch)) eqn:E; [|reflexivity]. apply existsb_exists in E. destruct E as [id [Hid Hr]].
  rewrite removed_in_false in Hr; [discriminate|]. intros r Hin Heq. unfold sessionN in Hin. apply loopN_used in Hin.
  destruct Hin as [[]|[Hp [_ [_ Ha]]]]. rewrite (Henc id r Hid Hp Heq) in Ha. discriminate.
Qed.
(* ... and is dropped when a used change removes a node around it *)
Theorem nest_dropped_with_used_parent : forall cf pending ch r,
  In r (fst (sessionN cf pending)) -> n_removes r = true -> In (n_id r) (n_encl ch) -> ~ In ch (writtenN cf pending).
Proof.
  intros cf pending ch r Hr Hm Hin H. unfold writtenN, effective in H. apply filter_In in H. destruct H as [_ H]. apply negb_true_iff in H.
  unfold obsolete in H. assert (E : existsb (removed_in (fst (sessionN cf pending))) (n_encl ch) = true); [|congruence].
  apply existsb_exists. exists (n_id r). split; [exact Hin|]. unfold removed_in. apply existsb_exists. exists r. split; [exact Hr|].
  rewrite Nat.eqb_refl, Hm. reflexivity.
Qed.

(* ---- refinement: without nesting this is the loop of Model/Session.v (all changes visible) ---- *)
Definition flat (ch : nchange) : change := {| ch_cat := n_cat ch; ch_file := n_file ch; ch_visible := true |}.
Definition unnested (l : list nchange) : Prop := Forall (fun ch => n_encl ch = []) l.

Lemma effective_unnested : forall S, unnested S -> effective S = S.
Proof.
  intros S H. unfold effective. assert (G : forall T l, unnested l -> filter (fun ch => negb (obsolete T ch)) l = l); [|apply G; exact H].
  intros T l. induction l as [|x l IH]; intros Hl; [reflexivity|]. inversion Hl as [|? ? Hx Hl']; subst. cbn [filter]. unfold obsolete at 1. rewrite Hx. cbn [existsb negb].
  rewrite IH by exact Hl'. reflexivity.
Qed.
Lemma ids_eqb_length : forall a b, ids_eqb a b = true -> length a = length b.
Proof. induction a as [|x a IH]; intros [|y b] H; cbn [ids_eqb] in H; try discriminate; [reflexivity|]. apply andb_true_iff in H. cbn [length]. f_equal. apply IH. tauto. Qed.
Lemma any_changes_unnested : forall used x xs, unnested used -> unnested (x :: xs) -> any_changes used (x :: xs) = true.
Proof.
  intros used x xs Hu Hc. unfold any_changes. rewrite (effective_unnested used Hu). rewrite effective_unnested by (apply Forall_app; split; assumption).
  apply negb_true_iff. destruct (ids_eqb (used ++ x :: xs) used) eqn:E; [|reflexivity]. apply ids_eqb_length in E. rewrite app_length in E. cbn [length] in E. lia.
Qed.
Lemma of_cat_flat : forall c l, of_cat c (map flat l) = map flat (of_catN c l).
Proof. intros c l. induction l as [|x l IH]; [reflexivity|]. cbn [map of_cat of_catN filter]. fold (of_cat c (map flat l)). fold (of_catN c l). cbn [flat ch_cat]. destruct (cat_eqb (n_cat x) c); cbn [map]; rewrite IH; reflexivity. Qed.
Lemma unnested_of_catN : forall c l, unnested l -> unnested (of_catN c l).
Proof. intros c l H. unfold unnested, of_catN. apply Forall_forall. intros x Hx. apply filter_In in Hx. destruct Hx as [Hx _]. unfold unnested in H. rewrite Forall_forall in H. apply H. exact Hx. Qed.
Lemma panels_flat_cons : forall c x xs l, of_catN c l = x :: xs -> panels c (map flat l) <> [].
Proof. intros c x xs l H. unfold panels. rewrite of_cat_flat, H. cbn. discriminate. Qed.

Theorem loopN_flat : forall cf pending cats used rep, unnested pending -> unnested used ->
  map flat (fst (loopN cf pending cats used rep)) = fst (loop cf (map flat pending) cats (map flat used) rep)
  /\ snd (loopN cf pending cats used rep) = snd (loop cf (map flat pending) cats (map flat used) rep).
Proof.
  intros cf pending cats. induction cats as [|c r IH]; intros used rep Hp Hu; [split; reflexivity|].
  cbn [loopN loop]. rewrite of_cat_flat. destruct (of_catN c pending) as [|x xs] eqn:Eo; cbn [map]; [apply IH; assumption|].
  destruct (shown cf c); cbn [negb]; [|apply IH; assumption].
  assert (Hc : unnested (x :: xs)) by (rewrite <- Eo; apply unnested_of_catN; exact Hp).
  rewrite (any_changes_unnested used x xs Hu Hc). cbn [negb].
  destruct (panels c (map flat pending)) as [|p ps] eqn:Ep; [exfalso; exact (panels_flat_cons c x xs pending Eo Ep)|].
  destruct (approve cf c); [|apply IH; assumption].
  replace (map flat used ++ flat x :: map flat xs) with (map flat (used ++ x :: xs)) by (rewrite map_app; reflexivity).
  apply IH; [exact Hp|apply Forall_app; split; assumption].
Qed.
Theorem sessionN_flat : forall cf pending, unnested pending ->
  map flat (writtenN cf pending) = fst (session cf (map flat pending)) /\ snd (sessionN cf pending) = snd (session cf (map flat pending)).
Proof.
  intros cf pending Hp. unfold writtenN, sessionN, session. destruct (loopN_flat cf pending all_cats [] [] Hp (Forall_nil _)) as [H1 H2]. split; [|exact H2].
  rewrite effective_unnested; [exact H1|]. apply Forall_forall. intros ch Hch. apply loopN_used in Hch. destruct Hch as [[]|[Hin _]]. unfold unnested in Hp. rewrite Forall_forall in Hp. apply Hp. exact Hin.
Qed.

(* non-vacuity: a rejected fix that would delete the entry around a pending update (the update is written), both approved (the update is dropped with its
   entry), and a file without nesting *)
Definition ex_pending : list nchange :=
  [ {| n_id := 0; n_cat := Fix; n_file := 0; n_removes := true; n_encl := [] |};
    {| n_id := 1; n_cat := Update; n_file := 0; n_removes := true; n_encl := [0] |};
    {| n_id := 2; n_cat := Update; n_file := 1; n_removes := true; n_encl := [] |} ].
Definition cf_of (sh ap : list cat) : sconf := {| shown := fun c => existsb (cat_eqb c) sh; approve := fun c => existsb (cat_eqb c) ap |}.
Example nest_example :
  map n_id (writtenN (cf_of all_cats [Update]) ex_pending) = [1; 2] /\
  map n_id (writtenN (cf_of all_cats [Fix; Update]) ex_pending) = [0; 2] /\
  map n_id (writtenN (cf_of [Update] [Update]) ex_pending) = [1; 2] /\
  snd (sessionN (cf_of all_cats [Update]) ex_pending) = [Fix; Update].
Proof. repeat split; vm_compute; reflexivity. Qed.
