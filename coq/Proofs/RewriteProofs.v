(* Proofs about Model/Rewrite.v: sorting, the overlap check, line/column -> offset conversion and the
   "everything outside the replaced ranges is preserved" property of new_code.
   Stdlib only, no axioms. *)
From Coq Require Import List Arith NArith Bool Lia Permutation Sorted.
From V.Model Require Import Rewrite.
Import ListNotations.
Open Scope nat_scope.

(* ------------------------------------------------------------------------------------------ *)
(* A running example: the 3-line text "ab\ncde\nfg", two replacements on different lines and an
   insertion (start = end), given out of order.                                               *)
(* ------------------------------------------------------------------------------------------ *)
Definition ex_t : text := [97; 98; 10; 99; 100; 101; 10; 102; 103]%N.
Definition ex_r1 : repl := {| r_start := (1, 0); r_end := (1, 2); r_text := [88; 89; 90]%N |}.
Definition ex_r2 : repl := {| r_start := (2, 1); r_end := (2, 3); r_text := [81]%N |}.
Definition ex_r3 : repl := {| r_start := (3, 1); r_end := (3, 1); r_text := [73; 73]%N |}.
Definition ex_l : list repl := [ex_r3; ex_r1; ex_r2].
(* an overlapping set: (1,0)-(1,2) and (1,1)-(2,0) *)
Definition ex_r4 : repl := {| r_start := (1, 1); r_end := (2, 0); r_text := []%N |}.
Definition ex_bad : list repl := [ex_r2; ex_r4; ex_r1].
(* a malformed range *)
Definition ex_r5 : repl := {| r_start := (2, 1); r_end := (1, 1); r_text := []%N |}.

(* ========================================================================================== *)
(* R8  no replacement                                                                          *)
(* ========================================================================================== *)
Theorem replace_nil : forall t, replace t [] = t.
Proof. intros t. reflexivity. Qed.

Theorem new_code_nil : forall t, new_code t [] = Some t.
Proof. intros t. reflexivity. Qed.

Example replace_nil_ex : replace ex_t [] = ex_t.
Proof. vm_compute; reflexivity. Qed.
Example new_code_nil_ex : new_code ex_t [] = Some ex_t.
Proof. vm_compute; reflexivity. Qed.

(* ========================================================================================== *)
(* Orders                                                                                      *)
(* ========================================================================================== *)

(* ---- positions ---- *)
Lemma pos_ltb_spec : forall a b : pos,
  pos_ltb a b = true <-> fst a < fst b \/ (fst a = fst b /\ snd a < snd b).
Proof.
  intros a b. unfold pos_ltb.
  rewrite orb_true_iff, andb_true_iff, !Nat.ltb_lt, Nat.eqb_eq. tauto.
Qed.

Lemma pos_eqb_spec : forall a b : pos, pos_eqb a b = true <-> fst a = fst b /\ snd a = snd b.
Proof.
  intros a b. unfold pos_eqb. rewrite andb_true_iff, !Nat.eqb_eq. tauto.
Qed.

Lemma pos_eqb_eq : forall a b : pos, pos_eqb a b = true <-> a = b.
Proof.
  intros [a1 a2] [b1 b2]. rewrite pos_eqb_spec. simpl. split.
  - intros [H1 H2]. subst. reflexivity.
  - intros H. inversion H. split; reflexivity.
Qed.

Lemma pos_leb_spec : forall a b : pos,
  pos_leb a b = true <-> fst a < fst b \/ (fst a = fst b /\ snd a <= snd b).
Proof.
  intros a b. unfold pos_leb. rewrite orb_true_iff, pos_ltb_spec, pos_eqb_spec. lia.
Qed.

Lemma pos_ltb_false : forall a b : pos, pos_ltb a b = false <-> pos_leb b a = true.
Proof.
  intros a b. rewrite <- not_true_iff_false, pos_ltb_spec, pos_leb_spec. lia.
Qed.

Lemma pos_leb_false : forall a b : pos, pos_leb a b = false <-> pos_ltb b a = true.
Proof.
  intros a b. rewrite <- not_true_iff_false, pos_ltb_spec, pos_leb_spec. lia.
Qed.

(* pos_ltb is a strict total order *)
Lemma pos_ltb_irrefl : forall a : pos, pos_ltb a a = false.
Proof. intros a. rewrite <- not_true_iff_false, pos_ltb_spec. lia. Qed.

Lemma pos_ltb_trans : forall a b c : pos,
  pos_ltb a b = true -> pos_ltb b c = true -> pos_ltb a c = true.
Proof. intros a b c. rewrite !pos_ltb_spec. lia. Qed.

Lemma pos_ltb_asym : forall a b : pos, pos_ltb a b = true -> pos_ltb b a = false.
Proof. intros a b. rewrite <- not_true_iff_false, !pos_ltb_spec. lia. Qed.

Lemma pos_ltb_trichotomy : forall a b : pos, pos_ltb a b = true \/ a = b \/ pos_ltb b a = true.
Proof.
  intros a b. rewrite <- pos_eqb_eq, pos_eqb_spec, !pos_ltb_spec. lia.
Qed.

Lemma pos_leb_refl : forall a : pos, pos_leb a a = true.
Proof. intros a. rewrite pos_leb_spec. lia. Qed.

Lemma pos_leb_trans : forall a b c : pos,
  pos_leb a b = true -> pos_leb b c = true -> pos_leb a c = true.
Proof. intros a b c. rewrite !pos_leb_spec. lia. Qed.

Lemma pos_leb_total : forall a b : pos, pos_leb a b = true \/ pos_leb b a = true.
Proof. intros a b. rewrite !pos_leb_spec. lia. Qed.

(* ---- texts ---- *)
Lemma text_eqb_eq : forall a b : text, text_eqb a b = true <-> a = b.
Proof.
  induction a as [|x a IHa]; intros [|y b]; simpl; split; intros H;
    try reflexivity; try discriminate.
  - apply andb_true_iff in H. destruct H as [Hxy Hab].
    apply N.eqb_eq in Hxy. apply IHa in Hab. subst. reflexivity.
  - inversion H; subst. apply andb_true_iff. split.
    + apply N.eqb_refl.
    + apply IHa. reflexivity.
Qed.

Lemma text_ltb_cons : forall x y (a b : text),
  text_ltb (x :: a) (y :: b) = true <-> (x < y)%N \/ (x = y /\ text_ltb a b = true).
Proof.
  intros x y a b. simpl. rewrite orb_true_iff, andb_true_iff, N.ltb_lt, N.eqb_eq. tauto.
Qed.

Lemma text_ltb_cons_false : forall x y (a b : text),
  text_ltb (x :: a) (y :: b) = false <-> (y <= x)%N /\ (x = y -> text_ltb a b = false).
Proof.
  intros x y a b. rewrite <- !not_true_iff_false, text_ltb_cons. split.
  - intros H. split.
    + apply N.le_ngt. intros Hlt. apply H. left. exact Hlt.
    + intros Heq Hab. apply H. right. split; assumption.
  - intros [Hle Himp] [Hlt | [Heq Hab]].
    + apply N.le_ngt in Hle. apply Hle. exact Hlt.
    + apply (Himp Heq). exact Hab.
Qed.

(* text_ltb is a strict total order *)
Lemma text_ltb_irrefl : forall a : text, text_ltb a a = false.
Proof.
  induction a as [|x a IHa]; [reflexivity|].
  apply text_ltb_cons_false. split; [apply N.le_refl | intros _; exact IHa].
Qed.

Lemma text_ltb_trans : forall a b c : text,
  text_ltb a b = true -> text_ltb b c = true -> text_ltb a c = true.
Proof.
  induction a as [|x a IHa]; intros [|y b] [|z c] Hab Hbc; simpl in Hab, Hbc;
    try discriminate; try reflexivity.
  apply text_ltb_cons in Hab. apply text_ltb_cons in Hbc. apply text_ltb_cons.
  destruct Hab as [Hxy | [Hxy Hab]]; destruct Hbc as [Hyz | [Hyz Hbc]].
  - left. eapply N.lt_trans; eassumption.
  - left. subst. exact Hxy.
  - left. subst. exact Hyz.
  - right. split; [congruence | eapply IHa; eassumption].
Qed.

Lemma text_ltb_trichotomy : forall a b : text,
  text_ltb a b = true \/ a = b \/ text_ltb b a = true.
Proof.
  induction a as [|x a IHa]; intros [|y b].
  - right; left; reflexivity.
  - left; reflexivity.
  - right; right; reflexivity.
  - rewrite !text_ltb_cons.
    destruct (N.lt_trichotomy x y) as [Hlt | [Heq | Hgt]].
    + left; left; exact Hlt.
    + subst y. destruct (IHa b) as [H | [H | H]].
      * left; right; split; [reflexivity | exact H].
      * right; left; subst; reflexivity.
      * right; right; right; split; [reflexivity | exact H].
    + right; right; left; exact Hgt.
Qed.

Lemma text_ltb_asym : forall a b : text, text_ltb a b = true -> text_ltb b a = false.
Proof.
  intros a b Hab. destruct (text_ltb b a) eqn:Hba; [|reflexivity].
  pose proof (text_ltb_trans _ _ _ Hab Hba) as Haa.
  rewrite text_ltb_irrefl in Haa. discriminate.
Qed.

(* "a <= b" as texts is [text_ltb b a = false] *)
Lemma text_leb_trans : forall a b c : text,
  text_ltb b a = false -> text_ltb c b = false -> text_ltb c a = false.
Proof.
  intros a b c Hba Hcb. destruct (text_ltb c a) eqn:Hca; [|reflexivity].
  (* c < a, not b < a, so a <= b: either a = b or a < b; in both cases c < b *)
  destruct (text_ltb_trichotomy a b) as [Hab | [Hab | Hab]].
  - rewrite (text_ltb_trans _ _ _ Hca Hab) in Hcb. discriminate.
  - subst b. rewrite Hca in Hcb. discriminate.
  - rewrite Hab in Hba. discriminate.
Qed.

(* ---- replacements ---- *)
Definition plt (a b : pos) : Prop := fst a < fst b \/ (fst a = fst b /\ snd a < snd b).
Definition peq (a b : pos) : Prop := fst a = fst b /\ snd a = snd b.

Lemma repl_leb_spec : forall a b : repl,
  repl_leb a b = true <->
  plt (r_start a) (r_start b) \/
  (peq (r_start a) (r_start b) /\
   (plt (r_end a) (r_end b) \/
    (peq (r_end a) (r_end b) /\ text_ltb (r_text b) (r_text a) = false))).
Proof.
  intros a b. unfold repl_leb, plt, peq.
  destruct (pos_ltb (r_start a) (r_start b)) eqn:Hs1.
  { apply pos_ltb_spec in Hs1. tauto. }
  apply not_true_iff_false in Hs1. rewrite pos_ltb_spec in Hs1.
  destruct (pos_eqb (r_start a) (r_start b)) eqn:Hs2; simpl.
  2:{ apply not_true_iff_false in Hs2. rewrite pos_eqb_spec in Hs2.
      split; [discriminate | tauto]. }
  apply pos_eqb_spec in Hs2.
  destruct (pos_ltb (r_end a) (r_end b)) eqn:He1.
  { apply pos_ltb_spec in He1. tauto. }
  apply not_true_iff_false in He1. rewrite pos_ltb_spec in He1.
  destruct (pos_eqb (r_end a) (r_end b)) eqn:He2; simpl.
  2:{ apply not_true_iff_false in He2. rewrite pos_eqb_spec in He2.
      split; [discriminate | tauto]. }
  apply pos_eqb_spec in He2.
  rewrite negb_true_iff. tauto.
Qed.

Lemma repl_leb_refl : forall a : repl, repl_leb a a = true.
Proof.
  intros a. apply repl_leb_spec. unfold plt, peq. right. split; [lia|]. right. split; [lia|].
  apply text_ltb_irrefl.
Qed.

Lemma repl_leb_total : forall a b : repl, repl_leb a b = true \/ repl_leb b a = true.
Proof.
  intros a b. rewrite !repl_leb_spec. unfold plt, peq.
  destruct (text_ltb (r_text b) (r_text a)) eqn:Hba.
  - apply text_ltb_asym in Hba. rewrite Hba.
    assert (Hs : fst (r_start a) < fst (r_start b) \/ fst (r_start b) < fst (r_start a) \/
                 fst (r_start a) = fst (r_start b)) by lia.
    lia.
  - lia.
Qed.

Lemma repl_leb_trans : forall a b c : repl,
  repl_leb a b = true -> repl_leb b c = true -> repl_leb a c = true.
Proof.
  intros a b c. rewrite !repl_leb_spec. unfold plt, peq.
  intros [Hab | [Hsab [Hab | [Heab Htab]]]] [Hbc | [Hsbc [Hbc | [Hebc Htbc]]]];
    first [ left; lia
          | right; split; [lia|]; first [ left; lia | right; split; [lia|] ] ].
  eapply text_leb_trans; eassumption.
Qed.

(* ========================================================================================== *)
(* R1  sort_repls is a sorting function                                                        *)
(* ========================================================================================== *)
Definition repl_le (a b : repl) : Prop := repl_leb a b = true.

Lemma insert_sorted_perm : forall x l, Permutation (x :: l) (insert_sorted x l).
Proof.
  intros x l. induction l as [|y r IHr]; simpl.
  - apply Permutation_refl.
  - destruct (repl_leb x y) eqn:Hxy.
    + apply Permutation_refl.
    + eapply perm_trans; [apply perm_swap|]. apply perm_skip. exact IHr.
Qed.

Theorem sort_repls_perm : forall l, Permutation l (sort_repls l).
Proof.
  induction l as [|x l IHl]; simpl.
  - apply perm_nil.
  - eapply perm_trans; [apply perm_skip; exact IHl|]. apply insert_sorted_perm.
Qed.

Lemma insert_sorted_sorted : forall x l,
  StronglySorted repl_le l -> StronglySorted repl_le (insert_sorted x l).
Proof.
  intros x l. induction l as [|y r IHr]; intros Hl; simpl.
  - constructor; constructor.
  - inversion Hl as [|y' r' Hr Hy]; subst.
    destruct (repl_leb x y) eqn:Hxy.
    + constructor; [exact Hl|]. constructor; [exact Hxy|].
      eapply Forall_impl; [|exact Hy]. intros z Hyz. unfold repl_le in *.
      eapply repl_leb_trans; eassumption.
    + constructor; [apply IHr; exact Hr|].
      assert (Hyx : repl_le y x).
      { destruct (repl_leb_total x y) as [H | H]; [congruence | exact H]. }
      apply Forall_forall. intros z Hz.
      apply (Permutation_in z (Permutation_sym (insert_sorted_perm x r))) in Hz.
      destruct Hz as [Hz | Hz]; [subst; exact Hyx|].
      rewrite Forall_forall in Hy. apply Hy. exact Hz.
Qed.

Theorem sort_repls_sorted : forall l, StronglySorted repl_le (sort_repls l).
Proof.
  induction l as [|x l IHl]; simpl.
  - constructor.
  - apply insert_sorted_sorted. exact IHl.
Qed.

(* reading StronglySorted through nth_error *)
Lemma StronglySorted_nth_error : forall (A : Type) (R : A -> A -> Prop) (l : list A),
  StronglySorted R l ->
  forall i j a b, i < j -> nth_error l i = Some a -> nth_error l j = Some b -> R a b.
Proof.
  intros A R l Hl. induction Hl as [|x l Hl IH Hx]; intros i j a b Hij Hi Hj.
  - destruct i; discriminate.
  - destruct j as [|j]; [lia|]. simpl in Hj.
    destruct i as [|i]; simpl in Hi.
    + inversion Hi; subst. rewrite Forall_forall in Hx. apply Hx.
      eapply nth_error_In; eassumption.
    + apply (IH i j); [lia | assumption | assumption].
Qed.

Corollary sort_repls_sorted_nth : forall l i j a b,
  i < j -> nth_error (sort_repls l) i = Some a -> nth_error (sort_repls l) j = Some b ->
  repl_leb a b = true.
Proof.
  intros l i j a b Hij Hi Hj.
  exact (StronglySorted_nth_error _ _ _ (sort_repls_sorted l) i j a b Hij Hi Hj).
Qed.

Lemma sort_repls_In : forall l r, In r (sort_repls l) <-> In r l.
Proof.
  intros l r. split; intros H.
  - eapply Permutation_in; [apply Permutation_sym, sort_repls_perm | exact H].
  - eapply Permutation_in; [apply sort_repls_perm | exact H].
Qed.

Lemma sort_repls_length : forall l, length (sort_repls l) = length l.
Proof. intros l. symmetry. apply Permutation_length, sort_repls_perm. Qed.

Fixpoint is_sorted (l : list repl) : bool :=
  match l with
  | a :: ((b :: _) as r) => repl_leb a b && is_sorted r
  | _ => true
  end.

Lemma StronglySorted_is_sorted : forall l, StronglySorted repl_le l -> is_sorted l = true.
Proof.
  induction l as [|a r IHr]; intros Hl.
  - reflexivity.
  - inversion Hl as [|a' r' Hr Ha]; subst. destruct r as [|b r'].
    + reflexivity.
    + change (repl_leb a b && is_sorted (b :: r') = true). apply andb_true_iff. split.
      * inversion Ha as [|b' r'' Hab _]; subst. exact Hab.
      * apply IHr. exact Hr.
Qed.

Corollary sort_repls_is_sorted : forall l, is_sorted (sort_repls l) = true.
Proof. intros l. apply StronglySorted_is_sorted, sort_repls_sorted. Qed.

Example sort_repls_ex : sort_repls ex_l = [ex_r1; ex_r2; ex_r3].
Proof. vm_compute; reflexivity. Qed.
Example sort_repls_perm_ex : length (sort_repls ex_bad) = 3 /\ sort_repls ex_bad = [ex_r1; ex_r4; ex_r2].
Proof. vm_compute; split; reflexivity. Qed.
Example sort_repls_sorted_ex : is_sorted (sort_repls ex_bad) = true.
Proof. vm_compute; reflexivity. Qed.

(* ========================================================================================== *)
(* R2  the check is sound: well-formed ranges, and ALL pairs (not only neighbours) are disjoint *)
(* ========================================================================================== *)
Definition wf_repl (r : repl) : Prop := pos_leb (r_start r) (r_end r) = true.
Definition before (a b : repl) : Prop := pos_leb (r_end a) (r_start b) = true.

Lemma pairwise_ok_all_pairs : forall s,
  Forall wf_repl s -> pairwise_ok s = true -> StronglySorted before s.
Proof.
  induction s as [|a r IHr]; intros Hwf Hpw.
  - constructor.
  - inversion Hwf as [|a' r' Hwa Hwr]; subst.
    destruct r as [|b r'].
    + constructor; constructor.
    + simpl in Hpw. apply andb_true_iff in Hpw. destruct Hpw as [Hab Hpw].
      specialize (IHr Hwr Hpw).
      constructor; [exact IHr|].
      inversion IHr as [|b' r'' Hsr Hb]; subst.
      inversion Hwr as [|b' r'' Hwb Hwr']; subst.
      constructor; [exact Hab|].
      eapply Forall_impl; [|exact Hb]. intros c Hbc. unfold before, wf_repl in *.
      eapply pos_leb_trans; [exact Hab|]. eapply pos_leb_trans; [exact Hwb | exact Hbc].
Qed.

Lemma check_true : forall l,
  check l = true -> Forall wf_repl (sort_repls l) /\ pairwise_ok (sort_repls l) = true.
Proof.
  intros l Hc. unfold check in Hc. simpl in Hc. apply andb_true_iff in Hc.
  destruct Hc as [Hwf Hpw]. split; [|exact Hpw].
  apply Forall_forall. rewrite forallb_forall in Hwf. exact Hwf.
Qed.

Theorem check_sound : forall l,
  check l = true ->
  (forall r, In r l -> pos_leb (r_start r) (r_end r) = true) /\
  StronglySorted (fun a b => pos_leb (r_end a) (r_start b) = true) (sort_repls l).
Proof.
  intros l Hc. apply check_true in Hc. destruct Hc as [Hwf Hpw]. split.
  - intros r Hr. rewrite Forall_forall in Hwf. apply Hwf. apply sort_repls_In. exact Hr.
  - apply (pairwise_ok_all_pairs _ Hwf Hpw).
Qed.

Corollary check_sound_nth : forall l,
  check l = true ->
  forall i j a b, i < j ->
    nth_error (sort_repls l) i = Some a -> nth_error (sort_repls l) j = Some b ->
    pos_leb (r_end a) (r_start b) = true.
Proof.
  intros l Hc i j a b Hij Hi Hj. apply check_sound in Hc. destruct Hc as [_ Hss].
  exact (StronglySorted_nth_error _ _ _ Hss i j a b Hij Hi Hj).
Qed.

Example check_ex : check ex_l = true.
Proof. vm_compute; reflexivity. Qed.
Example check_sound_ex :
  forallb (fun r => pos_leb (r_start r) (r_end r)) ex_l = true /\
  pos_leb (r_end ex_r1) (r_start ex_r2) = true /\
  pos_leb (r_end ex_r1) (r_start ex_r3) = true /\      (* a non-adjacent pair *)
  pos_leb (r_end ex_r2) (r_start ex_r3) = true.
Proof. vm_compute; repeat split; reflexivity. Qed.

(* ========================================================================================== *)
(* R7  when does new_code fail                                                                 *)
(* ========================================================================================== *)
Theorem new_code_none_iff : forall t l, new_code t l = None <-> check l = false.
Proof.
  intros t l. unfold new_code. destruct (check l); split; intros H;
    try reflexivity; discriminate.
Qed.

Lemma new_code_some : forall t l t',
  new_code t l = Some t' <-> check l = true /\ t' = replace t (to_offsets t (sort_repls l)).
Proof.
  intros t l t'. unfold new_code. destruct (check l); split.
  - intros H. inversion H. split; reflexivity.
  - intros [_ H]. subst. reflexivity.
  - discriminate.
  - intros [H _]. discriminate.
Qed.

Lemma forallb_false_witness : forall (A : Type) (f : A -> bool) (l : list A),
  forallb f l = false -> exists x, In x l /\ f x = false.
Proof.
  intros A f l. induction l as [|x l IHl]; simpl; intros H.
  - discriminate.
  - destruct (f x) eqn:Hfx.
    + simpl in H. destruct (IHl H) as [y [Hy Hfy]]. exists y. split; [right; exact Hy | exact Hfy].
    + exists x. split; [left; reflexivity | exact Hfx].
Qed.

Lemma pairwise_ok_false_witness : forall s,
  pairwise_ok s = false ->
  exists i a b, nth_error s i = Some a /\ nth_error s (S i) = Some b /\
                pos_leb (r_end a) (r_start b) = false.
Proof.
  induction s as [|a r IHr]; intros H.
  - discriminate.
  - destruct r as [|b r'].
    + discriminate.
    + simpl in H. destruct (pos_leb (r_end a) (r_start b)) eqn:Hab.
      * simpl in H. destruct (IHr H) as [i [x [y [Hx [Hy Hxy]]]]].
        exists (S i), x, y. split; [exact Hx|]. split; [exact Hy | exact Hxy].
      * exists 0, a, b. split; [reflexivity|]. split; [reflexivity | exact Hab].
Qed.

Theorem check_false_witness : forall l,
  check l = false ->
  (exists r, In r l /\ pos_ltb (r_end r) (r_start r) = true) \/
  (exists i a b, nth_error (sort_repls l) i = Some a /\ nth_error (sort_repls l) (S i) = Some b /\
                 pos_ltb (r_start b) (r_end a) = true).
Proof.
  intros l Hc. unfold check in Hc. simpl in Hc. apply andb_false_iff in Hc.
  destruct Hc as [Hwf | Hpw].
  - left. apply forallb_false_witness in Hwf. destruct Hwf as [r [Hr Hbad]].
    exists r. split; [apply sort_repls_In; exact Hr | apply pos_leb_false; exact Hbad].
  - right. apply pairwise_ok_false_witness in Hpw. destruct Hpw as [i [a [b [Ha [Hb Hab]]]]].
    exists i, a, b. split; [exact Ha|]. split; [exact Hb | apply pos_leb_false; exact Hab].
Qed.

(* the converse: such a witness makes the check fail *)
Theorem check_false_of_witness : forall l,
  (exists r, In r l /\ pos_ltb (r_end r) (r_start r) = true) \/
  (exists i a b, nth_error (sort_repls l) i = Some a /\ nth_error (sort_repls l) (S i) = Some b /\
                 pos_ltb (r_start b) (r_end a) = true) ->
  check l = false.
Proof.
  intros l H. destruct (check l) eqn:Hc; [|reflexivity]. exfalso.
  destruct H as [[r [Hr Hbad]] | [i [a [b [Ha [Hb Hbad]]]]]].
  - apply check_sound in Hc. destruct Hc as [Hwf _]. specialize (Hwf r Hr).
    apply pos_leb_false in Hbad. congruence.
  - pose proof (check_sound_nth l Hc i (S i) a b (Nat.lt_succ_diag_r i) Ha Hb) as Hok.
    apply pos_leb_false in Hbad. congruence.
Qed.

Example new_code_none_ex : new_code ex_t ex_bad = None /\ check ex_bad = false.
Proof. vm_compute; split; reflexivity. Qed.
Example check_false_witness_ex :
  nth_error (sort_repls ex_bad) 0 = Some ex_r1 /\ nth_error (sort_repls ex_bad) 1 = Some ex_r4 /\
  pos_ltb (r_start ex_r4) (r_end ex_r1) = true.
Proof. vm_compute; repeat split; reflexivity. Qed.
Example check_false_malformed_ex :
  check [ex_r1; ex_r5] = false /\ pos_ltb (r_end ex_r5) (r_start ex_r5) = true.
Proof. vm_compute; split; reflexivity. Qed.

(* ========================================================================================== *)
(* R3  line/column -> offset                                                                   *)
(* ========================================================================================== *)

(* The lines of a text, each one with its terminating LF; the last line has no LF and may be
   empty ("a\n" has the two lines "a\n" and "").  This is str.splitlines(keepends=True) for LF only,
   plus the final empty line, i.e. the lines that LineNumbers / tokenize count. *)
Fixpoint lines_of (t : text) : list text :=
  match t with
  | [] => [[]]
  | c :: r =>
      if N.eqb c 10 then [c] :: lines_of r
      else match lines_of r with
           | [] => [[c]]
           | ln :: ls => (c :: ln) :: ls
           end
  end.

(* 1 <= line <= number of lines, and col <= length of that line including its LF *)
Definition valid_pos (t : text) (p : pos) : bool :=
  match fst p with
  | 0 => false
  | S k =>
      match nth_error (lines_of t) k with
      | None => false
      | Some ln => snd p <=? length ln
      end
  end.

Lemma lines_of_nonempty : forall t, lines_of t <> [].
Proof.
  intros [|c r]; simpl.
  - discriminate.
  - destruct (N.eqb c 10); [discriminate|]. destruct (lines_of r); discriminate.
Qed.

Lemma lines_of_concat : forall t, concat (lines_of t) = t.
Proof.
  induction t as [|c r IHr]; simpl.
  - reflexivity.
  - destruct (N.eqb c 10); simpl.
    + rewrite IHr. reflexivity.
    + destruct (lines_of r) as [|ln ls]; simpl in *.
      * rewrite <- IHr. reflexivity.
      * rewrite <- IHr. reflexivity.
Qed.

(* line_starts is strictly increasing and bounded by the length of the text *)
Lemma line_starts_from_bounds : forall t off x,
  In x (line_starts_from off t) -> off < x /\ x <= off + length t.
Proof.
  induction t as [|c r IHr]; intros off x Hx; simpl in *.
  - contradiction.
  - destruct (N.eqb c 10).
    + destruct Hx as [Hx | Hx]; [lia|]. apply IHr in Hx. lia.
    + apply IHr in Hx. lia.
Qed.

Lemma line_starts_from_sorted : forall t off, StronglySorted lt (line_starts_from off t).
Proof.
  induction t as [|c r IHr]; intros off; simpl.
  - constructor.
  - destruct (N.eqb c 10).
    + constructor; [apply IHr|]. apply Forall_forall. intros x Hx.
      apply line_starts_from_bounds in Hx. lia.
    + apply IHr.
Qed.

Lemma line_starts_sorted : forall t, StronglySorted lt (line_starts t).
Proof.
  intros t. unfold line_starts. constructor; [apply line_starts_from_sorted|].
  apply Forall_forall. intros x Hx. apply line_starts_from_bounds in Hx. lia.
Qed.

Lemma line_starts_bound : forall t x, In x (line_starts t) -> x <= length t.
Proof.
  intros t x [Hx | Hx]; [lia|]. apply line_starts_from_bounds in Hx. lia.
Qed.

Lemma line_starts_increasing : forall t i j a b,
  i < j -> nth_error (line_starts t) i = Some a -> nth_error (line_starts t) j = Some b -> a < b.
Proof.
  intros t i j a b Hij Hi Hj.
  exact (StronglySorted_nth_error _ _ _ (line_starts_sorted t) i j a b Hij Hi Hj).
Qed.

(* characterisation of nth_error (line_starts t) (S k): line k+1 starts where line k ends *)
Lemma lines_of_starts_from : forall t off k ln,
  nth_error (lines_of t) k = Some ln ->
  exists o, nth_error (off :: line_starts_from off t) k = Some o /\
            match nth_error (off :: line_starts_from off t) (S k) with
            | Some o' => o' = o + length ln
            | None => o + length ln = off + length t
            end.
Proof.
  induction t as [|c r IHr]; intros off k ln Hk.
  - simpl in Hk. destruct k as [|k]; simpl in Hk.
    + inversion Hk; subst. exists off. split; [reflexivity|]. simpl. reflexivity.
    + destruct k; discriminate.
  - simpl in Hk. simpl line_starts_from. destruct (N.eqb c 10).
    + destruct k as [|k]; simpl in Hk.
      * inversion Hk; subst. exists off. split; [reflexivity|]. simpl. lia.
      * destruct (IHr (S off) k ln Hk) as [o [Ho Hnext]].
        exists o. split; [exact Ho|].
        change (nth_error (off :: S off :: line_starts_from (S off) r) (S (S k)))
          with (nth_error (S off :: line_starts_from (S off) r) (S k)).
        destruct (nth_error (S off :: line_starts_from (S off) r) (S k)); simpl; lia.
    + destruct (lines_of r) as [|l0 ls] eqn:Hlr.
      { exfalso. exact (lines_of_nonempty r Hlr). }
      destruct k as [|k]; simpl in Hk.
      * inversion Hk; subst.
        destruct (IHr (S off) 0 l0 eq_refl) as [o [Ho Hnext]].
        simpl in Ho. inversion Ho; subst o.
        exists off. split; [reflexivity|].
        change (nth_error (off :: line_starts_from (S off) r) 1)
          with (nth_error (S off :: line_starts_from (S off) r) 1).
        destruct (nth_error (S off :: line_starts_from (S off) r) 1); simpl; lia.
      * destruct (IHr (S off) (S k) ln Hk) as [o [Ho Hnext]].
        exists o. split; [exact Ho|].
        change (nth_error (off :: line_starts_from (S off) r) (S (S k)))
          with (nth_error (S off :: line_starts_from (S off) r) (S (S k))).
        destruct (nth_error (S off :: line_starts_from (S off) r) (S (S k))); simpl; lia.
Qed.

Lemma lines_of_starts : forall t k ln,
  nth_error (lines_of t) k = Some ln ->
  exists o, nth_error (line_starts t) k = Some o /\
            match nth_error (line_starts t) (S k) with
            | Some o' => o' = o + length ln
            | None => o + length ln = length t
            end.
Proof. intros t k ln Hk. exact (lines_of_starts_from t 0 k ln Hk). Qed.

Lemma lines_of_length_from : forall t off,
  length (lines_of t) = S (length (line_starts_from off t)).
Proof.
  induction t as [|c r IHr]; intros off; simpl.
  - reflexivity.
  - destruct (N.eqb c 10); simpl.
    + rewrite (IHr (S off)). reflexivity.
    + rewrite <- (IHr (S off)). destruct (lines_of r) as [|l0 ls] eqn:Hlr.
      * exfalso. exact (lines_of_nonempty r Hlr).
      * reflexivity.
Qed.

Lemma lines_of_length : forall t, length (lines_of t) = length (line_starts t).
Proof. intros t. unfold line_starts. simpl. apply lines_of_length_from. Qed.

(* what validity gives in terms of the line-start table *)
Lemma valid_pos_offset : forall t k c,
  valid_pos t (S k, c) = true ->
  exists o, nth_error (line_starts t) k = Some o /\ o + c <= length t /\
            (forall o', nth_error (line_starts t) (S k) = Some o' -> o + c <= o').
Proof.
  intros t k c Hv. unfold valid_pos in Hv. simpl in Hv.
  destruct (nth_error (lines_of t) k) as [ln|] eqn:Hln; [|discriminate].
  apply Nat.leb_le in Hv.
  destruct (lines_of_starts t k ln Hln) as [o [Ho Hnext]].
  exists o. split; [exact Ho|].
  destruct (nth_error (line_starts t) (S k)) as [o'|] eqn:Ho'.
  - apply nth_error_In in Ho'. apply line_starts_bound in Ho'. split; [lia|].
    intros o'' Heq. inversion Heq; subst. lia.
  - split; [lia|]. intros o'' Heq. discriminate.
Qed.

(* the equivalent description of validity through the line-start table used by line_to_offset *)
Lemma valid_pos_iff : forall t k c,
  valid_pos t (S k, c) = true <->
  exists o, nth_error (line_starts t) k = Some o /\
            o + c <= match nth_error (line_starts t) (S k) with Some o' => o' | None => length t end.
Proof.
  intros t k c. split.
  - intros Hv. destruct (valid_pos_offset t k c Hv) as [o [Ho [Hlen Hnext]]].
    exists o. split; [exact Ho|].
    destruct (nth_error (line_starts t) (S k)) as [o'|]; [apply Hnext; reflexivity | exact Hlen].
  - intros [o [Ho Hc]]. unfold valid_pos. simpl.
    destruct (nth_error (lines_of t) k) as [ln|] eqn:Hln.
    + destruct (lines_of_starts t k ln Hln) as [o2 [Ho2 Hnext]].
      rewrite Ho in Ho2. inversion Ho2; subst o2. apply Nat.leb_le.
      destruct (nth_error (line_starts t) (S k)) as [o'|]; lia.
    + apply nth_error_None in Hln. rewrite lines_of_length in Hln.
      assert (Hk : k < length (line_starts t)) by (apply nth_error_Some; congruence). lia.
Qed.

Lemma valid_pos_line : forall t p, valid_pos t p = true -> 1 <= fst p <= length (lines_of t).
Proof.
  intros t [ln c] Hv. unfold valid_pos in Hv. simpl in *.
  destruct ln as [|k]; [discriminate|].
  destruct (nth_error (lines_of t) k) eqn:Hk; [|discriminate].
  assert (Hlt : k < length (lines_of t)) by (apply nth_error_Some; congruence). lia.
Qed.

Theorem line_to_offset_le_length : forall t p, line_to_offset t p <= length t.
Proof.
  intros t [ln c]. unfold line_to_offset. destruct ln as [|k]; [lia|].
  destruct (nth_error (line_starts t) k); lia.
Qed.

(* for a valid position no clamping happens *)
Lemma line_to_offset_valid : forall t k c,
  valid_pos t (S k, c) = true ->
  exists o, nth_error (line_starts t) k = Some o /\ line_to_offset t (S k, c) = o + c.
Proof.
  intros t k c Hv. destruct (valid_pos_offset t k c Hv) as [o [Ho [Hlen _]]].
  exists o. split; [exact Ho|]. unfold line_to_offset. rewrite Ho. lia.
Qed.

Theorem line_to_offset_monotone : forall t p q,
  valid_pos t p = true -> valid_pos t q = true -> pos_leb p q = true ->
  line_to_offset t p <= line_to_offset t q.
Proof.
  intros t [lp cp] [lq cq] Hp Hq Hle.
  destruct lp as [|kp]; [discriminate|]. destruct lq as [|kq]; [discriminate|].
  destruct (valid_pos_offset t kp cp Hp) as [op [Hop [Hplen Hpnext]]].
  destruct (valid_pos_offset t kq cq Hq) as [oq [Hoq [Hqlen _]]].
  unfold line_to_offset. rewrite Hop, Hoq.
  apply pos_leb_spec in Hle. simpl in Hle.
  destruct Hle as [Hlt | [Heq Hc]].
  - destruct (nth_error (line_starts t) (S kp)) as [o'|] eqn:Ho'.
    + specialize (Hpnext o' eq_refl).
      assert (Ho'q : o' <= oq).
      { destruct (Nat.eq_dec (S kp) kq) as [E | NE].
        - subst kq. rewrite Ho' in Hoq. inversion Hoq. lia.
        - assert (Hlt' : S kp < kq) by lia.
          pose proof (line_starts_increasing t (S kp) kq o' oq Hlt' Ho' Hoq). lia. }
      lia.
    + apply nth_error_None in Ho'.
      assert (Hkq : kq < length (line_starts t)) by (apply nth_error_Some; congruence).
      lia.
  - assert (kp = kq) by lia. subst kq. rewrite Hop in Hoq. inversion Hoq; subst. lia.
Qed.

(* validity is needed: a column past the end of line 1 is clamped to the end of the TEXT *)
Theorem line_to_offset_not_monotone_without_validity :
  exists t p q, pos_leb p q = true /\ valid_pos t q = true /\
                line_to_offset t q < line_to_offset t p.
Proof.
  exists ex_t, (1, 10), (2, 0). vm_compute. repeat split; lia.
Qed.

Example lines_of_ex : lines_of ex_t = [[97; 98; 10]; [99; 100; 101; 10]; [102; 103]]%N
                      /\ line_starts ex_t = [0; 3; 7].
Proof. vm_compute; split; reflexivity. Qed.
Example valid_pos_ex :
  map (valid_pos ex_t) [(1, 0); (1, 3); (3, 2); (0, 0); (1, 4); (3, 3); (4, 0)]
  = [true; true; true; false; false; false; false].
Proof. vm_compute; reflexivity. Qed.
Example line_to_offset_ex :
  map (line_to_offset ex_t) [(1, 0); (1, 2); (1, 3); (2, 0); (2, 3); (3, 1); (3, 2)]
  = [0; 2; 3; 3; 6; 8; 9].
Proof. vm_compute; reflexivity. Qed.
Example line_to_offset_monotone_ex :
  pos_leb (1, 3) (2, 0) = true /\ (line_to_offset ex_t (1, 3) <=? line_to_offset ex_t (2, 0)) = true.
Proof. vm_compute; split; reflexivity. Qed.
Example line_to_offset_le_length_ex : (line_to_offset ex_t (2, 100) <=? length ex_t) = true.
Proof. vm_compute; reflexivity. Qed.
Example line_to_offset_not_monotone_ex :
  pos_leb (1, 10) (2, 0) = true /\ line_to_offset ex_t (1, 10) = 9 /\ line_to_offset ex_t (2, 0) = 3.
Proof. vm_compute; repeat split; reflexivity. Qed.

(* ========================================================================================== *)
(* R4  after a successful check, valid positions give increasing, disjoint offset ranges       *)
(* ========================================================================================== *)
Fixpoint incr_from (p : nat) (rs : list (nat * nat * text)) : Prop :=
  match rs with
  | [] => True
  | (s, e, _) :: r => p <= s /\ s <= e /\ incr_from e r
  end.

Fixpoint incr_fromb (p : nat) (rs : list (nat * nat * text)) : bool :=
  match rs with
  | [] => true
  | (s, e, _) :: r => (p <=? s) && (s <=? e) && incr_fromb e r
  end.

Lemma incr_fromb_spec : forall rs p, incr_fromb p rs = true <-> incr_from p rs.
Proof.
  induction rs as [|[[s e] new] r IHr]; intros p; simpl.
  - tauto.
  - rewrite !andb_true_iff, !Nat.leb_le, IHr. tauto.
Qed.

(* the end of the last range (p if there is none) *)
Fixpoint last_end (p : nat) (rs : list (nat * nat * text)) : nat :=
  match rs with
  | [] => p
  | (_, e, _) :: r => last_end e r
  end.

Definition valid_repl (t : text) (r : repl) : bool :=
  valid_pos t (r_start r) && valid_pos t (r_end r).
Definition valid_repls (t : text) (l : list repl) : bool := forallb (valid_repl t) l.

Lemma valid_repls_sort : forall t l, valid_repls t l = true -> valid_repls t (sort_repls l) = true.
Proof.
  intros t l Hv. unfold valid_repls in *. rewrite forallb_forall in *.
  intros r Hr. apply Hv. apply sort_repls_In. exact Hr.
Qed.

Lemma to_offsets_incr : forall t s,
  valid_repls t s = true -> Forall wf_repl s -> StronglySorted before s ->
  forall p, Forall (fun b => p <= line_to_offset t (r_start b)) s ->
  incr_from p (to_offsets t s).
Proof.
  intros t s. induction s as [|a r IHr]; intros Hv Hwf Hss p Hp; simpl.
  - exact I.
  - simpl in Hv. apply andb_true_iff in Hv. destruct Hv as [Hva Hvr].
    unfold valid_repl in Hva. apply andb_true_iff in Hva. destruct Hva as [Hvs Hve].
    inversion Hwf as [|a' r' Hwa Hwr]; subst.
    inversion Hss as [|a' r' Hsr Ha]; subst.
    inversion Hp as [|a' r' Hpa Hpr]; subst.
    split; [exact Hpa|]. split.
    + apply line_to_offset_monotone; assumption.
    + apply IHr; try assumption.
      apply Forall_forall. intros b Hb.
      rewrite Forall_forall in Ha. specialize (Ha b Hb).
      unfold valid_repls in Hvr. rewrite forallb_forall in Hvr. specialize (Hvr b Hb).
      unfold valid_repl in Hvr. apply andb_true_iff in Hvr. destruct Hvr as [Hvbs _].
      apply line_to_offset_monotone; assumption.
Qed.

Lemma to_offsets_last_end : forall t s p,
  p <= length t -> last_end p (to_offsets t s) <= length t.
Proof.
  intros t s. induction s as [|a r IHr]; intros p Hp; simpl.
  - exact Hp.
  - apply IHr. apply line_to_offset_le_length.
Qed.

Lemma to_offsets_ends_bounded : forall t s,
  Forall (fun x => snd (fst x) <= length t) (to_offsets t s).
Proof.
  intros t s. induction s as [|a r IHr]; simpl; constructor.
  - simpl. apply line_to_offset_le_length.
  - exact IHr.
Qed.

Theorem check_offsets_increasing : forall t l,
  check l = true -> valid_repls t l = true ->
  incr_from 0 (to_offsets t (sort_repls l)) /\
  last_end 0 (to_offsets t (sort_repls l)) <= length t.
Proof.
  intros t l Hc Hv. split.
  - pose proof (check_true l Hc) as [Hwf Hpw].
    apply to_offsets_incr.
    + apply valid_repls_sort. exact Hv.
    + exact Hwf.
    + apply pairwise_ok_all_pairs; assumption.
    + apply Forall_forall. intros b _. lia.
  - apply to_offsets_last_end. lia.
Qed.

Example to_offsets_ex :
  to_offsets ex_t (sort_repls ex_l) = [(0, 2, [88; 89; 90]%N); (4, 6, [81]%N); (8, 8, [73; 73]%N)].
Proof. vm_compute; reflexivity. Qed.
Example check_offsets_increasing_ex :
  valid_repls ex_t ex_l = true /\
  incr_fromb 0 (to_offsets ex_t (sort_repls ex_l)) = true /\
  (last_end 0 (to_offsets ex_t (sort_repls ex_l)) <=? length ex_t) = true.
Proof. vm_compute; repeat split; reflexivity. Qed.

(* ========================================================================================== *)
(* R5  replace keeps the text outside the ranges: both the result and the source are the SAME   *)
(*     outside pieces, with the new texts resp. the old range contents between them            *)
(* ========================================================================================== *)
Fixpoint interleave (pieces : list text) (mids : list text) : text :=
  match pieces, mids with
  | [], _ => []
  | p :: _, [] => p
  | p :: ps, m :: ms => p ++ m ++ interleave ps ms
  end.

(* the contents of the replaced ranges *)
Definition old_texts (t : text) (rs : list (nat * nat * text)) : list text :=
  map (fun x => firstn (snd (fst x) - fst (fst x)) (skipn (fst (fst x)) t)) rs.

Lemma cut_from_length : forall t rs p, length (cut_from p t rs) = S (length rs).
Proof.
  intros t rs. induction rs as [|[[s e] new] r IHr]; intros p; simpl.
  - reflexivity.
  - rewrite IHr. reflexivity.
Qed.

Lemma outside_length : forall t rs, length (outside t rs) = S (length rs).
Proof. intros t rs. apply cut_from_length. Qed.

Lemma old_texts_length : forall t rs, length (old_texts t rs) = length rs.
Proof. intros t rs. apply map_length. Qed.

Lemma replace_decomposition_from : forall t rs p,
  replace_from p t rs = interleave (cut_from p t rs) (map (fun x => snd x) rs).
Proof.
  intros t rs. induction rs as [|[[s e] new] r IHr]; intros p; simpl.
  - reflexivity.
  - rewrite IHr. reflexivity.
Qed.

(* holds for arbitrary triples: the premises [incr_from] / [last_end] are not needed here *)
Theorem replace_decomposition : forall t rs,
  replace t rs = interleave (outside t rs) (map (fun x => snd x) rs).
Proof. intros t rs. apply replace_decomposition_from. Qed.

Lemma skipn_add : forall (A : Type) (x y : nat) (l : list A),
  skipn x (skipn y l) = skipn (y + x) l.
Proof.
  intros A x y. induction y as [|y IHy]; intros l; simpl.
  - reflexivity.
  - destruct l as [|a l]; [apply skipn_nil | apply IHy].
Qed.

Lemma skipn_split : forall (t : text) p s,
  p <= s -> firstn (s - p) (skipn p t) ++ skipn s t = skipn p t.
Proof.
  intros t p s Hps.
  replace (skipn s t) with (skipn (s - p) (skipn p t)).
  - apply firstn_skipn.
  - rewrite skipn_add. f_equal. lia.
Qed.

Lemma source_decomposition_from : forall t rs p,
  incr_from p rs -> skipn p t = interleave (cut_from p t rs) (old_texts t rs).
Proof.
  intros t rs. induction rs as [|[[s e] new] r IHr]; intros p Hinc; simpl.
  - reflexivity.
  - simpl in Hinc. destruct Hinc as [Hps [Hse Hinc]].
    rewrite <- (IHr e Hinc). rewrite (skipn_split t s e Hse).
    symmetry. apply skipn_split. exact Hps.
Qed.

(* needs the ranges to be increasing; the bound [last_end 0 rs <= length t] is not needed *)
Theorem source_decomposition : forall t rs,
  incr_from 0 rs ->
  t = interleave (outside t rs)
        (map (fun x => firstn (snd (fst x) - fst (fst x)) (skipn (fst (fst x)) t)) rs).
Proof. intros t rs Hinc. exact (source_decomposition_from t rs 0 Hinc). Qed.

(* with the bound, each old piece has exactly the length of its range *)
Lemma old_texts_lengths : forall t rs p,
  incr_from p rs -> Forall (fun x => snd (fst x) <= length t) rs ->
  map (@length N) (old_texts t rs) = map (fun x => snd (fst x) - fst (fst x)) rs.
Proof.
  intros t rs. induction rs as [|[[s e] new] r IHr]; intros p Hinc Hb; simpl.
  - reflexivity.
  - simpl in Hinc. destruct Hinc as [Hps [Hse Hinc]].
    inversion Hb as [|x r' Hbe Hbr]; subst. simpl in Hbe.
    rewrite (IHr e Hinc Hbr). f_equal.
    rewrite firstn_length, skipn_length. lia.
Qed.

(* source_decomposition fails for ranges that are not increasing *)
Example source_decomposition_needs_incr :
  let rs := [(5, 5, [88]%N); (3, 3, [89]%N)] in
  replace [97; 98; 10; 99; 100]%N rs = [97; 98; 10; 99; 100; 88; 89; 99; 100]%N /\
  interleave (outside [97; 98; 10; 99; 100]%N rs) (old_texts [97; 98; 10; 99; 100]%N rs)
    = [97; 98; 10; 99; 100; 99; 100]%N.
Proof. vm_compute; split; reflexivity. Qed.

Example outside_ex :
  outside ex_t (to_offsets ex_t (sort_repls ex_l)) = [[]; [10; 99]; [10; 102]; [103]]%N /\
  old_texts ex_t (to_offsets ex_t (sort_repls ex_l)) = [[97; 98]; [100; 101]; []]%N.
Proof. vm_compute; split; reflexivity. Qed.
Example replace_decomposition_ex :
  let rs := to_offsets ex_t (sort_repls ex_l) in
  replace ex_t rs = interleave (outside ex_t rs) (map (fun x => snd x) rs) /\
  replace ex_t rs = [88; 89; 90; 10; 99; 81; 10; 102; 73; 73; 103]%N.
Proof. vm_compute; split; reflexivity. Qed.
Example source_decomposition_ex :
  let rs := to_offsets ex_t (sort_repls ex_l) in
  ex_t = interleave (outside ex_t rs) (old_texts ex_t rs).
Proof. vm_compute; reflexivity. Qed.

(* ========================================================================================== *)
(* R6  the position-level API                                                                  *)
(* ========================================================================================== *)
Theorem outside_preserved_explicit : forall t l t',
  new_code t l = Some t' -> valid_repls t l = true ->
  let offs := to_offsets t (sort_repls l) in
  length (outside t offs) = S (length l) /\
  length (old_texts t offs) = length l /\
  t = interleave (outside t offs) (old_texts t offs) /\
  t' = interleave (outside t offs) (map r_text (sort_repls l)).
Proof.
  intros t l t' Hnc Hv offs.
  apply new_code_some in Hnc. destruct Hnc as [Hc Ht'].
  destruct (check_offsets_increasing t l Hc Hv) as [Hinc _]. fold offs in Hinc.
  assert (Hlen : length offs = length l).
  { unfold offs, to_offsets. rewrite map_length. apply sort_repls_length. }
  split; [rewrite outside_length; congruence|].
  split; [rewrite old_texts_length; exact Hlen|].
  split.
  - exact (source_decomposition t offs Hinc).
  - rewrite Ht'. fold offs. rewrite replace_decomposition.
    f_equal. unfold offs, to_offsets. rewrite map_map. reflexivity.
Qed.

Theorem outside_preserved : forall t l t',
  new_code t l = Some t' -> valid_repls t l = true ->
  exists pieces olds,
    length pieces = S (length l) /\ length olds = length l /\
    t = interleave pieces olds /\
    t' = interleave pieces (map r_text (sort_repls l)).
Proof.
  intros t l t' Hnc Hv.
  exists (outside t (to_offsets t (sort_repls l))), (old_texts t (to_offsets t (sort_repls l))).
  exact (outside_preserved_explicit t l t' Hnc Hv).
Qed.

(* lengths *)
Definition sum_len (l : list text) : nat := list_sum (map (@length N) l).

Lemma interleave_length : forall pieces mids,
  length pieces = S (length mids) ->
  length (interleave pieces mids) = sum_len pieces + sum_len mids.
Proof.
  unfold sum_len.
  induction pieces as [|p ps IHps]; intros mids Hlen; simpl in Hlen.
  - discriminate.
  - destruct mids as [|m ms]; simpl in *.
    + destruct ps; [simpl; lia | discriminate].
    + rewrite !app_length, IHps by lia. lia.
Qed.

Lemma list_sum_map_perm : forall (A : Type) (f : A -> nat) (l l' : list A),
  Permutation l l' -> list_sum (map f l) = list_sum (map f l').
Proof.
  intros A f l l' Hp. induction Hp as [| x l l' Hp IH | x y l | l l' l'' Hp1 IH1 Hp2 IH2]; simpl.
  - reflexivity.
  - rewrite IH. reflexivity.
  - lia.
  - rewrite IH1. exact IH2.
Qed.

Lemma removed_sum : forall t s p,
  incr_from p (to_offsets t s) ->
  sum_len (old_texts t (to_offsets t s))
  = list_sum (map (fun r => line_to_offset t (r_end r) - line_to_offset t (r_start r)) s).
Proof.
  intros t s p Hinc. unfold sum_len.
  rewrite (old_texts_lengths t _ p Hinc (to_offsets_ends_bounded t s)).
  unfold to_offsets. rewrite map_map. reflexivity.
Qed.

Lemma inserted_sum : forall s,
  sum_len (map r_text s) = list_sum (map (fun r => length (r_text r)) s).
Proof. intros s. unfold sum_len. rewrite map_map. reflexivity. Qed.

(* length of the result = length of the source - removed characters + inserted characters *)
Theorem new_code_length : forall t l t',
  new_code t l = Some t' -> valid_repls t l = true ->
  length t' + list_sum (map (fun r => line_to_offset t (r_end r) - line_to_offset t (r_start r)) l)
  = length t + list_sum (map (fun r => length (r_text r)) l).
Proof.
  intros t l t' Hnc Hv.
  pose proof (outside_preserved_explicit t l t' Hnc Hv) as Hop. cbv zeta in Hop.
  destruct Hop as [Hlp [Hlo [Ht Ht']]].
  apply new_code_some in Hnc. destruct Hnc as [Hc _].
  destruct (check_offsets_increasing t l Hc Hv) as [Hinc _].
  apply (f_equal (@length N)) in Ht. apply (f_equal (@length N)) in Ht'.
  rewrite interleave_length in Ht by lia.
  rewrite interleave_length in Ht' by (rewrite map_length, sort_repls_length; lia).
  rewrite (removed_sum t (sort_repls l) 0 Hinc) in Ht.
  rewrite inserted_sum in Ht'.
  rewrite (list_sum_map_perm _
             (fun r => line_to_offset t (r_end r) - line_to_offset t (r_start r))
             _ _ (sort_repls_perm l)).
  rewrite (list_sum_map_perm _ (fun r => length (r_text r)) _ _ (sort_repls_perm l)).
  lia.
Qed.

(* validity is needed in R6: with a column past the end of line 1 the offsets are not increasing
   and the tail of the source is duplicated *)
Definition cex_t : text := [97; 98; 10; 99; 100]%N.
Definition cex_l : list repl :=
  [ {| r_start := (2, 0); r_end := (2, 0); r_text := [89]%N |};
    {| r_start := (1, 10); r_end := (1, 10); r_text := [88]%N |} ].

Theorem outside_not_preserved_without_validity :
  check cex_l = true /\
  new_code cex_t cex_l = Some [97; 98; 10; 99; 100; 88; 89; 99; 100]%N /\
  ~ (exists pieces olds,
       length pieces = S (length cex_l) /\ length olds = length cex_l /\
       cex_t = interleave pieces olds /\
       [97; 98; 10; 99; 100; 88; 89; 99; 100]%N = interleave pieces (map r_text (sort_repls cex_l))).
Proof.
  split; [vm_compute; reflexivity|]. split; [vm_compute; reflexivity|].
  intros [pieces [olds [Hlp [Hlo [Ht Ht']]]]].
  apply (f_equal (@length N)) in Ht. apply (f_equal (@length N)) in Ht'.
  rewrite interleave_length in Ht by lia.
  rewrite interleave_length in Ht' by (rewrite map_length, sort_repls_length; lia).
  assert (E1 : length cex_t = 5) by reflexivity.
  assert (E2 : sum_len (map r_text (sort_repls cex_l)) = 2) by (vm_compute; reflexivity).
  rewrite E1 in Ht. rewrite E2 in Ht'. simpl length in Ht'. lia.
Qed.

Example outside_preserved_ex :
  let pieces := [[]; [10; 99]; [10; 102]; [103]]%N in
  new_code ex_t ex_l = Some (interleave pieces (map r_text (sort_repls ex_l))) /\
  ex_t = interleave pieces [[97; 98]; [100; 101]; []]%N /\
  length pieces = S (length ex_l).
Proof. vm_compute; repeat split; reflexivity. Qed.
Example new_code_ex :
  new_code ex_t ex_l = Some [88; 89; 90; 10; 99; 81; 10; 102; 73; 73; 103]%N.
Proof. vm_compute; reflexivity. Qed.
Example new_code_length_ex :
  length [88; 89; 90; 10; 99; 81; 10; 102; 73; 73; 103]%N
  + list_sum (map (fun r => line_to_offset ex_t (r_end r) - line_to_offset ex_t (r_start r)) ex_l)
  = length ex_t + list_sum (map (fun r => length (r_text r)) ex_l).
Proof. vm_compute; reflexivity. Qed.

(* ========================================================================================== *)
Print Assumptions replace_nil.
Print Assumptions new_code_nil.
Print Assumptions sort_repls_perm.
Print Assumptions sort_repls_sorted.
Print Assumptions check_sound.
Print Assumptions check_sound_nth.
Print Assumptions line_to_offset_monotone.
Print Assumptions line_to_offset_le_length.
Print Assumptions line_to_offset_not_monotone_without_validity.
Print Assumptions check_offsets_increasing.
Print Assumptions replace_decomposition.
Print Assumptions source_decomposition.
Print Assumptions outside_preserved_explicit.
Print Assumptions outside_preserved.
Print Assumptions new_code_length.
Print Assumptions outside_not_preserved_without_validity.
Print Assumptions new_code_none_iff.
Print Assumptions check_false_witness.
Print Assumptions check_false_of_witness.
