(* Proofs about Model/PyRepr.v: the generated code of every well-formed value reads back as that value, for every nesting
   depth and size (induction over the value with a sufficient-fuel bound; no enumeration). *)
From Coq Require Import List ZArith NArith Bool Arith Lia.
Import ListNotations.
From V Require Import Model.PyRepr.

(* ------------------------------------------------------------------------- induction principle for nested values *)
Section Ind.
Variable P : pv -> Prop.
Hypothesis HNone : P VNone.
Hypothesis HTrue : P VTrue.
Hypothesis HFalse : P VFalse.
Hypothesis HInt : forall z, P (VInt z).
Hypothesis HStr : forall s, P (VStr s).
Hypothesis HBytes : forall s, P (VBytes s).
Hypothesis HList : forall l, Forall P l -> P (VList l).
Hypothesis HTuple : forall l, Forall P l -> P (VTuple l).
Hypothesis HDict : forall kvs, Forall (fun kv => P (fst kv) /\ P (snd kv)) kvs -> P (VDict kvs).
Hypothesis HSet : forall l, Forall P l -> P (VSet l).
Hypothesis HName : forall h p, P (VName h p).
Hypothesis HCall : forall h p a k, Forall P a -> Forall (fun nv => P (snd nv)) k -> P (VCall h p a k).

Fixpoint pv_induction (v : pv) : P v :=
  let fix go (l : list pv) : Forall P l :=
    match l with [] => Forall_nil _ | x :: r => Forall_cons x (pv_induction x) (go r) end in
  match v with
  | VNone => HNone | VTrue => HTrue | VFalse => HFalse
  | VInt z => HInt z | VStr s => HStr s | VBytes s => HBytes s
  | VList l => HList l (go l)
  | VTuple l => HTuple l (go l)
  | VDict kvs =>
      HDict kvs ((fix gd (l : list (pv * pv)) : Forall (fun kv => P (fst kv) /\ P (snd kv)) l :=
                    match l with
                    | [] => Forall_nil _
                    | kv :: r => Forall_cons kv (conj (pv_induction (fst kv)) (pv_induction (snd kv))) (gd r)
                    end) kvs)
  | VSet l => HSet l (go l)
  | VName h p => HName h p
  | VCall h p a k =>
      HCall h p a k (go a)
        ((fix gk (l : list (nat * pv)) : Forall (fun nv => P (snd nv)) l :=
            match l with [] => Forall_nil _ | nv :: r => Forall_cons nv (pv_induction (snd nv)) (gk r) end) k)
  end.
End Ind.

(* ------------------------------------------------------------------------- fuel that is certainly enough *)
Definition items_need (sz : pv -> nat) (l : list pv) : nat := fold_right (fun x a => S (sz x) + a) 1 l.
Fixpoint size (v : pv) : nat :=
  match v with
  | VList l | VTuple l | VSet l => S (fold_right (fun x a => S (size x) + a) 1 l)
  | VDict kvs => S (fold_right (fun kv a => S (size (fst kv) + size (snd kv)) + a) 1 kvs)
  | VCall _ _ a k => S (fold_right (fun x acc => S (size x) + acc) (fold_right (fun nv acc => S (size (snd nv)) + acc) 1 k) a)
  | _ => 1
  end.

(* ------------------------------------------------------------------------- first tokens *)
Definition starter (t : tok) : bool :=
  match t with TNm _ | TNum _ | TS _ | TB _ | LB | LP | LC | MINUS => true | _ => false end.
Definition follow_ok (ts : list tok) : bool :=
  match ts with [] => true | (CM | RB | RP | RC | CL) :: _ => true | _ => false end.

Lemma repr_starts : forall v, exists t r, repr_toks v = t :: r /\ starter t = true.
Proof.
  destruct v as [| | |z|s|s|l|l|kvs|l|h pth|h pth a k]; cbn [repr_toks]; try (eexists; eexists; split; [reflexivity|reflexivity]).
  - unfold int_toks. destruct (z <? 0)%Z; eexists; eexists; split; reflexivity.
  - destruct l as [|x [|y r]]; eexists; eexists; split; reflexivity.
Qed.

Lemma starts_repr_false : forall v rest c, starter c = false -> starts c (repr_toks v ++ rest) = false.
Proof.
  intros v rest c Hc. destruct (repr_starts v) as [t [r [E Ht]]]. rewrite E. cbn [app starts].
  destruct t, c; try reflexivity; discriminate.
Qed.

Lemma is_kw_repr : forall v t rest, (t = CM \/ t = RP) -> is_kw (repr_toks v ++ t :: rest) = None.
Proof.
  intros v t rest Ht.
  destruct v as [| | |z|s|s|l|l|kvs|l|h pth|h pth a k]; cbn [repr_toks app is_kw]; try reflexivity;
    try (destruct Ht as [-> | ->]; reflexivity).
  - unfold int_toks. destruct (z <? 0)%Z; reflexivity.
  - destruct l as [|x [|y r]]; reflexivity.
  - destruct pth as [|q pth']; cbn [path_toks flat_map app]; [destruct Ht as [-> | ->]; reflexivity|reflexivity].
  - destruct pth as [|q pth']; cbn [path_toks flat_map app]; reflexivity.
Qed.

Lemma dots_path : forall pth rest, (match rest with DOT :: TNm _ :: _ => False | _ => True end) ->
  dots (path_toks pth ++ rest) = (pth, rest).
Proof.
  induction pth as [|n r IH]; intros rest H; cbn [path_toks flat_map app].
  - destruct rest as [|t r']; [reflexivity|]. destruct t; try reflexivity. destruct r' as [|t2 r2]; [reflexivity|]. destruct t2; try reflexivity. destruct H.
  - cbn [dots]. fold (path_toks r). rewrite (IH rest H). reflexivity.
Qed.

Lemma follow_not_dot : forall rest, follow_ok rest = true -> match rest with DOT :: TNm _ :: _ => False | _ => True end.
Proof. intros [|t r] H; [exact I|]. destruct t; try exact I; discriminate. Qed.

(* ------------------------------------------------------------------------- the round trip *)
Definition RT (v : pv) : Prop :=
  wf v = true -> forall fuel rest, size v <= fuel -> follow_ok rest = true ->
  p fuel MExpr (repr_toks v ++ rest) = Some (RE v, rest).

Definition closer (c : tok) : Prop := c = RB \/ c = RP \/ c = RC.

Lemma closer_props : forall c, closer c -> starter c = false /\ tok_eqb c c = true /\ tok_eqb CM c = false /\ follow_ok [c] = true
  /\ forall rest, follow_ok (c :: rest) = true.
Proof. intros c [-> | [-> | ->]]; repeat split; reflexivity. Qed.

Ltac norm := repeat (progress (repeat rewrite <- app_assoc; cbn [app])).

Lemma app_assoc_cons : forall (a : list tok) x b, (a ++ [x]) ++ b = a ++ x :: b.
Proof. intros. rewrite <- app_assoc. reflexivity. Qed.

(* expr, expr, ..., expr close  (no trailing comma) *)
Lemma items_rt : forall l, Forall RT l -> forallb wf l = true ->
  forall c, closer c -> forall fuel rest, items_need size l <= fuel ->
  p fuel (MItems c) (sep pv repr_toks l ++ c :: rest) = Some (RL l, rest).
Proof.
  induction l as [|x r IH]; intros HF Hwf c Hc fuel rest Hfuel.
  - cbn [sep app]. destruct fuel as [|f]; [cbn in Hfuel; lia|]. cbn [p starts].
    destruct (closer_props c Hc) as [_ [E _]]. rewrite E. reflexivity.
  - inversion HF as [|? ? Hx Hr]; subst. cbn [forallb] in Hwf. apply andb_prop in Hwf. destruct Hwf as [Hwx Hwr].
    cbn [items_need fold_right] in Hfuel. fold (items_need size r) in Hfuel.
    destruct fuel as [|f]; [lia|]. destruct (closer_props c Hc) as [Hst [Ecc [Ecm [_ Hfo]]]].
    destruct r as [|y r'].
    + cbn [sep]. cbn [p]. rewrite (starts_repr_false x (c :: rest) c Hst).
      rewrite (Hx Hwx f (c :: rest)); [|lia|apply Hfo].
      destruct c; try reflexivity; destruct Hc as [H|[H|H]]; discriminate.
    + change (sep pv repr_toks (x :: y :: r')) with (repr_toks x ++ CM :: sep pv repr_toks (y :: r')).
      norm. cbn [p]. rewrite (starts_repr_false x _ c Hst).
      rewrite (Hx Hwx f (CM :: sep pv repr_toks (y :: r') ++ c :: rest)); [|lia|reflexivity].
      rewrite (IH Hr Hwr c Hc f rest); [reflexivity|lia].
Qed.

Lemma pairs_rt : forall kvs, Forall (fun kv => RT (fst kv) /\ RT (snd kv)) kvs ->
  forallb (fun kv => wf (fst kv) && wf (snd kv)) kvs = true -> kvs <> [] ->
  forall fuel rest, fold_right (fun kv a => S (size (fst kv) + size (snd kv)) + a) 1 kvs <= fuel ->
  p fuel MPairs (sep (pv * pv) (fun kv => repr_toks (fst kv) ++ CL :: repr_toks (snd kv)) kvs ++ RC :: rest) = Some (RPairs kvs, rest).
Proof.
  induction kvs as [|[k v] r IH]; intros HF Hwf Hne fuel rest Hfuel; [congruence|].
  inversion HF as [|? ? [Hk Hv] Hr]; subst. cbn [fst snd] in *.
  cbn [forallb fst snd] in Hwf. apply andb_prop in Hwf. destruct Hwf as [Hw1 Hwr]. apply andb_prop in Hw1. destruct Hw1 as [Hwk Hwv].
  cbn [fold_right fst snd] in Hfuel. destruct fuel as [|f]; [lia|].
  destruct r as [|kv2 r'].
  - cbn [sep fst snd]. norm. cbn [p]. rewrite (starts_repr_false k _ RC eq_refl).
    rewrite (Hk Hwk f (CL :: repr_toks v ++ RC :: rest)); [|cbn [fold_right] in Hfuel; lia|reflexivity].
    rewrite (Hv Hwv f (RC :: rest)); [reflexivity|cbn [fold_right] in Hfuel; lia|reflexivity].
  - change (sep (pv * pv) (fun kv => repr_toks (fst kv) ++ CL :: repr_toks (snd kv)) ((k, v) :: kv2 :: r'))
      with ((repr_toks k ++ CL :: repr_toks v) ++ CM :: sep (pv * pv) (fun kv => repr_toks (fst kv) ++ CL :: repr_toks (snd kv)) (kv2 :: r')).
    norm. cbn [p]. rewrite (starts_repr_false k _ RC eq_refl).
    rewrite (Hk Hwk f); [|lia|reflexivity].
    rewrite (Hv Hwv f); [|lia|reflexivity].
    rewrite (IH Hr Hwr); [reflexivity|discriminate|lia].
Qed.

Definition kw_toks (nv : nat * pv) : list tok := TNm (fst nv) :: EQ :: repr_toks (snd nv).

Lemma kws_rt : forall k, Forall (fun nv => RT (snd nv)) k -> forallb (fun nv => wf (snd nv)) k = true ->
  forall b fuel rest, fold_right (fun nv acc => S (size (snd nv)) + acc) 1 k <= fuel ->
  p fuel (MArgs b) (sep (list tok) (fun x => x) (map kw_toks k) ++ RP :: rest) = Some (RArgs [] k, rest).
Proof.
  induction k as [|[n v] r IH]; intros HF Hwf b fuel rest Hfuel.
  - cbn [map sep app]. destruct fuel as [|f]; [cbn in Hfuel; lia|]. reflexivity.
  - inversion HF as [|? ? Hv Hr]; subst. cbn [snd] in Hv. cbn [forallb snd] in Hwf. apply andb_prop in Hwf. destruct Hwf as [Hwv Hwr].
    cbn [fold_right snd] in Hfuel. destruct fuel as [|f]; [lia|].
    destruct r as [|nv2 r'].
    + cbn [map sep kw_toks fst snd app]. cbn [p starts tok_eqb is_kw].
      rewrite (Hv Hwv f (RP :: rest)); [reflexivity|cbn [fold_right] in Hfuel; lia|reflexivity].
    + change (sep (list tok) (fun x => x) (map kw_toks ((n, v) :: nv2 :: r')))
        with (kw_toks (n, v) ++ CM :: sep (list tok) (fun x => x) (map kw_toks (nv2 :: r'))).
      unfold kw_toks at 1. cbn [fst snd]. cbn [app]. norm. cbn [p starts tok_eqb is_kw].
      rewrite (Hv Hwv f); [|lia|reflexivity].
      rewrite (IH Hr Hwr true f rest); [reflexivity|lia].
Qed.

Lemma sep_app_cons : forall (x : list tok) (l : list (list tok)), l <> [] ->
  sep (list tok) (fun y => y) (x :: l) = x ++ CM :: sep (list tok) (fun y => y) l.
Proof. intros x [|y r] H; [congruence|reflexivity]. Qed.

Lemma args_rt : forall a, Forall RT a -> forallb wf a = true ->
  forall k, Forall (fun nv => RT (snd nv)) k -> forallb (fun nv => wf (snd nv)) k = true ->
  forall fuel rest,
  fold_right (fun x acc => S (size x) + acc) (fold_right (fun nv acc => S (size (snd nv)) + acc) 1 k) a <= fuel ->
  p fuel (MArgs false) (sep (list tok) (fun x => x) (map repr_toks a ++ map kw_toks k) ++ RP :: rest) = Some (RArgs a k, rest).
Proof.
  induction a as [|x r IH]; intros HF Hwf k HK Hwk fuel rest Hfuel.
  - cbn [map app]. apply kws_rt; assumption.
  - inversion HF as [|? ? Hx Hr]; subst. cbn [forallb] in Hwf. apply andb_prop in Hwf. destruct Hwf as [Hwx Hwr].
    cbn [fold_right] in Hfuel. destruct fuel as [|f]; [lia|].
    cbn [map app]. destruct (map repr_toks r ++ map kw_toks k) as [|y l'] eqn:El.
    + cbn [sep]. cbn [p]. rewrite (starts_repr_false x _ RP eq_refl). rewrite (is_kw_repr x RP rest (or_intror eq_refl)).
      rewrite (Hx Hwx f (RP :: rest)); [|lia|reflexivity].
      apply app_eq_nil in El. destruct El as [E1 E2]. apply map_eq_nil in E1. apply map_eq_nil in E2. subst. reflexivity.
    + rewrite sep_app_cons by discriminate. norm. cbn [p].
      rewrite (starts_repr_false x _ RP eq_refl). rewrite (is_kw_repr x CM _ (or_introl eq_refl)).
      rewrite (Hx Hwx f); [|lia|reflexivity].
      rewrite <- El. rewrite (IH Hr Hwr k HK Hwk f rest); [reflexivity|lia].
Qed.

Theorem repr_parse_roundtrip_fuel : forall v, RT v.
Proof.
  induction v as [| | |z|s|s|l H|l H|kvs H|l H|h pth|h pth a k H H0] using pv_induction; unfold RT; intros Hwf fuel rest Hfuel Hfo; (destruct fuel as [|f]; [cbn [size] in Hfuel; lia|]).
  - reflexivity.
  - reflexivity.
  - reflexivity.
  - cbn [repr_toks]. unfold int_toks. destruct (z <? 0)%Z eqn:E.
    + cbn [app p]. rewrite Z2N.id by lia. rewrite Z.opp_involutive. reflexivity.
    + cbn [app p]. rewrite Z2N.id by lia. reflexivity.
  - reflexivity.
  - reflexivity.
  - (* list *)
    cbn [repr_toks wf size] in *. cbn [app]. norm. cbn [p].
    rewrite (items_rt l H Hwf RB (or_introl eq_refl) f rest); [reflexivity|unfold items_need; lia].
  - (* tuple *)
    cbn [wf size] in *. destruct l as [|x [|y r]].
    + reflexivity.
    + inversion H as [|? ? Hx _]; subst. cbn [forallb] in Hwf. apply andb_prop in Hwf. destruct Hwf as [Hwx _].
      cbn [repr_toks]. cbn [app]. norm. cbn [p].
      rewrite (starts_repr_false x _ RP eq_refl).
      rewrite (Hx Hwx f (CM :: RP :: rest)); [|cbn [fold_right] in Hfuel; lia|reflexivity].
      destruct f as [|f']; [cbn [fold_right] in Hfuel; lia|]. reflexivity.
    + inversion H as [|? ? Hx Hr]; subst. cbn [forallb] in Hwf. apply andb_prop in Hwf. destruct Hwf as [Hwx Hwr].
      change (repr_toks (VTuple (x :: y :: r))) with (LP :: (repr_toks x ++ CM :: sep pv repr_toks (y :: r)) ++ [RP]).
      cbn [app]. norm. cbn [p].
      rewrite (starts_repr_false x _ RP eq_refl).
      cbn [fold_right] in Hfuel.
      rewrite (Hx Hwx f); [|lia|reflexivity].
      rewrite (items_rt (y :: r) Hr Hwr RP (or_intror (or_introl eq_refl)) f rest); [reflexivity|unfold items_need; cbn [fold_right] in *; lia].
  - (* dict *)
    cbn [wf size] in *. destruct kvs as [|[k v] r].
    + reflexivity.
    + cbn [repr_toks]. cbn [app]. norm.
      pose proof (pairs_rt ((k, v) :: r) H Hwf ltac:(discriminate) f rest ltac:(lia)) as HP.
      (* the first pair is read by the MExpr branch itself, the remaining ones by MPairs: unfold one step of both *)
      inversion H as [|? ? [Hk Hv] Hr]; subst. cbn [fst snd] in *.
      cbn [forallb fst snd] in Hwf. apply andb_prop in Hwf. destruct Hwf as [Hw1 Hwr]. apply andb_prop in Hw1. destruct Hw1 as [Hwk Hwv].
      cbn [fold_right fst snd] in Hfuel.
      destruct r as [|kv2 r'].
      * cbn [sep fst snd]. norm. cbn [p]. rewrite (starts_repr_false k _ RC eq_refl).
        rewrite (Hk Hwk f); [|cbn [fold_right] in Hfuel; lia|reflexivity].
        rewrite (Hv Hwv f (RC :: rest)); [reflexivity|cbn [fold_right] in Hfuel; lia|reflexivity].
      * change (sep (pv * pv) (fun kv => repr_toks (fst kv) ++ CL :: repr_toks (snd kv)) ((k, v) :: kv2 :: r'))
          with ((repr_toks k ++ CL :: repr_toks v) ++ CM :: sep (pv * pv) (fun kv => repr_toks (fst kv) ++ CL :: repr_toks (snd kv)) (kv2 :: r')).
        norm. cbn [p]. rewrite (starts_repr_false k _ RC eq_refl).
        rewrite (Hk Hwk f); [|lia|reflexivity].
        rewrite (Hv Hwv f); [|lia|reflexivity].
        rewrite (pairs_rt (kv2 :: r') Hr Hwr ltac:(discriminate) f rest); [reflexivity|lia].
  - (* set *)
    cbn [wf size] in *. destruct l as [|x r]; [discriminate|]. cbn [negb andb] in Hwf.
    inversion H as [|? ? Hx Hr]; subst. cbn [forallb] in Hwf. apply andb_prop in Hwf. destruct Hwf as [Hwx Hwr].
    cbn [fold_right] in Hfuel.
    destruct r as [|y r'].
    + cbn [repr_toks sep]. cbn [app]. norm. cbn [p]. rewrite (starts_repr_false x _ RC eq_refl).
      rewrite (Hx Hwx f (RC :: rest)); [reflexivity|cbn [fold_right] in Hfuel; lia|reflexivity].
    + change (repr_toks (VSet (x :: y :: r'))) with (LC :: (repr_toks x ++ CM :: sep pv repr_toks (y :: r')) ++ [RC]).
      cbn [app]. norm. cbn [p]. rewrite (starts_repr_false x _ RC eq_refl).
      rewrite (Hx Hwx f); [|lia|reflexivity].
      rewrite (items_rt (y :: r') Hr Hwr RC (or_intror (or_intror eq_refl)) f rest); [reflexivity|unfold items_need; cbn [fold_right] in *; lia].
  - (* name *)
    cbn [wf name_ok] in Hwf. apply Nat.leb_le in Hwf. cbn [repr_toks]. cbn [app].
    destruct h as [|[|[|h']]]; try lia. cbn [p].
    rewrite (dots_path pth rest (follow_not_dot rest Hfo)).
    destruct rest as [|t r]; [reflexivity|]. destruct t; try reflexivity; discriminate.
  - (* call *)
    cbn [wf name_ok] in Hwf. apply andb_prop in Hwf. destruct Hwf as [Hw1 Hwk]. apply andb_prop in Hw1. destruct Hw1 as [Hh Hwa].
    apply Nat.leb_le in Hh. cbn [repr_toks]. cbn [app]. norm.
    destruct h as [|[|[|h']]]; try lia. cbn [p].
    rewrite (dots_path pth (LP :: _) I). norm.
    change (map (fun nv : nat * pv => TNm (fst nv) :: EQ :: repr_toks (snd nv)) k) with (map kw_toks k).
    cbn [size] in Hfuel.
    rewrite (args_rt a H Hwa k H0 Hwk f rest); [reflexivity|lia].
Qed.

(* C01: the generated code of every well-formed value, of any depth and size, is read back as exactly that value *)
Theorem parse_repr_roundtrip : forall v, wf v = true -> parse (repr_toks v) = Some v.
Proof.
  intros v Hwf. unfold parse.
  assert (Hlen : size v <= 2 * length (repr_toks v)).
  { clear Hwf. induction v as [| | |z|s|s|l H|l H|kvs H|l H|h pth|h pth a k H H0] using pv_induction; cbn [size]; try (cbn [repr_toks length]; lia);
      try (cbn [repr_toks]; unfold int_toks; destruct (z <? 0)%Z; cbn [length]; lia).
    - (* list *) cbn [repr_toks]. cbn [length]. rewrite app_length. cbn [length].
      assert (G : fold_right (fun x a => S (size x) + a) 1 l <= 2 + 2 * length (sep pv repr_toks l)).
      { induction H as [|x r Hx Hr IH]; [cbn; lia|]. cbn [fold_right]. destruct r as [|y r'].
        - cbn [fold_right sep] in *. lia.
        - change (sep pv repr_toks (x :: y :: r')) with (repr_toks x ++ CM :: sep pv repr_toks (y :: r')). rewrite app_length. cbn [length]. lia. }
      lia.
    - (* tuple *)
      assert (G : fold_right (fun x a => S (size x) + a) 1 l <= 2 + 2 * length (sep pv repr_toks l)).
      { induction H as [|x r Hx Hr IH]; [cbn; lia|]. cbn [fold_right]. destruct r as [|y r'].
        - cbn [fold_right sep] in *. lia.
        - change (sep pv repr_toks (x :: y :: r')) with (repr_toks x ++ CM :: sep pv repr_toks (y :: r')). rewrite app_length. cbn [length]. lia. }
      destruct l as [|x [|y r]].
      + cbn. lia.
      + cbn [repr_toks]. cbn [length]. rewrite app_length. cbn [length sep fold_right] in *. lia.
      + change (repr_toks (VTuple (x :: y :: r))) with (LP :: sep pv repr_toks (x :: y :: r) ++ [RP]).
        cbn [length]. rewrite app_length. cbn [length]. lia.
    - (* dict *) cbn [repr_toks]. cbn [length]. rewrite app_length. cbn [length].
      assert (G : fold_right (fun kv a => S (size (fst kv) + size (snd kv)) + a) 1 kvs
                  <= 2 + 2 * length (sep (pv * pv) (fun kv => repr_toks (fst kv) ++ CL :: repr_toks (snd kv)) kvs)).
      { induction H as [|[k v] r [Hk Hv] Hr IH]; [cbn; lia|]. cbn [fold_right fst snd] in *. destruct r as [|kv2 r'].
        - cbn [fold_right sep fst snd]. rewrite app_length. cbn [length]. lia.
        - change (sep (pv * pv) (fun kv => repr_toks (fst kv) ++ CL :: repr_toks (snd kv)) ((k, v) :: kv2 :: r'))
            with ((repr_toks k ++ CL :: repr_toks v) ++ CM :: sep (pv * pv) (fun kv => repr_toks (fst kv) ++ CL :: repr_toks (snd kv)) (kv2 :: r')).
          rewrite !app_length. cbn [length]. rewrite ?app_length. cbn [length]. lia. }
      lia.
    - (* set *) cbn [repr_toks]. cbn [length]. rewrite app_length. cbn [length].
      assert (G : fold_right (fun x a => S (size x) + a) 1 l <= 2 + 2 * length (sep pv repr_toks l)).
      { induction H as [|x r Hx Hr IH]; [cbn; lia|]. cbn [fold_right]. destruct r as [|y r'].
        - cbn [fold_right sep] in *. lia.
        - change (sep pv repr_toks (x :: y :: r')) with (repr_toks x ++ CM :: sep pv repr_toks (y :: r')). rewrite app_length. cbn [length]. lia. }
      lia.
    - (* call *) cbn [repr_toks]. cbn [length]. rewrite !app_length. cbn [length]. rewrite app_length. cbn [length].
      change (map (fun nv : nat * pv => TNm (fst nv) :: EQ :: repr_toks (snd nv)) k) with (map kw_toks k).
      assert (Gk : fold_right (fun nv acc => S (size (snd nv)) + acc) 1 k <= 2 + 2 * length (sep (list tok) (fun x => x) (map kw_toks k))).
      { induction H0 as [|[n v] r Hv Hr IH]; [cbn; lia|]. cbn [fold_right snd map] in *. destruct r as [|nv2 r'].
        - cbn [fold_right map sep kw_toks fst snd length]. lia.
        - rewrite sep_app_cons by discriminate. rewrite app_length. cbn [length]. unfold kw_toks at 1. cbn [length fst snd]. cbn [map] in *. lia. }
      assert (G : forall a', Forall (fun x => size x <= 2 * length (repr_toks x)) a' ->
                fold_right (fun x acc => S (size x) + acc) (fold_right (fun nv acc => S (size (snd nv)) + acc) 1 k) a'
                <= 2 + 2 * length (sep (list tok) (fun x => x) (map repr_toks a' ++ map kw_toks k))).
      { induction 1 as [|x r Hx Hr IH]; [cbn [fold_right map app]; exact Gk|]. cbn [fold_right map app].
        destruct (map repr_toks r ++ map kw_toks k) as [|y l'] eqn:El.
        - cbn [sep]. apply app_eq_nil in El. destruct El as [E1 E2]. apply map_eq_nil in E1. apply map_eq_nil in E2. subst. cbn [fold_right]. lia.
        - rewrite sep_app_cons by discriminate. rewrite app_length. cbn [length]. lia. }
      specialize (G a H). lia. }
  pose proof (repr_parse_roundtrip_fuel v Hwf (S (2 * length (repr_toks v))) [] ltac:(lia) eq_refl) as E.
  rewrite app_nil_r in E. rewrite E. reflexivity.
Qed.

(* non-vacuity: a nested value with every constructor *)
Example roundtrip_example :
  let v := VList [VTuple [VInt (-3)%Z]; VDict [(VStr [97%N], VSet [VInt 1; VInt 2]); (VNone, VTuple [])];
                  VCall 7 [8] [VName 5 [6]; VTrue] [(9, VList []); (10, VCall 4 [] [VSet [VInt 1]] [])]; VCall 3 [] [] [];
                  VTuple [VInt 1; VInt 2]; VBytes [0%N]; VFalse] in
  wf v = true /\ parse (repr_toks v) = Some v.
Proof. split; vm_compute; reflexivity. Qed.
