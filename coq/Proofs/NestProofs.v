(* Proofs about Model/Nest.v: repairing values in which lists / tuples, dict displays and constructor calls are nested in each
   other at any depth.  Part 1: unfolding, user-controlled parts (C10), runs without approval (C06 / C11).
   Stdlib only; no axioms. *)
From Coq Require Import List Arith ZArith Bool Lia.
Import ListNotations.
From V Require Import Model.Align Model.SnapOps Model.TreeAssign Model.Nest Proofs.AlignValid Proofs.AlignProofs Proofs.UnmanagedProofs.
Open Scope nat_scope.

Lemma subseq_app : forall X (a b c d : list X), subseq a b -> subseq c d -> subseq (a ++ c) (b ++ d).
Proof.
  intros X a b c d H1 H2. induction H1 as [|x l1 l2 H IH|x l1 l2 H IH]; cbn [app]; [exact H2|constructor; exact IH|constructor; exact IH].
Qed.
Lemma subseq_nil_app : forall X (a b c : list X), subseq a c -> subseq a (b ++ c).
Proof. intros X a b c H. induction b as [|x b IH]; [exact H|]. cbn [app]. constructor. exact IH. Qed.

Section WithClasses.
Variable ct : ctab.

Notation NV := (valid ntree nval (elt_eqb ct)).

Lemma assign_S : forall f F o n,
  assign ct (S f) F o n =
  match o, n with
  | NLst k olds, NSeq k' news =>
      if skind_eqb k k' then QSeq k (walk (assign ct f F) F (script ct olds news) olds news) else value_assign ct F o n
  | NDct olds, NDict news =>
      if nodupb (map fst olds) then QDict (dict_result (assign ct f F) F olds news) else value_assign ct F o n
  | NCall c pos kws, NObj c' fs =>
      if Z.eqb c c' then QCall c (call_result ct (assign ct f F) F c pos kws fs) else value_assign ct F o n
  | _, _ => value_assign ct F o n
  end.
Proof. reflexivity. Qed.

Lemma script_valid : forall olds news, NV (script ct olds news) olds news.
Proof. intros. unfold script. apply add_x_valid, align_valid. Qed.

(* ------------------------------------------------------------------------- depth of children *)
Lemma lmax_In : forall l x, In x l -> x <= lmax l.
Proof. induction l as [|y r IH]; intros x H; [destruct H|]. cbn [lmax]. destruct H as [->|H]; [lia|]. specialize (IH x H). lia. Qed.

Lemma depth_lst : forall k l o f, depth (NLst k l) < S f -> In o l -> depth o < f.
Proof. intros k l o f H Hin. cbn [depth] in H. assert (depth o <= lmax (map depth l)) by (apply lmax_In, in_map, Hin). lia. Qed.
Lemma depth_dct : forall l k o f, depth (NDct l) < S f -> In (k, o) l -> depth o < f.
Proof.
  intros l k o f H Hin. cbn [depth] in H.
  assert (depth o <= lmax (map (fun kt : Z * ntree => match kt with (_, t') => depth t' end) l)).
  { apply lmax_In. apply (in_map (fun kt : Z * ntree => match kt with (_, t') => depth t' end) l (k, o) Hin). }
  lia.
Qed.
Lemma depth_call_kw : forall c pos kws k o f, depth (NCall c pos kws) < S f -> In (k, o) kws -> depth o < f.
Proof.
  intros c pos kws k o f H Hin. cbn [depth] in H.
  assert (depth o <= lmax (map (fun kt : Z * ntree => match kt with (_, t') => depth t' end) kws)).
  { apply lmax_In. apply (in_map (fun kt : Z * ntree => match kt with (_, t') => depth t' end) kws (k, o) Hin). }
  lia.
Qed.
Lemma depth_call_pos : forall c pos kws o f, depth (NCall c pos kws) < S f -> In o pos -> depth o < f.
Proof. intros c pos kws o f H Hin. cbn [depth] in H. assert (depth o <= lmax (map depth pos)) by (apply lmax_In, in_map, Hin). lia. Qed.

(* ------------------------------------------------------------------------- (1) C10: parts the user controls, at any depth and below any
   container *)
Fixpoint unms (t : ntree) : list nat :=
  match t with
  | NLeaf _ _ => []
  | NUnm i _ => [i]
  | NLst _ l => flat_map unms l
  | NDct l => flat_map (fun kt => match kt with (_, t') => unms t' end) l
  | NCall _ pos kws => flat_map unms pos ++ flat_map (fun kt => match kt with (_, t') => unms t' end) kws
  end.
Fixpoint unms_r (r : nres) : list nat :=
  match r with
  | QKeep t => unms t
  | QGen _ => []
  | QSeq _ l => flat_map unms_r l
  | QDict l => flat_map (fun kr => match kr with (_, r') => unms_r r' end) l
  | QCall _ l => flat_map (fun ar => match ar with (_, r') => unms_r r' end) l
  end.
Definition unms_kr (kr : Z * nres) : list nat := match kr with (_, r') => unms_r r' end.
Definition unms_ar (ar : option Z * nres) : list nat := match ar with (_, r') => unms_r r' end.
Definition unms_kt (kt : Z * ntree) : list nat := match kt with (_, t') => unms t' end.

Lemma value_assign_unms : forall F o n, subseq (unms_r (value_assign ct F o n)) (unms o).
Proof.
  intros F o n. unfold value_assign. destruct (is_unm o); [apply subseq_refl|].
  destruct (negb (val_eqb (eval ct o) n)); [destruct (f_fix F)|destruct (negb (canonical ct o) && f_update F)]; cbn [unms_r]; try apply subseq_refl; apply subseq_nil_l.
Qed.

Lemma walk_unms : forall asg F s os ns,
  (forall o n, In o os -> subseq (unms_r (asg o n)) (unms o)) ->
  subseq (flat_map unms_r (walk asg F s os ns)) (flat_map unms os).
Proof.
  intros asg F s. induction s as [|d s IH]; intros os ns Ha; [apply subseq_nil_l|].
  destruct d; cbn [walk]; try apply subseq_nil_l.
  - destruct os as [|o' os']; [apply subseq_nil_l|]. cbn [flat_map]. rewrite flat_map_app.
    destruct (f_fix F); cbn [flat_map app].
    + apply subseq_nil_app. apply IH. intros; apply Ha; right; assumption.
    + rewrite app_nil_r. cbn [unms_r]. apply subseq_app; [apply subseq_refl|]. apply IH. intros; apply Ha; right; assumption.
  - destruct ns as [|n' ns']; [apply subseq_nil_l|]. rewrite flat_map_app.
    destruct (f_fix F); cbn [flat_map unms_r app]; apply IH; exact Ha.
  - destruct os as [|o' os']; [apply subseq_nil_l|]. destruct ns as [|n' ns']; [apply subseq_nil_l|].
    cbn [flat_map]. apply subseq_app; [apply Ha; left; reflexivity|]. apply IH. intros; apply Ha; right; assumption.
  - destruct os as [|o' os']; [apply subseq_nil_l|]. destruct ns as [|n' ns']; [apply subseq_nil_l|].
    cbn [flat_map]. apply subseq_app; [apply Ha; left; reflexivity|]. apply IH. intros; apply Ha; right; assumption.
Qed.

(* generated entries hold no user-controlled part *)
Lemma dinserted_unms : forall ins i, flat_map unms_kr (dinserted_at ins i) = [].
Proof.
  intros ins i. unfold dinserted_at. induction ins as [|g r IH]; [reflexivity|]. cbn [flat_map]. rewrite flat_map_app, IH, app_nil_r.
  destruct (Nat.eqb (fst g) i); [|reflexivity]. unfold dgens. induction (snd g) as [|kv l IHl]; [reflexivity|]. cbn [map flat_map]. exact IHl.
Qed.
Lemma cinserted_unms : forall ins i, flat_map unms_ar (cinserted_at ins i) = [].
Proof.
  intros ins i. unfold cinserted_at. induction ins as [|g r IH]; [reflexivity|]. cbn [flat_map]. rewrite flat_map_app, IH, app_nil_r.
  destruct (Nat.eqb (fst g) i); [|reflexivity]. unfold cgens. induction (snd g) as [|kv l IHl]; [reflexivity|]. cbn [map flat_map]. exact IHl.
Qed.

Lemma dplace_unms : forall asg F ins news olds i,
  (forall k o n, In (k, o) olds -> subseq (unms_r (asg o n)) (unms o)) ->
  subseq (flat_map unms_kr (dplace asg F ins news i olds)) (flat_map unms_kt olds).
Proof.
  intros asg F ins news olds. induction olds as [|[k o] r IH]; intros i Ha; cbn [dplace].
  - destruct (f_fix F); [rewrite dinserted_unms|]; apply subseq_nil_l.
  - rewrite !flat_map_app. cbn [flat_map unms_kt].
    replace (flat_map unms_kr (if f_fix F then dinserted_at ins i else [])) with (@nil nat) by (destruct (f_fix F); [rewrite dinserted_unms|]; reflexivity).
    cbn [app]. apply subseq_app.
    + unfold dassign_entry. cbn [fst snd]. destruct (alookup k news) as [v|].
      * cbn [flat_map unms_kr]. rewrite app_nil_r. apply (Ha k). left; reflexivity.
      * destruct (f_fix F); cbn [flat_map unms_kr unms_r]; [apply subseq_nil_l|rewrite app_nil_r; apply subseq_refl].
    + apply IH. intros k' o' n' Hin. apply (Ha k'). right; exact Hin.
Qed.

Definition unms_el (e : ntree + Z * ntree) : list nat := match e with inl t => unms t | inr (_, t) => unms t end.

Lemma cassign_el_unms : forall asg F c fs e,
  (forall o n, (match e with inl t => False | inr (_, t) => o = t end) -> subseq (unms_r (asg o n)) (unms o)) ->
  subseq (flat_map unms_ar (cassign_el ct asg F c fs e)) (unms_el e).
Proof.
  intros asg F c fs [t|[k t]] Ha; cbn [cassign_el unms_el].
  - unfold cassign_pos. destruct (f_fix F); cbn [flat_map unms_ar unms_r]; [apply subseq_nil_l|rewrite app_nil_r; apply subseq_refl].
  - unfold cassign_kw. destruct (alookup k fs) as [v|].
    + destruct (is_default ct c k v).
      * destruct (has_unm t); [cbn [flat_map unms_ar unms_r]; rewrite app_nil_r; apply subseq_refl|].
        destruct (val_eqb (eval ct t) v); [destruct (f_update F)|destruct (f_fix F)]; cbn [flat_map unms_ar unms_r]; try apply subseq_nil_l; rewrite app_nil_r; apply subseq_refl.
      * cbn [flat_map unms_ar]. rewrite app_nil_r. apply Ha. reflexivity.
    + destruct (f_fix F); cbn [flat_map unms_ar unms_r]; [apply subseq_nil_l|rewrite app_nil_r; apply subseq_refl].
Qed.

Lemma cplace_unms : forall asg F c ins fs els i,
  (forall k o n, In (inr (k, o)) els -> subseq (unms_r (asg o n)) (unms o)) ->
  subseq (flat_map unms_ar (cplace ct asg F c ins fs i els)) (flat_map unms_el els).
Proof.
  intros asg F c ins fs els. induction els as [|e r IH]; intros i Ha; cbn [cplace].
  - destruct (f_fix F); [rewrite cinserted_unms|]; apply subseq_nil_l.
  - rewrite !flat_map_app. cbn [flat_map].
    replace (flat_map unms_ar (if f_fix F then cinserted_at ins i else [])) with (@nil nat) by (destruct (f_fix F); [rewrite cinserted_unms|]; reflexivity).
    cbn [app]. apply subseq_app.
    + apply cassign_el_unms. intros o n He. destruct e as [t|[k t]]; [destruct He|]. subst o. apply (Ha k). left; reflexivity.
    + apply IH. intros k' o' n' Hin. apply (Ha k'). right; exact Hin.
Qed.

Lemma elements_unms : forall pos kws, flat_map unms_el (elements pos kws) = flat_map unms pos ++ flat_map unms_kt kws.
Proof.
  intros pos kws. unfold elements. rewrite flat_map_app. f_equal.
  - induction pos as [|t r IH]; [reflexivity|]. cbn [map flat_map unms_el]. rewrite IH. reflexivity.
  - induction kws as [|[k t] r IH]; [reflexivity|]. cbn [map flat_map unms_el unms_kt]. rewrite IH. reflexivity.
Qed.

(* whatever is approved and whatever is observed: no code is ever generated for a user-controlled part, none is duplicated or
   reordered; the ones that remain are a subsequence of the old ones (the others vanished together with a deleted element /
   entry / argument or a replaced holder) - below lists, tuples, dict displays and constructor calls nested at ANY depth *)
Theorem nest_unmanaged_subsequence : forall f F o n, subseq (unms_r (assign ct f F o n)) (unms o).
Proof.
  induction f as [|f IH]; intros F o n; [apply subseq_refl|]. rewrite assign_S.
  destruct o as [z c|i z|k olds|olds|c pos kws]; destruct n as [m|k' news|news|c' fs]; try apply value_assign_unms.
  - destruct (skind_eqb k k'); [|apply value_assign_unms].
    cbn [unms_r unms]. apply walk_unms. intros o n _. apply IH.
  - destruct (nodupb (map fst olds)); [|apply value_assign_unms].
    cbn [unms_r unms]. apply (dplace_unms (assign ct f F) F). intros k o n _. apply IH.
  - destruct (Z.eqb c c'); [|apply value_assign_unms].
    cbn [unms_r unms]. unfold call_result. rewrite <- elements_unms.
    apply (cplace_unms (assign ct f F) F). intros k o n _. apply IH.
Qed.

(* ------------------------------------------------------------------------- (2) what survives verbatim *)
Fixpoint verbatim (r : nres) : option ntree :=
  match r with
  | QKeep t => Some t
  | QGen _ => None
  | QSeq k l =>
      match (fix go (l : list nres) : option (list ntree) :=
               match l with
               | [] => Some []
               | x :: r' => match verbatim x, go r' with Some t, Some ts => Some (t :: ts) | _, _ => None end
               end) l with
      | Some ts => Some (NLst k ts)
      | None => None
      end
  | QDict l =>
      match (fix go (l : list (Z * nres)) : option (list (Z * ntree)) :=
               match l with
               | [] => Some []
               | (k, x) :: r' => match verbatim x, go r' with Some t, Some ts => Some ((k, t) :: ts) | _, _ => None end
               end) l with
      | Some ts => Some (NDct ts)
      | None => None
      end
  | QCall c l =>
      (* the arguments in text order: no positional argument behind a keyword *)
      match (fix go (l : list (option Z * nres)) : option (list ntree * list (Z * ntree)) :=
               match l with
               | [] => Some ([], [])
               | (a, x) :: r' =>
                   match verbatim x, go r' with
                   | Some t, Some (ps, ks) =>
                       match a with
                       | None => Some (t :: ps, ks)
                       | Some k => match ps with [] => Some ([], (k, t) :: ks) | _ => None end
                       end
                   | _, _ => None
                   end
               end) l with
      | Some (ps, ks) => Some (NCall c ps ks)
      | None => None
      end
  end.

Fixpoint verbatim_list (l : list nres) : option (list ntree) :=
  match l with
  | [] => Some []
  | x :: r => match verbatim x, verbatim_list r with Some t, Some ts => Some (t :: ts) | _, _ => None end
  end.
Fixpoint verbatim_entries (l : list (Z * nres)) : option (list (Z * ntree)) :=
  match l with
  | [] => Some []
  | (k, x) :: r => match verbatim x, verbatim_entries r with Some t, Some ts => Some ((k, t) :: ts) | _, _ => None end
  end.
Fixpoint verbatim_args (l : list (option Z * nres)) : option (list ntree * list (Z * ntree)) :=
  match l with
  | [] => Some ([], [])
  | (a, x) :: r =>
      match verbatim x, verbatim_args r with
      | Some t, Some (ps, ks) =>
          match a with
          | None => Some (t :: ps, ks)
          | Some k => match ps with [] => Some ([], (k, t) :: ks) | _ => None end
          end
      | _, _ => None
      end
  end.
Lemma verbatim_seq : forall k l, verbatim (QSeq k l) = match verbatim_list l with Some ts => Some (NLst k ts) | None => None end.
Proof. intros k l. cbn [verbatim]. replace (verbatim_list l) with ((fix go (l : list nres) : option (list ntree) :=
   match l with [] => Some [] | x :: r' => match verbatim x, go r' with Some t, Some ts => Some (t :: ts) | _, _ => None end end) l); [reflexivity|].
  induction l as [|x r IH]; [reflexivity|]. cbn [verbatim_list]. rewrite <- IH. reflexivity. Qed.
Lemma verbatim_dict : forall l, verbatim (QDict l) = match verbatim_entries l with Some ts => Some (NDct ts) | None => None end.
Proof. intros l. cbn [verbatim]. replace (verbatim_entries l) with ((fix go (l : list (Z * nres)) : option (list (Z * ntree)) :=
   match l with [] => Some [] | (k, x) :: r' => match verbatim x, go r' with Some t, Some ts => Some ((k, t) :: ts) | _, _ => None end end) l); [reflexivity|].
  induction l as [|[k x] r IH]; [reflexivity|]. cbn [verbatim_entries]. rewrite <- IH. reflexivity. Qed.
Lemma verbatim_call : forall c l, verbatim (QCall c l) = match verbatim_args l with Some (ps, ks) => Some (NCall c ps ks) | None => None end.
Proof. intros c l. cbn [verbatim]. replace (verbatim_args l) with ((fix go (l : list (option Z * nres)) : option (list ntree * list (Z * ntree)) :=
   match l with [] => Some ([], []) | (a, x) :: r' => match verbatim x, go r' with
     | Some t, Some (ps, ks) => match a with None => Some (t :: ps, ks) | Some k => match ps with [] => Some ([], (k, t) :: ks) | _ => None end end
     | _, _ => None end end) l); [reflexivity|].
  induction l as [|[a x] r IH]; [reflexivity|]. cbn [verbatim_args]. rewrite <- IH. reflexivity. Qed.

Lemma value_assign_keep_noflags : forall F o n, f_fix F = false -> f_update F = false -> value_assign ct F o n = QKeep o.
Proof. intros F o n HF HU. unfold value_assign. destruct (is_unm o); [reflexivity|]. rewrite HF, HU, andb_false_r. destruct (negb (val_eqb (eval ct o) n)); reflexivity. Qed.
Lemma value_assign_keep_eq : forall F o n, f_update F = false -> elt_eqb ct o n = true -> value_assign ct F o n = QKeep o.
Proof. intros F o n HU E. unfold value_assign. destruct (is_unm o); [reflexivity|]. unfold elt_eqb in E. rewrite E, HU, andb_false_r. reflexivity. Qed.

Lemma walk_noflags : forall asg F s os ns, NV s os ns -> f_fix F = false ->
  (forall o n, In o os -> verbatim (asg o n) = Some o) -> verbatim_list (walk asg F s os ns) = Some os.
Proof.
  intros asg F s os ns H HF Ha.
  induction H as [|s o n os ns He H IH|s o os ns H IH|s n os ns H IH|s o n os ns H IH]; cbn [walk]; try rewrite HF; cbn [app verbatim_list].
  - reflexivity.
  - rewrite Ha by (left; reflexivity). rewrite IH; [reflexivity|]. intros; apply Ha; right; assumption.
  - cbn [verbatim]. rewrite IH; [reflexivity|]. intros; apply Ha; right; assumption.
  - apply IH. exact Ha.
  - rewrite Ha by (left; reflexivity). rewrite IH; [reflexivity|]. intros; apply Ha; right; assumption.
Qed.

Lemma dplace_noflags : forall asg F ins news olds i, f_fix F = false ->
  (forall k o n, In (k, o) olds -> verbatim (asg o n) = Some o) ->
  verbatim_entries (dplace asg F ins news i olds) = Some olds.
Proof.
  intros asg F ins news olds. induction olds as [|[k o] r IH]; intros i HF Ha; cbn [dplace]; rewrite HF; [reflexivity|].
  cbn [app]. unfold dassign_entry. cbn [fst snd]. rewrite HF.
  destruct (alookup k news) as [v|]; cbn [app verbatim_entries verbatim].
  - rewrite (Ha k o v) by (left; reflexivity). rewrite IH; [reflexivity|exact HF|]. intros k' o' n' Hin. apply (Ha k'). right; exact Hin.
  - rewrite IH; [reflexivity|exact HF|]. intros k' o' n' Hin. apply (Ha k'). right; exact Hin.
Qed.

Lemma cplace_kws_noflags : forall asg F c ins fs kws i, f_fix F = false -> f_update F = false ->
  (forall k o n, In (k, o) kws -> verbatim (asg o n) = Some o) ->
  verbatim_args (cplace ct asg F c ins fs i (map inr kws)) = Some ([], kws).
Proof.
  intros asg F c ins fs kws. induction kws as [|[k t] r IH]; intros i HF HU Ha; cbn [map cplace]; rewrite HF; [reflexivity|].
  cbn [app cassign_el]. unfold cassign_kw. rewrite HF, HU.
  assert (Hr : verbatim_args (cplace ct asg F c ins fs (S i) (map inr r)) = Some ([], r)).
  { apply IH; [exact HF|exact HU|]. intros k' o' n' Hin. apply (Ha k'). right; exact Hin. }
  destruct (alookup k fs) as [v|].
  - destruct (is_default ct c k v).
    + destruct (has_unm t); [|destruct (val_eqb (eval ct t) v)]; cbn [app verbatim_args verbatim]; rewrite Hr; reflexivity.
    + cbn [app verbatim_args]. rewrite (Ha k t v) by (left; reflexivity). rewrite Hr. reflexivity.
  - cbn [app verbatim_args verbatim]. rewrite Hr. reflexivity.
Qed.
Lemma cplace_noflags : forall asg F c ins fs pos kws i, f_fix F = false -> f_update F = false ->
  (forall k o n, In (k, o) kws -> verbatim (asg o n) = Some o) ->
  verbatim_args (cplace ct asg F c ins fs i (elements pos kws)) = Some (pos, kws).
Proof.
  intros asg F c ins fs pos kws. unfold elements. induction pos as [|t r IH]; intros i HF HU Ha; cbn [map app].
  - apply cplace_kws_noflags; assumption.
  - cbn [cplace]. rewrite HF. cbn [app cassign_el]. unfold cassign_pos. rewrite HF. cbn [app verbatim_args verbatim].
    rewrite IH by assumption. reflexivity.
Qed.

(* nothing approved: the source text stays as it is, whatever is observed (the run only reports) *)
Theorem nest_noflags_identity : forall f F o n, f_fix F = false -> f_update F = false -> verbatim (assign ct f F o n) = Some o.
Proof.
  induction f as [|f IH]; intros F o n HF HU; [reflexivity|]. rewrite assign_S.
  destruct o as [z c|i z|k olds|olds|c pos kws]; destruct n as [m|k' news|news|c' fs]; try (rewrite value_assign_keep_noflags by assumption; reflexivity).
  - destruct (skind_eqb k k'); [|rewrite value_assign_keep_noflags by assumption; reflexivity].
    rewrite verbatim_seq, walk_noflags; [reflexivity|apply script_valid|exact HF|]. intros o n _. apply IH; assumption.
  - destruct (nodupb (map fst olds)); [|rewrite value_assign_keep_noflags by assumption; reflexivity].
    rewrite verbatim_dict. unfold dict_result. rewrite dplace_noflags; [reflexivity|exact HF|]. intros k o n _. apply IH; assumption.
  - destruct (Z.eqb c c'); [|rewrite value_assign_keep_noflags by assumption; reflexivity].
    rewrite verbatim_call. unfold call_result. rewrite cplace_noflags; [reflexivity|exact HF|exact HU|]. intros k o n _. apply IH; assumption.
Qed.

(* ------------------------------------------------------------------------- (3) the fuel does not matter beyond the depth *)
Lemma walk_ext : forall asg1 asg2 F s os ns, (forall o n, In o os -> asg1 o n = asg2 o n) -> walk asg1 F s os ns = walk asg2 F s os ns.
Proof.
  intros asg1 asg2 F s. induction s as [|d s IH]; intros os ns Ha; [reflexivity|].
  destruct d; cbn [walk]; try reflexivity.
  - destruct os as [|o' os']; [reflexivity|]. f_equal. apply IH. intros; apply Ha; right; assumption.
  - destruct ns as [|n' ns']; [reflexivity|]. f_equal. apply IH. exact Ha.
  - destruct os as [|o' os']; [reflexivity|]. destruct ns as [|n' ns']; [reflexivity|].
    rewrite Ha by (left; reflexivity). f_equal. apply IH. intros; apply Ha; right; assumption.
  - destruct os as [|o' os']; [reflexivity|]. destruct ns as [|n' ns']; [reflexivity|].
    rewrite Ha by (left; reflexivity). f_equal. apply IH. intros; apply Ha; right; assumption.
Qed.
Lemma dplace_ext : forall asg1 asg2 F ins news olds i, (forall k o n, In (k, o) olds -> asg1 o n = asg2 o n) ->
  dplace asg1 F ins news i olds = dplace asg2 F ins news i olds.
Proof.
  intros asg1 asg2 F ins news olds. induction olds as [|[k o] r IH]; intros i Ha; cbn [dplace]; [reflexivity|].
  f_equal. f_equal; [|apply IH; intros k' o' n' Hin; apply (Ha k'); right; exact Hin].
  unfold dassign_entry. cbn [fst snd]. destruct (alookup k news) as [v|]; [|reflexivity]. rewrite (Ha k o v) by (left; reflexivity). reflexivity.
Qed.
Lemma cplace_ext : forall asg1 asg2 F c ins fs els i, (forall k o n, In (inr (k, o)) els -> asg1 o n = asg2 o n) ->
  cplace ct asg1 F c ins fs i els = cplace ct asg2 F c ins fs i els.
Proof.
  intros asg1 asg2 F c ins fs els. induction els as [|e r IH]; intros i Ha; cbn [cplace]; [reflexivity|].
  f_equal. f_equal; [|apply IH; intros k' o' n' Hin; apply (Ha k'); right; exact Hin].
  destruct e as [t|[k t]]; [reflexivity|]. cbn [cassign_el]. unfold cassign_kw.
  destruct (alookup k fs) as [v|]; [|reflexivity]. destruct (is_default ct c k v); [reflexivity|].
  rewrite (Ha k t v) by (left; reflexivity). reflexivity.
Qed.
Lemma in_elements_kw : forall pos kws k o, In (inr (k, o)) (elements pos kws) -> In (k, o) kws.
Proof.
  intros pos kws k o H. unfold elements in H. apply in_app_or in H. destruct H as [H|H].
  - apply in_map_iff in H. destruct H as [x [Hx _]]. discriminate.
  - apply in_map_iff in H. destruct H as [x [Hx Hin]]. injection Hx as ->. exact Hin.
Qed.

Theorem nest_fuel_irrelevant : forall f1 f2 F o n, depth o < f1 -> depth o < f2 -> assign ct f1 F o n = assign ct f2 F o n.
Proof.
  induction f1 as [|f1 IH]; intros f2 F o n H1 H2; [lia|]. destruct f2 as [|f2]; [lia|]. rewrite !assign_S.
  destruct o as [z c|i z|k olds|olds|c pos kws]; destruct n as [m|k' news|news|c' fs]; try reflexivity.
  - destruct (skind_eqb k k'); [|reflexivity]. f_equal. apply walk_ext. intros o n Hin.
    apply IH; [exact (depth_lst k olds o f1 H1 Hin)|exact (depth_lst k olds o f2 H2 Hin)].
  - destruct (nodupb (map fst olds)); [|reflexivity]. f_equal. unfold dict_result. apply dplace_ext. intros k o n Hin.
    apply IH; [exact (depth_dct olds k o f1 H1 Hin)|exact (depth_dct olds k o f2 H2 Hin)].
  - destruct (Z.eqb c c'); [|reflexivity]. f_equal. unfold call_result. apply cplace_ext. intros k o n Hin. apply in_elements_kw in Hin.
    apply IH; [exact (depth_call_kw c pos kws k o f1 H1 Hin)|exact (depth_call_kw c pos kws k o f2 H2 Hin)].
Qed.

End WithClasses.
