(* Proofs about Model/Edits.v: the replacement ranges apply_all produces for the changes that survive without_obsolete_changes are well-formed and never
   overlap - for every tree of nested displays / calls and every set of changes (C18: SourceFile._check never fails).  Stdlib only; no axioms. *)
From Coq Require Import List Arith Bool Lia Permutation.
Import ListNotations.
From V Require Import Model.Edits.

Lemma sep_sym : forall a b, sep a b -> sep b a.
Proof. intros a b [H|H]; [right|left]; exact H. Qed.

Lemma Disj_app : forall l1 l2, Disj l1 -> Disj l2 -> (forall a b, In a l1 -> In b l2 -> sep a b) -> Disj (l1 ++ l2).
Proof.
  induction l1 as [|x l1 IH]; intros l2 H1 H2 Hc; [exact H2|]. cbn [app Disj] in *. destruct H1 as [Hx H1]. split.
  - apply Forall_app. split; [exact Hx|]. apply Forall_forall. intros b Hb. apply Hc; [left; reflexivity|exact Hb].
  - apply IH; [exact H1|exact H2|]. intros a b Ha Hb. apply Hc; [right; exact Ha|exact Hb].
Qed.
Lemma Disj_app_inv : forall l1 l2, Disj (l1 ++ l2) -> Disj l1 /\ Disj l2 /\ (forall a b, In a l1 -> In b l2 -> sep a b).
Proof.
  induction l1 as [|x l1 IH]; intros l2 H; [repeat split; [exact H|intros a b []]|]. cbn [app Disj] in H. destruct H as [Hx H].
  apply Forall_app in Hx. destruct Hx as [Hx1 Hx2]. destruct (IH l2 H) as [I1 [I2 I3]]. repeat split.
  - exact Hx1.
  - exact I1.
  - exact I2.
  - intros a b [<-|Ha] Hb; [rewrite Forall_forall in Hx2; apply Hx2; exact Hb|apply I3; assumption].
Qed.
Lemma Disj_perm : forall l l', Permutation l l' -> Disj l -> Disj l'.
Proof.
  intros l l' P. induction P as [|x l l' P IH|x y l|l l' l'' P1 IH1 P2 IH2]; intros H.
  - exact H.
  - cbn [Disj] in *. destruct H as [Hx H]. split; [apply (Permutation_Forall P); exact Hx|apply IH; exact H].
  - cbn [Disj] in *. destruct H as [Hy [Hx H]]. inversion Hy as [|? ? Hyx Hyl]; subst. repeat split; [constructor; [apply sep_sym; exact Hyx|exact Hx]|exact Hyl|exact H].
  - apply IH2, IH1, H.
Qed.

Definition Within (lo hi : nat) (l : list range) : Prop := Forall (fun r : range => lo <= fst r /\ fst r <= snd r /\ snd r <= hi) l.
Lemma Within_weaken : forall lo hi lo' hi' l, lo' <= lo -> hi <= hi' -> Within lo hi l -> Within lo' hi' l.
Proof. intros lo hi lo' hi' l H1 H2 H. unfold Within in *. eapply Forall_impl; [|exact H]. cbn. intros r [A [B C]]. lia. Qed.
Lemma Within_app : forall lo hi a b, Within lo hi a -> Within lo hi b -> Within lo hi (a ++ b).
Proof. intros. apply Forall_app. split; assumption. Qed.
Lemma blocks_sep : forall lo1 hi1 lo2 hi2 l1 l2, Within lo1 hi1 l1 -> Within lo2 hi2 l2 -> hi1 <= lo2 -> forall a b, In a l1 -> In b l2 -> sep a b.
Proof.
  intros lo1 hi1 lo2 hi2 l1 l2 H1 H2 Hle a b Ha Hb. unfold Within in *. rewrite Forall_forall in H1, H2. specialize (H1 a Ha). specialize (H2 b Hb). left. lia.
Qed.
Lemma Disj_blocks : forall lo1 hi1 lo2 hi2 l1 l2, Within lo1 hi1 l1 -> Within lo2 hi2 l2 -> hi1 <= lo2 -> Disj l1 -> Disj l2 -> Disj (l1 ++ l2).
Proof. intros. apply Disj_app; [assumption|assumption|]. eapply blocks_sep; eassumption. Qed.

(* induction over trees *)
Section Ind.
Variable P : node -> Prop.
Hypothesis H : forall id es s b ce e ee kids, Forall P kids -> P (Node id es s b ce e ee kids).
Fixpoint node_ind2 (n : node) : P n :=
  match n with
  | Node id es s b ce e ee kids => H id es s b ce e ee kids ((fix go (l : list node) : Forall P l := match l with [] => Forall_nil _ | x :: r => Forall_cons _ (node_ind2 x) (go r) end) kids)
  end.
End Ind.

Definition all_wf (l : list node) : Prop := allP wf l.
Lemma wf_unfold : forall id es s b ce e ee kids, wf (Node id es s b ce e ee kids) <-> es <= s /\ s < b /\ b <= e /\ ce <= e /\ e <= ee /\ ordered b kids ce /\ all_wf kids.
Proof. intros. unfold all_wf. cbn [wf]. split; intros H; exact H. Qed.
Definition all_inv (c : cset) (l : list node) : Prop := allP (fun k => (del c (nid k) = true -> silent c k) /\ inv c k) l.
Lemma inv_unfold : forall c id es s b ce e ee kids, inv c (Node id es s b ce e ee kids) <->
  (rep c id = true -> touched c id kids = false /\ Forall (silent c) kids) /\ (touched c id kids = true -> b <= ce) /\ all_inv c kids.
Proof. intros. unfold all_inv. cbn [inv]. split; intros H; exact H. Qed.

Lemma wf_bounds : forall n, wf n -> n_es n <= n_s n /\ n_s n < n_e n /\ n_e n <= n_ee n.
Proof. intros [id es s b ce e ee kids] H. apply (proj1 (wf_unfold id es s b ce e ee kids)) in H. cbn [n_es n_s n_e n_ee]. destruct H as [A [B [C [D [E _]]]]]. lia. Qed.
Lemma ordered_weaken : forall kids lo lo' hi, lo' <= lo -> ordered lo kids hi -> ordered lo' kids hi.
Proof. intros [|k r] lo lo' hi H Ho; [exact I|]. cbn [ordered] in *. destruct Ho as [A [B C]]. repeat split; [lia|exact B|exact C]. Qed.

Section WithChanges.
Variable c : cset.

Lemma silent_flat : forall kids, Forall (silent c) kids -> flat_map (ranges c) kids = [].
Proof. intros kids H. induction H as [|k r Hk H IH]; [reflexivity|]. cbn [flat_map]. unfold silent in Hk. rewrite Hk, IH. reflexivity. Qed.

(* the spans generic_sequence_update replaces, together with everything inside the kept elements: inside [last, hi], well-formed, pairwise disjoint *)
Lemma gaps_kids : forall insp kids last deleted nc elems i hi total,
  last <= hi -> ordered last kids hi -> all_wf kids ->
  Forall (fun k => Within (n_es k) (n_ee k) (ranges c k) /\ Disj (ranges c k)) kids ->
  Forall (fun k => del c (nid k) = true -> silent c k) kids ->
  Within last hi (gaps insp (fun k => del c (nid k)) last deleted nc elems i kids hi total ++ flat_map (ranges c) kids) /\
  Disj (gaps insp (fun k => del c (nid k)) last deleted nc elems i kids hi total ++ flat_map (ranges c) kids).
Proof.
  intros insp kids. induction kids as [|k r IH]; intros last deleted nc elems i hi total Hl Ho Hw Hk Hd.
  - cbn [gaps flat_map]. rewrite app_nil_r. destruct (negb (Nat.eqb (nc + insp i) 0) || deleted || Nat.eqb _ 1 || Nat.leb total 1).
    + split; [constructor; [cbn; lia|constructor]|cbn; split; [constructor|exact I]].
    + split; [constructor|exact I].
  - cbn [ordered] in Ho. destruct Ho as [Ho1 [Ho2 Ho3]]. unfold all_wf in Hw. cbn [allP] in Hw. destruct Hw as [Hwk Hw]. fold (all_wf r) in Hw.
    inversion Hk as [|? ? [Hkw Hkd] Hk']; subst. inversion Hd as [|? ? Hdk Hd']; subst.
    pose proof (wf_bounds k Hwk) as [B1 [B2 B3]]. assert (Bk : n_es k <= n_ee k) by lia.
    cbn [gaps flat_map]. destruct (del c (nid k)) eqn:Ed.
    + (* deleted element: nothing happens inside it *)
      rewrite (Hdk eq_refl). cbn [app].
      apply IH; [exact Hl|apply (ordered_weaken r (n_ee k) last hi); [lia|exact Ho3]|exact Hw|exact Hk'|exact Hd'].
    + destruct (IH (n_ee k) false 0 (elems + (nc + insp i) + 1) (S i) hi total Ho2 Ho3 Hw Hk' Hd') as [IW ID].
      set (G := gaps insp (fun k0 => del c (nid k0)) (n_ee k) false 0 (elems + (nc + insp i) + 1) (S i) r hi total) in *.
      set (g1 := if deleted || negb (Nat.eqb (nc + insp i) 0) then [(last, n_es k)] else []).
      assert (W1 : Within last (n_es k) g1) by (unfold g1; destruct (deleted || negb (Nat.eqb (nc + insp i) 0)); [constructor; [cbn; lia|constructor]|constructor]).
      assert (D1 : Disj g1) by (unfold g1; destruct (deleted || negb (Nat.eqb (nc + insp i) 0)); cbn; [split; [constructor|exact I]|exact I]).
      assert (P : Permutation ((g1 ++ G) ++ ranges c k ++ flat_map (ranges c) r) (g1 ++ ranges c k ++ (G ++ flat_map (ranges c) r))).
      { rewrite <- app_assoc. apply Permutation_app_head. rewrite !app_assoc. apply Permutation_app_tail. apply Permutation_app_comm. }
      split.
      * unfold Within. apply (Permutation_Forall (Permutation_sym P)). apply Forall_app. split; [apply (Within_weaken last (n_es k)); [lia|lia|exact W1]|].
        apply Forall_app. split; [apply (Within_weaken (n_es k) (n_ee k)); [lia|lia|exact Hkw]|apply (Within_weaken (n_ee k) hi); [lia|lia|exact IW]].
      * apply (Disj_perm _ _ (Permutation_sym P)).
        apply (Disj_blocks last (n_es k) (n_es k) hi); [exact W1| |lia|exact D1|].
        -- apply Within_app; [apply (Within_weaken (n_es k) (n_ee k)); [lia|lia|exact Hkw]|apply (Within_weaken (n_ee k) hi); [lia|lia|exact IW]].
        -- apply (Disj_blocks (n_es k) (n_ee k) (n_ee k) hi); [exact Hkw|exact IW|lia|exact Hkd|exact ID].
Qed.

(* without a call of generic_sequence_update: the elements lie one behind the other *)
Lemma kids_only : forall kids last hi, ordered last kids hi -> all_wf kids ->
  Forall (fun k => Within (n_es k) (n_ee k) (ranges c k) /\ Disj (ranges c k)) kids ->
  Within last hi (flat_map (ranges c) kids) /\ Disj (flat_map (ranges c) kids).
Proof.
  induction kids as [|k r IH]; intros last hi Ho Hw Hk; [split; [constructor|exact I]|].
  cbn [ordered] in Ho. destruct Ho as [Ho1 [Ho2 Ho3]]. unfold all_wf in Hw. cbn [allP] in Hw. destruct Hw as [Hwk Hw]. fold (all_wf r) in Hw. inversion Hk as [|? ? [Hkw Hkd] Hk']; subst.
  pose proof (wf_bounds k Hwk) as [B1 [B2 B3]]. destruct (IH (n_ee k) hi Ho3 Hw Hk') as [IW ID]. cbn [flat_map]. split.
  - apply Within_app; [apply (Within_weaken (n_es k) (n_ee k)); [lia|lia|exact Hkw]|apply (Within_weaken (n_ee k) hi); [lia|lia|exact IW]].
  - apply (Disj_blocks (n_es k) (n_ee k) (n_ee k) hi); [exact Hkw|exact IW|lia|exact Hkd|exact ID].
Qed.

Lemma all_inv_del : forall kids, all_inv c kids -> Forall (fun k => del c (nid k) = true -> silent c k) kids.
Proof. induction kids as [|k r IH]; intros H; [constructor|]. unfold all_inv in H. cbn [allP] in H. destruct H as [[A _] B]. constructor; [exact A|apply IH; exact B]. Qed.

Theorem ranges_ok : forall n, wf n -> inv c n -> Within (n_es n) (n_ee n) (ranges c n) /\ Disj (ranges c n).
Proof.
  induction n as [id es s b ce e ee kids IH] using node_ind2. intros Hw Hi. apply (proj1 (wf_unfold id es s b ce e ee kids)) in Hw. destruct Hw as [W1 [W2 [W2b [W2c [W3 [Wo Wk]]]]]].
  apply (proj1 (inv_unfold c id es s b ce e ee kids)) in Hi. destruct Hi as [Hrep [Htouch Hkids]]. cbn [n_es n_ee ranges].
  assert (HK : Forall (fun k => Within (n_es k) (n_ee k) (ranges c k) /\ Disj (ranges c k)) kids).
  { clear Hrep Htouch Wo. induction IH as [|k r Hk IHr IHl]; [constructor|]. unfold all_wf in Wk. unfold all_inv in Hkids. cbn [allP] in Wk, Hkids. constructor; [apply Hk; tauto|apply IHl; [unfold all_wf|unfold all_inv]; tauto]. }
  destruct (rep c id) eqn:Er.
  - destruct (Hrep eq_refl) as [Ht Hs]. rewrite Ht, (silent_flat kids Hs). cbn [app]. split; [constructor; [cbn; lia|constructor]|cbn; split; [constructor|exact I]].
  - cbn [app]. destruct (touched c id kids) eqn:Et.
    + specialize (Htouch eq_refl).
      destruct (gaps_kids (ins c id) kids b false 0 0 0 ce (length kids) ltac:(lia) Wo Wk HK (all_inv_del kids Hkids)) as [GW GD].
      split; [apply (Within_weaken b ce); [lia|lia|exact GW]|exact GD].
    + cbn [app]. destruct (kids_only kids b ce Wo Wk HK) as [KW KD]. split; [|exact KD].
      destruct kids as [|k r]; [constructor|]. apply (Within_weaken b ce); [lia| |exact KW].
      cbn [ordered] in Wo. destruct Wo as [_ [Wo2 _]]. unfold all_wf in Wk. cbn [allP] in Wk. destruct Wk as [Wk1 _]. pose proof (wf_bounds k Wk1). lia.
Qed.
End WithChanges.

(* C18: the ranges are well-formed and no two of them overlap: SourceFile._check never fails *)
Theorem edits_never_overlap : forall c n, wf n -> inv c n -> Forall wfr (ranges c n) /\ Disj (ranges c n).
Proof.
  intros c n Hw Hi. destruct (ranges_ok c n Hw Hi) as [W D]. split; [|exact D]. unfold Within in W. eapply Forall_impl; [|exact W]. cbn. intros r [_ [H _]]. exact H.
Qed.

(* ---- the premises as executable predicates ---- *)
Lemma orderedb_ok : forall kids lo hi, orderedb lo kids hi = true -> ordered lo kids hi.
Proof.
  induction kids as [|k r IH]; intros lo hi H; [exact I|]. cbn [orderedb ordered] in *. apply andb_true_iff in H. destruct H as [H H3]. apply andb_true_iff in H. destruct H as [H1 H2].
  apply Nat.leb_le in H1, H2. repeat split; [exact H1|exact H2|apply IH; exact H3].
Qed.
Lemma wfb_ok : forall n, wfb n = true -> wf n.
Proof.
  induction n as [id es s b ce e ee kids IH] using node_ind2. intros H. cbn [wfb] in H. repeat (apply andb_true_iff in H; destruct H as [H ?]).
  apply (proj2 (wf_unfold id es s b ce e ee kids)). apply Nat.leb_le in H, H2, H3, H4. apply Nat.ltb_lt in H5. repeat split; try assumption; [apply orderedb_ok; assumption|].
  unfold all_wf. clear H H5 H4 H3 H2 H1. induction IH as [|k r Hk IHr IHl]; [exact I|]. cbn [allb] in H0. apply andb_true_iff in H0. destruct H0 as [A B]. cbn [allP]. split; [apply Hk; exact A|apply IHl; exact B].
Qed.
Lemma silentb_ok : forall c n, silentb c n = true -> silent c n.
Proof. intros c n H. unfold silentb, silent in *. destruct (ranges c n); [reflexivity|discriminate]. Qed.
Lemma invb_ok : forall c n, invb c n = true -> inv c n.
Proof.
  intros c. induction n as [id es s b ce e ee kids IH] using node_ind2. intros H. cbn [invb] in H. apply andb_true_iff in H. destruct H as [H H3]. apply andb_true_iff in H. destruct H as [H1 H2].
  apply (proj2 (inv_unfold c id es s b ce e ee kids)). split; [|split].
  - intros Er. rewrite Er in H1. apply andb_true_iff in H1. destruct H1 as [A B]. apply negb_true_iff in A. split; [exact A|].
    rewrite forallb_forall in B. apply Forall_forall. intros k Hk. apply silentb_ok, B, Hk.
  - intros Et. rewrite Et in H2. apply Nat.leb_le in H2. exact H2.
  - unfold all_inv. clear H1 H2. induction IH as [|k r Hk IHr IHl]; [exact I|]. cbn [allb] in H3. apply andb_true_iff in H3. destruct H3 as [A B]. apply andb_true_iff in A. destruct A as [A1 A2].
    cbn [allP]. split; [split; [intros Ed; rewrite Ed in A1; apply silentb_ok; exact A1|apply Hk; exact A2]|apply IHl; exact B].
Qed.

Theorem edits_never_overlap_b : forall c n, wfb n = true -> invb c n = true -> Forall wfr (ranges c n) /\ Disj (ranges c n).
Proof. intros c n Hw Hi. apply edits_never_overlap; [apply wfb_ok; exact Hw|apply invb_ok; exact Hi]. Qed.

(* sorted, the ranges pass SourceFile._check: each well-formed, consecutive ones do not overlap *)
Lemma insert_r_perm : forall x l, Permutation (x :: l) (insert_r x l).
Proof. intros x l. induction l as [|y r IH]; [apply Permutation_refl|]. cbn [insert_r]. destruct (range_leb x y); [apply Permutation_refl|]. eapply perm_trans; [apply perm_swap|]. apply perm_skip. exact IH. Qed.
Lemma sort_r_perm : forall l, Permutation l (sort_r l).
Proof. induction l as [|x r IH]; [apply Permutation_refl|]. cbn [sort_r fold_right]. eapply perm_trans; [apply perm_skip; exact IH|apply insert_r_perm]. Qed.

(* non-vacuity: `[a, (b), [c, d], f(x, k=y)]` with offsets; the first element is replaced, the second deleted, two elements are inserted in front of the
   third, whose second element is deleted, and a keyword argument is added to the call *)
Definition ex_tree : node :=
  Node 0 0 0 1 39 40 40
    [Node 1 1 1 2 2 2 2 []; Node 2 4 5 6 6 6 7 []; Node 3 9 9 10 14 15 15 [Node 4 10 10 11 11 11 11 []; Node 5 13 13 14 14 14 14 []];
     Node 6 17 17 19 28 29 29 [Node 7 19 19 20 20 20 20 []; Node 8 22 24 25 25 25 25 []]].
Definition ex_cset : cset :=
  {| rep := fun i => Nat.eqb i 1; del := fun i => Nat.eqb i 2 || Nat.eqb i 5;
     ins := fun p i => if Nat.eqb p 0 && Nat.eqb i 2 then 2 else if Nat.eqb p 6 && Nat.eqb i 2 then 1 else 0 |}.
Example edits_example :
  wfb ex_tree = true /\ invb ex_cset ex_tree = true /\
  sort_r (ranges ex_cset ex_tree) = [(1, 2); (2, 9); (11, 14); (25, 28)] /\ pairwise_okb (sort_r (ranges ex_cset ex_tree)) = true.
Proof. repeat split; vm_compute; reflexivity. Qed.

(* ---- SourceFile._check sorts the ranges and tests consecutive ones: it never fails ---- *)
Fixpoint sortedb (l : list range) : bool := match l with a :: ((b :: _) as r) => range_leb a b && sortedb r | _ => true end.
Lemma range_leb_total : forall a b, range_leb a b = false -> range_leb b a = true.
Proof.
  intros [a1 a2] [b1 b2] H. unfold range_leb in *. cbn [fst snd] in *. apply orb_false_iff in H. destruct H as [H1 H2]. apply Nat.ltb_ge in H1.
  destruct (Nat.ltb b1 a1) eqn:E; [reflexivity|]. apply Nat.ltb_ge in E. assert (a1 = b1) by lia. subst. rewrite Nat.eqb_refl in *. cbn [andb orb] in *.
  apply Nat.leb_gt in H2. apply Nat.leb_le. lia.
Qed.
Lemma insert_r_sorted : forall x l, sortedb l = true -> sortedb (insert_r x l) = true.
Proof.
  intros x l. induction l as [|y r IH]; intros H; [reflexivity|]. cbn [insert_r]. destruct (range_leb x y) eqn:E.
  - cbn [sortedb]. rewrite E. exact H.
  - pose proof (range_leb_total x y E) as Eyx.
    destruct r as [|z r'].
    + cbn [insert_r sortedb]. rewrite Eyx. reflexivity.
    + cbn [sortedb] in H. apply andb_true_iff in H. destruct H as [Hyz Hr]. specialize (IH Hr). cbn [insert_r] in IH |- *.
      destruct (range_leb x z) eqn:Ez.
      * cbn [sortedb]. rewrite Eyx, Ez. cbn [andb]. exact Hr.
      * change (sortedb (y :: z :: insert_r x r')) with (range_leb y z && sortedb (z :: insert_r x r')). rewrite Hyz. cbn [andb]. exact IH.
Qed.
Lemma sort_r_sorted : forall l, sortedb (sort_r l) = true.
Proof. induction l as [|x r IH]; [reflexivity|]. cbn [sort_r fold_right]. apply insert_r_sorted. exact IH. Qed.
Lemma sorted_disj_check : forall l, sortedb l = true -> Forall wfr l -> Disj l -> pairwise_okb l = true.
Proof.
  induction l as [|a r IH]; intros Hs Hw Hd; [reflexivity|]. destruct r as [|b r']; [reflexivity|]. cbn [pairwise_okb sortedb] in *.
  apply andb_true_iff in Hs. destruct Hs as [Hab Hs]. inversion Hw as [|? ? Wa Wr]; subst. inversion Wr as [|? ? Wb _]; subst. cbn [Disj] in Hd. destruct Hd as [Ha Hd].
  inversion Ha as [|? ? Sab _]; subst. apply andb_true_iff. split; [|apply IH; [exact Hs|exact Wr|exact Hd]].
  apply Nat.leb_le. destruct a as [a1 a2], b as [b1 b2]. unfold range_leb, sep, wfr in *. cbn [fst snd] in *. destruct Sab as [S|S]; [exact S|].
  apply orb_true_iff in Hab. destruct Hab as [H|H]; [apply Nat.ltb_lt in H; lia|]. apply andb_true_iff in H. destruct H as [H1 H2]. apply Nat.eqb_eq in H1. apply Nat.leb_le in H2. lia.
Qed.
Theorem check_never_fails : forall c n, wfb n = true -> invb c n = true -> pairwise_okb (sort_r (ranges c n)) = true.
Proof.
  intros c n Hw Hi. destruct (edits_never_overlap_b c n Hw Hi) as [W D]. apply sorted_disj_check; [apply sort_r_sorted| |].
  - apply (Permutation_Forall (sort_r_perm (ranges c n))). exact W.
  - apply (Disj_perm _ _ (sort_r_perm (ranges c n))). exact D.
Qed.
